//! The harness languages (`define_language!` instances), their signature tables, and a
//! derive-independent bridge between Rust values and abstract nodes (`ANode`).
use crate::util::code;
use slotted_egraphs::*;

#[derive(Clone, Debug, PartialEq, Eq, Hash)]
pub enum AField {
    Slot(Slot),
    App(AppliedId),
    Bind(Slot, Box<AField>),
    Lit(String),
}

#[derive(Clone, Debug, PartialEq, Eq, Hash)]
pub struct ANode {
    pub v: usize,
    pub fields: Vec<AField>,
}

#[derive(Clone, Debug, PartialEq)]
pub enum Kind {
    S,
    A,
    B(Box<Kind>),
    L(&'static str),
}

pub struct VariantSig {
    pub name: Option<&'static str>,
    pub kinds: Vec<Kind>,
}

pub type Sig = Vec<VariantSig>;

pub fn enc_kind(k: &Kind) -> String {
    match k {
        Kind::S => "S".into(),
        Kind::A => "A".into(),
        Kind::B(k) => format!("B{}", enc_kind(k)),
        Kind::L(t) => format!("L{t}"),
    }
}

pub fn enc_sig(sig: &Sig) -> String {
    sig.iter()
        .map(|v| {
            let ks: Vec<String> = v.kinds.iter().map(enc_kind).collect();
            format!("{}:{}", v.name.unwrap_or("-"), ks.join(","))
        })
        .collect::<Vec<_>>()
        .join("/")
}

pub fn enc_map(m: &SlotMap) -> String {
    let v: Vec<String> = m.iter().map(|(k, v)| format!("{}>{}", code(k), code(v))).collect();
    format!("[{}]", v.join("|"))
}

pub fn enc_app(a: &AppliedId) -> String {
    format!("@{}{}", a.id.0, enc_map(&a.m))
}

pub fn enc_field(f: &AField) -> String {
    match f {
        AField::Slot(s) => format!("${}", code(*s)),
        AField::App(a) => enc_app(a),
        AField::Bind(s, f) => format!("b{}.{}", code(*s), enc_field(f)),
        AField::Lit(v) => format!("'{v}"),
    }
}

pub fn enc_anode(n: &ANode) -> String {
    let v: Vec<String> = n.fields.iter().map(enc_field).collect();
    format!("{}({})", n.v, v.join(","))
}

pub fn enc_syntax(v: &[SyntaxElem]) -> String {
    v.iter()
        .map(|e| match e {
            SyntaxElem::String(s) => format!("s:{s}"),
            SyntaxElem::Slot(s) => format!("${}", code(*s)),
            SyntaxElem::AppliedId(a) => enc_app(a),
        })
        .collect::<Vec<_>>()
        .join(",")
}

// ---- bridge traits (hand-written per field type; independent of the derive macro) ----

pub trait FieldBridge: Sized {
    fn to_a(&self) -> AField;
    fn from_a(f: &AField) -> Self;
}

impl FieldBridge for Slot {
    fn to_a(&self) -> AField {
        AField::Slot(*self)
    }
    fn from_a(f: &AField) -> Self {
        match f {
            AField::Slot(s) => *s,
            _ => panic!("kind mismatch"),
        }
    }
}

impl FieldBridge for AppliedId {
    fn to_a(&self) -> AField {
        AField::App(self.clone())
    }
    fn from_a(f: &AField) -> Self {
        match f {
            AField::App(a) => a.clone(),
            _ => panic!("kind mismatch"),
        }
    }
}

impl<T: FieldBridge> FieldBridge for Bind<T> {
    fn to_a(&self) -> AField {
        AField::Bind(self.slot, Box::new(self.elem.to_a()))
    }
    fn from_a(f: &AField) -> Self {
        match f {
            AField::Bind(s, e) => Bind { slot: *s, elem: T::from_a(e) },
            _ => panic!("kind mismatch"),
        }
    }
}

macro_rules! lit_bridge {
    ($($t:ty),*) => {$(
        impl FieldBridge for $t {
            fn to_a(&self) -> AField { AField::Lit(self.to_string()) }
            fn from_a(f: &AField) -> Self {
                match f { AField::Lit(v) => v.parse().unwrap(), _ => panic!("kind mismatch") }
            }
        }
    )*}
}
lit_bridge!(u32, i64, bool, char);

impl FieldBridge for Symbol {
    fn to_a(&self) -> AField {
        AField::Lit(self.to_string())
    }
    fn from_a(f: &AField) -> Self {
        match f {
            AField::Lit(v) => Symbol::from(v.as_str()),
            _ => panic!("kind mismatch"),
        }
    }
}

pub trait HLang: Language + 'static {
    const NAME: &'static str;
    fn sig() -> Sig;
    fn to_anode(&self) -> ANode;
    fn from_anode(n: &ANode) -> Self;
}

macro_rules! hlang {
    ($L:ident, $name:literal, sig = [$($sig:expr),* $(,)?], { $($idx:literal => $V:ident ( $($f:ident),* )),* $(,)? }) => {
        impl HLang for $L {
            const NAME: &'static str = $name;
            fn sig() -> Sig { vec![$($sig),*] }
            fn to_anode(&self) -> ANode {
                match self {
                    $( $L::$V($($f),*) => ANode { v: $idx, fields: vec![$($f.to_a()),*] } ),*
                }
            }
            fn from_anode(n: &ANode) -> Self {
                #[allow(unused_mut, unused_variables)]
                match n.v {
                    $( $idx => { let mut it = n.fields.iter(); $L::$V($({ let $f = it.next().unwrap(); FieldBridge::from_a($f) }),*) } ),*
                    _ => panic!("bad variant"),
                }
            }
        }
    }
}

fn vs(name: Option<&'static str>, kinds: Vec<Kind>) -> VariantSig {
    VariantSig { name, kinds }
}
fn bk(k: Kind) -> Kind {
    Kind::B(Box::new(k))
}
use Kind::{A, L, S};

// 1. plain slots
define_language! {
    pub enum Plain {
        F(Slot, Slot) = "f",
        G(Slot, Slot) = "g",
        H(Slot, Slot) = "h",
        F3(Slot, Slot, Slot) = "f3",
        P(AppliedId, Slot) = "p",
    }
}
hlang!(Plain, "plain", sig = [
    vs(Some("f"), vec![S, S]), vs(Some("g"), vec![S, S]), vs(Some("h"), vec![S, S]),
    vs(Some("f3"), vec![S, S, S]), vs(Some("p"), vec![A, S])
], { 0 => F(a, b), 1 => G(a, b), 2 => H(a, b), 3 => F3(a, b, c), 4 => P(a, b) });

// 2. Bind<AppliedId>
define_language! {
    pub enum Lam {
        Lam(Bind<AppliedId>) = "lam",
        App(AppliedId, AppliedId) = "app",
        Var(Slot) = "var",
        Number(u32),
    }
}
hlang!(Lam, "lam", sig = [
    vs(Some("lam"), vec![bk(A)]), vs(Some("app"), vec![A, A]), vs(Some("var"), vec![S]), vs(None, vec![L("u32")])
], { 0 => Lam(a), 1 => App(a, b), 2 => Var(a), 3 => Number(a) });

// 3. nested Bind, free child *before* a Bind (as tests/sdql)
define_language! {
    pub enum Sdql {
        Lam(Bind<AppliedId>) = "lambda",
        Var(Slot) = "var",
        Sing(AppliedId, AppliedId) = "sing",
        Sum(AppliedId, Bind<Bind<AppliedId>>) = "sum",
    }
}
hlang!(Sdql, "sdql", sig = [
    vs(Some("lambda"), vec![bk(A)]), vs(Some("var"), vec![S]), vs(Some("sing"), vec![A, A]),
    vs(Some("sum"), vec![A, bk(bk(A))])
], { 0 => Lam(a), 1 => Var(a), 2 => Sing(a, b), 3 => Sum(a, b) });

// 4. free child *after* a Bind
define_language! {
    pub enum LetL {
        Let(Bind<AppliedId>, AppliedId) = "let",
        Var(Slot) = "var",
        Sym(Symbol),
    }
}
hlang!(LetL, "let", sig = [
    vs(Some("let"), vec![bk(A), A]), vs(Some("var"), vec![S]), vs(None, vec![L("sym")])
], { 0 => Let(a, b), 1 => Var(a), 2 => Sym(a) });

// 5. (Slot, AppliedId) pseudo-binder (as tests/array)
define_language! {
    pub enum ArrayL {
        Lam(Slot, AppliedId) = "lam",
        App(AppliedId, AppliedId) = "app",
        Var(Slot) = "var",
        Let(Bind<AppliedId>, AppliedId) = "let",
        Number(u32),
        Symbol(Symbol),
    }
}
hlang!(ArrayL, "array", sig = [
    vs(Some("lam"), vec![S, A]), vs(Some("app"), vec![A, A]), vs(Some("var"), vec![S]),
    vs(Some("let"), vec![bk(A), A]), vs(None, vec![L("u32")]), vs(None, vec![L("sym")])
], { 0 => Lam(a, b), 1 => App(a, b), 2 => Var(a), 3 => Let(a, b), 4 => Number(a), 5 => Symbol(a) });

// 6. payload types
define_language! {
    pub enum Pay {
        Pair(AppliedId, AppliedId) = "pair",
        Tag(u32, AppliedId) = "tag",
        Num(u32),
        Int(i64),
        Bo(bool),
        Ch(char),
        Sym(Symbol),
    }
}
hlang!(Pay, "pay", sig = [
    vs(Some("pair"), vec![A, A]), vs(Some("tag"), vec![L("u32"), A]), vs(None, vec![L("u32")]),
    vs(None, vec![L("i64")]), vs(None, vec![L("bool")]), vs(None, vec![L("char")]), vs(None, vec![L("sym")])
], { 0 => Pair(a, b), 1 => Tag(a, b), 2 => Num(a), 3 => Int(a), 4 => Bo(a), 5 => Ch(a), 6 => Sym(a) });

// 7. the main language of the e-graph properties: arithmetic with binders + multi-slot leaves
define_language! {
    pub enum Main {
        Lam(Bind<AppliedId>) = "lam",
        App(AppliedId, AppliedId) = "app",
        Var(Slot) = "var",
        Let(Bind<AppliedId>, AppliedId) = "let",
        Add(AppliedId, AppliedId) = "add",
        Mul(AppliedId, AppliedId) = "mul",
        Sum(Bind<AppliedId>) = "sum",
        F2(Slot, Slot) = "f2",
        F3(Slot, Slot, Slot) = "f3",
        F4(Slot, Slot, Slot, Slot) = "f4",
        G1(Slot) = "g1",
        G2(Slot, Slot) = "g2",
        G3(Slot, Slot, Slot) = "g3",
        H(AppliedId) = "h",
        K(AppliedId, AppliedId) = "k",
        Number(u32),
        Symbol(Symbol),
        T3(AppliedId, AppliedId, AppliedId) = "t3",
        On(AppliedId, Bind<AppliedId>) = "on",
        W(Slot, AppliedId) = "w",
        F5(Slot, Slot, Slot, Slot, Slot) = "f5",
    }
}
hlang!(Main, "main", sig = [
    vs(Some("lam"), vec![bk(A)]), vs(Some("app"), vec![A, A]), vs(Some("var"), vec![S]),
    vs(Some("let"), vec![bk(A), A]), vs(Some("add"), vec![A, A]), vs(Some("mul"), vec![A, A]),
    vs(Some("sum"), vec![bk(A)]),
    vs(Some("f2"), vec![S, S]), vs(Some("f3"), vec![S, S, S]), vs(Some("f4"), vec![S, S, S, S]),
    vs(Some("g1"), vec![S]), vs(Some("g2"), vec![S, S]), vs(Some("g3"), vec![S, S, S]),
    vs(Some("h"), vec![A]), vs(Some("k"), vec![A, A]),
    vs(None, vec![L("u32")]), vs(None, vec![L("sym")]), vs(Some("t3"), vec![A, A, A]),
    vs(Some("on"), vec![A, bk(A)]), vs(Some("w"), vec![S, A]), vs(Some("f5"), vec![S, S, S, S, S])
], { 0 => Lam(a), 1 => App(a, b), 2 => Var(a), 3 => Let(a, b), 4 => Add(a, b), 5 => Mul(a, b), 6 => Sum(a),
     7 => F2(a, b), 8 => F3(a, b, c), 9 => F4(a, b, c, d), 10 => G1(a), 11 => G2(a, b), 12 => G3(a, b, c),
     13 => H(a), 14 => K(a, b), 15 => Number(a), 16 => Symbol(a), 17 => T3(a, b, c), 18 => On(a, b), 19 => W(a, b), 20 => F5(a, b, c, d, e) });

/// dispatch a generic function over the harness languages by name
#[macro_export]
macro_rules! with_lang {
    ($name:expr, $f:ident ( $($arg:expr),* )) => {
        match $name {
            "plain" => $f::<$crate::langs::Plain>($($arg),*),
            "lam" => $f::<$crate::langs::Lam>($($arg),*),
            "sdql" => $f::<$crate::langs::Sdql>($($arg),*),
            "let" => $f::<$crate::langs::LetL>($($arg),*),
            "array" => $f::<$crate::langs::ArrayL>($($arg),*),
            "pay" => $f::<$crate::langs::Pay>($($arg),*),
            "main" => $f::<$crate::langs::Main>($($arg),*),
            x => panic!("unknown language {x}"),
        }
    };
}

pub const LANGS: [&str; 7] = ["plain", "lam", "sdql", "let", "array", "pay", "main"];

pub fn lit_parses(ty: &str, v: &str) -> bool {
    match ty {
        "u32" => v.parse::<u32>().is_ok(),
        "i64" => v.parse::<i64>().is_ok(),
        "bool" => v.parse::<bool>().is_ok(),
        "char" => v.parse::<char>().is_ok(),
        _ => true,
    }
}

/// "payload values print unambiguously": an unnamed-variant payload must not be accepted by an
/// earlier unnamed variant, must not equal an operator name, and must print the way it parses.
pub fn unambiguous<L: HLang>(n: &ANode) -> bool {
    let sig = L::sig();
    if sig[n.v].name.is_some() {
        return n.fields.iter().all(|f| match f {
            AField::Lit(v) => v.parse::<u32>().map(|x| x.to_string() == *v).unwrap_or(true),
            _ => true,
        });
    }
    let AField::Lit(v) = &n.fields[0] else { return true };
    if sig.iter().any(|vs| vs.name == Some(v.as_str())) {
        return false;
    }
    for (i, vs) in sig.iter().enumerate() {
        if i >= n.v {
            break;
        }
        if vs.name.is_none() {
            if let Some(Kind::L(ty)) = vs.kinds.first() {
                if lit_parses(ty, v) {
                    return false;
                }
            }
        }
    }
    true
}

