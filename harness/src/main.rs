//! sv-harness: runs the real crate in-process on generated cases and prints, per case,
//! `<case line>\t<implementation's canonicalised answers>\t<tags>`.
mod codec;
mod langs;
mod rng;
mod suites;
mod terms;
mod util;

use rng::Rng;
use std::collections::BTreeMap;
use std::io::Write;

pub struct Case {
    pub line: String,
    pub impl_out: String,
    pub nontrivial: bool,
    pub tags: Vec<String>,
}

pub struct Ctx {
    pub rng: Rng,
    pub seed: u64,
    pub count: usize,
    pub thorough: bool,
    pub shard: u64,
    pub shards: u64,
    pub params: BTreeMap<String, String>,
    pub notes: BTreeMap<String, u64>,
    out: std::io::BufWriter<std::io::Stdout>,
}

impl Ctx {
    pub fn emit(&mut self, c: Case) {
        let mut tags = c.tags.clone();
        if c.impl_out.contains("no-return-within") {
            // a case stopped by the watchdog says nothing about the property (slow is not wrong): inconclusive
            tags.push("inconclusive".into());
        }
        if c.nontrivial {
            tags.push("nt".into());
        }
        writeln!(self.out, "{}\t{}\t{}", c.line, c.impl_out, tags.join(",")).unwrap();
        if util::HANGS.load(std::sync::atomic::Ordering::SeqCst) > 0 {
            // after a case that did not return, the process may be stopped by the watchdog: keep the rows
            self.out.flush().unwrap();
        }
    }
    pub fn note(&mut self, k: &str, v: u64) {
        *self.notes.entry(k.to_string()).or_insert(0) += v;
    }
    pub fn param(&self, k: &str, default: usize) -> usize {
        self.params.get(k).and_then(|x| x.parse().ok()).unwrap_or(default)
    }
    /// deterministic sharding of enumerated (non-random) cases
    pub fn mine(&self, idx: u64) -> bool {
        idx % self.shards == self.shard
    }
}

fn main() {
    util::install_panic_hook();
    let args: Vec<String> = std::env::args().collect();
    if args.len() < 2 {
        eprintln!("usage: sv-harness <suite> [--seed N] [--count N] [--thorough] [--shard i/n] [--replay <body>] [--set k=v]");
        std::process::exit(2);
    }
    let suite = args[1].clone();
    let mut seed = 1u64;
    let mut count = 1000usize;
    let mut thorough = false;
    let mut shard = (0u64, 1u64);
    let mut replay: Option<String> = None;
    let mut params = BTreeMap::new();
    let mut i = 2;
    while i < args.len() {
        match args[i].as_str() {
            "--seed" => {
                seed = args[i + 1].parse().unwrap();
                i += 1;
            }
            "--count" => {
                count = args[i + 1].parse().unwrap();
                i += 1;
            }
            "--thorough" => thorough = true,
            "--shard" => {
                let (a, b) = args[i + 1].split_once('/').unwrap();
                shard = (a.parse().unwrap(), b.parse().unwrap());
                i += 1;
            }
            "--replay" => {
                replay = Some(args[i + 1].clone());
                i += 1;
            }
            "--set" => {
                let (a, b) = args[i + 1].split_once('=').unwrap();
                params.insert(a.to_string(), b.to_string());
                i += 1;
            }
            x => panic!("unknown arg {x}"),
        }
        i += 1;
    }
    if let Some(t) = params.get("case_timeout") {
        // per-suite watchdog limit (suites whose single cases are legitimately long-running)
        std::env::set_var("SV_CASE_TIMEOUT_S", t);
    }
    let mut ctx = Ctx {
        rng: Rng::new(seed.wrapping_mul(1000003).wrapping_add(shard.0)),
        seed,
        count,
        thorough,
        shard: shard.0,
        shards: shard.1,
        params,
        notes: BTreeMap::new(),
        out: std::io::BufWriter::new(std::io::stdout()),
    };
    if suite == "repro-child" {
        suites::repro::child(replay.as_deref().unwrap_or(""));
        return;
    }
    if let Some(body) = replay {
        let body = body.strip_prefix(&format!("{suite} ")).unwrap_or(&body).to_string();
        let c = match suite.as_str() {
            "sm" => suites::slotmap::replay(&body),
            "slot" => suites::slot::replay(&body),
            "shape" => suites::shape::replay(&body),
            "parse" => suites::parse::replay(&body),
            "grp" => suites::group::replay(&body),
            "egs" => suites::group::replay_egs(&body),
            "egr" => suites::group::replay_egr(&body),
            "eg" => suites::eg::replay(&body),
            "expl" => suites::expl::replay(&body),
            "mat" => suites::mat::replay(&body),
            _ => panic!("unknown suite"),
        };
        ctx.emit(c);
    } else {
        match suite.as_str() {
            "sm" => suites::slotmap::run(&mut ctx),
            "slot" => suites::slot::run(&mut ctx),
            "shape" => suites::shape::run(&mut ctx),
            "parse" => suites::parse::run(&mut ctx),
            "grp" => suites::group::run(&mut ctx),
            "eg" => suites::eg::run(&mut ctx),
            "hist" => suites::hist::run(&mut ctx),
            "snap" => suites::snap::run(&mut ctx),
            "eplant" => suites::eplant::run(&mut ctx),
            "look" => suites::look::run(&mut ctx),
            "rw" => suites::rw::run(&mut ctx),
            "runner" => suites::runner::run(&mut ctx),
            "ext" => suites::ext::run(&mut ctx),
            "ana" => suites::ana::run(&mut ctx),
            "mat" => suites::mat::run(&mut ctx),
            "repro" => suites::repro::run(&mut ctx),
            "expl" => suites::expl::run(&mut ctx),
            "plant" => suites::mat::run_plant(&mut ctx),
            "ord" => suites::meta::run_order(&mut ctx),
            "ren" => suites::meta::run_rename(&mut ctx),
            _ => panic!("unknown suite"),
        }
    }
    let notes: Vec<String> = ctx.notes.iter().map(|(k, v)| format!("\"{k}\":{v}")).collect();
    writeln!(ctx.out, "#notes {{{}}}", notes.join(",")).unwrap();
    ctx.out.flush().unwrap();
}
