use slotted_egraphs::*;
use std::cell::RefCell;
use std::panic;

thread_local! {
    pub static LAST_PANIC: RefCell<Option<String>> = RefCell::new(None);
}

pub fn install_panic_hook() {
    panic::set_hook(Box::new(|info| {
        let loc = info
            .location()
            .map(|l| format!("{}:{}", l.file(), l.line()))
            .unwrap_or_default();
        let msg = if let Some(s) = info.payload().downcast_ref::<&str>() {
            s.to_string()
        } else if let Some(s) = info.payload().downcast_ref::<String>() {
            s.clone()
        } else {
            String::new()
        };
        let msg: String = msg.chars().take(120).collect();
        if std::thread::current().name() == Some("main") {
            eprintln!("harness main thread panicked at {loc}: {msg}");
        }
        LAST_PANIC.with_borrow_mut(|p| *p = Some(format!("{loc} {}", msg.replace(['\n', '\t'], " "))));
    }));
}

pub fn take_panic() -> String {
    LAST_PANIC.with_borrow_mut(|p| p.take()).unwrap_or_default()
}

/// Runs `f` under catch_unwind; `Err(location message)` on panic.
pub fn guarded<T>(f: impl FnOnce() -> T) -> Result<T, String> {
    match panic::catch_unwind(panic::AssertUnwindSafe(f)) {
        Ok(v) => Ok(v),
        Err(_) => Err(take_panic()),
    }
}

/// Runs one case in a fresh thread, so that the thread-local slot table starts empty
/// (fresh counter at `$f0`, no interned names).
pub fn in_fresh_thread<T: Send + 'static>(f: impl FnOnce() -> T + Send + 'static) -> Result<T, String> {
    // watchdog: a case that does not return within CASE_TIMEOUT_S is reported (the thread cannot be killed and keeps
    // spinning until the process exits; after a few of them the shard gives up)
    let (tx, rx) = std::sync::mpsc::channel();
    let h = std::thread::Builder::new()
        .stack_size(64 << 20)
        .spawn(move || {
            let r = guarded(f);
            let _ = tx.send(r);
        })
        .unwrap();
    match rx.recv_timeout(std::time::Duration::from_secs(case_timeout_s())) {
        Ok(r) => {
            let _ = h.join();
            r
        }
        Err(std::sync::mpsc::RecvTimeoutError::Timeout) => {
            let n = HANGS.fetch_add(1, std::sync::atomic::Ordering::SeqCst) + 1;
            if n >= 4 {
                eprintln!("harness: {n} cases did not return; giving up on this shard");
                use std::io::Write;
                let _ = std::io::stdout().flush();
                std::process::exit(3);
            }
            Err(format!("no-return-within-{}s", case_timeout_s()))
        }
        Err(_) => match h.join() {
            Ok(()) => Err("thread-died".to_string()),
            Err(_) => Err("thread-died".to_string()),
        },
    }
}

pub static HANGS: std::sync::atomic::AtomicUsize = std::sync::atomic::AtomicUsize::new(0);

pub fn case_timeout_s() -> u64 {
    std::env::var("SV_CASE_TIMEOUT_S").ok().and_then(|x| x.parse().ok()).unwrap_or(90)
}

/// The names the harness interns first in every case thread: `n0`, `n1`, … get codes 2, 6, …
pub const NNAMES: usize = 16;
pub fn intern_names() {
    for i in 0..NNAMES {
        let s = Slot::named(&format!("n{i}"));
        assert_eq!(s.verif_code(), (4 * i + 2) as u32);
    }
}

/// draws 0..7 fresh slots, the number a function of `key` (the case line, so a replay does the same): the names of the
/// slots the e-graph invents afterwards — and with them the iteration order of every hash set and hash map keyed by slots —
/// then differ from case to case instead of always starting at `$f0`
pub fn fresh_noise(key: &str) {
    let mut h: u64 = 0xcbf29ce484222325;
    for b in key.bytes() {
        h = (h ^ b as u64).wrapping_mul(0x100000001b3);
    }
    for _ in 0..(h >> 7) % 8 {
        let _ = Slot::fresh();
    }
}

/// slot from its private code (numeric, or one of the pre-interned names, or an `f<n>` name)
pub fn slot_of_code(c: u32) -> Slot {
    match c % 4 {
        0 => Slot::numeric(c / 4),
        2 => Slot::named(&format!("n{}", (c - 2) / 4)),
        1 => Slot::named(&format!("f{}", (c - 1) / 4)),
        _ => panic!("bad code"),
    }
}

pub fn code(s: Slot) -> u32 {
    s.verif_code()
}

pub fn enc_pairs(m: &SlotMap) -> String {
    let v: Vec<String> = m.iter().map(|(k, v)| format!("{}>{}", code(k), code(v))).collect();
    format!("[{}]", v.join(","))
}

pub fn enc_set(s: impl IntoIterator<Item = Slot>) -> String {
    let mut v: Vec<u32> = s.into_iter().map(code).collect();
    v.sort();
    v.dedup();
    let v: Vec<String> = v.into_iter().map(|x| x.to_string()).collect();
    format!("[{}]", v.join(","))
}

pub fn enc_list(s: impl IntoIterator<Item = Slot>) -> String {
    let v: Vec<String> = s.into_iter().map(|x| code(x).to_string()).collect();
    format!("[{}]", v.join(","))
}

pub fn b(x: bool) -> &'static str {
    if x {
        "1"
    } else {
        "0"
    }
}
