//! Abstract terms over the harness languages: generation, text encoding, conversion to `RecExpr`.
use crate::langs::*;
use crate::rng::Rng;
use crate::util::*;
use slotted_egraphs::*;

#[derive(Clone, Debug, PartialEq, Eq, Hash)]
pub struct ATerm {
    pub v: usize,
    /// fields with slots as codes; app fields are placeholders
    pub fields: Vec<CField>,
    pub children: Vec<ATerm>,
}

/// code-level field (no `Slot` values: usable outside a case thread)
#[derive(Clone, Debug, PartialEq, Eq, Hash)]
pub enum CField {
    Slot(u32),
    App,
    Bind(u32, Box<CField>),
    Lit(String),
}

pub fn enc_cfield(f: &CField) -> String {
    match f {
        CField::Slot(s) => format!("${s}"),
        CField::App => "@0[]".to_string(),
        CField::Bind(s, f) => format!("b{s}.{}", enc_cfield(f)),
        CField::Lit(v) => format!("'{v}"),
    }
}

pub fn enc_term(t: &ATerm) -> String {
    let fs: Vec<String> = t.fields.iter().map(enc_cfield).collect();
    let cs: Vec<String> = t.children.iter().map(enc_term).collect();
    if cs.is_empty() {
        format!("{{{}({})}}", t.v, fs.join(","))
    } else {
        format!("{{{}({}) {}}}", t.v, fs.join(","), cs.join(" "))
    }
}

pub fn parse_term(s: &str) -> ATerm {
    fn go(cs: &[char], i: &mut usize) -> ATerm {
        assert_eq!(cs[*i], '{');
        *i += 1;
        let start = *i;
        while !" {}".contains(cs[*i]) {
            *i += 1;
        }
        let node: String = cs[start..*i].iter().collect();
        let (v, rest) = node.split_once('(').unwrap();
        let inner = &rest[..rest.len() - 1];
        let fields = if inner.is_empty() { vec![] } else { inner.split(',').map(parse_cfield).collect() };
        let mut children = Vec::new();
        loop {
            match cs[*i] {
                ' ' => *i += 1,
                '}' => {
                    *i += 1;
                    break;
                }
                '{' => children.push(go(cs, i)),
                c => panic!("bad term char {c}"),
            }
        }
        ATerm { v: v.parse().unwrap(), fields, children }
    }
    let cs: Vec<char> = s.chars().collect();
    go(&cs, &mut 0)
}

fn parse_cfield(s: &str) -> CField {
    if let Some(r) = s.strip_prefix('$') {
        CField::Slot(r.parse().unwrap())
    } else if s.starts_with('@') {
        CField::App
    } else if let Some(r) = s.strip_prefix('\'') {
        CField::Lit(r.to_string())
    } else if let Some(r) = s.strip_prefix('b') {
        let (c, rest) = r.split_once('.').unwrap();
        CField::Bind(c.parse().unwrap(), Box::new(parse_cfield(rest)))
    } else {
        panic!("bad field {s}")
    }
}

fn to_afield(f: &CField) -> AField {
    match f {
        CField::Slot(s) => AField::Slot(slot_of_code(*s)),
        CField::App => AField::App(AppliedId::null()),
        CField::Bind(s, f) => AField::Bind(slot_of_code(*s), Box::new(to_afield(f))),
        CField::Lit(v) => AField::Lit(v.clone()),
    }
}

/// must be called inside a case thread (materialises slots)
pub fn to_recexpr<L: HLang>(t: &ATerm) -> RecExpr<L> {
    let node = L::from_anode(&ANode { v: t.v, fields: t.fields.iter().map(to_afield).collect() });
    RecExpr { node, children: t.children.iter().map(to_recexpr::<L>).collect() }
}

pub fn from_recexpr<L: HLang>(r: &RecExpr<L>) -> ATerm {
    fn cf(f: &AField) -> CField {
        match f {
            AField::Slot(s) => CField::Slot(code(*s)),
            AField::App(_) => CField::App,
            AField::Bind(s, f) => CField::Bind(code(*s), Box::new(cf(f))),
            AField::Lit(v) => CField::Lit(v.clone()),
        }
    }
    let a = r.node.to_anode();
    ATerm { v: a.v, fields: a.fields.iter().map(cf).collect(), children: r.children.iter().map(from_recexpr::<L>).collect() }
}

fn field_free(f: &CField, bound: &mut Vec<u32>, out: &mut Vec<u32>, kids: &mut std::slice::Iter<ATerm>) {
    match f {
        CField::Slot(s) => {
            if !bound.contains(s) && !out.contains(s) {
                out.push(*s)
            }
        }
        CField::App => {
            if let Some(c) = kids.next() {
                for s in free_slots(c) {
                    if !bound.contains(&s) && !out.contains(&s) {
                        out.push(s)
                    }
                }
            }
        }
        CField::Bind(s, f) => {
            bound.push(*s);
            field_free(f, bound, out, kids);
            bound.pop();
        }
        CField::Lit(_) => {}
    }
}

/// free slots of a term (codes), in order of first occurrence
pub fn free_slots(t: &ATerm) -> Vec<u32> {
    let mut out = Vec::new();
    let mut kids = t.children.iter();
    for f in &t.fields {
        field_free(f, &mut Vec::new(), &mut out, &mut kids);
    }
    out
}

fn rename_cfield(f: &CField, rho: &dyn Fn(u32) -> u32, bound: &mut Vec<u32>) -> CField {
    match f {
        CField::Slot(s) => CField::Slot(if bound.contains(s) { *s } else { rho(*s) }),
        CField::App => CField::App,
        CField::Bind(s, f) => {
            bound.push(*s);
            let r = CField::Bind(*s, Box::new(rename_cfield(f, rho, bound)));
            bound.pop();
            r
        }
        CField::Lit(v) => CField::Lit(v.clone()),
    }
}

fn field_binders(f: &CField, acc: &mut Vec<u32>, out: &mut Vec<Vec<u32>>) {
    match f {
        CField::App => out.push(acc.clone()),
        CField::Bind(s, f) => {
            acc.push(*s);
            field_binders(f, acc, out);
            acc.pop();
        }
        _ => {}
    }
}

/// rename the *free* slots of a term (bound names are left alone; the generator keeps binder names apart from free names)
pub fn rename_free(t: &ATerm, rho: &dyn Fn(u32) -> u32) -> ATerm {
    fn go(t: &ATerm, rho: &dyn Fn(u32) -> u32, bound: &mut Vec<u32>) -> ATerm {
        let mut kid_binders = Vec::new();
        for f in &t.fields {
            field_binders(f, &mut Vec::new(), &mut kid_binders);
        }
        let fields = t.fields.iter().map(|f| rename_cfield(f, rho, bound)).collect();
        let children = t
            .children
            .iter()
            .zip(kid_binders.iter())
            .map(|(c, bs)| {
                let n = bound.len();
                bound.extend(bs.iter().copied());
                let r = go(c, rho, bound);
                bound.truncate(n);
                r
            })
            .collect();
        ATerm { v: t.v, fields, children }
    }
    go(t, rho, &mut Vec::new())
}

pub fn subterms(t: &ATerm, out: &mut Vec<ATerm>) {
    out.push(t.clone());
    for c in &t.children {
        subterms(c, out);
    }
}

pub fn count_apps(k: &Kind) -> usize {
    match k {
        Kind::A => 1,
        Kind::B(k) => count_apps(k),
        _ => 0,
    }
}

pub struct TermGen<'a> {
    pub rng: &'a mut Rng,
    pub sig: Sig,
    pub free: Vec<u32>,
    pub binders: Vec<u32>,
    pub leaf_bias: usize,
    pub allowed: Vec<usize>,
}

impl<'a> TermGen<'a> {
    fn lit(&mut self, ty: &str) -> String {
        match ty {
            "u32" => ["0", "1", "2", "3"][self.rng.below(4)].to_string(),
            _ => ["a", "b", "c"][self.rng.below(3)].to_string(),
        }
    }
    fn field(&mut self, k: &Kind, scope: &mut Vec<u32>) -> CField {
        match k {
            Kind::S => {
                if !scope.is_empty() && self.rng.chance(2, 3) {
                    CField::Slot(*self.rng.pick(scope))
                } else {
                    CField::Slot(self.free[self.rng.below(self.free.len())])
                }
            }
            Kind::A => CField::App,
            Kind::B(inner) => {
                let cands: Vec<u32> = self.binders.iter().copied().filter(|b| !scope.contains(b)).collect();
                let b = if cands.is_empty() { self.binders[0] } else { *self.rng.pick(&cands) };
                scope.push(b);
                let f = self.field(inner, scope);
                scope.pop();
                CField::Bind(b, Box::new(f))
            }
            Kind::L(ty) => CField::Lit(self.lit(ty)),
        }
    }
    pub fn term(&mut self, depth: usize, scope: &mut Vec<u32>) -> ATerm {
        let sig_len = self.sig.len();
        let mut cands: Vec<usize> = self.allowed.iter().copied().filter(|v| *v < sig_len).collect();
        let napps = |sig: &Sig, v: usize| sig[v].kinds.iter().map(count_apps).sum::<usize>();
        if depth == 0 || self.rng.below(10) < self.leaf_bias {
            cands.retain(|&v| napps(&self.sig, v) == 0);
        } else {
            cands.retain(|&v| napps(&self.sig, v) > 0);
        }
        let v = *self.rng.pick(&cands);
        let kinds = self.sig[v].kinds.clone();
        // binder scopes for the children
        let mut fields = Vec::new();
        let mut kid_scopes: Vec<Vec<u32>> = Vec::new();
        for k in &kinds {
            let f = self.field(k, scope);
            let mut acc = Vec::new();
            let mut outs = Vec::new();
            field_binders(&f, &mut acc, &mut outs);
            kid_scopes.extend(outs);
            fields.push(f);
        }
        let mut children = Vec::new();
        for bs in kid_scopes {
            let n = scope.len();
            scope.extend(bs);
            children.push(self.term(depth.saturating_sub(1), scope));
            scope.truncate(n);
        }
        ATerm { v, fields, children }
    }
}
