//! Parsers for the text encodings of langs.rs (used by --replay and by generators).
use crate::langs::*;
use crate::util::slot_of_code;
use slotted_egraphs::*;

pub fn parse_pairs(s: &str) -> Vec<(u32, u32)> {
    let inner = s.trim().trim_start_matches('[').trim_end_matches(']');
    if inner.is_empty() {
        return vec![];
    }
    inner
        .split('|')
        .map(|p| {
            let (k, v) = p.split_once('>').unwrap();
            (k.parse().unwrap(), v.parse().unwrap())
        })
        .collect()
}

pub fn parse_map(s: &str) -> SlotMap {
    parse_pairs(s).into_iter().map(|(k, v)| (slot_of_code(k), slot_of_code(v))).collect()
}

pub fn parse_app(s: &str) -> AppliedId {
    let s = s.strip_prefix('@').unwrap();
    let (i, rest) = s.split_once('[').unwrap();
    AppliedId { id: Id(i.parse().unwrap()), m: parse_map(&format!("[{rest}")) }
}

pub fn parse_field(s: &str) -> AField {
    if let Some(r) = s.strip_prefix('$') {
        AField::Slot(slot_of_code(r.parse().unwrap()))
    } else if s.starts_with('@') {
        AField::App(parse_app(s))
    } else if let Some(r) = s.strip_prefix('\'') {
        AField::Lit(r.to_string())
    } else if let Some(r) = s.strip_prefix('b') {
        let (c, rest) = r.split_once('.').unwrap();
        AField::Bind(slot_of_code(c.parse().unwrap()), Box::new(parse_field(rest)))
    } else {
        panic!("bad field {s}")
    }
}

pub fn parse_anode(s: &str) -> ANode {
    let (v, rest) = s.split_once('(').unwrap();
    let inner = &rest[..rest.len() - 1];
    let fields = if inner.is_empty() { vec![] } else { inner.split(',').map(parse_field).collect() };
    ANode { v: v.parse().unwrap(), fields }
}
