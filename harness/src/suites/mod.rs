pub mod slotmap;
pub mod slot;
