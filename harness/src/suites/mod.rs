pub mod slotmap;
pub mod slot;
pub mod shape;
