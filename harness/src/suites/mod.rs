pub mod slotmap;
pub mod slot;
pub mod shape;
pub mod parse;
pub mod group;
pub mod eg;
pub mod meta;
pub mod hist;
