pub mod slotmap;
