//! corr.snapshot.queries — the read-only functions (find, eq, lookup, shape, is_alive, ids) are
//! deterministic in the e-graph state: the Lean snapshot model answers the same queries from the dump alone.
use crate::langs::*;
use crate::rng::Rng;
use crate::suites::eg::*;
use crate::terms::*;
use crate::util::*;
use crate::{Case, Ctx};
use slotted_egraphs::*;

fn enc_app_code(a: &AppliedId) -> String {
    verif_enc_applied_id(a)
}

fn lookup_str<L: Language, N: Analysis<L>>(eg: &EGraph<L, N>, n: &L) -> (String, Option<AppliedId>) {
    match guarded(|| eg.lookup(n)) {
        Ok(Some(a)) => {
            let mut v: Vec<u32> = a.slots().iter().map(|s| code(*s)).collect();
            v.sort();
            (format!("{}:[{}]", a.id.0, v.iter().map(|x| x.to_string()).collect::<Vec<_>>().join(",")), Some(a))
        }
        Ok(None) => ("none".into(), None),
        Err(_) => ("panic".into(), None),
    }
}

fn permute_args(a: &AppliedId, rng: &mut Rng, extra: &[u32]) -> AppliedId {
    let keys: Vec<Slot> = a.m.iter().map(|(k, _)| k).collect();
    let mut vals: Vec<Slot> = a.m.iter().map(|(_, v)| v).collect();
    match rng.below(3) {
        0 => rng.shuffle(&mut vals),
        1 => {
            // rename one argument to another name not used yet
            if !vals.is_empty() {
                let i = rng.below(vals.len());
                if let Some(c) = extra.iter().map(|c| slot_of_code(*c)).find(|s| !vals.contains(s)) {
                    vals[i] = c;
                }
            }
        }
        _ => {}
    }
    AppliedId { id: a.id, m: keys.into_iter().zip(vals).collect() }
}

pub fn exec_snap(ops: Vec<Op>, seed: u64, per_op: bool) -> Case {
    exec_snap_n::<()>(ops, seed, per_op)
}

/// the same with an analysis attached (its data changes make the rebuild queue analysis-only work next to the structural work)
pub fn exec_snap_n<N: Analysis<Main> + Default + 'static>(ops: Vec<Op>, seed: u64, per_op: bool) -> Case {
    let sig = enc_sig(&Main::sig());
    let line_ops = enc_ops(&ops);
    let r = in_fresh_thread(move || {
        intern_names();
        fresh_noise(&enc_ops(&ops));
        crate::suites::eg::warm_up(&enc_ops(&ops));
        let mut rng = Rng::new(seed);
        let mut eg: EGraph<Main, N> = EGraph::default();
        let mut tracked: Vec<AppliedId> = Vec::new();
        let mut early_tags: Vec<String> = Vec::new();
        for (k, op) in ops.iter().enumerate() {
            match op {
                Op::Add(t) => tracked.push(eg.add_expr(to_recexpr::<Main>(t))),
                Op::Union(i, j) => {
                    let (a, b) = (tracked[*i].clone(), tracked[*j].clone());
                    eg.union(&a, &b);
                }
                Op::Query => {}
            }
            if per_op {
                // C08: after every single operation
                if let Err(e) = guarded(|| eg.check()) {
                    early_tags.push(format!("viol:check-fails-op{k}"));
                    early_tags.push(format!("panic:{e}"));
                }
                let r = guarded(|| {
                    let mut bad: Vec<&'static str> = Vec::new();
                    let mut seen: std::collections::HashSet<Main> = Default::default();
                    for i in eg.ids() {
                        let cs = eg.slots(i);
                        for n in eg.enodes(i) {
                            match eg.lookup(&n) {
                                Some(a) if a.id == i => {}
                                _ => bad.push("enode-does-not-look-up-to-its-class"),
                            }
                            if !cs.iter().all(|s| n.slots().contains(s)) {
                                bad.push("enode-misses-class-slot");
                            }
                            let sh = eg.verif_shape(&n).0;
                            if !seen.insert(sh) {
                                bad.push("enode-in-two-classes");
                            }
                        }
                        let idn = eg.mk_identity_applied_id(i);
                        if eg.find_applied_id(&idn) != idn {
                            bad.push("live-class-not-canonical");
                        }
                    }
                    for a in &tracked {
                        let f = eg.find_applied_id(a);
                        if eg.find_applied_id(&f) != f {
                            bad.push("find-not-idempotent");
                        }
                    }
                    bad
                });
                match r {
                    Ok(bad) => {
                        for b2 in bad {
                            let t = format!("viol:{b2}");
                            if !early_tags.contains(&t) {
                                early_tags.push(t);
                            }
                        }
                    }
                    Err(e) => {
                        early_tags.push(format!("viol:predicate-panics-op{k}"));
                        early_tags.push(format!("panic:{e}"));
                    }
                }
            }
        }
        let snap = eg.verif_snapshot(|_| "-".to_string()).trim_end().replace('\n', "~");
        let mut qs: Vec<String> = Vec::new();
        let mut outs: Vec<String> = Vec::new();
        let mut tags: Vec<String> = early_tags;
        let names: Vec<u32> = vec![4, 8, 2, 12, 6, 16, 22];
        // path compression first (nothing else has touched the union-find since the dump): resolve a random sequence of
        // ids through the public `find_applied_id` and compare the table afterwards with the model's write-backs
        {
            let n = eg.verif_measure().0;
            let mut order: Vec<usize> = (0..n).collect();
            rng.shuffle(&mut order);
            let extra = rng.below(n + 1);
            for _ in 0..extra {
                order.push(rng.below(n));
            }
            if rng.chance(1, 3) {
                order.truncate(rng.below(order.len() + 1));
            }
            let uf_lines = |sn: &str| -> Vec<(usize, String)> {
                let mut v: Vec<(usize, String)> = sn
                    .split('~')
                    .filter(|l| l.starts_with("uf "))
                    .filter_map(|l| {
                        let mut it = l.split(' ');
                        it.next();
                        Some((it.next()?.parse().ok()?, it.next()?.to_string()))
                    })
                    .collect();
                v.sort();
                v
            };
            let r = guarded(|| {
                for i in &order {
                    let idn = eg.mk_identity_applied_id(Id(*i));
                    let _ = eg.find_applied_id(&idn);
                }
            });
            let after = eg.verif_snapshot(|_| "-".to_string()).trim_end().replace('\n', "~");
            qs.push(format!("compress {}", if order.is_empty() { "-".to_string() } else { order.iter().map(|i| i.to_string()).collect::<Vec<_>>().join(",") }));
            outs.push(match r {
                Ok(()) => uf_lines(&after).into_iter().map(|(_, a)| a).collect::<Vec<_>>().join(","),
                Err(_) => "panic".into(),
            });
            if uf_lines(&after) != uf_lines(&snap) {
                tags.push("compression-rewrote-an-entry".into());
            }
        }
        qs.push("inv".into());
        outs.push("1".into());
        qs.push("ids".into());
        outs.push(format!("[{}]", eg.ids().iter().map(|i| i.0.to_string()).collect::<Vec<_>>().join(",")));
        let nclasses = eg.verif_measure().0;
        for i in 0..nclasses {
            qs.push(format!("alive {i}"));
            outs.push(b(eg.is_alive(Id(i))).to_string());
        }
        for i in eg.ids() {
            qs.push(format!("slots {}", i.0));
            outs.push(enc_set(eg.slots(i).into_iter()).replace(',', ","));
            qs.push(format!("count {}", i.0));
            outs.push(eg.verif_group_count(i).to_string());
        }
        let mut handles: Vec<AppliedId> = tracked.clone();
        for a in &tracked {
            handles.push(permute_args(a, &mut rng, &names));
        }
        for a in &handles {
            qs.push(format!("find {}", enc_app_code(a)));
            outs.push(match guarded(|| eg.find_applied_id(a)) {
                Ok(f) => enc_app_code(&f),
                Err(_) => "panic".into(),
            });
        }
        for i in 0..handles.len() {
            for j in i + 1..handles.len() {
                if rng.chance(1, 2) || (i < tracked.len() && j < tracked.len()) {
                    qs.push(format!("eq {} {}", enc_app_code(&handles[i]), enc_app_code(&handles[j])));
                    outs.push(match guarded(|| eg.eq(&handles[i], &handles[j])) {
                        Ok(x) => b(x).to_string(),
                        Err(_) => "panic".into(),
                    });
                }
            }
        }
        // probe nodes built from the handles (some present, some absent)
        let mut probes: Vec<Main> = Vec::new();
        for _ in 0..10 {
            let a = handles[rng.below(handles.len())].clone();
            let b2 = handles[rng.below(handles.len())].clone();
            let n = match rng.below(6) {
                0 => Main::H(a),
                1 => Main::K(a, b2),
                2 => Main::Add(a, b2),
                3 => {
                    let s = a.slots().iter().next().copied().unwrap_or(slot_of_code(10));
                    Main::Lam(Bind { slot: s, elem: a })
                }
                4 => Main::Lam(Bind { slot: slot_of_code(10), elem: a }),
                _ => Main::App(a, b2),
            };
            probes.push(n);
        }
        // plus every e-node of every class, as listed
        for i in eg.ids() {
            for n in eg.enodes(i) {
                let (ls, _) = lookup_str(&eg, &n);
                if !ls.starts_with(&format!("{}:", i.0)) {
                    tags.push("viol:enode-does-not-look-up-to-its-class".to_string());
                }
                probes.push(n);
            }
        }
        for n in &probes {
            let enc = verif_enc_node(n);
            let (ls, res) = lookup_str(&eg, n);
            qs.push(format!("lookup {enc}"));
            outs.push(ls);
            qs.push(format!("shape {enc}"));
            outs.push(match guarded(|| eg.verif_shape(n)) {
                Ok((sh, _)) => verif_enc_node(&sh),
                Err(_) => "panic".into(),
            });
            if let Some(a) = res {
                qs.push(format!("lookeq {enc} {}", enc_app_code(&a)));
                outs.push("1".into());
            }
        }
        // `lookup_rec_expr` on the inserted terms, on renamed copies and on terms with one operator changed
        for op in ops.iter() {
            if let Op::Add(t) = op {
                let mut variants: Vec<ATerm> = vec![t.clone()];
                let fs = free_slots(t);
                if !fs.is_empty() {
                    let img: Vec<u32> = vec![16, 22, 26, 4, 8, 12];
                    let fs2 = fs.clone();
                    variants.push(rename_free(t, &move |c| fs2.iter().position(|x| *x == c).and_then(|i| img.get(i).copied()).unwrap_or(c)));
                }
                if !t.children.is_empty() {
                    variants.push(ATerm { v: 13, fields: vec![CField::App], children: vec![t.clone()] });
                }
                for v in variants {
                    let re = to_recexpr::<Main>(&v);
                    qs.push(format!("lookrec {}", enc_term(&v).replace(' ', "")));
                    outs.push(match guarded(|| lookup_rec_expr(&re, &eg)) {
                        Ok(Some(a)) => {
                            let mut sl: Vec<u32> = a.slots().iter().map(|s| code(*s)).collect();
                            sl.sort();
                            format!("{}:[{}]", a.id.0, sl.iter().map(|x| x.to_string()).collect::<Vec<_>>().join(","))
                        }
                        Ok(None) => "none".into(),
                        Err(_) => "panic".into(),
                    });
                }
            }
        }
        // the read-only functions must not change the state (modulo path compression): dump again
        let snap2 = eg.verif_snapshot(|_| "-".to_string()).trim_end().replace('\n', "~");
        let strip_uf = |s: &str| s.split('~').filter(|l| !l.starts_with("uf ")).collect::<Vec<_>>().join("~");
        if strip_uf(&snap) != strip_uf(&snap2) {
            tags.push("viol:queries-changed-the-state".to_string());
        }
        // `add` on a miss (last, it changes the state): nodes that are not represented are inserted one by one; the model of
        // the miss path (`Snap.addNew`: new class, its stored node, its self-symmetries, the union-find) is applied to the
        // first dump and must give the dump taken after the first insertion.  One insertion per case is judged by the model
        // (the case line carries one "before" state); the harness predicates below hold for every one.
        let mut first = true;
        // the hit path of `add` (`Snap.add`: the stored invocation is returned, the state is left alone), on every probe that is found
        for n in probes.iter() {
            if let Ok(Some(a)) = guarded(|| eg.lookup(n)) {
                let before = strip_uf(&eg.verif_snapshot(|_| "-".to_string()).trim_end().replace('\n', "~"));
                match guarded(|| eg.add(n.clone())) {
                    Ok(r) => {
                        if r != a {
                            tags.push("viol:add-of-known-node-differs-from-lookup".to_string());
                        }
                    }
                    Err(e) => {
                        tags.push("viol:add-panics".to_string());
                        tags.push(format!("panic:{e}"));
                    }
                }
                if strip_uf(&eg.verif_snapshot(|_| "-".to_string()).trim_end().replace('\n', "~")) != before {
                    tags.push("viol:add-of-known-node-changed-the-state".to_string());
                }
            }
        }
        for n in probes.iter().take(10) {
            if !matches!(guarded(|| eg.lookup(n)), Ok(None)) {
                continue;
            }
            let before_classes = eg.verif_measure().0;
            let before = eg.verif_snapshot(|_| "-".to_string()).trim_end().replace('\n', "~");
            if first && strip_uf(&before) != strip_uf(&snap) {
                break;
            }
            let res = match guarded(|| eg.add(n.clone())) {
                Ok(r) => r,
                Err(e) => {
                    tags.push("viol:add-panics".to_string());
                    tags.push(format!("panic:{e}"));
                    break;
                }
            };
            if eg.verif_measure().0 != before_classes + 1 || res.id.0 != before_classes {
                tags.push("viol:add-of-unknown-node-did-not-allocate-exactly-one-class".to_string());
            }
            match guarded(|| eg.lookup(n)) {
                Ok(Some(a)) if a == res || eg.eq(&a, &res) => {}
                _ => tags.push("viol:lookup-after-add-disagrees".to_string()),
            }
            if first {
                // the union-find of the first dump may have been compressed by the queries since (the classes are the same,
                // checked above); the model compares the union-find by resolution, not entry by entry
                let after = eg.verif_snapshot(|_| "-".to_string()).trim_end().replace('\n', "~");
                qs.push(format!("addnew {} {} {}", verif_enc_node(n), enc_app_code(&res), after.replace(' ', "`").replace('~', "^")));
                outs.push("ok".into());
                first = false;
                tags.push("addnew".into());
                if after.matches(&format!("~gen {} ", res.id.0)).count() > 0 {
                    tags.push("addnew-with-self-symmetry".into());
                }
            }
        }
        (snap, qs, outs, tags)
    });
    match r {
        Ok((snap, qs, outs, mut tags)) => {
            tags.push(format!("history:{}", line_ops.replace(',', "~")));
            let nt = snap.contains("gen ") || snap.matches("uf ").count() > snap.matches("class ").count();
            Case { line: format!("snap {sig};{snap};{}", qs.join(";")), impl_out: outs.join(";"), nontrivial: nt, tags }
        }
        Err(e) => Case { line: format!("snap {sig};;"), impl_out: format!("PANIC {e}"), nontrivial: true, tags: vec!["viol:panic".into(), format!("panic:{}", e.replace(',', " ")), format!("history:{}", line_ops.replace(',', "~"))] },
    }
}

/// long union-find chains: many small classes merged pairwise, each union touching only the two classes it names, so
/// the entries of classes merged earlier keep pointing at leaders that were deprecated later (what path compression
/// has to chase); some with slots (permuted and partially dropped arguments along the chain)
fn gen_chain(rng: &mut Rng) -> Vec<Op> {
    let leaf = |v: usize, sl: &[u32]| ATerm { v, fields: sl.iter().map(|s| CField::Slot(*s)).collect(), children: vec![] };
    let sym = |s: String| ATerm { v: 16, fields: vec![CField::Lit(s)], children: vec![] };
    let un = |a: ATerm| ATerm { v: 13, fields: vec![CField::App], children: vec![a] };
    let n = rng.range(4, 10);
    let mut ops: Vec<Op> = Vec::new();
    let kind = rng.below(3);
    for i in 0..n {
        let t = match kind {
            0 => sym(format!("c{i}")),
            1 => {
                // same two slots, in either order, under i applications of h
                let mut t = if rng.chance(1, 2) { leaf(7, &[4, 8]) } else { leaf(7, &[8, 4]) };
                for _ in 0..i {
                    t = un(t);
                }
                t
            }
            _ => {
                // alternately one and two slots: arguments get dropped along the chain
                let mut t = if i % 2 == 0 { leaf(7, &[4, 8]) } else { leaf(10, &[4]) };
                for _ in 0..i {
                    t = un(t);
                }
                t
            }
        };
        ops.push(Op::Add(t));
    }
    // pairwise unions in a random order of adjacent pairs, then (sometimes) a final bridge
    let mut pairs: Vec<(usize, usize)> = (0..n - 1).map(|i| (i, i + 1)).collect();
    match rng.below(4) {
        0 => {}
        1 => rng.shuffle(&mut pairs),
        _ => {
            // tournament: equal-sized blocks are merged, so half of the members end up one hop further from the leader
            // each round (union by size alone never builds a chain); the two classes of a union are named through
            // random members of their blocks, so the other members are not compressed on the way
            pairs.clear();
            let mut stride = 1;
            while stride < n {
                let mut i = 0;
                while i + stride < n {
                    let a = i + rng.below(stride);
                    let b2 = i + stride + rng.below(stride.min(n - i - stride));
                    pairs.push((a, b2));
                    i += 2 * stride;
                }
                stride *= 2;
            }
        }
    }
    if rng.chance(1, 3) {
        pairs.truncate(rng.range(2, pairs.len()));
    }
    for (i, j) in pairs {
        if rng.chance(1, 2) {
            ops.push(Op::Union(i, j));
        } else {
            ops.push(Op::Union(j, i));
        }
    }
    ops
}

pub fn run(ctx: &mut Ctx) {
    for _ in 0..ctx.count {
        let mut rng = ctx.rng.fork();
        let (ops, _) = if rng.chance(1, 4) { (gen_chain(&mut rng), "chain") } else { gen_history(&mut rng) };
        let seed = rng.next();
        let per_op = ctx.param("per_op", 0) == 1;
        // a quarter of the histories run with the min-size analysis attached
        if rng.chance(1, 4) {
            // half of them: several independent copies of "a small leaf is united with a bigger term `b`; `h(b)` improves when
            // it is re-analysed; `k(h(b), a)` mentions both the improving class and the class that dies" — one rebuild has
            // to do structural and analysis-only work on the same e-node, in whatever order the worklist hands it out
            let ops = if rng.chance(1, 2) {
                let sym = |x: String| ATerm { v: 16, fields: vec![CField::Lit(x)], children: vec![] };
                let un = |v: usize, a: ATerm| ATerm { v, fields: vec![CField::App], children: vec![a] };
                let bin = |v: usize, a: ATerm, b: ATerm| ATerm { v, fields: vec![CField::App, CField::App], children: vec![a, b] };
                let copies = rng.range(3, 8);
                let mut o: Vec<Op> = Vec::new();
                let mut unions: Vec<Op> = Vec::new();
                for j in 0..copies {
                    let a = sym(format!("a{j}"));
                    let big = match rng.below(3) {
                        0 => bin(14, sym(format!("b{j}")), sym(format!("c{j}"))),
                        1 => un(13, un(13, sym(format!("b{j}")))),
                        _ => bin(4, un(13, sym(format!("b{j}"))), sym(format!("c{j}"))),
                    };
                    let p = un(13, big.clone());
                    let gp = if rng.chance(1, 2) { bin(14, p.clone(), a.clone()) } else { bin(5, a.clone(), p.clone()) };
                    let base = o.len();
                    o.push(Op::Add(gp));
                    o.push(Op::Add(a));
                    o.push(Op::Add(big));
                    if rng.chance(1, 2) {
                        unions.push(Op::Union(base + 1, base + 2));
                    } else {
                        unions.push(Op::Union(base + 2, base + 1));
                    }
                }
                o.extend(unions);
                o
            } else {
                ops
            };
            ctx.emit(exec_snap_n::<crate::suites::ana::MinSize>(ops, seed, per_op));
        } else {
            ctx.emit(exec_snap(ops, seed, per_op));
        }
    }
}
