//! corr.shape.weak — C16.  Node shapes, occurrence lists and syntax of the derived Language impls.
use crate::langs::*;
use crate::rng::Rng;
use crate::util::*;
use crate::{Case, Ctx};
use slotted_egraphs::*;
use std::collections::BTreeSet;

const FREE: [u32; 6] = [80, 84, 88, 2, 6, 92];
const FREE_SMALLNUM: [u32; 6] = [0, 4, 8, 2, 6, 12];
const BINDERS: [u32; 4] = [16, 10, 20, 14];
const FRESHNAMES: [u32; 12] = [40, 44, 48, 52, 18, 22, 26, 30, 56, 60, 34, 38];

fn gen_lit(ty: &str, rng: &mut Rng) -> String {
    match ty {
        "u32" => ["0", "1", "7", "42", "4294967295"][rng.below(5)].to_string(),
        "i64" => ["0", "-1", "5", "-9223372036854775808", "9223372036854775807"][rng.below(5)].to_string(),
        "bool" => ["true", "false"][rng.below(2)].to_string(),
        "char" => ["a", "Z", "x", "λ"][rng.below(4)].to_string(),
        _ => ["a", "b", "foo", "map", "x1", "true", "12", "-3"][rng.below(8)].to_string(),
    }
}

struct Gen<'a> {
    rng: &'a mut Rng,
    smallnum: bool,
    mode: usize, // 0 clean, 1 reuse, 2 ill-scoped
    used_binders: Vec<u32>,
}

impl<'a> Gen<'a> {
    fn free_slot(&mut self, scope: &[u32]) -> u32 {
        // inside a binder's scope, use the bound name half of the time
        if !scope.is_empty() && self.rng.chance(1, 2) {
            return *self.rng.pick(scope);
        }
        let n = if self.rng.chance(1, 3) { 2 } else { FREE.len() };
        if self.smallnum { FREE_SMALLNUM[self.rng.below(n)] } else { FREE[self.rng.below(n)] }
    }
    fn binder(&mut self) -> u32 {
        match self.mode {
            0 => {
                let cands: Vec<u32> = BINDERS.iter().copied().filter(|b| !self.used_binders.contains(b)).collect();
                let b = if cands.is_empty() { BINDERS[0] } else { *self.rng.pick(&cands) };
                self.used_binders.push(b);
                b
            }
            1 => {
                if self.rng.chance(1, 2) { BINDERS[self.rng.below(2)] } else { self.free_slot(&[]) }
            }
            _ => self.free_slot(&[]),
        }
    }
    fn field(&mut self, k: &Kind, scope: &mut Vec<u32>) -> AField {
        match k {
            Kind::S => AField::Slot(slot_of_code(self.free_slot(scope))),
            Kind::A => {
                let n = self.rng.below(4);
                let mut m = SlotMap::new();
                let mut vals: Vec<u32> = Vec::new();
                // one invocation in eight may pass the same slot to two parameters (`c[x, x]`): not something the e-graph
                // builds itself, but a slot assignment with a repeated name like any other for the shape computation
                let repeats = self.rng.chance(1, 8);
                for i in 0..n {
                    let mut v = self.free_slot(scope);
                    let mut tries = 0;
                    while !repeats && vals.contains(&v) && tries < 10 {
                        v = self.free_slot(scope);
                        tries += 1;
                    }
                    if !repeats && vals.contains(&v) {
                        continue;
                    }
                    vals.push(v);
                    // class parameter names: numeric $1.. or named, sorted differently from the values
                    let key = if self.rng.chance(1, 2) { 4 * (i as u32 + 1) } else { 4 * (3 - i as u32) + 2 };
                    m.insert(slot_of_code(key), slot_of_code(v));
                }
                AField::App(AppliedId { id: Id(self.rng.below(4)), m })
            }
            Kind::B(inner) => {
                let b = self.binder();
                scope.push(b);
                let f = self.field(inner, scope);
                scope.pop();
                AField::Bind(slot_of_code(b), Box::new(f))
            }
            Kind::L(ty) => AField::Lit(gen_lit(ty, self.rng)),
        }
    }
}

fn all_occ(f: &AField, out: &mut Vec<u32>) {
    match f {
        AField::Slot(s) => out.push(code(*s)),
        AField::App(a) => out.extend(a.m.values_vec().into_iter().map(code)),
        AField::Bind(s, f) => {
            out.push(code(*s));
            all_occ(f, out)
        }
        AField::Lit(_) => {}
    }
}

fn binder_names(f: &AField, out: &mut Vec<u32>) {
    if let AField::Bind(s, f) = f {
        out.push(code(*s));
        binder_names(f, out)
    }
}

fn rename_field(f: &AField, rho: &dyn Fn(u32) -> u32) -> AField {
    match f {
        AField::Slot(s) => AField::Slot(slot_of_code(rho(code(*s)))),
        AField::App(a) => AField::App(AppliedId {
            id: a.id,
            m: a.m.iter().map(|(k, v)| (k, slot_of_code(rho(code(v))))).collect(),
        }),
        AField::Bind(s, f) => AField::Bind(slot_of_code(rho(code(*s))), Box::new(rename_field(f, rho))),
        AField::Lit(v) => AField::Lit(v.clone()),
    }
}

fn sorted(mut v: Vec<Slot>) -> Vec<Slot> {
    v.sort();
    v
}

fn run_case<L: HLang>(n: ANode, ren: Vec<(u32, u32)>) -> (Vec<String>, Vec<String>, bool) {
    let node = L::from_anode(&n);
    let mut tags = Vec::new();
    let show_shape = |p: &(L, SlotMap)| format!("{}~{}", enc_anode(&p.0.to_anode()), enc_map(&p.1));
    let sh = node.weak_shape();
    let rho = |c: u32| ren.iter().find(|(k, _)| *k == c).map(|(_, v)| *v).unwrap_or(c);
    let n2 = ANode { v: n.v, fields: n.fields.iter().map(|f| rename_field(f, &rho)).collect() };
    let node2 = L::from_anode(&n2);
    let sh2 = node2.weak_shape();
    let syn = node.to_syntax();
    let back = L::from_syntax(&syn);
    let applied = guarded(|| sh.0.apply_slotmap(&sh.1));
    let shsh = sh.0.weak_shape();
    let all = node.all_slot_occurrences();
    let public = node.public_slot_occurrences();
    let private = node.private_slot_occurrences();
    // --- B: the laws of the property, evaluated on the implementation's own answers
    if sh2.0 != sh.0 {
        tags.push("viol:shape-not-renaming-invariant".into());
    }
    let expect_bij: SlotMap = sh.1.iter().map(|(k, v)| (k, slot_of_code(rho(code(v))))).collect();
    if sh2.1 != expect_bij {
        tags.push("viol:bijection-not-renamed".into());
    }
    if shsh.0 != sh.0 {
        tags.push("viol:shape-not-idempotent".into());
    }
    match &applied {
        Ok(a) => {
            if a.weak_shape().0 != sh.0 || a.slots() != node.slots() {
                tags.push("viol:apply-bijection".into());
            }
        }
        Err(_) => tags.push("viol:apply-bijection-panics".into()),
    }
    {
        let mut pp = public.clone();
        pp.extend(private.iter().copied());
        if sorted(pp) != sorted(all.clone()) {
            tags.push("viol:occurrence-partition".into());
        }
    }
    {
        let s1: BTreeSet<Slot> = node.slots().iter().copied().collect();
        let s2: BTreeSet<Slot> = public.iter().copied().collect();
        if s1 != s2 {
            tags.push("viol:slots-not-public".into());
        }
    }
    if back.as_ref() != Some(&node) && unambiguous::<L>(&n) {
        tags.push("viol:syntax-roundtrip".into());
    }
    let mut occ = Vec::new();
    n.fields.iter().for_each(|f| all_occ(f, &mut occ));
    let distinct: BTreeSet<u32> = occ.iter().copied().collect();
    // trigger predicates of the known findings (structural, on the input node)
    {
        let mut binders = Vec::new();
        n.fields.iter().for_each(|f| binder_names(f, &mut binders));
        let publics: BTreeSet<u32> = node.public_slot_occurrences().into_iter().map(code).collect();
        if binders.iter().any(|b| publics.contains(b)) {
            tags.push("t:bindername-public".into());
        }
        let k = occ.len() as u32;
        if !binders.is_empty() && publics.iter().any(|c| c % 4 == 0 && c / 4 < k) {
            tags.push("t:numcollide".into());
        }
    }
    let nontrivial = distinct.len() < occ.len() || n.fields.iter().any(|f| matches!(f, AField::Bind(..)));
    let outs = vec![
        show_shape(&sh),
        enc_set(node.slots().iter().copied()),
        enc_list(all),
        enc_list(public),
        enc_list(private),
        enc_syntax(&syn),
        back.map(|b| enc_anode(&b.to_anode())).unwrap_or("none".into()),
        applied.map(|a| enc_anode(&a.to_anode())).unwrap_or("panic".into()),
        show_shape(&sh2),
        show_shape(&shsh),
    ];
    (outs, tags, nontrivial)
}

fn exec<L: HLang>(n: ANode, ren: Vec<(u32, u32)>, mode: usize) -> Case {
    let rs: Vec<String> = ren.iter().map(|(k, v)| format!("{k}>{v}")).collect();
    let line = format!("shape {};{};[{}]", enc_sig(&L::sig()), enc_anode_codes(&n), rs.join("|"));
    let r = in_fresh_thread(move || {
        intern_names();
        run_case::<L>(n, ren)
    });
    let modetag = ["clean", "reuse", "illscoped"][mode].to_string();
    match r {
        Ok((outs, mut tags, nt)) => {
            tags.push(modetag);
            Case { line, impl_out: outs.join(";"), nontrivial: nt, tags }
        }
        Err(e) => Case { line, impl_out: format!("PANIC {e}"), nontrivial: true, tags: vec!["panic".into(), modetag] },
    }
}

// ANodes hold `Slot`s, which are only meaningful inside the case thread; cases are generated with
// codes and materialised in the thread.  To keep one representation, generation happens on a
// throw-away thread-local table that interns the same names first (codes are then identical).
fn enc_anode_codes(n: &ANode) -> String {
    enc_anode(n)
}

fn gen_case<L: HLang>(rng: &mut Rng) -> (ANode, Vec<(u32, u32)>, usize) {
    let sig = L::sig();
    let v = rng.below(sig.len());
    let mode = match rng.below(10) {
        0..=5 => 0,
        6..=7 => 1,
        _ => 2,
    };
    let smallnum = rng.chance(1, 7);
    let mut g = Gen { rng, smallnum, mode, used_binders: vec![] };
    let mut scope = Vec::new();
    let fields: Vec<AField> = sig[v].kinds.iter().map(|k| g.field(k, &mut scope)).collect();
    let mut fields = fields;
    // wide nodes (1 in 10 of the nodes that have a child): the first child gets 17-26 distinct arguments, so the renaming
    // table of weak_shape grows past the small-map sizes; later slot fields and children re-use some of them
    let mut wide = false;
    if rng.chance(1, 10) {
        fn widen(f: &mut AField, rng: &mut Rng, pool: &mut Vec<u32>, first: &mut bool) {
            match f {
                AField::App(a) => {
                    if *first {
                        *first = false;
                        let k = rng.range(17, 26);
                        let mut vals: Vec<u32> = (0..k as u32).map(|j| 4 * (100 + j)).collect();
                        rng.shuffle(&mut vals);
                        let mut m = SlotMap::new();
                        for (i, v) in vals.iter().enumerate() {
                            m.insert(slot_of_code(4 * (i as u32 + 1)), slot_of_code(*v));
                        }
                        a.m = m;
                        *pool = vals;
                    } else if !pool.is_empty() {
                        let keys: Vec<Slot> = a.m.iter().map(|(k, _)| k).collect();
                        let mut used: Vec<u32> = Vec::new();
                        let mut m = SlotMap::new();
                        for k in keys {
                            let mut v = pool[rng.below(pool.len())];
                            let mut tries = 0;
                            while used.contains(&v) && tries < 10 {
                                v = pool[rng.below(pool.len())];
                                tries += 1;
                            }
                            if used.contains(&v) {
                                continue;
                            }
                            used.push(v);
                            m.insert(k, slot_of_code(v));
                        }
                        a.m = m;
                    }
                }
                AField::Slot(sl) => {
                    if !pool.is_empty() && rng.chance(2, 3) {
                        *sl = slot_of_code(pool[rng.below(pool.len())]);
                    }
                }
                AField::Bind(_, inner) => widen(inner, rng, pool, first),
                AField::Lit(_) => {}
            }
        }
        let mut pool: Vec<u32> = Vec::new();
        let mut first = true;
        for f in fields.iter_mut() {
            widen(f, rng, &mut pool, &mut first);
        }
        wide = !pool.is_empty();
    }
    let n = ANode { v, fields };
    let mut occ = Vec::new();
    n.fields.iter().for_each(|f| all_occ(f, &mut occ));
    let distinct: Vec<u32> = occ.iter().copied().collect::<BTreeSet<_>>().into_iter().collect();
    // injective renaming: into a disjoint alphabet (shuffled) or a permutation of the names themselves
    let ren: Vec<(u32, u32)> = if wide || rng.chance(1, 3) {
        let mut img = distinct.clone();
        rng.shuffle(&mut img);
        distinct.iter().copied().zip(img).collect()
    } else {
        let mut pool: Vec<u32> = FRESHNAMES.to_vec();
        rng.shuffle(&mut pool);
        distinct.iter().copied().zip(pool).collect()
    };
    (n, ren, mode)
}

fn one<L: HLang>(rng: &mut Rng) -> Case {
    // generation needs Slot values: do it inside a thread with the names interned
    let mut r2 = rng.fork();
    let g = in_fresh_thread(move || {
        intern_names();
        let (n, ren, mode) = gen_case::<L>(&mut r2);
        (enc_anode(&n), ren, mode)
    })
    .unwrap();
    replay_parts::<L>(&g.0, g.1, g.2)
}

fn replay_parts<L: HLang>(node_s: &str, ren: Vec<(u32, u32)>, mode: usize) -> Case {
    let node_s = node_s.to_string();
    let rs: Vec<String> = ren.iter().map(|(k, v)| format!("{k}>{v}")).collect();
    let line = format!("shape {};{};[{}]", enc_sig(&L::sig()), node_s, rs.join("|"));
    let r = in_fresh_thread(move || {
        intern_names();
        let n = crate::codec::parse_anode(&node_s);
        run_case::<L>(n, ren)
    });
    let modetag = ["clean", "reuse", "illscoped"][mode].to_string();
    match r {
        Ok((outs, mut tags, nt)) => {
            tags.push(modetag);
            Case { line, impl_out: outs.join(";"), nontrivial: nt, tags }
        }
        Err(e) => Case { line, impl_out: format!("PANIC {e}"), nontrivial: true, tags: vec!["panic".into(), modetag] },
    }
}

pub fn run(ctx: &mut Ctx) {
    for i in 0..ctx.count {
        let mut rng = ctx.rng.fork();
        let lang = LANGS[i % LANGS.len()];
        let c = crate::with_lang!(lang, one(&mut rng));
        ctx.emit(c);
    }
}

fn replay_l<L: HLang>(node_s: &str, ren: Vec<(u32, u32)>) -> Case {
    replay_parts::<L>(node_s, ren, 0)
}

pub fn replay(body: &str) -> Case {
    let parts: Vec<&str> = body.split(';').collect();
    let sig_s = parts[0];
    let lang = LANGS
        .iter()
        .copied()
        .find(|l| crate::with_lang!(*l, sig_string()) == sig_s)
        .expect("unknown signature");
    let ren = crate::codec::parse_pairs(parts[2]);
    crate::with_lang!(lang, replay_l(parts[1], ren))
}

fn sig_string<L: HLang>() -> String {
    enc_sig(&L::sig())
}
