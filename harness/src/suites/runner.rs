//! corr.runner.control — C15.  `Runner` and `run_eqsat` with real rule subsets and scripted hooks.
use crate::langs::*;
use crate::rng::Rng;
use crate::suites::eg::{observe, show_obs};
use crate::suites::rw::*;
use crate::terms::*;
use crate::util::*;
use crate::{Case, Ctx};
use slotted_egraphs::*;
use std::cell::RefCell;
use std::rc::Rc;

/// rules used by the runner suite only (control flow is judged here, not the meaning of the rules): a non-linear left side
/// that starts to match once its two children are found to be the same class up to a symmetry
const EXTRA: [(&str, &str, &str, &[(&str, &str)]); 7] = [
    ("k-same", "(k ?a ?a)", "?a", &[]),
    ("k-same-h", "(k ?a ?a)", "(h ?a)", &[]),
    ("k-comm", "(k ?a ?b)", "(k ?b ?a)", &[]),
    // three rules that each flip one pair of a six-slot class: three independent symmetries, proven one after the other
    ("flip-first", "(t3 (f2 $a $b) ?y ?z)", "(t3 (f2 $b $a) ?y ?z)", &[]),
    ("flip-second", "(t3 ?x (f2 $a $b) ?z)", "(t3 ?x (f2 $b $a) ?z)", &[]),
    ("flip-third", "(t3 ?x ?y (f2 $a $b))", "(t3 ?x ?y (f2 $b $a))", &[]),
    // a rule that never saturates and grows the e-graph by two e-nodes per round: for runs of 60-70 iterations
    ("grow", "(h ?x)", "(h (k ?x ?x))", &[]),
];

fn rule_at(i: usize) -> &'static (&'static str, &'static str, &'static str, &'static [(&'static str, &'static str)]) {
    if i < POOL.len() { &POOL[i] } else { &EXTRA[i - POOL.len()] }
}

#[derive(Clone)]
struct IterRec {
    measure: (usize, usize, usize, usize),
    nodes: usize,
    events: usize,
    fingerprint: String,
    /// state after a planting hook ran in this iteration (measure, node count, fingerprint): what the limit check and the
    /// next round of rewriting start from
    post: Option<((usize, usize, usize, usize), usize, String)>,
}

fn meas(eg: &EGraph<Main>) -> (usize, usize, usize, usize) {
    eg.verif_measure()
}

fn fingerprint(eg: &EGraph<Main>, tracked: &[AppliedId]) -> String {
    format!("{}|{}", eg.total_number_of_nodes(), show_obs(&observe(eg, tracked)))
}

pub fn exec_runner(start: Vec<ATerm>, rules: Vec<usize>, iter_limit: usize, node_limit: usize, fail_at: Option<usize>, eqsat: bool) -> Case {
    exec_runner_p(start, rules, iter_limit, node_limit, fail_at, eqsat, false)
}

/// `plant`: a last hook that adds a new term to the e-graph in every iteration (hooks may mutate the e-graph; the report and the
/// limit check have to see the result)
pub fn exec_runner_p(start: Vec<ATerm>, rules: Vec<usize>, iter_limit: usize, node_limit: usize, fail_at: Option<usize>, eqsat: bool, plant: bool) -> Case {
    let desc = format!(
        "start={} rules={} fail_at={:?} plant={plant}",
        start.iter().map(enc_term).collect::<Vec<_>>().join("+"),
        rules.iter().map(|i| rule_at(*i).0).collect::<Vec<_>>().join("."),
        fail_at
    );
    let desc2 = desc.clone();
    let r = in_fresh_thread(move || {
        intern_names();
        for nm in ["i", "z", "y", "x", "o"] {
            let _ = Slot::named(nm);
        }
        let mut tags: Vec<String> = Vec::new();
        // a fifth of the runs (a function of the case description): a time limit of zero — every limit check finds it exceeded
        // (`Runner`: elapsed > 0; `run_eqsat`: elapsed seconds >= 0), so the run must stop with `TimeLimit` unless an earlier
        // reason in the documented order applies
        let zero_time = desc2.bytes().fold(7u64, |h, b| h.wrapping_mul(131).wrapping_add(b as u64)) % 5 == 0;
        if zero_time {
            tags.push("t:zero-time-limit".into());
        }
        let rws: Vec<Rewrite<Main>> = rules.iter().map(|i| mk_rule(rule_at(*i))).collect();
        // half of the runs: the same rule objects were used on another e-graph (the same start terms) before
        if desc2.bytes().fold(0u64, |h, b| h.wrapping_mul(31).wrapping_add(b as u64)) % 2 == 1 {
            let mut warm: EGraph<Main> = EGraph::new(());
            for t in &start {
                warm.add_expr(to_recexpr::<Main>(t));
            }
            let _ = guarded(|| apply_rewrites(&mut warm, &rws));
            let _ = slotted_egraphs::verif::take_events();
        }
        let recs: Rc<RefCell<Vec<IterRec>>> = Rc::new(RefCell::new(Vec::new()));
        let tracked: Rc<RefCell<Vec<AppliedId>>> = Rc::new(RefCell::new(Vec::new()));
        let (stop, iterations, report_nodes, eg, initial): (String, usize, usize, EGraph<Main>, IterRec);
        if eqsat {
            let mut g: EGraph<Main> = EGraph::new(());
            for t in &start {
                let a = g.add_expr(to_recexpr::<Main>(t));
                tracked.borrow_mut().push(a);
            }
            let _ = slotted_egraphs::verif::take_events();
            initial = IterRec { measure: meas(&g), nodes: g.total_number_of_nodes(), events: 0, fingerprint: fingerprint(&g, &tracked.borrow()), post: None };
            let (recs2, tr2) = (recs.clone(), tracked.clone());
            let mut k = 0usize;
            let rep = run_eqsat(&mut g, rws, iter_limit, if zero_time { 0 } else { 100000 }, move |eg: &mut EGraph<Main>| {
                let evs = slotted_egraphs::verif::take_events().len();
                recs2.borrow_mut().push(IterRec { measure: meas(eg), nodes: eg.total_number_of_nodes(), events: evs, fingerprint: fingerprint(eg, &tr2.borrow()), post: None });
                let this = k;
                k += 1;
                if Some(this) == fail_at { Err("1".to_string()) } else { Ok(()) }
            });
            stop = match rep.stop_reason {
                StopReason::Saturated => "Saturated".into(),
                StopReason::IterationLimit => "IterationLimit".into(),
                StopReason::TimeLimit => "TimeLimit".into(),
                StopReason::NodeLimit => "NodeLimit".into(),
                StopReason::Other(x) => format!("Other({x})"),
            };
            iterations = rep.iterations;
            report_nodes = rep.egraph_nodes;
            eg = g;
        } else {
            let mut runner: Runner<Main, (), (), String> = Runner::new(()).with_iter_limit(iter_limit).with_node_limit(node_limit);
            if zero_time {
                runner = runner.with_time_limit(std::time::Duration::ZERO);
            }
            for t in &start {
                runner = runner.with_expr(&to_recexpr::<Main>(t));
            }
            *tracked.borrow_mut() = runner.roots.clone();
            let _ = slotted_egraphs::verif::take_events();
            initial = IterRec { measure: meas(&runner.egraph), nodes: runner.egraph.total_number_of_nodes(), events: 0, fingerprint: fingerprint(&runner.egraph, &tracked.borrow()), post: None };
            let (recs2, tr2) = (recs.clone(), tracked.clone());
            runner = runner.with_hook(move |r: &mut Runner<Main, (), (), String>| {
                let evs = slotted_egraphs::verif::take_events().len();
                recs2.borrow_mut().push(IterRec { measure: meas(&r.egraph), nodes: r.egraph.total_number_of_nodes(), events: evs, fingerprint: fingerprint(&r.egraph, &tr2.borrow()), post: None });
                Ok(())
            });
            let mut k = 0usize;
            runner = runner.with_hook(move |_r: &mut Runner<Main, (), (), String>| {
                let this = k;
                k += 1;
                if Some(this) == fail_at { Err("1".to_string()) } else { Ok(()) }
            });
            if plant {
                let (recs3, tr3) = (recs.clone(), tracked.clone());
                let mut j = 0u32;
                runner = runner.with_hook(move |r: &mut Runner<Main, (), (), String>| {
                    j += 1;
                    // a bare number: a new class and e-node that no rule of the pool can match (saturation is about the rules)
                    let t = ATerm { v: 15, fields: vec![CField::Lit(format!("{}", 900 + j))], children: vec![] };
                    r.egraph.add_expr(to_recexpr::<Main>(&t));
                    let _ = slotted_egraphs::verif::take_events();
                    if let Some(last) = recs3.borrow_mut().last_mut() {
                        last.post = Some((meas(&r.egraph), r.egraph.total_number_of_nodes(), fingerprint(&r.egraph, &tr3.borrow())));
                    }
                    Ok(())
                });
            }
            let rep = runner.run(&rws);
            stop = match rep.stop_reason {
                StopReason::Saturated => "Saturated".into(),
                StopReason::IterationLimit => "IterationLimit".into(),
                StopReason::TimeLimit => "TimeLimit".into(),
                StopReason::NodeLimit => "NodeLimit".into(),
                StopReason::Other(x) => format!("Other({x})"),
            };
            iterations = rep.iterations;
            report_nodes = rep.egraph_nodes;
            eg = std::mem::replace(&mut runner.egraph, EGraph::new(()));
        }
        let mut eg = eg;
        if report_nodes != eg.total_number_of_nodes() {
            tags.push("viol:report-node-count".into());
        }
        // observations per iteration for the model
        let recs = recs.borrow().clone();
        let mut prev = initial.clone();
        let mut obs: Vec<String> = Vec::new();
        for (k, rec) in recs.iter().enumerate() {
            // the round of rewriting started from the state the previous iteration's hooks left behind
            if let Some((m, n, f)) = &prev.post {
                prev = IterRec { measure: *m, nodes: *n, events: 0, fingerprint: f.clone(), post: None };
            }
            let progress = rec.measure != prev.measure;
            if !progress {
                // `apply_rewrites` returned false: nothing observable may have changed
                if rec.events != 0 {
                    tags.push("viol:no-progress-but-events".into());
                }
                if rec.fingerprint != prev.fingerprint {
                    tags.push("viol:no-progress-but-fingerprint-changed".into());
                }
            }
            let h = if Some(k) == fail_at { "1" } else { "-" };
            // the limit check runs after the hooks
            let nodes_at_check = rec.post.as_ref().map(|p| p.1).unwrap_or(rec.nodes);
            obs.push(format!("p{},h{h},n{},t{}", if progress { 1 } else { 0 }, nodes_at_check, if zero_time { 1 } else { 0 }));
            prev = rec.clone();
        }
        if stop == "Saturated" {
            // applying every rule once more changes nothing, and both sides of every match are already equal
            let tr = tracked.borrow().clone();
            let fp = fingerprint(&eg, &tr);
            let rws2: Vec<Rewrite<Main>> = rules.iter().map(|i| mk_rule(rule_at(*i))).collect();
            if apply_rewrites(&mut eg, &rws2) || fingerprint(&eg, &tr) != fp {
                tags.push("viol:saturated-but-rewrites-change-something".into());
            }
            for i in &rules {
                let (lhs, rhs) = (Pattern::<Main>::parse(rule_at(*i).1).unwrap(), Pattern::<Main>::parse(rule_at(*i).2).unwrap());
                let conds: Vec<(Slot, String)> = rule_at(*i).3.iter().map(|(x, a)| (Slot::named(x), a.to_string())).collect();
                for subst in ematch_all(&eg, &lhs) {
                    if !conds.iter().all(|(s, a)| !subst[a].slots().contains(s)) {
                        continue;
                    }
                    let a = pattern_subst(&mut eg, &lhs, &subst);
                    let b2 = pattern_subst(&mut eg, &rhs, &subst);
                    if !eg.eq(&a, &b2) {
                        tags.push("viol:saturated-but-match-sides-differ".into());
                    }
                }
            }
        }
        (format!("{stop}:{iterations}"), obs, tags)
    });
    match r {
        Ok((out, obs, mut tags)) => {
            tags.push(format!("run:{}", desc.replace(',', "~")));
            tags.push(format!("stop:{}", out.split(':').next().unwrap_or("").split('(').next().unwrap_or("")));
            let mode = if eqsat { "eqsat" } else { "run" };
            Case { line: format!("runner {mode} {iter_limit} {node_limit};{}", obs.join(";")), impl_out: out, nontrivial: obs.len() >= 2, tags }
        }
        Err(e) => Case { line: "runner run 0 0;".into(), impl_out: format!("PANIC {e}"), nontrivial: true, tags: vec!["viol:panic".into(), format!("panic:{}", e.replace(',', " ")), format!("run:{}", desc.replace(',', "~"))] },
    }
}

/// `apply_rewrites` called directly: its return value against the independent fingerprint and the event log
pub fn exec_direct(start: Vec<ATerm>, rules: Vec<usize>, iters: usize) -> Case {
    let desc = format!(
        "direct start={} rules={}",
        start.iter().map(enc_term).collect::<Vec<_>>().join("+"),
        rules.iter().map(|i| rule_at(*i).0).collect::<Vec<_>>().join(".")
    );
    let r = in_fresh_thread(move || {
        intern_names();
        for nm in ["i", "z", "y", "x", "o"] {
            let _ = Slot::named(nm);
        }
        let mut tags: Vec<String> = Vec::new();
        let mut eg: EGraph<Main> = EGraph::new(());
        let mut tracked = Vec::new();
        for t in &start {
            // track every subterm
            let mut subs = Vec::new();
            subterms(t, &mut subs);
            for s in subs {
                if free_slots(&s).iter().all(|c| ![10u32, 14, 18].contains(c)) {
                    tracked.push(eg.add_expr(to_recexpr::<Main>(&s)));
                }
            }
        }
        let rws: Vec<Rewrite<Main>> = rules.iter().map(|i| mk_rule(rule_at(*i))).collect();
        let mut steps = Vec::new();
        let mut outs = Vec::new();
        for _ in 0..iters {
            if eg.total_number_of_nodes() > 300 {
                break;
            }
            let _ = slotted_egraphs::verif::take_events();
            let before = eg.verif_measure();
            let fp = fingerprint(&eg, &tracked);
            let changed = apply_rewrites(&mut eg, &rws);
            let evs: Vec<&str> = slotted_egraphs::verif::take_events().into_iter().map(|(k, _)| k).collect();
            let after = eg.verif_measure();
            if !changed {
                if !evs.is_empty() {
                    tags.push("viol:returned-false-but-events".into());
                }
                if fingerprint(&eg, &tracked) != fp {
                    tags.push("viol:returned-false-but-fingerprint-changed".into());
                }
            } else if evs.is_empty() && fingerprint(&eg, &tracked) == fp {
                tags.push("returned-true-without-observable-change".into());
            }
            steps.push(format!("{},{},{},{}>{},{},{},{}:{}", before.0, before.1, before.2, before.3, after.0, after.1, after.2, after.3, evs.join(".")));
            outs.push("1".to_string());
            if !changed {
                break;
            }
        }
        (steps, outs, tags)
    });
    match r {
        Ok((steps, outs, mut tags)) => {
            tags.push(format!("run:{}", desc.replace(',', "~")));
            Case { line: format!("prog {}", steps.join(";")), impl_out: outs.join(";"), nontrivial: steps.len() >= 2, tags }
        }
        Err(e) => Case { line: "prog ".into(), impl_out: format!("PANIC {e}"), nontrivial: true, tags: vec!["viol:panic".into(), format!("panic:{}", e.replace(',', " ")), format!("run:{}", desc.replace(',', "~"))] },
    }
}

/// scripted rules (`RewriteT` with hand-written searcher/applier) on tiny ground e-graphs: each rule inserts one
/// or two small terms over the symbols a..d and unions random pairs of already known classes.  On such small
/// graphs an iteration often adds exactly as many e-nodes as congruence removes — the situation in which a
/// wrong notion of "progress" goes unnoticed.
pub fn exec_scripted(seed: u64) -> Case {
    let r = in_fresh_thread(move || {
        intern_names();
        let mut rng = Rng::new(seed);
        let mut tags: Vec<String> = Vec::new();
        let sym = |s: &str| ATerm { v: 16, fields: vec![CField::Lit(s.to_string())], children: vec![] };
        let names = ["a", "b", "c", "d"];
        let mut gen = |rng: &mut Rng, d: usize| -> ATerm {
            fn go(rng: &mut Rng, d: usize, names: &[&str], sym: &dyn Fn(&str) -> ATerm) -> ATerm {
                if d == 0 || rng.chance(1, 3) {
                    return sym(names[rng.below(names.len())]);
                }
                if rng.chance(1, 2) {
                    ATerm { v: 13, fields: vec![CField::App], children: vec![go(rng, d - 1, names, sym)] }
                } else {
                    ATerm { v: 14, fields: vec![CField::App, CField::App], children: vec![go(rng, d - 1, names, sym), go(rng, d - 1, names, sym)] }
                }
            }
            go(rng, d, &names, &sym)
        };
        let mut eg: EGraph<Main> = EGraph::new(());
        let mut tracked: Vec<AppliedId> = Vec::new();
        for _ in 0..rng.range(3, 7) {
            let t = gen(&mut rng, 2);
            let mut subs = Vec::new();
            subterms(&t, &mut subs);
            for s in subs {
                tracked.push(eg.add_expr(to_recexpr::<Main>(&s)));
            }
        }
        for _ in 0..rng.range(0, 3) {
            let (i, j) = (rng.below(tracked.len()), rng.below(tracked.len()));
            let (a, b2) = (tracked[i].clone(), tracked[j].clone());
            eg.union(&a, &b2);
        }
        // stream `symgrow` (a third of the seeds): a leaf with 3-5 slots whose symmetry group is enlarged by one
        // transposition per round, and by nothing else — a round that turns a group of order 2 into one of order 6 has
        // made progress although no class, no slot and no *symmetric class* was gained or lost
        let symgrow = seed % 3 == 0;
        let leaf_slots: Vec<u32> = vec![2, 4, 8, 12, 16];
        let nslots = rng.range(3, 5);
        let leaf = if symgrow {
            let v = match nslots { 3 => 8, 4 => 9, _ => 20 };
            let t = ATerm { v, fields: leaf_slots[..nslots].iter().map(|c| CField::Slot(*c)).collect(), children: vec![] };
            Some(eg.add_expr(to_recexpr::<Main>(&t)))
        } else {
            None
        };
        let mut steps = Vec::new();
        let mut outs = Vec::new();
        for _round in 0..(if symgrow { rng.range(3, 6) } else { rng.range(2, 5) }) {
            // the script of this round is fixed before the call (the appliers only replay it)
            let nrules = rng.range(1, 3);
            let mut rws: Vec<Rewrite<Main>> = Vec::new();
            if let Some(l) = &leaf {
                // one transposition of two argument positions of the leaf, asserted as a union by the only rule of the round
                let (i, j) = (rng.below(nslots), rng.below(nslots));
                let l = l.clone();
                rws.push(
                    RewriteT {
                        searcher: Box::new(|_eg: &EGraph<Main>| ()),
                        applier: Box::new(move |_: (), eg: &mut EGraph<Main>| {
                            let keys: Vec<Slot> = l.m.iter().map(|(k, _)| k).collect();
                            let mut vals: Vec<Slot> = l.m.iter().map(|(_, v)| v).collect();
                            vals.swap(i, j);
                            let r = AppliedId { id: l.id, m: keys.into_iter().zip(vals).collect() };
                            eg.union(&l, &r);
                        }),
                    }
                    .into(),
                );
            }
            for _ in 0..(if symgrow { 0 } else { nrules }) {
                let adds: Vec<ATerm> = (0..rng.range(0, 2)).map(|_| gen(&mut rng, 2)).collect();
                let pairs: Vec<(usize, usize)> = (0..rng.range(0, 2)).map(|_| (rng.below(tracked.len() + adds.len()), rng.below(tracked.len() + adds.len()))).collect();
                let tr = tracked.clone();
                rws.push(
                    RewriteT {
                        searcher: Box::new(|_eg: &EGraph<Main>| ()),
                        applier: Box::new(move |_: (), eg: &mut EGraph<Main>| {
                            let mut ids = tr.clone();
                            for t in &adds {
                                ids.push(eg.add_expr(to_recexpr::<Main>(t)));
                            }
                            for (i, j) in &pairs {
                                let (a, b2) = (ids[*i].clone(), ids[*j].clone());
                                eg.union(&a, &b2);
                            }
                        }),
                    }
                    .into(),
                );
            }
            let _ = slotted_egraphs::verif::take_events();
            let before = eg.verif_measure();
            let fp = fingerprint(&eg, &tracked);
            let changed = apply_rewrites(&mut eg, &rws);
            let evs: Vec<&str> = slotted_egraphs::verif::take_events().into_iter().map(|(k, _)| k).collect();
            let after = eg.verif_measure();
            if !changed {
                if !evs.is_empty() {
                    tags.push("viol:returned-false-but-events".into());
                }
                if fingerprint(&eg, &tracked) != fp {
                    tags.push("viol:returned-false-but-fingerprint-changed".into());
                }
            }
            steps.push(format!("{},{},{},{}>{},{},{},{}:{}", before.0, before.1, before.2, before.3, after.0, after.1, after.2, after.3, evs.join(".")));
            outs.push("1".to_string());
        }
        (steps, outs, tags)
    });
    match r {
        Ok((steps, outs, mut tags)) => {
            tags.push(format!("run:scripted-seed-{seed}"));
            if seed % 3 == 0 {
                tags.push("stream:symgrow".into());
            }
            Case { line: format!("prog {}", steps.join(";")), impl_out: outs.join(";"), nontrivial: true, tags }
        }
        Err(e) => Case { line: "prog ".into(), impl_out: format!("PANIC {e}"), nontrivial: true, tags: vec!["viol:panic".into(), format!("panic:{}", e.replace(',', " ")), format!("run:scripted-seed-{seed}")] },
    }
}

pub fn run(ctx: &mut Ctx) {
    for _ in 0..ctx.count {
        let mut rng = ctx.rng.fork();
        let nstart = rng.range(1, 2);
        let start: Vec<ATerm> = (0..nstart)
            .map(|_| {
                let d = rng.range(1, 3);
                gen_arith(&mut rng, d)
            })
            .collect();
        let k = rng.range(1, 6);
        // (`let-intro` rewrites every product into a term that contains two more: it only makes the runs long, see the `rw` suite for it)
        let li = POOL.iter().position(|r| r.0 == "let-intro").unwrap_or(usize::MAX);
        let mut idx: Vec<usize> = (0..POOL.len()).filter(|i| *i != li).collect();
        rng.shuffle(&mut idx);
        idx.truncate(k);
        let iter_limit = [0usize, 1, 2, 5, 30][rng.below(5)];
        let cap = ctx.param("node_cap", 1500);
        let node_limit = [0usize, 5, 20, cap, cap][rng.below(5)];
        // boundary limits: in a third of the cases the node limit is the node count the run has after one of its first
        // iterations (or one more / one less), and the iteration limit is the number of iterations it needs (or one less)
        let (mut iter_limit, mut node_limit) = (iter_limit, node_limit);
        if rng.chance(1, 3) {
            let (st, ix) = (start.clone(), idx.clone());
            let counts = in_fresh_thread(move || {
                intern_names();
                for nm in ["i", "z", "y", "x", "o"] {
                    let _ = Slot::named(nm);
                }
                let mut eg: EGraph<Main> = EGraph::default();
                for t in &st {
                    eg.add_expr(to_recexpr::<Main>(t));
                }
                let rws: Vec<Rewrite<Main>> = ix.iter().map(|i| mk_rule(rule_at(*i))).collect();
                let mut v = vec![eg.total_number_of_nodes()];
                for _ in 0..4 {
                    if eg.total_number_of_nodes() > 300 || !apply_rewrites(&mut eg, &rws) {
                        break;
                    }
                    v.push(eg.total_number_of_nodes());
                }
                v
            })
            .unwrap_or_default();
            if !counts.is_empty() {
                let c = counts[rng.below(counts.len())];
                node_limit = match rng.below(3) {
                    0 => c,
                    1 => c + 1,
                    _ => c.saturating_sub(1),
                };
                if rng.chance(1, 2) {
                    iter_limit = match rng.below(3) {
                        0 => counts.len(),
                        1 => counts.len().saturating_sub(1),
                        _ => counts.len() + 1,
                    };
                } else {
                    iter_limit = 30;
                }
            }
        }
        let fail_at = if rng.chance(1, 4) { Some(rng.below(3)) } else { None };
        let eqsat = rng.chance(1, 3);
        if !cfg!(feature = "checks") && rng.chance(1, 14) {
            // a long run: iteration limits beyond sixty (far above the default of thirty), reached by a rule that never
            // saturates; the loop must stop with `IterationLimit` right after the configured bound
            let num = |s: &str| ATerm { v: 15, fields: vec![CField::Lit(s.into())], children: vec![] };
            let st = vec![ATerm { v: 13, fields: vec![CField::App], children: vec![num("1")] }];
            let lim = 58 + rng.below(14);
            ctx.emit(exec_runner_p(st, vec![POOL.len() + 6], lim, 1500, None, eqsat, false));
            continue;
        }
        if rng.chance(1, 12) {
            // a class with six slots that gains three independent symmetries, one per rule (in any order of the rules): each
            // must still hold when the run stops
            let f2 = |a: u32, b: u32| ATerm { v: 7, fields: vec![CField::Slot(a), CField::Slot(b)], children: vec![] };
            let t3 = |a: ATerm, b: ATerm, c: ATerm| ATerm { v: 17, fields: vec![CField::App, CField::App, CField::App], children: vec![a, b, c] };
            let st = vec![t3(f2(4, 8), f2(12, 16), f2(20, 24))];
            let mut rl = vec![POOL.len() + 3, POOL.len() + 4, POOL.len() + 5];
            rng.shuffle(&mut rl);
            ctx.emit(exec_runner_p(st, rl, 30, 1500, None, eqsat, false));
            continue;
        }
        if rng.chance(1, 10) {
            // two instances of one rule in the same round that bind both variables to the same class and differ only in how
            // the slots are shared: `x op x` (inserted first) and `x op y`; both must be rewritten before the run may stop
            let var = |c: u32| ATerm { v: 2, fields: vec![CField::Slot(c)], children: vec![] };
            let bin = |v: usize, a: ATerm, b: ATerm| ATerm { v, fields: vec![CField::App, CField::App], children: vec![a, b] };
            let op = [4usize, 5, 14][rng.below(3)];
            let (x, y) = (4u32, 8u32);
            let mut st = vec![bin(op, var(x), var(x)), bin(op, var(x), var(y))];
            if rng.chance(1, 4) {
                st.reverse();
            }
            if rng.chance(1, 3) {
                st.push(bin(op, var(y), var(x)));
            }
            let rule = match op {
                4 => POOL.iter().position(|r| r.0 == "add-comm").unwrap(),
                5 => POOL.iter().position(|r| r.0 == "mul-comm").unwrap(),
                _ => POOL.len() + 2,
            };
            ctx.emit(exec_runner_p(st, vec![rule], 30, 1500, None, eqsat, false));
            continue;
        }
        if rng.chance(1, 8) {
            // an iteration whose only effect is a new class symmetry (no new e-node, no merged class): `S = x op y` and its
            // mirror image `y op x` are one class with swapped arguments; commutativity turns the swap into a symmetry, and only
            // then the non-linear `(k ?a ?a)` matches `(k S S')`.  The run must not stop before that rule has fired
            let var = |c: u32| ATerm { v: 2, fields: vec![CField::Slot(c)], children: vec![] };
            let bin = |v: usize, a: ATerm, b: ATerm| ATerm { v, fields: vec![CField::App, CField::App], children: vec![a, b] };
            let op = if rng.chance(1, 2) { 4 } else { 5 };
            let (x, y) = (4u32, 8u32);
            let (s1, s2) = (bin(op, var(x), var(y)), bin(op, var(y), var(x)));
            let mut st = vec![bin(14, s1.clone(), s2)];
            if rng.chance(1, 2) {
                st.push(s1);
            }
            let comm = POOL.iter().position(|r| r.0 == if op == 4 { "add-comm" } else { "mul-comm" }).unwrap();
            let mut rl = vec![comm, POOL.len() + rng.below(2)];
            if rng.chance(1, 2) {
                rl.reverse();
            }
            ctx.emit(exec_runner_p(st, rl, 30, 1500, None, eqsat, false));
            continue;
        }
        if rng.chance(1, 3) {
            let sd = rng.next();
            ctx.emit(exec_scripted(sd));
        } else if rng.chance(1, 3) {
            let iters = rng.range(2, 5);
            ctx.emit(exec_direct(start, idx, iters));
        } else {
            let plant = !eqsat && rng.chance(1, 3);
            ctx.emit(exec_runner_p(start, idx, iter_limit, node_limit, fail_at, eqsat, plant));
        }
    }
}
