//! corr.slotmap.ops — C19.  Registers m0..m3, every public method of `SlotMap`.
use crate::rng::Rng;
use crate::util::*;
use crate::{Case, Ctx};
use slotted_egraphs::*;
use std::hash::{Hash, Hasher};

fn fxhash(m: &SlotMap) -> u64 {
    let mut h = rustc_hash_compat::FxHasher::default();
    m.hash(&mut h);
    h.finish()
}

// Minimal FxHasher clone is not needed: use std's DefaultHasher with fixed keys (SipHash 1-3, zero keys).
mod rustc_hash_compat {
    pub type FxHasher = std::collections::hash_map::DefaultHasher;
}

const OBS: &str = "iter 0;iter 1;iter 2;eq 0 1;eq 0 2;eq 1 2;cmp 0 1;cmp 1 0;cmp 0 2;cmp 1 2;heq 0 1;heq 0 2;heq 1 2;isb 0;isb 1;isb 2;isp 0;isp 2;keys 2;vals 2;valsv 2;len 2";

pub fn run_ops(ops: &[String]) -> (Vec<String>, bool) {
    let mut regs: Vec<SlotMap> = vec![SlotMap::new(); 4];
    let mut outs = Vec::new();
    let mut nontrivial = false;
    for op in ops {
        let t: Vec<&str> = op.split_whitespace().collect();
        if t.is_empty() {
            continue;
        }
        let n = |i: usize| -> usize { t[i].parse().unwrap() };
        let s = |i: usize| -> Slot { slot_of_code(t[i].parse().unwrap()) };
        let out: String = match t[0] {
            "ins" => {
                if regs[n(1)].contains_key(s(2)) {
                    nontrivial = true;
                }
                regs[n(1)].insert(s(2), s(3));
                "ok".into()
            }
            "rem" => {
                if regs[n(1)].contains_key(s(2)) {
                    nontrivial = true;
                }
                regs[n(1)].remove(s(2));
                "ok".into()
            }
            "get" => match regs[n(1)].get(s(2)) {
                Some(v) => format!("some:{}", code(v)),
                None => "none".into(),
            },
            "has" => b(regs[n(1)].contains_key(s(2))).into(),
            "idx" => {
                let r = regs[n(1)].clone();
                let k = s(2);
                match guarded(move || r[k]) {
                    Ok(v) => code(v).to_string(),
                    Err(_) => "panic".into(),
                }
            }
            "inv" => {
                regs[n(2)] = regs[n(1)].inverse();
                "ok".into()
            }
            "cp" | "cf" | "un" | "tu" => {
                let (a, c) = (regs[n(1)].clone(), regs[n(2)].clone());
                if a.keys().iter().any(|k| c.contains_key(*k)) || a.values().iter().any(|k| c.contains_key(*k)) {
                    nontrivial = true;
                }
                match t[0] {
                    "cp" => {
                        regs[n(3)] = a.compose_partial(&c);
                        "ok".into()
                    }
                    "cf" => {
                        regs[n(3)] = a.compose_fresh(&c);
                        "ok".into()
                    }
                    "un" => {
                        regs[n(3)] = a.union(&c);
                        "ok".into()
                    }
                    _ => match a.try_union(&c) {
                        Some(m) => {
                            regs[n(3)] = m;
                            "some".into()
                        }
                        None => "none".into(),
                    },
                }
            }
            "idn" => {
                let set: SmallHashSet<Slot> = (2..t.len()).map(|i| s(i)).collect();
                regs[n(1)] = SlotMap::identity(&set);
                "ok".into()
            }
            "bff" => {
                let set: SmallHashSet<Slot> = (2..t.len()).map(|i| s(i)).collect();
                regs[n(1)] = SlotMap::bijection_from_fresh_to(&set);
                "ok".into()
            }
            "ofp" => {
                let mut pairs = Vec::new();
                let mut i = 2;
                while i + 1 < t.len() {
                    pairs.push((s(i), s(i + 1)));
                    i += 2;
                }
                regs[n(1)] = SlotMap::from_pairs(&pairs);
                "ok".into()
            }
            // a slot written `$f<N>` (the spelling of fresh slots) obtained by name: from here on its code may be used as a
            // key or a value, and the fill-in slots of `compose_fresh` / `bijection_from_fresh_to` must stay clear of it
            "nf" => code(Slot::named(&format!("f{}", n(1)))).to_string(),
            "isb" => b(regs[n(1)].is_bijection()).into(),
            "isp" => b(regs[n(1)].is_perm()).into(),
            "keys" => enc_set(regs[n(1)].keys().iter().copied()),
            "vals" => enc_set(regs[n(1)].values().iter().copied()),
            "valsv" => enc_list(regs[n(1)].values_vec()),
            "len" => regs[n(1)].len().to_string(),
            "iter" => enc_pairs(&regs[n(1)]),
            "eq" => b(regs[n(1)] == regs[n(2)]).into(),
            "cmp" => match regs[n(1)].cmp(&regs[n(2)]) {
                std::cmp::Ordering::Less => "lt".into(),
                std::cmp::Ordering::Equal => "eq".into(),
                std::cmp::Ordering::Greater => "gt".into(),
            },
            "heq" => {
                if regs[n(1)] == regs[n(2)] && fxhash(&regs[n(1)]) != fxhash(&regs[n(2)]) {
                    "BAD".into()
                } else {
                    "ok".into()
                }
            }
            _ => "bad-op".into(),
        };
        outs.push(out);
    }
    (outs, nontrivial)
}

fn exec(ops: Vec<String>) -> Case {
    let line = format!("sm {}", ops.join(";"));
    let ops2 = ops.clone();
    let r = in_fresh_thread(move || {
        intern_names();
        run_ops(&ops2)
    });
    match r {
        Ok((outs, nt)) => Case { line, impl_out: outs.join(";"), nontrivial: nt, tags: vec![] },
        Err(e) => Case { line, impl_out: format!("PANIC {e}"), nontrivial: true, tags: vec!["panic".into()] },
    }
}

const SMALL: [u32; 4] = [0, 4, 2, 6];

fn small_ops() -> Vec<String> {
    let mut v = Vec::new();
    for r in 0..2 {
        for k in SMALL {
            for val in SMALL {
                v.push(format!("ins {r} {k} {val}"));
            }
            v.push(format!("rem {r} {k}"));
        }
    }
    for o in ["inv 0 2", "inv 1 2", "cp 0 1 2", "cp 1 0 2", "un 0 1 2", "tu 0 1 2", "cf 0 1 2"] {
        v.push(o.to_string());
    }
    v
}

fn obs_small() -> Vec<String> {
    let mut v: Vec<String> = OBS.split(';').map(|x| x.to_string()).collect();
    for k in SMALL {
        v.push(format!("get 2 {k}"));
        v.push(format!("get 0 {k}"));
    }
    v.push("idx 2 0".into());
    v
}

fn rand_slot(rng: &mut Rng, big: bool) -> u32 {
    if big {
        // ten numeric slots, the named slots n0..n3 and n10..n13 (interned in the order n0, n1, .., n19: the names sort
        // differently from their codes as soon as they have two digits, and numeric codes lie in between)
        let i = rng.below(18);
        if i < 10 {
            (i * 4) as u32
        } else if i < 14 {
            ((i - 10) * 4 + 2) as u32
        } else {
            ((i - 4) * 4 + 2) as u32
        }
    } else {
        SMALL[rng.below(4)]
    }
}

fn random_case(rng: &mut Rng) -> Vec<String> {
    let big = rng.chance(2, 3);
    let len = rng.range(1, if big { 40 } else { 12 });
    let mut ops = Vec::new();
    if big && rng.chance(1, 4) {
        // a map that has outgrown the inline buffer (more than 10 entries), then overwrites of its largest and other keys
        // with larger and smaller values, removals and re-insertions
        let all: Vec<u32> = (0..10u32).map(|i| i * 4).chain((0..4u32).map(|i| i * 4 + 2)).collect();
        let n = rng.range(11, 14);
        let mut ks = all.clone();
        rng.shuffle(&mut ks);
        ks.truncate(n);
        let r = rng.below(4);
        ops.push(format!("idn {r} {}", ks.iter().map(|x| x.to_string()).collect::<Vec<_>>().join(" ")));
        let mut sorted = ks.clone();
        sorted.sort();
        for _ in 0..rng.range(2, 6) {
            let k = if rng.chance(1, 2) { *sorted.last().unwrap() } else { sorted[rng.below(sorted.len())] };
            match rng.below(4) {
                0 => ops.push(format!("rem {r} {k}")),
                _ => ops.push(format!("ins {r} {k} {}", all[rng.below(all.len())])),
            }
        }
    }
    if big && rng.chance(1, 6) {
        // a bijection with 17-24 entries (beyond every small-size fast path), values in shuffled order; inverted, inverted
        // again, composed with its inverse, one entry overwritten in between
        let n = rng.range(17, 24) as u32;
        let keys: Vec<u32> = (0..n).map(|i| i * 4).collect();
        let mut vals: Vec<u32> = (0..n).map(|i| (40 + i) * 4).collect();
        rng.shuffle(&mut vals);
        let (r, d, r3) = (rng.below(4), rng.below(4), rng.below(4));
        for (k, v) in keys.iter().zip(vals.iter()) {
            ops.push(format!("ins {r} {k} {v}"));
        }
        ops.push(format!("inv {r} {d}"));
        ops.push(format!("inv {d} {r3}"));
        ops.push(format!("cp {r} {d} {r3}"));
        if rng.chance(1, 2) {
            ops.push(format!("rem {r} {}", keys[rng.below(keys.len())]));
            ops.push(format!("inv {r} {d}"));
        }
    }
    // a quarter of the cases: some slots are `$f<N>` names for fresh slots that have not been handed out yet; they are
    // used as keys and values afterwards, next to fill-in slots drawn by `compose_fresh`
    let mut fnames: Vec<u32> = Vec::new();
    if rng.chance(1, 4) {
        for _ in 0..rng.range(1, 3) {
            let nn = rng.below(9) as u32;
            ops.push(format!("nf {nn}"));
            fnames.push(4 * nn + 1);
        }
    }
    for _ in 0..len {
        let r = rng.below(4);
        let r2 = rng.below(4);
        let d = rng.below(4);
        if !fnames.is_empty() && rng.chance(1, 3) {
            let f = fnames[rng.below(fnames.len())];
            let o = rand_slot(rng, big);
            ops.push(if rng.chance(1, 2) { format!("ins {r} {f} {o}") } else { format!("ins {r} {o} {f}") });
            if rng.chance(1, 2) {
                ops.push(format!("cf {r} {r2} {d}"));
            }
            continue;
        }
        let op = match rng.below(20) {
            0..=6 => format!("ins {r} {} {}", rand_slot(rng, big), rand_slot(rng, big)),
            7..=8 => format!("rem {r} {}", rand_slot(rng, big)),
            9 => format!("inv {r} {d}"),
            10..=11 => format!("cp {r} {r2} {d}"),
            12 => format!("cf {r} {r2} {d}"),
            13 => format!("un {r} {r2} {d}"),
            14 => format!("tu {r} {r2} {d}"),
            15 => {
                let n = rng.below(if big { 13 } else { 4 });
                let ks: Vec<String> = (0..n).map(|_| rand_slot(rng, big).to_string()).collect();
                format!("idn {d} {}", ks.join(" "))
            }
            16 => {
                let n = rng.below(if big { 13 } else { 4 });
                let ks: Vec<String> = (0..n).map(|_| rand_slot(rng, big).to_string()).collect();
                format!("bff {d} {}", ks.join(" "))
            }
            17 => {
                let n = rng.below(if big { 13 } else { 4 });
                let ks: Vec<String> = (0..2 * n).map(|_| rand_slot(rng, big).to_string()).collect();
                format!("ofp {d} {}", ks.join(" "))
            }
            18 => format!("get {r} {}", rand_slot(rng, big)),
            _ => format!("idx {r} {}", rand_slot(rng, big)),
        };
        ops.push(op);
    }
    for r in 0..4 {
        ops.push(format!("iter {r}"));
        ops.push(format!("isb {r}"));
        ops.push(format!("isp {r}"));
        ops.push(format!("keys {r}"));
        ops.push(format!("vals {r}"));
        ops.push(format!("len {r}"));
        for r2 in 0..4 {
            if r != r2 {
                ops.push(format!("eq {r} {r2}"));
                ops.push(format!("cmp {r} {r2}"));
                ops.push(format!("heq {r} {r2}"));
            }
        }
        for _ in 0..3 {
            ops.push(format!("get {r} {}", rand_slot(rng, big)));
        }
    }
    ops
}

pub fn run(ctx: &mut Ctx) {
    // exhaustive part: all sequences of the small op set up to length `depth`, sharded
    let depth = ctx.param("depth", if ctx.thorough { 3 } else { 2 });
    let ops = small_ops();
    let obs = obs_small();
    let mut idx: u64 = 0;
    let mut stack: Vec<Vec<usize>> = vec![vec![]];
    while let Some(seq) = stack.pop() {
        if !seq.is_empty() {
            if ctx.mine(idx) {
                let mut v: Vec<String> = seq.iter().map(|&i| ops[i].clone()).collect();
                v.extend(obs.iter().cloned());
                ctx.emit(exec(v));
            }
            idx += 1;
        }
        if seq.len() < depth {
            for i in 0..ops.len() {
                let mut s = seq.clone();
                s.push(i);
                stack.push(s);
            }
        }
    }
    ctx.note("exhaustive_depth", depth as u64);
    ctx.note("exhaustive_sequences", idx);
    // random part
    let n = ctx.count;
    for _ in 0..n {
        let mut rng = ctx.rng.fork();
        ctx.emit(exec(random_case(&mut rng)));
    }
}

pub fn replay(body: &str) -> Case {
    exec(body.split(';').map(|x| x.trim().to_string()).filter(|x| !x.is_empty()).collect())
}
