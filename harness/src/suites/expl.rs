//! corr.proof — C07.  Histories of insertions and *justified* unions (explanations builds); for every
//! pair of tracked terms the e-graph reports equal, `explain_equivalence` is called and the returned proof
//! DAG is exported node by node (claims as terms through `get_syn_expr`) for the Lean proof checker.
//!
//! case line:  `expl main;<op>;...;<op>|<asserted>|<nodes>|<roots>`
//!   asserted: `j<k>=<term>~<term>` joined by `#`   (what the harness itself asserted, from the history)
//!   nodes:    `<rule>:<premise,premise>:<label or ->:<term>~<term>` joined by `#`, premises first
//!   roots:    `<node index>:<term>~<term>` joined by `#`  (the queried pair, from the history)
use crate::suites::eg::*;
use crate::Case;
#[cfg(feature = "explanations")]
use crate::langs::*;
#[cfg(feature = "explanations")]
use crate::terms::*;
#[cfg(feature = "explanations")]
use crate::util::*;
#[cfg(feature = "explanations")]
use crate::Ctx;
#[cfg(feature = "explanations")]
use slotted_egraphs::*;
#[cfg(feature = "explanations")]
use std::collections::HashMap;

#[cfg(feature = "explanations")]
struct Export {
    nodes: Vec<String>,
    index: HashMap<*const ProvenEqRaw, usize>,
}

#[cfg(feature = "explanations")]
impl Export {
    fn subproofs(p: &ProvenEqRaw) -> Vec<&ProvenEq> {
        match p.proof() {
            Proof::Explicit(_) | Proof::Reflexivity(_) => vec![],
            Proof::Symmetry(SymmetryProof(x)) => vec![x],
            Proof::Transitivity(TransitivityProof(x, y)) => vec![x, y],
            Proof::Congruence(CongruenceProof(xs)) => xs.iter().collect(),
        }
    }
    /// iterative post-order export (proofs can be deep); returns the index of `root`
    fn export<L: HLang, N: Analysis<L>>(&mut self, eg: &EGraph<L, N>, root: &ProvenEqRaw) -> usize {
        let mut stack: Vec<&ProvenEqRaw> = vec![root];
        'outer: while let Some(x) = stack.last().cloned() {
            let ptr = x as *const ProvenEqRaw;
            if self.index.contains_key(&ptr) {
                stack.pop();
                continue;
            }
            let mut ids = Vec::new();
            for sub in Self::subproofs(x) {
                let sp = (&**sub) as *const ProvenEqRaw;
                match self.index.get(&sp) {
                    Some(i) => ids.push(i.to_string()),
                    None => {
                        stack.push(sub);
                        continue 'outer;
                    }
                }
            }
            let (rule, label) = match x.proof() {
                Proof::Explicit(ExplicitProof(j)) => ("explicit", j.clone().unwrap_or_else(|| "none".into())),
                Proof::Reflexivity(_) => ("refl", "-".into()),
                Proof::Symmetry(_) => ("symm", "-".into()),
                Proof::Transitivity(_) => ("trans", "-".into()),
                Proof::Congruence(_) => ("congr", "-".into()),
            };
            let Equation { l, r } = x.equ();
            let lt = from_recexpr::<L>(&eg.get_syn_expr(&l));
            let rt = from_recexpr::<L>(&eg.get_syn_expr(&r));
            let i = self.nodes.len();
            self.nodes.push(format!("{rule}:{}:{label}:{}~{}", ids.join(","), enc_term(&lt), enc_term(&rt)));
            self.index.insert(ptr, i);
            stack.pop();
        }
        self.index[&(root as *const ProvenEqRaw)]
    }
}

#[cfg(feature = "explanations")]
pub struct ExplOut {
    pub asserted: Vec<String>,
    pub nodes: Vec<String>,
    pub roots: Vec<String>,
    pub expected: String,
    pub max_nodes: usize,
    pub tags: Vec<String>,
}

/// runs the history with justified unions, then explains every equal pair (at most `max_pairs`)
#[cfg(feature = "explanations")]
pub fn run_expl<L: HLang>(ops: &[Op], max_pairs: usize, printers: bool) -> Result<ExplOut, String> {
    let mut eg: EGraph<L> = EGraph::default();
    let mut tracked: Vec<AppliedId> = Vec::new();
    let mut terms: Vec<ATerm> = Vec::new();
    let mut asserted = Vec::new();
    let mut tags = Vec::new();
    for (k, op) in ops.iter().enumerate() {
        match op {
            Op::Add(t) => {
                let re = to_recexpr::<L>(t);
                match guarded(|| eg.add_syn_expr(re)) {
                    Ok(a) => {
                        tracked.push(a);
                        terms.push(t.clone());
                    }
                    Err(e) => return Err(format!("op{k}:add_syn_expr {e}")),
                }
            }
            Op::Union(i, j) => {
                if *i >= tracked.len() || *j >= tracked.len() {
                    continue;
                }
                let (a, b) = (tracked[*i].clone(), tracked[*j].clone());
                let label = format!("j{}", asserted.len());
                asserted.push(format!("{label}={}~{}", enc_term(&terms[*i]), enc_term(&terms[*j])));
                if let Err(e) = guarded(|| eg.union_justified(&a, &b, Some(label))) {
                    return Err(format!("op{k}:union_justified {e}"));
                }
            }
            Op::Query => {}
        }
    }
    let mut ex = Export { nodes: Vec::new(), index: HashMap::new() };
    let mut roots = Vec::new();
    let mut npairs = 0;
    'pairs: for i in 0..tracked.len() {
        for j in 0..tracked.len() {
            if i == j || npairs >= max_pairs {
                continue;
            }
            // both directions are queried (i<j and j<i): the proof of t_j = t_i is a different object
            if !eg.eq(&tracked[i], &tracked[j]) {
                continue;
            }
            npairs += 1;
            let (ri, rj) = (to_recexpr::<L>(&terms[i]), to_recexpr::<L>(&terms[j]));
            let p = match guarded(|| eg.explain_equivalence(ri, rj)) {
                Ok(p) => p,
                Err(e) => return Err(format!("explain({i},{j}) {e}")),
            };
            let root = match guarded(|| ex.export(&eg, &p)) {
                Ok(r) => r,
                Err(e) => return Err(format!("export({i},{j}) {e}")),
            };
            roots.push(format!("{root}:{}~{}", enc_term(&terms[i]), enc_term(&terms[j])));
            if printers {
                if let Err(e) = guarded(|| p.to_string(&eg).len()) {
                    return Err(format!("to_string({i},{j}) {e}"));
                }
                // `to_flat_string` is deliberately not called: it recurses forever on cyclic slot maps
                // (src/explain/flat.rs `map_slot`), a stack overflow no harness can catch; outside C07's statement.
            }
            if ex.nodes.len() > 4000 {
                break 'pairs;
            }
        }
    }
    let expected = format!("nodes:ok|roots:{}", "1".repeat(roots.len()));
    let max_nodes = ex.nodes.len();
    Ok(ExplOut { asserted, nodes: ex.nodes, roots, expected, max_nodes, tags })
}

#[cfg(feature = "explanations")]
pub fn exec_expl(ops: Vec<Op>, stream: &str, max_pairs: usize) -> Case {
    let ops2 = ops.clone();
    let r = in_fresh_thread(move || {
        intern_names();
        run_expl::<Main>(&ops2, max_pairs, true)
    });
    let head = format!("expl main;{}", enc_ops(&ops));
    let mut tags = vec![format!("s:{stream}")];
    match r {
        Ok(Ok(o)) => {
            tags.extend(o.tags.iter().cloned());
            let n = o.max_nodes;
            tags.push(format!("dag:{}", if n == 0 { "0" } else if n < 10 { "<10" } else if n < 50 { "<50" } else if n < 200 { "<200" } else { ">=200" }));
            for rule in ["explicit", "refl", "symm", "trans", "congr"] {
                if o.nodes.iter().any(|x| x.starts_with(rule)) {
                    tags.push(format!("r:{rule}"));
                }
            }
            let line = format!("{head}|{}|{}|{}", o.asserted.join("#"), o.nodes.join("#"), o.roots.join("#"));
            Case { line, impl_out: o.expected, nontrivial: !o.roots.is_empty(), tags }
        }
        Ok(Err(e)) => {
            tags.push("panic".into());
            Case { line: format!("{head}|||"), impl_out: format!("PANIC {e}"), nontrivial: true, tags }
        }
        Err(e) => {
            tags.push("panic".into());
            Case { line: format!("{head}|||"), impl_out: format!("PANIC thread {e}"), nontrivial: true, tags }
        }
    }
}


/// congruence stream: equal inner terms (asserted directly, through a chain, or through a symmetry) inside one- and
/// two-level contexts, half of them binders whose bound name occurs in the inner terms
#[cfg(feature = "explanations")]
fn gen_congr(rng: &mut crate::rng::Rng) -> Vec<Op> {
    use crate::terms::CField as F;
    let leaf = |v: usize, sl: &[u32]| ATerm { v, fields: sl.iter().map(|s| F::Slot(*s)).collect(), children: vec![] };
    let un = |v: usize, a: ATerm| ATerm { v, fields: vec![F::App], children: vec![a] };
    let bin = |v: usize, a: ATerm, b: ATerm| ATerm { v, fields: vec![F::App, F::App], children: vec![a, b] };
    let bind = |v: usize, x: u32, a: ATerm| ATerm { v, fields: vec![F::Bind(x, Box::new(F::App))], children: vec![a] };
    let bx = BINDERS[rng.below(BINDERS.len())];
    let under_binder = rng.chance(1, 2);
    // slots available to the inner terms: free ones, plus the bound name when under a binder
    let mut sl: Vec<u32> = FREE[..3].to_vec();
    if under_binder {
        sl[rng.below(3)] = bx;
    }
    rng.shuffle(&mut sl);
    let inner = |rng: &mut crate::rng::Rng, k: usize, sl: &[u32]| -> ATerm {
        match (k, rng.below(3)) {
            (3, 0) => leaf(8, sl),
            (3, 1) => leaf(12, sl),
            (3, _) => bin(14, leaf(7, &sl[0..2]), leaf(10, &sl[2..3])),
            (2, 0) => leaf(7, &sl[0..2]),
            (2, 1) => leaf(11, &sl[0..2]),
            (2, _) => un(13, leaf(11, &sl[0..2])),
            (_, 0) => leaf(10, &sl[0..1]),
            (_, _) => un(13, leaf(2, &sl[0..1])),
        }
    };
    let ka = rng.range(2, 3);
    let kb = if rng.chance(1, 3) { rng.range(1, ka) } else { ka }; // fewer slots on one side: redundancy under the context
    let a = inner(rng, ka, &sl);
    let mut b = inner(rng, kb, &sl);
    if b == a {
        b = un(13, a.clone());
    }
    // contexts are built deterministically from one choice so that both sides get the same context
    let choice = rng.below(3);
    let other = leaf(10, &[FREE[3]]);
    let ctx = |t: ATerm| -> ATerm {
        if under_binder {
            match choice {
                0 => bind(0, bx, t),
                1 => bind(6, bx, bin(5, t, leaf(2, &[bx]))),
                _ => bind(0, bx, bin(14, t, leaf(2, &[bx]))),
            }
        } else {
            match choice {
                0 => un(13, t),
                1 => bin(14, t, other.clone()),
                _ => bin(4, other.clone(), t),
            }
        }
    };
    let outer_choice = rng.below(3);
    let outer = |t: ATerm| -> ATerm {
        match outer_choice {
            0 => t,
            1 => un(13, t),
            _ => bin(14, t.clone(), t),
        }
    };
    let mut terms: Vec<ATerm> = Vec::new();
    let mut unions: Vec<(usize, usize)> = Vec::new();
    let mut push = |terms: &mut Vec<ATerm>, t: ATerm| -> usize {
        if let Some(i) = terms.iter().position(|x| *x == t) {
            i
        } else {
            terms.push(t);
            terms.len() - 1
        }
    };
    // inner terms can only be tracked (and unioned) when they are closed, i.e. not under the binder;
    // under a binder the equality of the bodies is asserted between closed wrappers `lam x. a` / `lam x. b`
    if under_binder {
        let la = push(&mut terms, bind(0, bx, a.clone()));
        let lb = push(&mut terms, bind(0, bx, b.clone()));
        // the bodies become equal only through congruence if we assert equality of closed sub-parts instead:
        // assert a' = b' for the closed instance with the bound name replaced by a free one, then compare binders
        let free_for_bx = FREE[4];
        let rho = move |c: u32| if c == bx { free_for_bx } else { c };
        let a2 = push(&mut terms, rename_free(&a, &rho));
        let b2 = push(&mut terms, rename_free(&b, &rho));
        unions.push((a2, b2));
        push(&mut terms, outer(ctx(a.clone())));
        push(&mut terms, outer(ctx(b.clone())));
        let _ = (la, lb);
    } else {
        let ia = push(&mut terms, a.clone());
        let ib = push(&mut terms, b.clone());
        if rng.chance(1, 3) {
            let c = leaf(11, &sl[0..2]);
            let ic = push(&mut terms, c);
            unions.push((ia, ic));
            unions.push((ic, ib));
        } else {
            unions.push((ia, ib));
        }
        if rng.chance(1, 2) && ka == 3 {
            // a symmetry of the inner term, so that the context needs a permuted child proof
            let mut p = sl.clone();
            p.rotate_left(1);
            let rho_sl = sl.clone();
            let rho = move |c: u32| rho_sl.iter().position(|x| *x == c).map(|i| p[i]).unwrap_or(c);
            let ar = push(&mut terms, rename_free(&a, &rho));
            unions.push((ia, ar));
            push(&mut terms, outer(ctx(rename_free(&a, &rho))));
        }
        push(&mut terms, outer(ctx(a.clone())));
        push(&mut terms, outer(ctx(b.clone())));
    }
    let mut ops: Vec<Op> = terms.into_iter().map(Op::Add).collect();
    for (i, j) in unions {
        if i != j {
            ops.push(Op::Union(i, j));
        }
    }
    ops.push(Op::Query);
    ops
}

#[cfg(feature = "explanations")]
pub fn run(ctx: &mut Ctx) {
    let max_pairs = ctx.param("max_pairs", 6);
    for _ in 0..ctx.count {
        let mut rng = ctx.rng.fork();
        let (ops, stream) = if rng.chance(1, 4) { (gen_congr(&mut rng), "congr") } else { gen_history(&mut rng) };
        ctx.emit(exec_expl(ops, stream, max_pairs));
    }
}

#[cfg(feature = "explanations")]
pub fn replay(body: &str) -> Case {
    let body = body.split('|').next().unwrap_or("");
    let body = body.strip_prefix("main;").unwrap_or(body);
    exec_expl(parse_ops(body), "replay", 6)
}

#[cfg(not(feature = "explanations"))]
pub fn run(_ctx: &mut crate::Ctx) {
    panic!("the expl suite needs the explanations build of the harness");
}
#[cfg(not(feature = "explanations"))]
pub fn replay(body: &str) -> Case {
    let _ = parse_ops;
    Case { line: format!("expl {body}"), impl_out: "PANIC needs-explanations-build".into(), nontrivial: false, tags: vec![] }
}
