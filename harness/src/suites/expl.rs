//! corr.proof — C07.  Histories of insertions and *justified* unions (explanations builds); for every
//! pair of tracked terms the e-graph reports equal, `explain_equivalence` is called and the returned proof
//! DAG is exported node by node (claims as terms through `get_syn_expr`) for the Lean proof checker.
//!
//! case line:  `expl main;<op>;...;<op>|<asserted>|<nodes>|<roots>`
//!   asserted: `j<k>=<term>~<term>` joined by `#`   (what the harness itself asserted, from the history)
//!   nodes:    `<rule>:<premise,premise>:<label or ->:<term>~<term>` joined by `#`, premises first
//!   roots:    `<node index>:<term>~<term>` joined by `#`  (the queried pair, from the history)
use crate::suites::eg::*;
use crate::Case;
#[cfg(feature = "explanations")]
use crate::langs::*;
#[cfg(feature = "explanations")]
use crate::terms::*;
#[cfg(feature = "explanations")]
use crate::util::*;
#[cfg(feature = "explanations")]
use crate::Ctx;
#[cfg(feature = "explanations")]
use slotted_egraphs::*;
#[cfg(feature = "explanations")]
use std::collections::HashMap;


/// histories of the proof suite: the operations of the `eg` suites plus one application of a rewrite rule
#[derive(Clone, Debug)]
pub enum XOp {
    Base(Op),
    Rw(usize),
}

/// substitution-free rules over the main language (name, left, right); the name is the justification of their leaves
pub const XRULES: [(&str, &str, &str); 8] = [
    ("r-add-comm", "(add ?a ?b)", "(add ?b ?a)"),
    ("r-mul-comm", "(mul ?a ?b)", "(mul ?b ?a)"),
    ("r-k-swap", "(k ?a ?b)", "(k ?b ?a)"),
    ("r-h-k", "(h ?a)", "(k ?a ?a)"),
    ("r-lam-h", "(lam $x ?b)", "(lam $x (h ?b))"),
    ("r-sum-swap", "(sum $x (sum $y ?a))", "(sum $y (sum $x ?a))"),
    ("r-f2-swap", "(f2 $x $y)", "(f2 $y $x)"),
    ("r-add-assoc", "(add (add ?a ?b) ?c)", "(add ?a (add ?b ?c))"),
];

pub fn enc_xops(ops: &[XOp]) -> String {
    ops.iter()
        .map(|o| match o {
            XOp::Base(b) => enc_ops(std::slice::from_ref(b)),
            XOp::Rw(i) => format!("R{i}"),
        })
        .collect::<Vec<_>>()
        .join(";")
}

pub fn parse_xops(body: &str) -> Vec<XOp> {
    body.split(';')
        .filter(|x| !x.is_empty())
        .map(|x| {
            if let Some(i) = x.strip_prefix('R') {
                XOp::Rw(i.parse().unwrap_or(0))
            } else {
                XOp::Base(parse_ops(x).into_iter().next().unwrap_or(Op::Query))
            }
        })
        .collect()
}

/// a pattern as a term whose pattern variables are leaves of the reserved variant 999
#[cfg(feature = "explanations")]
fn pat_to_aterm(p: &Pattern<Main>) -> ATerm {
    match p {
        Pattern::PVar(v) => ATerm { v: 999, fields: vec![CField::Lit(v.clone())], children: vec![] },
        Pattern::ENode(n, cs) => {
            let shell = from_recexpr::<Main>(&RecExpr { node: n.clone(), children: vec![] });
            ATerm { v: shell.v, fields: shell.fields, children: cs.iter().map(pat_to_aterm).collect() }
        }
        Pattern::Subst(..) => panic!("substitution patterns are not used in the proof suite"),
    }
}

#[cfg(feature = "explanations")]
struct Export {
    nodes: Vec<String>,
    index: HashMap<*const ProvenEqRaw, usize>,
}

#[cfg(feature = "explanations")]
impl Export {
    fn subproofs(p: &ProvenEqRaw) -> Vec<&ProvenEq> {
        match p.proof() {
            Proof::Explicit(_) | Proof::Reflexivity(_) => vec![],
            Proof::Symmetry(SymmetryProof(x)) => vec![x],
            Proof::Transitivity(TransitivityProof(x, y)) => vec![x, y],
            Proof::Congruence(CongruenceProof(xs)) => xs.iter().collect(),
        }
    }
    /// iterative post-order export (proofs can be deep); returns the index of `root`
    fn export<L: HLang, N: Analysis<L>>(&mut self, eg: &EGraph<L, N>, root: &ProvenEqRaw) -> usize {
        let mut stack: Vec<&ProvenEqRaw> = vec![root];
        'outer: while let Some(x) = stack.last().cloned() {
            let ptr = x as *const ProvenEqRaw;
            if self.index.contains_key(&ptr) {
                stack.pop();
                continue;
            }
            let mut ids = Vec::new();
            for sub in Self::subproofs(x) {
                let sp = (&**sub) as *const ProvenEqRaw;
                match self.index.get(&sp) {
                    Some(i) => ids.push(i.to_string()),
                    None => {
                        stack.push(sub);
                        continue 'outer;
                    }
                }
            }
            let (rule, label) = match x.proof() {
                Proof::Explicit(ExplicitProof(j)) => ("explicit", j.clone().unwrap_or_else(|| "none".into())),
                Proof::Reflexivity(_) => ("refl", "-".into()),
                Proof::Symmetry(_) => ("symm", "-".into()),
                Proof::Transitivity(_) => ("trans", "-".into()),
                Proof::Congruence(_) => ("congr", "-".into()),
            };
            let Equation { l, r } = x.equ();
            let lt = from_recexpr::<L>(&eg.get_syn_expr(&l));
            let rt = from_recexpr::<L>(&eg.get_syn_expr(&r));
            let i = self.nodes.len();
            self.nodes.push(format!("{rule}:{}:{label}:{}~{}", ids.join(","), enc_term(&lt), enc_term(&rt)));
            self.index.insert(ptr, i);
            stack.pop();
        }
        self.index[&(root as *const ProvenEqRaw)]
    }
}

#[cfg(feature = "explanations")]
pub struct ExplOut {
    pub asserted: Vec<String>,
    pub nodes: Vec<String>,
    pub roots: Vec<String>,
    pub expected: String,
    pub max_nodes: usize,
    pub tags: Vec<String>,
    pub rules: Vec<String>,
}

/// runs the history with justified unions, then explains every equal pair (at most `max_pairs`)
#[cfg(feature = "explanations")]
pub fn run_expl(ops: &[XOp], max_pairs: usize, printers: bool) -> Result<ExplOut, String> {
    type L = Main;
    // half of the histories (a hash of the history decides): another e-graph lived on this thread before — the same terms
    // inserted in the same order (hence the same class ids), but *other* equations asserted (each term with its successor,
    // under labels of its own) and explained.  Nothing of it may show up in the explanations of the e-graph under test
    {
        let key = enc_xops(ops);
        let h = key.bytes().fold(0xcbf29ce484222325u64, |h, b| (h ^ b as u64).wrapping_mul(0x100000001b3)) >> 11;
        if h % 2 == 1 {
            let mut warm: EGraph<L> = EGraph::default();
            let mut tr: Vec<(AppliedId, RecExpr<L>)> = Vec::new();
            for op in ops {
                if let XOp::Base(Op::Add(t)) = op {
                    let re = to_recexpr::<L>(t);
                    if let Ok(a) = guarded(|| warm.add_syn_expr(re.clone())) {
                        tr.push((a, re));
                    }
                }
            }
            for i in 0..tr.len().saturating_sub(1) {
                let (a, b) = (tr[i].0.clone(), tr[i + 1].0.clone());
                if a.slots() == b.slots() || a.slots().is_empty() || b.slots().is_empty() {
                    let _ = guarded(|| warm.union_justified(&a, &b, Some(format!("warm{i}"))));
                }
            }
            for i in 0..tr.len().saturating_sub(1).min(3) {
                if warm.eq(&tr[i].0, &tr[i + 1].0) {
                    let (x, y) = (tr[i].1.clone(), tr[i + 1].1.clone());
                    let _ = guarded(|| warm.explain_equivalence(x, y));
                }
            }
        }
    }
    let mut eg: EGraph<L> = EGraph::default();
    let mut rules_used: Vec<usize> = Vec::new();
    let mut tracked: Vec<AppliedId> = Vec::new();
    let mut terms: Vec<ATerm> = Vec::new();
    let mut asserted = Vec::new();
    let mut tags = Vec::new();
    for (k, op) in ops.iter().enumerate() {
        let op = match op {
            XOp::Rw(i) => {
                let (name, l, r) = XRULES[*i % XRULES.len()];
                let rw: Rewrite<L> = Rewrite::new(name, l, r);
                if eg.total_number_of_nodes() < 150 {
                    if let Err(e) = guarded(|| apply_rewrites(&mut eg, &[rw])) {
                        return Err(format!("op{k}:apply_rewrites {e}"));
                    }
                    if !rules_used.contains(&(*i % XRULES.len())) {
                        rules_used.push(*i % XRULES.len());
                    }
                }
                continue;
            }
            XOp::Base(b) => b,
        };
        match op {
            Op::Add(t) => {
                let re = to_recexpr::<L>(t);
                match guarded(|| eg.add_syn_expr(re)) {
                    Ok(a) => {
                        tracked.push(a);
                        terms.push(t.clone());
                    }
                    Err(e) => return Err(format!("op{k}:add_syn_expr {e}")),
                }
            }
            Op::Union(i, j) => {
                if *i >= tracked.len() || *j >= tracked.len() {
                    continue;
                }
                let (a, b) = (tracked[*i].clone(), tracked[*j].clone());
                let label = format!("j{}", asserted.len());
                asserted.push(format!("{label}={}~{}", enc_term(&terms[*i]), enc_term(&terms[*j])));
                if let Err(e) = guarded(|| eg.union_justified(&a, &b, Some(label))) {
                    return Err(format!("op{k}:union_justified {e}"));
                }
            }
            Op::Query => {}
        }
    }
    let mut ex = Export { nodes: Vec::new(), index: HashMap::new() };
    let mut roots = Vec::new();
    let mut npairs = 0;
    'pairs: for i in 0..tracked.len() {
        for j in 0..tracked.len() {
            if i == j || npairs >= max_pairs {
                continue;
            }
            // both directions are queried (i<j and j<i): the proof of t_j = t_i is a different object
            if !eg.eq(&tracked[i], &tracked[j]) {
                continue;
            }
            npairs += 1;
            let (ri, rj) = (to_recexpr::<L>(&terms[i]), to_recexpr::<L>(&terms[j]));
            let p = match guarded(|| eg.explain_equivalence(ri, rj)) {
                Ok(p) => p,
                Err(e) => return Err(format!("explain({i},{j}) {e}")),
            };
            let root = match guarded(|| ex.export(&eg, &p)) {
                Ok(r) => r,
                Err(e) => return Err(format!("export({i},{j}) {e}")),
            };
            roots.push(format!("{root}:{}~{}", enc_term(&terms[i]), enc_term(&terms[j])));
            if printers {
                if let Err(e) = guarded(|| p.to_string(&eg).len()) {
                    return Err(format!("to_string({i},{j}) {e}"));
                }
                // `to_flat_string` is deliberately not called: it recurses forever on cyclic slot maps
                // (src/explain/flat.rs `map_slot`), a stack overflow no harness can catch; outside C07's statement.
            }
            if ex.nodes.len() > 4000 {
                break 'pairs;
            }
        }
    }
    let expected = format!("nodes:ok|roots:{}", "1".repeat(roots.len()));
    let max_nodes = ex.nodes.len();
    // the rules that were applied, as terms with pattern-variable leaves (for the checker's rule-instance judgement)
    let rules: Vec<String> = rules_used
        .iter()
        .map(|i| {
            let (name, l, r) = XRULES[*i];
            let lp = Pattern::<Main>::parse(l).unwrap();
            let rp = Pattern::<Main>::parse(r).unwrap();
            format!("{name}={}~{}", enc_term(&pat_to_aterm(&lp)), enc_term(&pat_to_aterm(&rp)))
        })
        .collect();
    if !rules.is_empty() {
        tags.push("t:rule-applications".into());
    }
    Ok(ExplOut { asserted, nodes: ex.nodes, roots, expected, max_nodes, tags, rules })
}

#[cfg(feature = "explanations")]
pub fn exec_expl(ops: Vec<XOp>, stream: &str, max_pairs: usize) -> Case {
    let ops2 = ops.clone();
    let r = in_fresh_thread(move || {
        intern_names();
        run_expl(&ops2, max_pairs, true)
    });
    let head = format!("expl main;{}", enc_xops(&ops));
    let mut tags = vec![format!("s:{stream}")];
    match r {
        Ok(Ok(o)) => {
            tags.extend(o.tags.iter().cloned());
            let n = o.max_nodes;
            tags.push(format!("dag:{}", if n == 0 { "0" } else if n < 10 { "<10" } else if n < 50 { "<50" } else if n < 200 { "<200" } else { ">=200" }));
            for rule in ["explicit", "refl", "symm", "trans", "congr"] {
                if o.nodes.iter().any(|x| x.starts_with(rule)) {
                    tags.push(format!("r:{rule}"));
                }
            }
            let line = format!("{head}|{}|{}|{}|{}", o.asserted.join("#"), o.nodes.join("#"), o.roots.join("#"), o.rules.join("#"));
            Case { line, impl_out: o.expected, nontrivial: !o.roots.is_empty(), tags }
        }
        Ok(Err(e)) => {
            tags.push("panic".into());
            Case { line: format!("{head}|||"), impl_out: format!("PANIC {e}"), nontrivial: true, tags }
        }
        Err(e) => {
            tags.push("panic".into());
            Case { line: format!("{head}|||"), impl_out: format!("PANIC thread {e}"), nontrivial: true, tags }
        }
    }
}


/// congruence stream: equal inner terms (asserted directly, through a chain, or through a symmetry) inside one- and
/// two-level contexts, half of them binders whose bound name occurs in the inner terms
#[cfg(feature = "explanations")]
fn gen_congr(rng: &mut crate::rng::Rng) -> Vec<Op> {
    use crate::terms::CField as F;
    let leaf = |v: usize, sl: &[u32]| ATerm { v, fields: sl.iter().map(|s| F::Slot(*s)).collect(), children: vec![] };
    let un = |v: usize, a: ATerm| ATerm { v, fields: vec![F::App], children: vec![a] };
    let bin = |v: usize, a: ATerm, b: ATerm| ATerm { v, fields: vec![F::App, F::App], children: vec![a, b] };
    let bind = |v: usize, x: u32, a: ATerm| ATerm { v, fields: vec![F::Bind(x, Box::new(F::App))], children: vec![a] };
    let bx = BINDERS[rng.below(BINDERS.len())];
    let under_binder = rng.chance(1, 2);
    // slots available to the inner terms: free ones, plus the bound name when under a binder
    let mut sl: Vec<u32> = FREE[..3].to_vec();
    if under_binder {
        sl[rng.below(3)] = bx;
    }
    rng.shuffle(&mut sl);
    let inner = |rng: &mut crate::rng::Rng, k: usize, sl: &[u32]| -> ATerm {
        match (k, rng.below(3)) {
            (3, 0) => leaf(8, sl),
            (3, 1) => leaf(12, sl),
            (3, _) => bin(14, leaf(7, &sl[0..2]), leaf(10, &sl[2..3])),
            (2, 0) => leaf(7, &sl[0..2]),
            (2, 1) => leaf(11, &sl[0..2]),
            (2, _) => un(13, leaf(11, &sl[0..2])),
            (_, 0) => leaf(10, &sl[0..1]),
            (_, _) => un(13, leaf(2, &sl[0..1])),
        }
    };
    let ka = rng.range(2, 3);
    let kb = if rng.chance(1, 3) { rng.range(1, ka) } else { ka }; // fewer slots on one side: redundancy under the context
    let a = inner(rng, ka, &sl);
    let mut b = inner(rng, kb, &sl);
    if b == a {
        b = un(13, a.clone());
    }
    // contexts are built deterministically from one choice so that both sides get the same context
    let choice = rng.below(3);
    let other = leaf(10, &[FREE[3]]);
    let ctx = |t: ATerm| -> ATerm {
        if under_binder {
            match choice {
                0 => bind(0, bx, t),
                1 => bind(6, bx, bin(5, t, leaf(2, &[bx]))),
                _ => bind(0, bx, bin(14, t, leaf(2, &[bx]))),
            }
        } else {
            match choice {
                0 => un(13, t),
                1 => bin(14, t, other.clone()),
                _ => bin(4, other.clone(), t),
            }
        }
    };
    let outer_choice = rng.below(3);
    let outer = |t: ATerm| -> ATerm {
        match outer_choice {
            0 => t,
            1 => un(13, t),
            _ => bin(14, t.clone(), t),
        }
    };
    let mut terms: Vec<ATerm> = Vec::new();
    let mut unions: Vec<(usize, usize)> = Vec::new();
    let mut push = |terms: &mut Vec<ATerm>, t: ATerm| -> usize {
        if let Some(i) = terms.iter().position(|x| *x == t) {
            i
        } else {
            terms.push(t);
            terms.len() - 1
        }
    };
    // inner terms can only be tracked (and unioned) when they are closed, i.e. not under the binder;
    // under a binder the equality of the bodies is asserted between closed wrappers `lam x. a` / `lam x. b`
    if under_binder {
        let la = push(&mut terms, bind(0, bx, a.clone()));
        let lb = push(&mut terms, bind(0, bx, b.clone()));
        // the bodies become equal only through congruence if we assert equality of closed sub-parts instead:
        // assert a' = b' for the closed instance with the bound name replaced by a free one, then compare binders
        let free_for_bx = FREE[4];
        let rho = move |c: u32| if c == bx { free_for_bx } else { c };
        let a2 = push(&mut terms, rename_free(&a, &rho));
        let b2 = push(&mut terms, rename_free(&b, &rho));
        unions.push((a2, b2));
        push(&mut terms, outer(ctx(a.clone())));
        push(&mut terms, outer(ctx(b.clone())));
        let _ = (la, lb);
    } else {
        let ia = push(&mut terms, a.clone());
        let ib = push(&mut terms, b.clone());
        if rng.chance(1, 3) {
            let c = leaf(11, &sl[0..2]);
            let ic = push(&mut terms, c);
            unions.push((ia, ic));
            unions.push((ic, ib));
        } else {
            unions.push((ia, ib));
        }
        if rng.chance(1, 2) && ka == 3 {
            // a symmetry of the inner term, so that the context needs a permuted child proof
            let mut p = sl.clone();
            p.rotate_left(1);
            let rho_sl = sl.clone();
            let rho = move |c: u32| rho_sl.iter().position(|x| *x == c).map(|i| p[i]).unwrap_or(c);
            let ar = push(&mut terms, rename_free(&a, &rho));
            unions.push((ia, ar));
            push(&mut terms, outer(ctx(rename_free(&a, &rho))));
        }
        push(&mut terms, outer(ctx(a.clone())));
        push(&mut terms, outer(ctx(b.clone())));
    }
    let mut ops: Vec<Op> = terms.into_iter().map(Op::Add).collect();
    for (i, j) in unions {
        if i != j {
            ops.push(Op::Union(i, j));
        }
    }
    ops.push(Op::Query);
    ops
}

/// rule stream: pairs of terms that differ by one application of a pool rule (at the root or inside a context, also under
/// a binder), inserted syntactically, possibly with an extra justified union, then the rule is applied
#[cfg(feature = "explanations")]
fn gen_rules(rng: &mut crate::rng::Rng) -> Vec<XOp> {
    use crate::terms::CField as F;
    let leaf = |v: usize, sl: &[u32]| ATerm { v, fields: sl.iter().map(|s| F::Slot(*s)).collect(), children: vec![] };
    let var = |c: u32| leaf(2, &[c]);
    let un = |v: usize, a: ATerm| ATerm { v, fields: vec![F::App], children: vec![a] };
    let bin = |v: usize, a: ATerm, b: ATerm| ATerm { v, fields: vec![F::App, F::App], children: vec![a, b] };
    let bind = |v: usize, x: u32, a: ATerm| ATerm { v, fields: vec![F::Bind(x, Box::new(F::App))], children: vec![a] };
    let atoms: Vec<ATerm> = vec![var(4), var(8), var(2), leaf(7, &[4, 8]), leaf(10, &[4]), un(13, var(8)), bin(5, var(4), var(2))];
    let pick = |rng: &mut crate::rng::Rng| atoms[rng.below(atoms.len())].clone();
    let (a, b, c) = (pick(rng), pick(rng), pick(rng));
    let (bx, by) = (BINDERS[0], BINDERS[1]);
    let r = rng.below(XRULES.len());
    let (t, t2): (ATerm, ATerm) = match r {
        0 => (bin(4, a.clone(), b.clone()), bin(4, b.clone(), a.clone())),
        1 => (bin(5, a.clone(), b.clone()), bin(5, b.clone(), a.clone())),
        2 => (bin(14, a.clone(), b.clone()), bin(14, b.clone(), a.clone())),
        3 => (un(13, a.clone()), bin(14, a.clone(), a.clone())),
        4 => (bind(0, bx, bin(4, var(bx), a.clone())), bind(0, bx, un(13, bin(4, var(bx), a.clone())))),
        5 => (bind(6, bx, bind(6, by, bin(5, var(bx), bin(4, var(by), a.clone())))), bind(6, by, bind(6, bx, bin(5, var(bx), bin(4, var(by), a.clone()))))),
        6 => (leaf(7, &[4, 8]), leaf(7, &[8, 4])),
        _ => (bin(4, bin(4, a.clone(), b.clone()), c.clone()), bin(4, a.clone(), bin(4, b.clone(), c.clone()))),
    };
    // optionally inside a context (congruence above the rule leaf), also under a binder
    let ctx = rng.below(4);
    let wrap = |u: ATerm| -> ATerm {
        match ctx {
            0 => u,
            1 => un(13, u),
            2 => bin(14, u, var(12)),
            _ => bind(0, BINDERS[2], bin(4, u, var(BINDERS[2]))),
        }
    };
    let mut ops: Vec<XOp> = vec![XOp::Base(Op::Add(wrap(t.clone()))), XOp::Base(Op::Add(wrap(t2.clone())))];
    if rng.chance(1, 2) {
        // an unrelated term unioned with the left one: the explanation then mixes asserted and rule leaves
        ops.push(XOp::Base(Op::Add(pick(rng))));
        ops.push(XOp::Base(Op::Union(0, 2)));
    }
    ops.push(XOp::Rw(r));
    if rng.chance(1, 3) {
        ops.push(XOp::Rw(rng.below(XRULES.len())));
    }
    ops.push(XOp::Base(Op::Query));
    ops
}

#[cfg(feature = "explanations")]
pub fn run(ctx: &mut Ctx) {
    let max_pairs = ctx.param("max_pairs", 6);
    for _ in 0..ctx.count {
        let mut rng = ctx.rng.fork();
        let (ops, stream): (Vec<XOp>, &str) = match rng.below(13) {
            12 => (gen_sym4(&mut rng).into_iter().map(XOp::Base).collect(), "sym4"),
            11 => (crate::suites::eg::gen_wred(&mut rng).into_iter().map(XOp::Base).collect(), "wred"),
            10 => (gen_ground(&mut rng).into_iter().map(XOp::Base).collect(), "ground"),
            9 => (crate::suites::eg::gen_late_redundancy2(&mut rng).into_iter().map(XOp::Base).collect(), "latered2"),
            8 => (crate::suites::eg::gen_late_redundancy(&mut rng).into_iter().map(XOp::Base).collect(), "latered"),
            0 | 1 => (gen_congr(&mut rng).into_iter().map(XOp::Base).collect(), "congr"),
            2 | 3 => (gen_rules(&mut rng), "rules"),
            _ => {
                let (o, st) = gen_history(&mut rng);
                (o.into_iter().map(XOp::Base).collect(), st)
            }
        };
        ctx.emit(exec_expl(ops, stream, max_pairs));
    }
}

/// a four- or five-slot leaf whose symmetry group is generated by elements of order three and double transpositions (A4,
/// S4, and what they generate on five slots): groups with non-involutive elements in the stabiliser of the lowest moved slot,
/// where the two ways of composing a coset representative with the rest of a sifted permutation differ.  The tracked terms
/// are many spellings of the leaf (alone and below `h`), so the connecting permutations of the explained pairs vary.
#[cfg(feature = "explanations")]
fn gen_sym4(rng: &mut crate::rng::Rng) -> Vec<Op> {
    use crate::terms::CField as F;
    let n = if rng.chance(1, 4) { 5 } else { 4 };
    let v = if n == 4 { 9 } else { 20 };
    let slots: Vec<u32> = vec![2, 4, 8, 12, 16][..n].to_vec();
    let leaf = |p: &[usize]| ATerm { v, fields: p.iter().map(|i| F::Slot(slots[*i])).collect(), children: vec![] };
    let un = |a: ATerm| ATerm { v: 13, fields: vec![F::App], children: vec![a] };
    let id: Vec<usize> = (0..n).collect();
    // generators: a 3-cycle on three random positions, a double transposition, sometimes a plain transposition
    let mut gens: Vec<Vec<usize>> = Vec::new();
    let mut pos: Vec<usize> = (0..n).collect();
    rng.shuffle(&mut pos);
    let mut c3 = id.clone();
    c3[pos[0]] = id[pos[1]];
    c3[pos[1]] = id[pos[2]];
    c3[pos[2]] = id[pos[0]];
    gens.push(c3);
    rng.shuffle(&mut pos);
    let mut dt = id.clone();
    dt.swap(pos[0], pos[1]);
    dt.swap(pos[2], pos[3]);
    gens.push(dt);
    if rng.chance(1, 3) {
        rng.shuffle(&mut pos);
        let mut t = id.clone();
        t.swap(pos[0], pos[1]);
        gens.push(t);
    }
    let mut terms: Vec<ATerm> = vec![leaf(&id)];
    for g in &gens {
        terms.push(leaf(g));
    }
    let ngens = gens.len();
    for _ in 0..rng.range(3, 5) {
        let mut p = id.clone();
        rng.shuffle(&mut p);
        terms.push(if rng.chance(1, 3) { un(leaf(&p)) } else { leaf(&p) });
    }
    if rng.chance(1, 2) {
        terms.push(un(leaf(&id)));
    }
    let mut ops: Vec<Op> = terms.iter().cloned().map(Op::Add).collect();
    for k in 1..=ngens {
        ops.push(Op::Union(0, k));
    }
    ops.push(Op::Query);
    ops
}

/// closed terms only (symbols, numbers and operators over them): their classes have no slots, so class ids are all that
/// distinguishes the equations of two e-graphs
#[cfg(feature = "explanations")]
fn gen_ground(rng: &mut crate::rng::Rng) -> Vec<Op> {
    use crate::terms::CField as F;
    let sym = |s: &str| ATerm { v: 16, fields: vec![F::Lit(s.into())], children: vec![] };
    let un = |v: usize, a: ATerm| ATerm { v, fields: vec![F::App], children: vec![a] };
    let bin = |v: usize, a: ATerm, b: ATerm| ATerm { v, fields: vec![F::App, F::App], children: vec![a, b] };
    let n = rng.range(3, 4);
    let names = ["a", "b", "c", "d"];
    let mut terms: Vec<ATerm> = (0..n).map(|i| sym(names[i])).collect();
    for i in 0..rng.range(1, 3) {
        let x = terms[rng.below(n)].clone();
        let y = terms[rng.below(n)].clone();
        terms.push(if i % 2 == 0 { un(13, x) } else { bin(14, x, y) });
    }
    let mut ops: Vec<Op> = terms.iter().cloned().map(Op::Add).collect();
    // a few equations between the leaves, never the chain leaf i = leaf i+1 for all i
    for _ in 0..rng.range(1, 2) {
        let (i, j) = (rng.below(n), rng.below(n));
        if i != j && (i + 1 != j) && (j + 1 != i) {
            ops.push(Op::Union(i, j));
        } else if n >= 3 {
            ops.push(Op::Union(0, 2));
        }
    }
    ops.push(Op::Query);
    ops
}

#[cfg(feature = "explanations")]
pub fn replay(body: &str) -> Case {
    let body = body.split('|').next().unwrap_or("");
    let body = body.strip_prefix("main;").unwrap_or(body);
    exec_expl(parse_xops(body), "replay", 6)
}

#[cfg(not(feature = "explanations"))]
pub fn run(_ctx: &mut crate::Ctx) {
    panic!("the expl suite needs the explanations build of the harness");
}
#[cfg(not(feature = "explanations"))]
pub fn replay(body: &str) -> Case {
    let _ = parse_ops;
    Case { line: format!("expl {body}"), impl_out: "PANIC needs-explanations-build".into(), nontrivial: false, tags: vec![] }
}
