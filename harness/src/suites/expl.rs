//! corr.proof — C07.  Histories of insertions and *justified* unions (explanations builds); for every
//! pair of tracked terms the e-graph reports equal, `explain_equivalence` is called and the returned proof
//! DAG is exported node by node (claims as terms through `get_syn_expr`) for the Lean proof checker.
//!
//! case line:  `expl main;<op>;...;<op>|<asserted>|<nodes>|<roots>`
//!   asserted: `j<k>=<term>~<term>` joined by `#`   (what the harness itself asserted, from the history)
//!   nodes:    `<rule>:<premise,premise>:<label or ->:<term>~<term>` joined by `#`, premises first
//!   roots:    `<node index>:<term>~<term>` joined by `#`  (the queried pair, from the history)
use crate::suites::eg::*;
use crate::Case;
#[cfg(feature = "explanations")]
use crate::langs::*;
#[cfg(feature = "explanations")]
use crate::terms::*;
#[cfg(feature = "explanations")]
use crate::util::*;
#[cfg(feature = "explanations")]
use crate::Ctx;
#[cfg(feature = "explanations")]
use slotted_egraphs::*;
#[cfg(feature = "explanations")]
use std::collections::HashMap;

#[cfg(feature = "explanations")]
struct Export {
    nodes: Vec<String>,
    index: HashMap<*const ProvenEqRaw, usize>,
}

#[cfg(feature = "explanations")]
impl Export {
    fn subproofs(p: &ProvenEqRaw) -> Vec<&ProvenEq> {
        match p.proof() {
            Proof::Explicit(_) | Proof::Reflexivity(_) => vec![],
            Proof::Symmetry(SymmetryProof(x)) => vec![x],
            Proof::Transitivity(TransitivityProof(x, y)) => vec![x, y],
            Proof::Congruence(CongruenceProof(xs)) => xs.iter().collect(),
        }
    }
    /// iterative post-order export (proofs can be deep); returns the index of `root`
    fn export<L: HLang, N: Analysis<L>>(&mut self, eg: &EGraph<L, N>, root: &ProvenEqRaw) -> usize {
        let mut stack: Vec<&ProvenEqRaw> = vec![root];
        'outer: while let Some(x) = stack.last().cloned() {
            let ptr = x as *const ProvenEqRaw;
            if self.index.contains_key(&ptr) {
                stack.pop();
                continue;
            }
            let mut ids = Vec::new();
            for sub in Self::subproofs(x) {
                let sp = (&**sub) as *const ProvenEqRaw;
                match self.index.get(&sp) {
                    Some(i) => ids.push(i.to_string()),
                    None => {
                        stack.push(sub);
                        continue 'outer;
                    }
                }
            }
            let (rule, label) = match x.proof() {
                Proof::Explicit(ExplicitProof(j)) => ("explicit", j.clone().unwrap_or_else(|| "none".into())),
                Proof::Reflexivity(_) => ("refl", "-".into()),
                Proof::Symmetry(_) => ("symm", "-".into()),
                Proof::Transitivity(_) => ("trans", "-".into()),
                Proof::Congruence(_) => ("congr", "-".into()),
            };
            let Equation { l, r } = x.equ();
            let lt = from_recexpr::<L>(&eg.get_syn_expr(&l));
            let rt = from_recexpr::<L>(&eg.get_syn_expr(&r));
            let i = self.nodes.len();
            self.nodes.push(format!("{rule}:{}:{label}:{}~{}", ids.join(","), enc_term(&lt), enc_term(&rt)));
            self.index.insert(ptr, i);
            stack.pop();
        }
        self.index[&(root as *const ProvenEqRaw)]
    }
}

#[cfg(feature = "explanations")]
pub struct ExplOut {
    pub asserted: Vec<String>,
    pub nodes: Vec<String>,
    pub roots: Vec<String>,
    pub expected: String,
    pub max_nodes: usize,
    pub tags: Vec<String>,
}

/// runs the history with justified unions, then explains every equal pair (at most `max_pairs`)
#[cfg(feature = "explanations")]
pub fn run_expl<L: HLang>(ops: &[Op], max_pairs: usize, printers: bool) -> Result<ExplOut, String> {
    let mut eg: EGraph<L> = EGraph::default();
    let mut tracked: Vec<AppliedId> = Vec::new();
    let mut terms: Vec<ATerm> = Vec::new();
    let mut asserted = Vec::new();
    let mut tags = Vec::new();
    for (k, op) in ops.iter().enumerate() {
        match op {
            Op::Add(t) => {
                let re = to_recexpr::<L>(t);
                match guarded(|| eg.add_syn_expr(re)) {
                    Ok(a) => {
                        tracked.push(a);
                        terms.push(t.clone());
                    }
                    Err(e) => return Err(format!("op{k}:add_syn_expr {e}")),
                }
            }
            Op::Union(i, j) => {
                if *i >= tracked.len() || *j >= tracked.len() {
                    continue;
                }
                let (a, b) = (tracked[*i].clone(), tracked[*j].clone());
                let label = format!("j{}", asserted.len());
                asserted.push(format!("{label}={}~{}", enc_term(&terms[*i]), enc_term(&terms[*j])));
                if let Err(e) = guarded(|| eg.union_justified(&a, &b, Some(label))) {
                    return Err(format!("op{k}:union_justified {e}"));
                }
            }
            Op::Query => {}
        }
    }
    let mut ex = Export { nodes: Vec::new(), index: HashMap::new() };
    let mut roots = Vec::new();
    let mut npairs = 0;
    'pairs: for i in 0..tracked.len() {
        for j in 0..tracked.len() {
            if i == j || npairs >= max_pairs {
                continue;
            }
            // both directions are queried (i<j and j<i): the proof of t_j = t_i is a different object
            if !eg.eq(&tracked[i], &tracked[j]) {
                continue;
            }
            npairs += 1;
            let (ri, rj) = (to_recexpr::<L>(&terms[i]), to_recexpr::<L>(&terms[j]));
            let p = match guarded(|| eg.explain_equivalence(ri, rj)) {
                Ok(p) => p,
                Err(e) => return Err(format!("explain({i},{j}) {e}")),
            };
            let root = match guarded(|| ex.export(&eg, &p)) {
                Ok(r) => r,
                Err(e) => return Err(format!("export({i},{j}) {e}")),
            };
            roots.push(format!("{root}:{}~{}", enc_term(&terms[i]), enc_term(&terms[j])));
            if printers {
                if let Err(e) = guarded(|| p.to_string(&eg).len()) {
                    return Err(format!("to_string({i},{j}) {e}"));
                }
                // `to_flat_string` is deliberately not called: it recurses forever on cyclic slot maps
                // (src/explain/flat.rs `map_slot`), a stack overflow no harness can catch; outside C07's statement.
            }
            if ex.nodes.len() > 4000 {
                break 'pairs;
            }
        }
    }
    let expected = format!("nodes:ok|roots:{}", "1".repeat(roots.len()));
    let max_nodes = ex.nodes.len();
    Ok(ExplOut { asserted, nodes: ex.nodes, roots, expected, max_nodes, tags })
}

#[cfg(feature = "explanations")]
pub fn exec_expl(ops: Vec<Op>, stream: &str, max_pairs: usize) -> Case {
    let ops2 = ops.clone();
    let r = in_fresh_thread(move || {
        intern_names();
        run_expl::<Main>(&ops2, max_pairs, true)
    });
    let head = format!("expl main;{}", enc_ops(&ops));
    let mut tags = vec![format!("s:{stream}")];
    match r {
        Ok(Ok(o)) => {
            tags.extend(o.tags.iter().cloned());
            let n = o.max_nodes;
            tags.push(format!("dag:{}", if n == 0 { "0" } else if n < 10 { "<10" } else if n < 50 { "<50" } else if n < 200 { "<200" } else { ">=200" }));
            for rule in ["explicit", "refl", "symm", "trans", "congr"] {
                if o.nodes.iter().any(|x| x.starts_with(rule)) {
                    tags.push(format!("r:{rule}"));
                }
            }
            let line = format!("{head}|{}|{}|{}", o.asserted.join("#"), o.nodes.join("#"), o.roots.join("#"));
            Case { line, impl_out: o.expected, nontrivial: !o.roots.is_empty(), tags }
        }
        Ok(Err(e)) => {
            tags.push("panic".into());
            Case { line: format!("{head}|||"), impl_out: format!("PANIC {e}"), nontrivial: true, tags }
        }
        Err(e) => {
            tags.push("panic".into());
            Case { line: format!("{head}|||"), impl_out: format!("PANIC thread {e}"), nontrivial: true, tags }
        }
    }
}

#[cfg(feature = "explanations")]
pub fn run(ctx: &mut Ctx) {
    let max_pairs = ctx.param("max_pairs", 6);
    for _ in 0..ctx.count {
        let mut rng = ctx.rng.fork();
        let (ops, stream) = gen_history(&mut rng);
        ctx.emit(exec_expl(ops, stream, max_pairs));
    }
}

#[cfg(feature = "explanations")]
pub fn replay(body: &str) -> Case {
    let body = body.split('|').next().unwrap_or("");
    let body = body.strip_prefix("main;").unwrap_or(body);
    exec_expl(parse_ops(body), "replay", 6)
}

#[cfg(not(feature = "explanations"))]
pub fn run(_ctx: &mut crate::Ctx) {
    panic!("the expl suite needs the explanations build of the harness");
}
#[cfg(not(feature = "explanations"))]
pub fn replay(body: &str) -> Case {
    let _ = parse_ops;
    Case { line: format!("expl {body}"), impl_out: "PANIC needs-explanations-build".into(), nontrivial: false, tags: vec![] }
}
