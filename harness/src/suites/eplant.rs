//! corr.complete.planted — C02.  Histories with more slot names than the saturation oracle can afford (its universe grows
//! with the permutations of the name pool), judged against equalities that hold *by construction* instead: the expected
//! pairs are stated by the generator, the implementation's answers are compared with them (predicate) and with the Lean
//! snapshot model of `eq` on the dumped state (correspondence).
use crate::langs::*;
use crate::rng::Rng;
use crate::suites::eg::*;
use crate::terms::*;
use crate::util::*;
use crate::{Case, Ctx};
use slotted_egraphs::*;

fn exec(ops: Vec<Op>, expect_eq: Vec<(usize, usize)>, expect_ne: Vec<(usize, usize)>, stream: &str) -> Case {
    let sig = enc_sig(&Main::sig());
    let desc = enc_ops(&ops);
    let r = in_fresh_thread(move || {
        intern_names();
        let mut eg: EGraph<Main> = EGraph::default();
        let mut tracked: Vec<AppliedId> = Vec::new();
        for op in &ops {
            match op {
                Op::Add(t) => tracked.push(eg.add_expr(to_recexpr::<Main>(t))),
                Op::Union(i, j) => {
                    let (a, b2) = (tracked[*i].clone(), tracked[*j].clone());
                    eg.union(&a, &b2);
                }
                Op::Query => {}
            }
        }
        let snap = eg.verif_snapshot(|_| "-".to_string()).trim_end().replace('\n', "~");
        let mut qs: Vec<String> = vec!["inv".into()];
        let mut outs: Vec<String> = vec!["1".into()];
        let mut tags: Vec<String> = Vec::new();
        for (want, pairs) in [(true, &expect_eq), (false, &expect_ne)] {
            for (i, j) in pairs.iter() {
                let (a, b2) = (&tracked[*i], &tracked[*j]);
                qs.push(format!("eq {} {}", verif_enc_applied_id(a), verif_enc_applied_id(b2)));
                match guarded(|| eg.eq(a, b2)) {
                    Ok(x) => {
                        outs.push(b(x).to_string());
                        if x != want {
                            let t = if want { "viol:planted-equality-missing" } else { "viol:planted-inequality-reported-equal" };
                            if !tags.iter().any(|y| y == t) {
                                tags.push(t.to_string());
                            }
                        }
                    }
                    Err(_) => {
                        outs.push("panic".into());
                        tags.push("viol:eq-panics".into());
                    }
                }
            }
        }
        (snap, qs, outs, tags)
    });
    match r {
        Ok((snap, qs, outs, mut tags)) => {
            tags.push(format!("history:{}", desc.replace(',', "~")));
            tags.push(format!("s:{stream}"));
            Case { line: format!("snap {sig};{snap};{}", qs.join(";")), impl_out: outs.join(";"), nontrivial: true, tags }
        }
        Err(e) => Case { line: format!("snap {sig};;"), impl_out: format!("PANIC {e}"), nontrivial: true, tags: vec!["viol:panic".into(), format!("panic:{}", e.replace(',', " ")), format!("history:{}", desc.replace(',', "~"))] },
    }
}

pub fn run(ctx: &mut Ctx) {
    for _ in 0..ctx.count {
        let mut rng = ctx.rng.fork();
        // a parent over three occurrences of one child class (six slot names and a spare one)
        let ops: Vec<Op> = gen_tripledep(&mut rng).into_iter().collect();
        let nadds = ops.iter().filter(|o| matches!(o, Op::Add(_))).count();
        // adds: 0 parent, 1 parent with the spare name, 2 child, 3 flipped child, 4.. parents with one occurrence flipped
        let mut eqs = vec![(0usize, 1usize), (2, 3)];
        for k in 4..nadds {
            eqs.push((0, k));
        }
        ctx.emit(exec(ops, eqs, vec![(0, 2)], "tripledep"));
    }
}
