//! corr.eval — C03 (and the rewriting part of C08/C15): start terms, a random subset of the model-valid
//! rule pool, a few iterations; afterwards every e-node of every class is turned into a term and the
//! Lean evaluator decides whether all members of a class denote the same function of the class slots.
use crate::langs::*;
use crate::rng::Rng;
use crate::terms::*;
use crate::util::*;
use crate::{Case, Ctx};
use slotted_egraphs::*;
use std::collections::HashMap;

/// (name, lhs, rhs, explicit side conditions (slot, var)) — must equal `Rules.pool` in the Lean model
pub const POOL: [(&str, &str, &str, &[(&str, &str)]); 35] = [
    ("add-comm", "(add ?a ?b)", "(add ?b ?a)", &[]),
    ("add-assoc", "(add (add ?a ?b) ?c)", "(add ?a (add ?b ?c))", &[]),
    ("mul-comm", "(mul ?a ?b)", "(mul ?b ?a)", &[]),
    ("mul-assoc", "(mul (mul ?a ?b) ?c)", "(mul ?a (mul ?b ?c))", &[]),
    ("distrib", "(mul ?a (add ?b ?c))", "(add (mul ?a ?b) (mul ?a ?c))", &[]),
    ("factor", "(add (mul ?a ?b) (mul ?a ?c))", "(mul ?a (add ?b ?c))", &[]),
    ("add-zero", "(add ?a 0)", "?a", &[]),
    ("mul-one", "(mul ?a 1)", "?a", &[]),
    ("mul-zero", "(mul ?a 0)", "0", &[]),
    ("sum-add", "(sum $x (add ?a ?b))", "(add (sum $x ?a) (sum $x ?b))", &[]),
    ("sum-add-rev", "(add (sum $x ?a) (sum $y ?b))", "(sum $z (add ?a[(var $x) := (var $z)] ?b[(var $y) := (var $z)]))", &[]),
    ("sum-factor", "(sum $x (mul ?c ?a))", "(mul ?c (sum $x ?a))", &[("x", "c")]),
    ("sum-const", "(sum $x ?c)", "(mul 3 ?c)", &[("x", "c")]),
    ("sum-swap", "(sum $x (sum $y ?a))", "(sum $y (sum $x ?a))", &[]),
    ("sum-unroll", "(sum $x ?b)", "(add (add ?b[(var $x) := 0] ?b[(var $x) := 1]) ?b[(var $x) := 2])", &[]),
    ("let-subst", "(let $x ?b ?e)", "?b[(var $x) := ?e]", &[]),
    ("let-unused", "(let $x ?b ?e)", "?b", &[("x", "b")]),
    ("let-var", "(let $x (var $x) ?e)", "?e", &[]),
    ("let-add", "(let $x (add ?a ?b) ?e)", "(add (let $x ?a ?e) (let $x ?b ?e))", &[]),
    ("let-mul", "(let $x (mul ?a ?b) ?e)", "(mul (let $x ?a ?e) (let $x ?b ?e))", &[]),
    ("let-sum", "(let $x (sum $y ?b) ?e)", "(sum $y (let $x ?b ?e))", &[]),
    ("let-h", "(let $x (h ?a) ?e)", "(h (let $x ?a ?e))", &[]),
    ("k-def", "(k ?a ?b)", "(add (add (mul ?a ?b) ?a) (mul 2 ?b))", &[]),
    ("h-def", "(h ?a)", "(add (mul 3 ?a) 2)", &[]),
    ("sum2-factor", "(sum $o (sum $i (mul ?c ?a)))", "(sum $i (mul ?c (sum $o ?a)))", &[("o", "c")]),
    ("sum2-factor-b", "(sum $i (sum $o (mul ?c ?a)))", "(sum $o (mul ?c (sum $i ?a)))", &[("i", "c")]),
    ("sum-infactor", "(mul ?c (sum $x ?a))", "(sum $x (mul ?c ?a))", &[]),
    ("sum-infactor-f2", "(mul ?c (sum $f2 ?a))", "(sum $f2 (mul ?c ?a))", &[]),
    ("sum-infactor-f3", "(mul ?c (sum $f3 ?a))", "(sum $f3 (mul ?c ?a))", &[]),
    ("sum-infactor-f4", "(mul ?c (sum $f4 ?a))", "(sum $f4 (mul ?c ?a))", &[]),
    ("var-factor", "(add (mul (var $a) (var $b)) (var $a))", "(mul (var $a) (add (var $b) 1))", &[]),
    ("sum-infactor-var", "(mul ?a (sum $i (mul (var $i) ?b)))", "(sum $i (mul (var $i) (mul ?a ?b)))", &[]),
    ("let-intro", "(mul ?a ?b)", "(let $x (mul (mul (var $x) ?a) ?b) 1)", &[]),
    ("let-let-subst", "(let $x (let $y ?b ?f) ?e)", "?b[(var $y) := ?f][(var $x) := ?e]", &[]),
    ("sum2-const", "(sum $x (sum $y ?c))", "(mul 3 (mul 3 ?c))", &[("x", "c"), ("y", "c")]),
];

pub const BAD_POOL: [(&str, &str, &str, &[(&str, &str)]); 2] = [
    ("bad-sum-factor", "(sum $x (mul ?c ?a))", "(mul ?c (sum $x ?a))", &[]),
    ("bad-sum-const", "(sum $x ?c)", "?c", &[("x", "c")]),
];

pub fn show_pool(p: &[(&str, &str, &str, &[(&str, &str)])]) -> String {
    p.iter()
        .map(|(n, l, r, c)| format!("{n}|{l}|{r}|{}", c.iter().map(|(x, a)| format!("{x}/{a}")).collect::<Vec<_>>().join(",")))
        .collect::<Vec<_>>()
        .join(";")
}

pub fn mk_rule<N: Analysis<Main> + 'static>(r: &(&str, &str, &str, &[(&str, &str)])) -> Rewrite<Main, N> {
    let conds: Vec<(String, String)> = r.3.iter().map(|(x, a)| (x.to_string(), a.to_string())).collect();
    if conds.is_empty() {
        Rewrite::new(r.0, r.1, r.2)
    } else {
        let slots: Vec<(Slot, String)> = conds.iter().map(|(x, a)| (Slot::named(x), a.clone())).collect();
        Rewrite::new_if(r.0, r.1, r.2, move |subst, _| slots.iter().all(|(s, a)| !subst[a].slots().contains(s)))
    }
}

/// the crate's own `slot_free_in` helper (exercised in half of the runs)
pub fn mk_rule_helper<N: Analysis<Main> + 'static>(r: &(&str, &str, &str, &[(&str, &str)])) -> Rewrite<Main, N> {
    match r.3 {
        [] => Rewrite::new(r.0, r.1, r.2),
        [(x, a)] => Rewrite::new_if(r.0, r.1, r.2, slot_free_in(x, a)),
        [(x, a), (y, b2)] => Rewrite::new_if(r.0, r.1, r.2, and(slot_free_in(x, a), slot_free_in(y, b2))),
        _ => mk_rule(r),
    }
}

/// the same rule with every slot it writes (`$x`, `$y`, `$o`, ..) spelled like a fresh slot the library has not handed out
/// yet (`$f900`, `$f901`, ..) — an alpha-variant, so its meaning is that of the pool entry
pub fn mk_rule_spelled<N: Analysis<Main> + 'static>(r: &(&str, &str, &str, &[(&str, &str)]), base: usize, helper: bool) -> Rewrite<Main, N> {
    const NAMES: [&str; 7] = ["x", "y", "z", "o", "i", "a", "b"];
    let spell = |t: &str| -> String {
        let mut out = String::new();
        let cs: Vec<char> = t.chars().collect();
        let mut k = 0;
        while k < cs.len() {
            if cs[k] == '$' {
                let mut e = k + 1;
                while e < cs.len() && (cs[e].is_alphanumeric() || cs[e] == '_') {
                    e += 1;
                }
                let name: String = cs[k + 1..e].iter().collect();
                match NAMES.iter().position(|n| *n == name) {
                    Some(i) => out.push_str(&format!("$f{}", base + i)),
                    None => out.push_str(&format!("${name}")),
                }
                k = e;
            } else {
                out.push(cs[k]);
                k += 1;
            }
        }
        out
    };
    let sname = |x: &str| match NAMES.iter().position(|n| *n == x) {
        Some(i) => format!("f{}", base + i),
        None => x.to_string(),
    };
    let (l, rr) = (spell(r.1), spell(r.2));
    let conds: Vec<(String, String)> = r.3.iter().map(|(x, a)| (sname(x), a.to_string())).collect();
    match (helper, conds.as_slice()) {
        (_, []) => Rewrite::new(r.0, &l, &rr),
        (true, [(x, a)]) => Rewrite::new_if(r.0, &l, &rr, slot_free_in(x, a)),
        _ => {
            let slots: Vec<(Slot, String)> = conds.iter().map(|(x, a)| (Slot::named(x), a.clone())).collect();
            Rewrite::new_if(r.0, &l, &rr, move |subst, _| slots.iter().all(|(s, a)| !subst[a].slots().contains(s)))
        }
    }
}

// ---------------------------------------------------------------- representative terms (harness side)

fn rename_re(re: &RecExpr<Main>, m: &SlotMap) -> RecExpr<Main> {
    let mut node = re.node.clone();
    for s in node.all_slot_occurrences_mut() {
        if let Some(t) = m.get(*s) {
            *s = t;
        }
    }
    RecExpr { node, children: re.children.iter().map(|c| rename_re(c, m)).collect() }
}

/// nesting depth of `sum` binders (the Lean evaluator costs 7^depth)
fn sum_depth(re: &RecExpr<Main>) -> usize {
    let d = re.children.iter().map(sum_depth).max().unwrap_or(0);
    if matches!(re.node, Main::Sum(_)) { d + 1 } else { d }
}

fn re_size(re: &RecExpr<Main>) -> usize {
    1 + re.children.iter().map(re_size).sum::<usize>()
}

fn term_of_node(n: &Main, reps: &HashMap<Id, RecExpr<Main>>) -> Option<RecExpr<Main>> {
    // e-nodes come out of their shapes with every binder named `$0`: give each binder its own fresh name
    // before representatives are plugged in (capture avoidance)
    let n = &n.refresh_private();
    let mut children = Vec::new();
    for a in n.applied_id_occurrences() {
        let r = reps.get(&a.id)?;
        children.push(rename_re(r, &a.m));
    }
    let mut node = n.clone();
    for a in node.applied_id_occurrences_mut() {
        *a = AppliedId::null();
    }
    Some(RecExpr { node, children })
}

pub fn representatives<N: Analysis<Main>>(eg: &EGraph<Main, N>) -> HashMap<Id, RecExpr<Main>> {
    let mut reps: HashMap<Id, RecExpr<Main>> = HashMap::new();
    loop {
        let mut changed = false;
        for i in eg.ids() {
            for n in eg.enodes(i) {
                if let Some(t) = term_of_node(&n, &reps) {
                    let better = match reps.get(&i) {
                        None => true,
                        Some(old) => re_size(&t) < re_size(old),
                    };
                    if better && re_size(&t) < 200 {
                        reps.insert(i, t);
                        changed = true;
                    }
                }
            }
        }
        if !changed {
            break;
        }
    }
    reps
}

/// one `ev` group per live class: class slots, then one term per e-node (children replaced by representatives)
pub fn eval_groups<N: Analysis<Main>>(eg: &EGraph<Main, N>, extra: &[(AppliedId, RecExpr<Main>)]) -> (Vec<String>, usize) {
    let reps = representatives(eg);
    let mut groups = Vec::new();
    let mut skipped = 0;
    for i in eg.ids() {
        let mut terms: Vec<String> = Vec::new();
        for n in eg.enodes(i) {
            match term_of_node(&n, &reps) {
                Some(t) if sum_depth(&t) <= 6 && re_size(&t) <= 200 => terms.push(enc_term(&from_recexpr::<Main>(&t))),
                _ => skipped += 1,
            }
        }
        // originally inserted terms that live in this class, renamed to the class slots
        for (a, re) in extra {
            let f = eg.find_applied_id(a);
            if f.id == i {
                let inv = f.m.inverse();
                if sum_depth(re) <= 6 {
                    terms.push(enc_term(&from_recexpr::<Main>(&rename_re(re, &inv))));
                }
            }
        }
        if terms.len() >= 2 {
            let mut sl: Vec<u32> = eg.slots(i).iter().map(|s| code(*s)).collect();
            sl.sort();
            groups.push(format!("[{}]!{}", sl.iter().map(|x| x.to_string()).collect::<Vec<_>>().join(","), terms.join("!")));
        }
    }
    (groups, skipped)
}

// ---------------------------------------------------------------- generator

// slots occur only through `(var $x)`: the substitution form b[(var $x) := t] is meaningful only then
const ARITH_LEAVES: [usize; 5] = [2, 2, 2, 15, 16]; // var var var Number Symbol
const ARITH_INNER: [usize; 8] = [4, 5, 4, 5, 6, 3, 13, 14]; // add mul add mul sum let h k

pub fn gen_arith(rng: &mut Rng, depth: usize) -> ATerm {
    let mut allowed: Vec<usize> = ARITH_LEAVES.to_vec();
    allowed.extend(ARITH_INNER.iter());
    let mut g = TermGen { rng, sig: Main::sig(), free: vec![4, 8, 2], binders: vec![10, 14, 18], leaf_bias: 2, allowed };
    g.term(depth, &mut Vec::new())
}

/// `s1*s2 + s3` (sometimes commuted) over three of four slot names whose codes sort in different orders; `s3` is `s1` in a
/// third of the cases (a genuine instance of `var-factor`), `s2` or another slot otherwise
pub fn gen_var_factor_term(rng: &mut Rng) -> ATerm {
    let var = |c: u32| ATerm { v: 2, fields: vec![CField::Slot(c)], children: vec![] };
    let bin = |v: usize, a: ATerm, b: ATerm| ATerm { v, fields: vec![CField::App, CField::App], children: vec![a, b] };
    let mut names: Vec<u32> = vec![4, 8, 2, 6];
    rng.shuffle(&mut names);
    let (s1, s2) = (names[0], names[1]);
    let s3 = match rng.below(3) {
        0 => s1,
        1 => names[2],
        _ => s2,
    };
    let prod = if rng.chance(1, 4) { bin(5, var(s2), var(s1)) } else { bin(5, var(s1), var(s2)) };
    if rng.chance(1, 4) { bin(4, var(s3), prod) } else { bin(4, prod, var(s3)) }
}

pub fn exec_rw(start: Vec<ATerm>, rules: Vec<usize>, iters: usize, subst_extraction: bool, use_helper: bool, bad: bool) -> Case {
    let desc = format!(
        "start={} rules={} iters={iters} subst={} helper={use_helper}",
        start.iter().map(enc_term).collect::<Vec<_>>().join("+"),
        rules.iter().map(|i| if bad { BAD_POOL[*i].0 } else { POOL[*i].0 }).collect::<Vec<_>>().join("."),
        if subst_extraction { "extraction" } else { "synexpr" }
    );
    let has_binder_rule = rules.iter().any(|i| !bad && ((9..=21).contains(i) || *i >= 24));
    let desc_hash = desc.bytes().fold(0xcbf29ce484222325u64, |h, b| (h ^ b as u64).wrapping_mul(0x100000001b3)) >> 9;
    let r = in_fresh_thread(move || {
        intern_names();
        // pattern slot names in a fixed interning order that is NOT the order of their first use in the rule
        // texts (so that outer pattern binders can have larger codes than inner ones)
        for nm in ["i", "z", "y", "x", "o"] {
            let _ = Slot::named(nm);
        }
        let mut eg: EGraph<Main> = if subst_extraction { EGraph::with_subst_method::<ExtractionSubst>(()) } else { EGraph::new(()) };
        let mut extra = Vec::new();
        for t in &start {
            let re = to_recexpr::<Main>(t);
            let a = eg.add_expr(re.clone());
            extra.push((a, re));
        }
        // a quarter of the runs (decided by the description, so a replay does the same): the rules' own slots are spelled
        // `$f<N>` with N ahead of the fresh counter, and the rules are parsed only now, after the terms were inserted
        // (the first rule of the list gets the highest numbers: the first fresh slot drawn afterwards is then up against one
        // of *its* names)
        let spelled = !bad && desc_hash % 3 == 0;
        let base = 40 + (desc_hash / 3 % 900) as usize;
        let nrules = rules.len();
        let rws: Vec<Rewrite<Main>> = rules
            .iter()
            .enumerate()
            .map(|(k, i)| {
                let r = if bad { &BAD_POOL[*i] } else { &POOL[*i] };
                if spelled {
                    mk_rule_spelled(r, base + 10 * (nrules - k), use_helper)
                } else if use_helper {
                    mk_rule_helper(r)
                } else {
                    mk_rule(r)
                }
            })
            .collect();
        // half of the runs: the very same rule objects have been used on another e-graph before (rules carry no state from
        // one e-graph to the next)
        if desc_hash % 2 == 1 {
            let mut warm: EGraph<Main> = if subst_extraction { EGraph::with_subst_method::<ExtractionSubst>(()) } else { EGraph::new(()) };
            for t in &start {
                warm.add_expr(to_recexpr::<Main>(t));
            }
            let _ = guarded(|| apply_rewrites(&mut warm, &rws));
        }
        let mut fired = 0;
        for _ in 0..iters {
            if eg.total_number_of_nodes() > 300 {
                break;
            }
            if apply_rewrites(&mut eg, &rws) {
                fired += 1;
            } else {
                break;
            }
        }
        let (groups, skipped) = eval_groups(&eg, &extra);
        (groups, skipped, fired, eg.total_number_of_nodes())
    });
    match r {
        Ok((groups, skipped, fired, nodes)) => {
            let ones = vec!["1"; groups.len()].join(";");
            let mut tags = vec![format!("run:{}", desc.replace(',', "~")), format!("nodes:{}", nodes / 50 * 50)];
            if skipped > 0 {
                tags.push("skipped-cyclic".into());
            }
            Case { line: format!("ev {}", groups.join(";")), impl_out: ones, nontrivial: fired > 0 && has_binder_rule, tags }
        }
        Err(e) => Case { line: "ev ".into(), impl_out: format!("PANIC {e}"), nontrivial: true, tags: vec!["viol:panic".into(), format!("panic:{}", e.replace(',', " ")), format!("run:{}", desc.replace(',', "~"))] },
    }
}

pub fn run(ctx: &mut Ctx) {
    // the rule table itself is a case: the harness's strings vs the Lean model's pool
    if ctx.shard == 0 {
        ctx.emit(Case { line: "rules pool".into(), impl_out: show_pool(&POOL), nontrivial: false, tags: vec![] });
        ctx.emit(Case { line: "rules bad".into(), impl_out: show_pool(&BAD_POOL), nontrivial: false, tags: vec![] });
    }
    let bad = ctx.param("bad", 0) == 1;
    let allow_extraction = ctx.param("extraction", 1) == 1;
    for _ in 0..ctx.count {
        let mut rng = ctx.rng.fork();
        let nstart = rng.range(1, 2);
        let mut start: Vec<ATerm> = (0..nstart)
            .map(|_| {
                let d = rng.range(2, 3);
                gen_arith(&mut rng, d)
            })
            .collect();
        if rng.chance(1, 3) {
            // nested summations over products whose factors mention one or both bound variables
            let var = |c: u32| ATerm { v: 2, fields: vec![CField::Slot(c)], children: vec![] };
            let (p, q) = if rng.chance(1, 2) { (10u32, 14u32) } else { (14u32, 10u32) };
            let free = 4u32;
            let mut pick = |rng: &mut Rng| -> ATerm {
                match rng.below(5) {
                    0 => var(p),
                    1 => var(q),
                    2 => var(free),
                    3 => ATerm { v: 4, fields: vec![CField::App, CField::App], children: vec![var(p), var(q)] },
                    _ => ATerm { v: 5, fields: vec![CField::App, CField::App], children: vec![var(q), var(free)] },
                }
            };
            let body = ATerm { v: 5, fields: vec![CField::App, CField::App], children: vec![pick(&mut rng), pick(&mut rng)] };
            let inner = ATerm { v: 6, fields: vec![CField::Bind(q, Box::new(CField::App))], children: vec![body] };
            start.push(ATerm { v: 6, fields: vec![CField::Bind(p, Box::new(CField::App))], children: vec![inner] });
        }
        // a binding around nested binders whose inner scope mentions the outer bound variable: substitution
        // (`?b[(var $x) := ?e]`, built from the class's syntactic term) has to go under both binders without capture
        let mut force: Vec<&str> = Vec::new();
        if !bad && rng.chance(1, 4) {
            let var = |c: u32| ATerm { v: 2, fields: vec![CField::Slot(c)], children: vec![] };
            let bin = |v: usize, a: ATerm, b: ATerm| ATerm { v, fields: vec![CField::App, CField::App], children: vec![a, b] };
            let sum = |x: u32, b: ATerm| ATerm { v: 6, fields: vec![CField::Bind(x, Box::new(CField::App))], children: vec![b] };
            let (x, i, j, w) = (18u32, 10u32, 14u32, 2u32);
            let ij = match rng.below(3) {
                0 => bin(5, var(i), var(j)),
                1 => bin(4, var(i), bin(5, var(j), var(j))),
                _ => bin(5, bin(4, var(i), var(x)), var(j)),
            };
            let body = sum(i, sum(j, bin(5, var(x), ij)));
            let value = match rng.below(3) {
                0 => var(w),
                1 => bin(4, var(w), ATerm { v: 15, fields: vec![CField::Lit("1".into())], children: vec![] }),
                _ => ATerm { v: 15, fields: vec![CField::Lit("2".into())], children: vec![] },
            };
            let t = ATerm { v: 3, fields: vec![CField::Bind(x, Box::new(CField::App)), CField::App], children: vec![body.clone(), value] };
            if rng.chance(1, 3) {
                start = vec![sum(i, sum(j, bin(5, var(w), bin(4, var(i), var(j)))))];
                force.push("sum-unroll");
            } else {
                start = vec![t];
                force.push("let-subst");
            }
        }
        if !bad && force.is_empty() && rng.chance(1, 6) {
            // a factor with a free slot next to a binder; rules whose binder is spelled like the library's own fresh slots
            // (`$f2`..`$f4`, names that class parameters really carry): moving the factor under the binder must not capture
            let var = |c: u32| ATerm { v: 2, fields: vec![CField::Slot(c)], children: vec![] };
            let bin = |v: usize, a: ATerm, b: ATerm| ATerm { v, fields: vec![CField::App, CField::App], children: vec![a, b] };
            let sum = |x: u32, b: ATerm| ATerm { v: 6, fields: vec![CField::Bind(x, Box::new(CField::App))], children: vec![b] };
            let one = ATerm { v: 15, fields: vec![CField::Lit("1".into())], children: vec![] };
            let (y, w, j) = (2u32, 6u32, 10u32);
            let factor = match rng.below(3) {
                0 => var(y),
                1 => bin(4, var(y), one.clone()),
                _ => bin(5, var(y), var(w)),
            };
            let body = match rng.below(3) {
                0 => var(j),
                1 => bin(4, var(j), one),
                _ => bin(5, var(j), var(y)),
            };
            let t = bin(5, factor, sum(j, body));
            start = if rng.chance(1, 2) { vec![t] } else { vec![var(w), t] };
            force.extend(["sum-infactor-f2", "sum-infactor-f3", "sum-infactor-f4", "sum-infactor"]);
        }
        if !bad && force.is_empty() && rng.chance(1, 8) {
            // the rule mentions its bound slot explicitly: `x * sum_k (v * y)` with `v` the bound `k` (an instance) or the
            // free `x` that also occurs in the factor (not an instance: matching `(var $i)` against it would capture)
            let var = |c: u32| ATerm { v: 2, fields: vec![CField::Slot(c)], children: vec![] };
            let bin = |v: usize, a: ATerm, b: ATerm| ATerm { v, fields: vec![CField::App, CField::App], children: vec![a, b] };
            let sum = |x: u32, b: ATerm| ATerm { v: 6, fields: vec![CField::Bind(x, Box::new(CField::App))], children: vec![b] };
            let (x, y, k) = (4u32, 8u32, 10u32);
            let factor = if rng.chance(1, 2) { var(x) } else { bin(4, var(x), var(y)) };
            let head = match rng.below(3) {
                0 => var(k),
                _ => var(x),
            };
            let rest = if rng.chance(1, 2) { var(y) } else { bin(4, var(y), var(k)) };
            let t = bin(5, factor, sum(k, bin(5, head, rest)));
            start = if rng.chance(1, 2) { vec![t] } else { vec![t, var(2)] };
            force.push("sum-infactor-var");
        } else if !bad && force.is_empty() && rng.chance(1, 8) {
            // a rule with free pattern slots, one of them used twice: `p*q + r` must only be rewritten when `r` is `p`,
            // whatever the sort order of the three slot names
            let t = gen_var_factor_term(&mut rng);
            start = if rng.chance(1, 2) { vec![t] } else { vec![t, gen_var_factor_term(&mut rng)] };
            force.push("var-factor");
        }
        if !bad && force.is_empty() && rng.chance(1, 10) {
            // a rule whose binder only the right side writes, around variables that carry slots: no bound slot is met while
            // matching, so the first fresh slot the matcher draws names a slot of `?a` or `?b` (it must stay clear of the
            // binder the rule spells, see `mk_rule_spelled`)
            let var = |c: u32| ATerm { v: 2, fields: vec![CField::Slot(c)], children: vec![] };
            let bin = |v: usize, a: ATerm, b: ATerm| ATerm { v, fields: vec![CField::App, CField::App], children: vec![a, b] };
            let (p, q, r2) = (4u32, 8u32, 2u32);
            let t = match rng.below(3) {
                0 => bin(5, var(p), var(q)),
                1 => bin(5, bin(4, var(p), var(r2)), var(q)),
                _ => bin(5, var(p), bin(5, var(q), var(r2))),
            };
            start = if rng.chance(1, 2) { vec![t] } else { vec![t, var(p)] };
            force.push("let-intro");
        }
        if !bad && force.is_empty() && rng.chance(1, 10) {
            // a class with a binder is created over the free slot `$1` and reached again over `$0` — the name stored shapes use for
            // their first binder; the substitution `?b[(var $x) := ?e]` then rebuilds the class's term for an invocation with `$0`
            let var = |c: u32| ATerm { v: 2, fields: vec![CField::Slot(c)], children: vec![] };
            let bin = |v: usize, a: ATerm, b: ATerm| ATerm { v, fields: vec![CField::App, CField::App], children: vec![a, b] };
            let sum = |x: u32, b: ATerm| ATerm { v: 6, fields: vec![CField::Bind(x, Box::new(CField::App))], children: vec![b] };
            let lt = |x: u32, b: ATerm, e: ATerm| ATerm { v: 3, fields: vec![CField::Bind(x, Box::new(CField::App)), CField::App], children: vec![b, e] };
            let num = |s: &str| ATerm { v: 15, fields: vec![CField::Lit(s.into())], children: vec![] };
            let (x, i) = (18u32, 10u32);
            let body = |free: u32, rng: &mut Rng| match rng.below(3) {
                0 => sum(i, bin(5, var(i), var(free))),
                1 => sum(i, bin(4, bin(5, var(i), var(free)), var(x))),
                _ => sum(i, bin(5, var(free), bin(4, var(i), var(i)))),
            };
            let k = rng.below(3);
            let mut r1 = Rng::new(k as u64 + 1);
            let mut r2 = Rng::new(k as u64 + 1);
            let t1 = lt(x, body(4, &mut r1), num("1"));
            let t2 = lt(x, body(0, &mut r2), num("2"));
            start = vec![t1, t2];
            force.push("let-subst");
        }
        let mut force_ext = false;
        if !bad && force.is_empty() && rng.chance(1, 8) {
            // nested bindings: the body of the outer redex is itself a redex. Both are matched in the same round; once the inner
            // one has been rewritten, the outer match names a class that has been merged away, and (with `ExtractionSubst`)
            // the substitution works on a term extracted through that outdated invocation
            let var = |c: u32| ATerm { v: 2, fields: vec![CField::Slot(c)], children: vec![] };
            let bin = |v: usize, a: ATerm, b: ATerm| ATerm { v, fields: vec![CField::App, CField::App], children: vec![a, b] };
            let lt = |x: u32, b: ATerm, e: ATerm| ATerm { v: 3, fields: vec![CField::Bind(x, Box::new(CField::App)), CField::App], children: vec![b, e] };
            let (x, y, a, b2) = (10u32, 14u32, 4u32, 8u32);
            let inner_body = match rng.below(3) {
                0 => bin(4, var(y), var(x)),
                1 => bin(5, var(x), bin(4, var(y), var(a))),
                _ => bin(4, bin(5, var(y), var(y)), var(x)),
            };
            let inner_val = if rng.chance(1, 2) { var(a) } else { bin(4, var(a), var(x)) };
            let outer_val = if rng.chance(1, 2) { var(b2) } else { bin(5, var(b2), ATerm { v: 15, fields: vec![CField::Lit("2".into())], children: vec![] }) };
            let t = lt(x, lt(y, inner_body, inner_val), outer_val);
            start = if rng.chance(1, 2) { vec![t] } else { vec![t, var(a)] };
            force.push("let-subst");
            force_ext = allow_extraction && rng.chance(2, 3);
        }
        if !bad && force.is_empty() && rng.chance(1, 10) {
            // two nested bindings whose inner value mentions the outer variable, inlined by ONE rule with chained substitutions:
            // the outer substitution has to reach the copies of `?f` the inner one put in
            let var = |c: u32| ATerm { v: 2, fields: vec![CField::Slot(c)], children: vec![] };
            let bin = |v: usize, a: ATerm, b: ATerm| ATerm { v, fields: vec![CField::App, CField::App], children: vec![a, b] };
            let lt = |x: u32, b: ATerm, e: ATerm| ATerm { v: 3, fields: vec![CField::Bind(x, Box::new(CField::App)), CField::App], children: vec![b, e] };
            let num = |s: &str| ATerm { v: 15, fields: vec![CField::Lit(s.into())], children: vec![] };
            let (x, y, a) = (10u32, 14u32, 4u32);
            let body = match rng.below(3) {
                0 => bin(4, var(y), var(y)),
                1 => bin(5, var(y), bin(4, var(x), var(y))),
                _ => bin(4, bin(5, var(y), var(a)), var(y)),
            };
            let f = match rng.below(3) {
                0 => bin(5, var(x), num("2")),
                1 => bin(4, var(x), var(a)),
                _ => bin(5, var(x), var(x)),
            };
            let e = if rng.chance(1, 2) { var(a) } else { num("3") };
            let t = lt(x, lt(y, body, f.clone()), e);
            start = if rng.chance(1, 2) { vec![t] } else { vec![t, bin(4, bin(5, var(a), num("2")), bin(5, var(a), num("2")))] };
            force.push("let-let-subst");
        }
        let mut force_helper = false;
        if !bad && force.is_empty() && rng.chance(1, 10) {
            // a rule with two side conditions, built with the crate's `and` combinator: a double summation whose body mentions
            // none, one or both of the indices — the rule may fire in the first case only
            let var = |c: u32| ATerm { v: 2, fields: vec![CField::Slot(c)], children: vec![] };
            let bin = |v: usize, a: ATerm, b: ATerm| ATerm { v, fields: vec![CField::App, CField::App], children: vec![a, b] };
            let sum = |x: u32, b: ATerm| ATerm { v: 6, fields: vec![CField::Bind(x, Box::new(CField::App))], children: vec![b] };
            let (x, y, a) = (10u32, 14u32, 4u32);
            let body = match rng.below(5) {
                0 => var(a),
                1 => bin(4, var(a), var(x)),
                2 => bin(5, var(y), var(a)),
                3 => var(y),
                _ => bin(4, var(x), var(y)),
            };
            start = vec![sum(x, sum(y, body))];
            force.push("sum2-const");
            force_helper = true;
        }
        let mut solo = false;
        if !bad && force.is_empty() && rng.chance(1, 12) {
            // a binding whose bound variable sits more than thirty levels deep in its body (a right-nested chain of sums and
            // products): the substitution has to reach it; rewritten with the substitution rule alone
            let var = |c: u32| ATerm { v: 2, fields: vec![CField::Slot(c)], children: vec![] };
            let bin = |v: usize, a: ATerm, b: ATerm| ATerm { v, fields: vec![CField::App, CField::App], children: vec![a, b] };
            let lt = |x: u32, b: ATerm, e: ATerm| ATerm { v: 3, fields: vec![CField::Bind(x, Box::new(CField::App)), CField::App], children: vec![b, e] };
            let num = |s: &str| ATerm { v: 15, fields: vec![CField::Lit(s.into())], children: vec![] };
            let (x, a) = (18u32, 4u32);
            let depth = rng.range(33, 38);
            let mut body = if rng.chance(1, 2) { var(x) } else { bin(5, var(x), var(a)) };
            for i in 0..depth {
                let c = num(if i % 3 == 0 { "1" } else { "2" });
                body = if rng.chance(1, 2) { bin(4, c, body) } else { bin(5, c, body) };
            }
            let value = if rng.chance(1, 2) { var(a) } else { num("3") };
            start = vec![lt(x, body, value)];
            force.push("let-subst");
            solo = true;
        }
        let n = if bad { BAD_POOL.len() } else { POOL.len() };
        let k = rng.range(2, 9.min(n));
        let mut idx: Vec<usize> = (0..n).collect();
        rng.shuffle(&mut idx);
        idx.truncate(k);
        for name in &force {
            if let Some(pos) = POOL.iter().position(|r| r.0 == *name) {
                if !idx.contains(&pos) {
                    idx.insert(0, pos);
                }
            }
        }
        if solo {
            idx.truncate(1);
        }
        let only = ctx.param("only", 999);
        if only < n {
            idx = vec![only];
        }
        let iters = if solo { 1 } else { rng.range(1, 4) };
        let ext = force_ext || allow_extraction && force.is_empty() && rng.chance(1, 3);
        let helper = force_helper || rng.chance(1, 2);
        ctx.emit(exec_rw(start, idx, iters, ext, helper, bad));
    }
}
