//! corr.analysis.fixpoint — C14.  Three analyses (min-size, constant folding with its modify hook, min-depth);
//! after every public operation the dumped state (which carries every class's datum) must be the join fixpoint.
use crate::langs::*;
use crate::rng::Rng;
use crate::suites::eg::*;
use crate::suites::rw::*;
use crate::terms::*;
use crate::util::*;
use crate::{Case, Ctx};
use slotted_egraphs::*;

#[derive(Default)]
pub struct MinSize;
impl Analysis<Main> for MinSize {
    type Data = u64;
    fn make(eg: &EGraph<Main, Self>, enode: &Main) -> u64 {
        let mut s = 1u64;
        for x in enode.applied_id_occurrences() {
            s = s.saturating_add(*eg.analysis_data(x.id));
        }
        s
    }
    fn merge(l: u64, r: u64) -> u64 {
        l.min(r)
    }
}

#[derive(Default)]
pub struct MinDepth;
impl Analysis<Main> for MinDepth {
    type Data = u64;
    fn make(eg: &EGraph<Main, Self>, enode: &Main) -> u64 {
        1 + enode.applied_id_occurrences().iter().map(|x| *eg.analysis_data(x.id)).max().unwrap_or(0)
    }
    fn merge(l: u64, r: u64) -> u64 {
        l.min(r)
    }
}

/// a join analysis whose data GROW: the height of the tallest term of the class, capped (a self-referential class climbs to
/// the cap step by step, each step re-queues the class's own e-node)
#[derive(Default)]
pub struct MaxHeight;
pub const HEIGHT_CAP: u64 = 6;
impl Analysis<Main> for MaxHeight {
    type Data = u64;
    fn make(eg: &EGraph<Main, Self>, enode: &Main) -> u64 {
        (1 + enode.applied_id_occurrences().iter().map(|x| *eg.analysis_data(x.id)).max().unwrap_or(0)).min(HEIGHT_CAP)
    }
    fn merge(l: u64, r: u64) -> u64 {
        l.max(r)
    }
}

#[derive(Default)]
pub struct ConstFold;
impl Analysis<Main> for ConstFold {
    type Data = Option<u32>;
    fn make(eg: &EGraph<Main, Self>, enode: &Main) -> Option<u32> {
        let both = |x: &AppliedId, y: &AppliedId| Some(((*eg.analysis_data(x.id))?, (*eg.analysis_data(y.id))?));
        match enode {
            Main::Number(x) => Some(*x % 7),
            Main::Add(x, y) => both(x, y).map(|(a, b)| (a + b) % 7),
            Main::Mul(x, y) => both(x, y).map(|(a, b)| (a * b) % 7),
            _ => None,
        }
    }
    fn merge(l: Option<u32>, r: Option<u32>) -> Option<u32> {
        match (l, r) {
            (Some(x), _) => Some(x),
            (None, y) => y,
        }
    }
    fn modify(eg: &mut EGraph<Main, Self>, i: Id) {
        if let Some(x) = *eg.analysis_data(i) {
            let a = eg.add(Main::Number(x));
            eg.union(&a, &eg.mk_identity_applied_id(i));
        }
    }
}

fn run_with<N: Analysis<Main> + Default + 'static>(ops: &[Op], rules: &[usize], iters: usize, show: fn(&N::Data) -> String, kind: &str, every_op: bool) -> Result<(Vec<(String, Vec<String>, Vec<String>)>, Vec<String>), String>
where
    N::Data: Clone,
{
    fresh_noise(&enc_ops(ops));
        crate::suites::eg::warm_up(&enc_ops(ops));
    let mut eg: EGraph<Main, N> = EGraph::default();
    let mut tracked: Vec<AppliedId> = Vec::new();
    let mut checkpoints = Vec::new();
    let mut tags = Vec::new();
    let mut ncheck = 0usize;
    let mut checkpoint = |eg: &EGraph<Main, N>, tracked: &[AppliedId], tags: &mut Vec<String>, checkpoints: &mut Vec<(String, Vec<String>, Vec<String>)>| {
        // first of all, before anything canonicalises (and thereby path-compresses): the datum read through every handle
        // ever returned, old ids of merged classes included, must be the datum of the class it belongs to
        let raw: Vec<String> = tracked.iter().map(|t| show(eg.analysis_data(t.id))).collect();
        for (t, r) in tracked.iter().zip(raw.iter()) {
            let leader = eg.find_applied_id(t).id;
            if *r != show(eg.analysis_data(leader)) {
                let t = "viol:datum-read-through-old-id-is-stale".to_string();
                if !tags.contains(&t) {
                    tags.push(t);
                }
            }
        }
        let snap = eg.verif_snapshot(show).trim_end().replace('\n', "~");
        let mut qs = vec![format!("fix {kind}")];
        let mut outs = vec!["1".to_string()];
        if kind == "minsize" {
            qs.push("minsize-best".into());
            outs.push("1".into());
        }
        if kind == "const" {
            qs.push("const-nodes".into());
            outs.push("1".into());
        }
        // equal classes share one datum (through the public API)
        for i in 0..tracked.len() {
            for j in i + 1..tracked.len() {
                if eg.eq(&tracked[i], &tracked[j]) && show(eg.analysis_data(tracked[i].id)) != show(eg.analysis_data(tracked[j].id)) {
                    let t = "viol:equal-classes-different-data".to_string();
                    if !tags.contains(&t) {
                        tags.push(t);
                    }
                }
            }
        }
        checkpoints.push((snap, qs, outs));
    };
    for (k, op) in ops.iter().enumerate() {
        match op {
            Op::Add(t) => match guarded(|| eg.add_expr(to_recexpr::<Main>(t))) {
                Ok(a) => tracked.push(a),
                Err(e) => return Err(format!("op{k}:add {e}")),
            },
            Op::Union(i, j) => {
                let (a, b2) = (tracked[*i].clone(), tracked[*j].clone());
                let (da, db) = (eg.analysis_data(a.id).clone(), eg.analysis_data(b2.id).clone());
                if let Err(e) = guarded(|| eg.union(&a, &b2)) {
                    return Err(format!("op{k}:union {e}"));
                }
                // a union's result is the join of both sides (or better, if congruence merged more)
                let joined = show(&N::merge(da, db));
                let now = show(eg.analysis_data(a.id));
                if kind != "const" && now.parse::<u64>().ok() > joined.parse::<u64>().ok() {
                    tags.push("viol:union-datum-worse-than-join".to_string());
                }
            }
            Op::Query => {}
        }
        if every_op && !matches!(op, Op::Query) {
            { ncheck += 1; checkpoint(&eg, &tracked, &mut tags, &mut checkpoints); }
        }
    }
    if !rules.is_empty() {
        let rws: Vec<Rewrite<Main, N>> = rules.iter().map(|i| mk_rule::<N>(&POOL[*i])).collect();
        for _ in 0..iters {
            if eg.total_number_of_nodes() > 200 {
                break;
            }
            let ch = match guarded(|| apply_rewrites(&mut eg, &rws)) {
                Ok(c) => c,
                Err(e) => return Err(format!("rewrite {e}")),
            };
            { ncheck += 1; checkpoint(&eg, &tracked, &mut tags, &mut checkpoints); }
            if !ch {
                break;
            }
        }
    }
    if ncheck == 0 {
        { ncheck += 1; checkpoint(&eg, &tracked, &mut tags, &mut checkpoints); }
    }
    Ok((checkpoints, tags))
}

fn emit_kind<N: Analysis<Main> + Default + 'static>(ctx: &mut Ctx, ops: &[Op], rules: &[usize], iters: usize, show: fn(&N::Data) -> String, kind: &'static str, desc: &str)
where
    N::Data: Clone,
{
    let sig = enc_sig(&Main::sig());
    let (ops2, rules2) = (ops.to_vec(), rules.to_vec());
    let r = in_fresh_thread(move || {
        intern_names();
        for nm in ["i", "z", "y", "x", "o"] {
            let _ = Slot::named(nm);
        }
        run_with::<N>(&ops2, &rules2, iters, show, kind, true)
    });
    match r {
        Ok(Ok((cps, tags))) => {
            let n = cps.len();
            for (k, (snap, qs, outs)) in cps.into_iter().enumerate() {
                // quick tier: every 2nd checkpoint and the last one
                if k % 2 == 1 || k + 1 == n {
                    let mut t = tags.clone();
                    t.push(format!("a:{kind}"));
                    t.push(format!("history:{}", desc.replace(',', "~")));
                    ctx.emit(Case { line: format!("snap {sig};{snap};{}", qs.join(";")), impl_out: outs.join(";"), nontrivial: snap.matches("class ").count() >= 4, tags: t });
                }
            }
        }
        Ok(Err(e)) | Err(e) => ctx.emit(Case {
            line: format!("snap {sig};;"),
            impl_out: format!("PANIC {e}"),
            nontrivial: true,
            tags: vec!["viol:panic".into(), format!("panic:{}", e.replace(',', " ")), format!("a:{kind}"), format!("history:{}", desc.replace(',', "~"))],
        }),
    }
}

/// the capped-height analysis is judged by a predicate on the implementation's own answers (the Lean analysis model has the
/// three decreasing analyses only): after every operation, the datum of every live class is the maximum of `make` over its
/// e-nodes, computed from the children's current data through the public API
fn emit_height(ctx: &mut Ctx, ops: &[Op], desc: &str) {
    let ops2 = ops.to_vec();
    let r = in_fresh_thread(move || {
        intern_names();
        fresh_noise(&enc_ops(&ops2));
        let mut eg: EGraph<Main, MaxHeight> = EGraph::default();
        let mut tracked: Vec<AppliedId> = Vec::new();
        let mut tags: Vec<String> = Vec::new();
        for (k, op) in ops2.iter().enumerate() {
            match op {
                Op::Add(t) => tracked.push(eg.add_expr(to_recexpr::<Main>(t))),
                Op::Union(i, j) => {
                    let (a, b) = (tracked[*i].clone(), tracked[*j].clone());
                    eg.union(&a, &b);
                }
                Op::Query => continue,
            }
            for i in eg.ids() {
                let join = eg.enodes(i).iter().map(|n| MaxHeight::make(&eg, n)).max().unwrap_or(0);
                if *eg.analysis_data(i) != join {
                    let t = "viol:datum-not-join-of-make".to_string();
                    if !tags.contains(&t) {
                        tags.push(t);
                        tags.push(format!("at-op:{k}"));
                    }
                }
            }
        }
        tags
    });
    let mut tags = match r {
        Ok(t) => t,
        Err(e) => vec!["viol:panic".into(), format!("panic:{}", e.replace(',', " "))],
    };
    tags.push("a:maxheight".into());
    tags.push(format!("history:{}", desc.replace(',', "~")));
    ctx.emit(Case { line: "echo 1".into(), impl_out: "1".into(), nontrivial: true, tags });
}

/// self-referential classes: `a = h(a)`, `a = k(a, b)`, and a self-reference that only arises through a later union
fn gen_selfloop(rng: &mut Rng) -> Vec<Op> {
    let sym = |s: &str| ATerm { v: 16, fields: vec![CField::Lit(s.to_string())], children: vec![] };
    let h = |a: ATerm| ATerm { v: 13, fields: vec![CField::App], children: vec![a] };
    let k = |a: ATerm, b: ATerm| ATerm { v: 14, fields: vec![CField::App, CField::App], children: vec![a, b] };
    let (a, b) = (sym("a"), sym("b"));
    let mut ops: Vec<Op> = Vec::new();
    for i in 0..rng.below(4) {
        ops.push(Op::Add(ATerm { v: 15, fields: vec![CField::Lit(format!("{}", 40 + i))], children: vec![] }));
    }
    let base = ops.len();
    match rng.below(3) {
        0 => {
            ops.push(Op::Add(a.clone()));
            ops.push(Op::Add(h(a.clone())));
            ops.push(Op::Add(k(h(a.clone()), b.clone()))); // a parent that has to follow
            ops.push(Op::Union(base, base + 1));
        }
        1 => {
            ops.push(Op::Add(a.clone()));
            ops.push(Op::Add(k(a.clone(), b.clone())));
            ops.push(Op::Add(h(k(a.clone(), b.clone()))));
            ops.push(Op::Union(base, base + 1));
        }
        _ => {
            // a = h(c) first, then c = a: the self-reference arises by the second union
            let c = sym("c");
            ops.push(Op::Add(a.clone()));
            ops.push(Op::Add(h(c.clone())));
            ops.push(Op::Add(c.clone()));
            ops.push(Op::Add(k(a.clone(), b.clone())));
            ops.push(Op::Union(base, base + 1));
            ops.push(Op::Union(base + 2, base));
        }
    }
    ops
}

/// a class that improves more than once within one rebuild: two members, one of which reaches the
/// improved leaf through a long chain of unary nodes, plus parents that must follow both improvements
fn gen_chain(rng: &mut Rng) -> Vec<Op> {
    let sym = |s: &str| ATerm { v: 16, fields: vec![CField::Lit(s.to_string())], children: vec![] };
    let h = |a: ATerm| ATerm { v: 13, fields: vec![CField::App], children: vec![a] };
    let k = |a: ATerm, b: ATerm| ATerm { v: 14, fields: vec![CField::App, CField::App], children: vec![a, b] };
    let mut big = |rng: &mut Rng, n: usize, tag: &str| -> ATerm {
        let mut t = sym(tag);
        for i in 0..n {
            t = if rng.chance(1, 2) { k(t, sym(["a", "b", "c"][i % 3])) } else { k(sym(["a", "b", "c"][i % 3]), t) };
        }
        t
    };
    let nx = rng.range(4, 12);
    let ny = rng.range(2, 8);
    let x = big(rng, nx, "x0");
    let y = big(rng, ny, "y0");
    let member1 = k(x.clone(), y.clone());
    let mut chain = x.clone();
    for _ in 0..rng.range(4, 24) {
        chain = h(chain);
    }
    let member2 = if rng.chance(1, 2) { k(chain, sym("c")) } else { h(chain) };
    let parents = vec![h(member1.clone()), k(member1.clone(), sym("b")), h(h(member1.clone()))];
    let leaf = sym("z0");
    let mut ops = vec![Op::Add(member1), Op::Add(member2), Op::Add(x), Op::Add(leaf)];
    for p in parents {
        ops.push(Op::Add(p));
    }
    ops.push(Op::Union(0, 1));
    ops.push(Op::Union(2, 3));
    if rng.chance(1, 2) {
        ops.push(Op::Add(y));
        let n = ops.iter().filter(|o| matches!(o, Op::Add(_))).count();
        ops.push(Op::Union(n - 1, 3));
    }
    ops
}


/// cascading unions: one union of two leaves makes two pairs of parents congruent, so that a class is merged and the class
/// it was merged into is merged again within the same rebuild, while a parent of the first class is still waiting to be
/// re-analysed; the class at the end of the cascade has a better datum than the ones merged into it
fn gen_cascade(rng: &mut Rng) -> Vec<Op> {
    let sym = |s: &str| ATerm { v: 16, fields: vec![CField::Lit(s.into())], children: vec![] };
    let num = |s: &str| ATerm { v: 15, fields: vec![CField::Lit(s.into())], children: vec![] };
    let h = |a: ATerm| ATerm { v: 13, fields: vec![CField::App], children: vec![a] };
    let bin = |v: usize, a: ATerm, b: ATerm| ATerm { v, fields: vec![CField::App, CField::App], children: vec![a, b] };
    let x = sym("a");
    let y = sym("b");
    // two different unary operators (binders whose bound slot is not used), so that the classes share no other child
    let g = |t: ATerm| ATerm { v: 0, fields: vec![CField::Bind(10, Box::new(CField::App))], children: vec![t] };
    let k = |t: ATerm| ATerm { v: 6, fields: vec![CField::Bind(10, Box::new(CField::App))], children: vec![t] };
    // parents: the class with more parents survives a merge, so a (1 parent) goes into b (3) and b into c (4-5)
    let par = |i: usize, t: ATerm| -> ATerm {
        match i {
            0 => h(t),
            1 => bin(5, t, num("2")),
            2 => bin(5, t, num("3")),
            3 => bin(4, t, num("4")),
            _ => bin(14, num("5"), t),
        }
    };
    let z = if rng.chance(1, 2) { num("1") } else { sym("c") };
    let mut terms: Vec<ATerm> = Vec::new();
    let mut unions: Vec<(usize, usize)> = Vec::new();
    // padding first: shifts class ids and with them the order of the worklist
    for i in 0..rng.below(5) {
        terms.push(num(&format!("{}", 7 + i)));
    }
    let base = terms.len();
    terms.push(g(x.clone())); // base + 0
    terms.push(k(x.clone())); // base + 1
    unions.push((base, base + 1)); // a = {g(x), k(x)}
    terms.push(par(0, g(x.clone()))); // the parent whose datum must follow
    terms.push(g(y.clone())); // b
    let nb = rng.range(2, 3);
    for i in 1..=nb {
        terms.push(par(i, g(y.clone())));
    }
    let ky = terms.len();
    terms.push(k(y.clone())); // c
    terms.push(z);
    unions.push((ky, ky + 1)); // c = {k(y), z}: the best datum sits at the end of the cascade
    for i in 0..=nb + 1 {
        terms.push(par(i, k(y.clone())));
    }
    let xi = terms.len();
    terms.push(x);
    terms.push(y);
    let mut ops: Vec<Op> = Vec::new();
    // insert and union in program order (the unions refer to positions in `terms`)
    let mut pending = unions;
    for (i, t) in terms.into_iter().enumerate() {
        ops.push(Op::Add(t));
        pending.retain(|(a, b)| {
            if *a.max(b) <= i {
                ops.push(Op::Union(*a, *b));
                false
            } else {
                true
            }
        });
    }
    if rng.chance(1, 4) {
        ops.push(Op::Union(xi + 1, xi));
    } else {
        ops.push(Op::Union(xi, xi + 1)); // x = y: g(x) = g(y) and k(x) = k(y) by congruence, hence a = b = c
    }
    ops.push(Op::Query);
    ops
}

/// a parent `p = K ∘ a` that uses a class `a` directly *and* through a class `K = {g(a), k(c)}` whose datum depends on `a`:
/// `a = b` retires `a` (the parent has to be re-canonicalised *and* `K`'s datum changes in the same rebuild, in an order the
/// hash of the pending shapes decides), then `c = t2` gives `K` a better alternative that does not depend on `b` any more,
/// then `b = t1` improves `b`: `p` must follow `b` although nothing reaches it through `K`
fn gen_downgrade(rng: &mut Rng) -> Vec<Op> {
    let sym = |s: &str| ATerm { v: 16, fields: vec![CField::Lit(s.into())], children: vec![] };
    let num = |s: &str| ATerm { v: 15, fields: vec![CField::Lit(s.into())], children: vec![] };
    let h = |a: ATerm| ATerm { v: 13, fields: vec![CField::App], children: vec![a] };
    let bin = |v: usize, a: ATerm, b: ATerm| ATerm { v, fields: vec![CField::App, CField::App], children: vec![a, b] };
    let g = |t: ATerm| ATerm { v: 0, fields: vec![CField::Bind(10, Box::new(CField::App))], children: vec![t] };
    let k = |t: ATerm| ATerm { v: 6, fields: vec![CField::Bind(10, Box::new(CField::App))], children: vec![t] };
    let chain = |n: usize, leaf: ATerm| (0..n).fold(leaf, |t, _| h(t));
    let mut terms: Vec<ATerm> = Vec::new();
    for i in 0..rng.below(6) {
        terms.push(num(&format!("{}", 7 + i)));
    }
    let base = terms.len();
    let (la, lb, lc) = (rng.range(3, 5), rng.range(1, 2), rng.range(3, 5));
    let a = chain(la, sym("za"));
    let b = chain(lb, sym("zb"));
    let c = chain(lc, sym("zc"));
    terms.push(a.clone()); // base
    terms.push(b.clone()); // base + 1
    terms.push(c.clone()); // base + 2
    terms.push(sym("t1")); // base + 3
    terms.push(sym("t2")); // base + 4
    // more users of b, so that `a = b` keeps b
    for i in 0..rng.range(2, 3) {
        terms.push(bin(5, b.clone(), num(&format!("{}", 2 + i))));
    }
    let ga = terms.len();
    terms.push(g(a.clone()));
    terms.push(k(c.clone()));
    let op = [4usize, 5, 14][rng.below(3)];
    let p = if rng.chance(1, 2) { bin(op, g(a.clone()), a.clone()) } else { bin(op, a.clone(), g(a.clone())) };
    let mut ops: Vec<Op> = terms.into_iter().map(Op::Add).collect();
    ops.push(Op::Union(ga, ga + 1)); // K = {g(a), k(c)}
    ops.push(Op::Add(p));
    ops.push(Op::Union(base, base + 1)); // a = b
    ops.push(Op::Union(base + 2, base + 4)); // c = t2
    ops.push(Op::Union(base + 1, base + 3)); // b = t1
    ops
}

/// one improvement reaches a class `P` by two routes of different length — `P = {k(r, b), g(h(h(r)))}` — and `P` has a
/// parent: when `x` (below `r`) becomes small, the short route improves `P` first, the long one improves it again, and the
/// parent has to follow both times
fn gen_tworoutes(rng: &mut Rng) -> Vec<Op> {
    let sym = |s: &str| ATerm { v: 16, fields: vec![CField::Lit(s.into())], children: vec![] };
    let num = |s: &str| ATerm { v: 15, fields: vec![CField::Lit(s.into())], children: vec![] };
    let h = |a: ATerm| ATerm { v: 13, fields: vec![CField::App], children: vec![a] };
    let bin = |v: usize, a: ATerm, b: ATerm| ATerm { v, fields: vec![CField::App, CField::App], children: vec![a, b] };
    let g = |t: ATerm| ATerm { v: 0, fields: vec![CField::Bind(10, Box::new(CField::App))], children: vec![t] };
    let q = |t: ATerm| ATerm { v: 6, fields: vec![CField::Bind(10, Box::new(CField::App))], children: vec![t] };
    let chain = |n: usize, leaf: ATerm| (0..n).fold(leaf, |t, _| h(t));
    let mut terms: Vec<ATerm> = Vec::new();
    for i in 0..rng.below(6) {
        terms.push(num(&format!("{}", 7 + i)));
    }
    let base = terms.len();
    let x = chain(rng.range(7, 10), sym("zx"));
    let r = q(x.clone());
    let b = chain(rng.range(2, 4), sym("zb"));
    let short = if rng.chance(1, 2) { bin(14, r.clone(), b.clone()) } else { bin(14, b.clone(), r.clone()) };
    let long = g((0..rng.range(2, 3)).fold(r.clone(), |t, _| q(t)));
    terms.push(x); // base
    terms.push(sym("l")); // base + 1
    terms.push(short.clone()); // base + 2
    terms.push(long); // base + 3
    terms.push(bin(5, short.clone(), num("2"))); // the parent of P
    if rng.chance(1, 2) {
        terms.push(g(bin(5, short, num("2"))));
    }
    let mut ops: Vec<Op> = terms.into_iter().map(Op::Add).collect();
    ops.push(Op::Union(base + 2, base + 3)); // P
    ops.push(Op::Union(base, base + 1)); // x = l
    ops
}

/// a parent `P = k(x, c)` with parents of its own and a small twin `M = k(b, c)` without any: `x = b` (with `x`, the big one, as
/// the left operand) improves `x`'s class, the re-canonicalised `P` collides with `M`, `P`'s class survives the congruence
/// union and its improved datum has to reach ITS parents although the merge itself changes nothing any more
fn gen_twinsmall(rng: &mut Rng) -> Vec<Op> {
    let sym = |s: &str| ATerm { v: 16, fields: vec![CField::Lit(s.into())], children: vec![] };
    let num = |s: &str| ATerm { v: 15, fields: vec![CField::Lit(s.into())], children: vec![] };
    let h = |a: ATerm| ATerm { v: 13, fields: vec![CField::App], children: vec![a] };
    let bin = |v: usize, a: ATerm, b: ATerm| ATerm { v, fields: vec![CField::App, CField::App], children: vec![a, b] };
    let chain = |n: usize, leaf: ATerm| (0..n).fold(leaf, |t, _| h(t));
    let x = chain(rng.range(3, 5), sym("zx"));
    let b = sym("b");
    let c = if rng.chance(1, 2) { sym("c") } else { num("1") };
    let op = if rng.chance(1, 2) { 14 } else { 4 };
    let p = bin(op, x.clone(), c.clone());
    let m = bin(op, b.clone(), c.clone());
    let mut terms: Vec<ATerm> = Vec::new();
    for i in 0..rng.below(5) {
        terms.push(num(&format!("{}", 30 + i)));
    }
    let ix = terms.len();
    terms.push(x);
    let ib = terms.len();
    terms.push(b);
    terms.push(p.clone());
    terms.push(m);
    for j in 0..rng.range(2, 4) {
        terms.push(bin(5, p.clone(), num(&format!("{}", 2 + j))));
    }
    if rng.chance(1, 2) {
        terms.push(h(bin(5, p.clone(), num("2"))));
    }
    let mut ops: Vec<Op> = terms.into_iter().map(Op::Add).collect();
    ops.push(if rng.chance(3, 4) { Op::Union(ix, ib) } else { Op::Union(ib, ix) });
    ops
}

/// a node that is waiting to be re-analysed when its class is merged away inside the same rebuild: `P = {k(a, w), app(a, c)}`,
/// `Q = {k(b, w)}` with several parents (so that `P` is the class that moves), `a` big, `b` a leaf; `a = b` makes `k(a, w)` and
/// `k(b, w)` congruent while `app(a, c)` — the node that carries the new best value of the merged class — is still queued.
/// Padding leaves shift the class ids and with them the order of the work list.
fn gen_movedwait(rng: &mut Rng) -> Vec<Op> {
    let sym = |s: &str| ATerm { v: 16, fields: vec![CField::Lit(s.into())], children: vec![] };
    let num = |s: &str| ATerm { v: 15, fields: vec![CField::Lit(s.into())], children: vec![] };
    let h = |a: ATerm| ATerm { v: 13, fields: vec![CField::App], children: vec![a] };
    let bin = |v: usize, a: ATerm, b: ATerm| ATerm { v, fields: vec![CField::App, CField::App], children: vec![a, b] };
    let chain = |n: usize, leaf: ATerm| (0..n).fold(leaf, |t, _| h(t));
    let a = chain(rng.range(3, 5), sym("za"));
    let w = chain(rng.range(5, 7), sym("zw"));
    let b = sym("b");
    let mut terms: Vec<ATerm> = Vec::new();
    let mut pad = 0;
    let mut padding = |terms: &mut Vec<ATerm>, n: usize| {
        for _ in 0..n {
            terms.push(num(&format!("{}", 20 + pad)));
            pad += 1;
        }
    };
    padding(&mut terms, rng.below(5));
    let ia = terms.len();
    terms.push(a.clone());
    padding(&mut terms, rng.below(4));
    let ib = terms.len();
    terms.push(b.clone());
    padding(&mut terms, rng.below(3));
    let ifa = terms.len();
    terms.push(bin(14, a.clone(), w.clone()));
    let ika = terms.len();
    terms.push(bin(1, a.clone(), sym("c")));
    let fb = bin(14, b.clone(), w.clone());
    terms.push(fb.clone());
    for j in 0..rng.range(3, 6) {
        terms.push(bin(5, fb.clone(), num(&format!("{}", 2 + j))));
    }
    let mut ops: Vec<Op> = terms.into_iter().map(Op::Add).collect();
    ops.push(Op::Union(ifa, ika));
    ops.push(Op::Union(ia, ib));
    ops
}

pub fn run(ctx: &mut Ctx) {
    for _ in 0..ctx.count {
        let mut rng = ctx.rng.fork();
        if rng.chance(1, 3) {
            let ops = gen_twinsmall(&mut rng);
            let desc = enc_ops(&ops);
            emit_kind::<MinSize>(ctx, &ops, &[], 0, |d| d.to_string(), "minsize", &desc);
            emit_kind::<MinDepth>(ctx, &ops, &[], 0, |d| d.to_string(), "mindepth", &desc);
        }
        if rng.chance(1, 3) {
            let ops = gen_movedwait(&mut rng);
            let desc = enc_ops(&ops);
            emit_kind::<MinSize>(ctx, &ops, &[], 0, |d| d.to_string(), "minsize", &desc);
            emit_kind::<MinDepth>(ctx, &ops, &[], 0, |d| d.to_string(), "mindepth", &desc);
        }
        if rng.chance(1, 4) {
            let ops = gen_tworoutes(&mut rng);
            let desc = enc_ops(&ops);
            emit_kind::<MinSize>(ctx, &ops, &[], 0, |d| d.to_string(), "minsize", &desc);
            emit_kind::<MinDepth>(ctx, &ops, &[], 0, |d| d.to_string(), "mindepth", &desc);
        }
        if rng.chance(1, 3) {
            let ops = gen_downgrade(&mut rng);
            let desc = enc_ops(&ops);
            emit_kind::<MinSize>(ctx, &ops, &[], 0, |d| d.to_string(), "minsize", &desc);
            emit_kind::<MinDepth>(ctx, &ops, &[], 0, |d| d.to_string(), "mindepth", &desc);
        }
        if rng.chance(1, 3) {
            let ops = gen_cascade(&mut rng);
            let desc = enc_ops(&ops);
            emit_kind::<MinSize>(ctx, &ops, &[], 0, |d| d.to_string(), "minsize", &desc);
            emit_kind::<MinDepth>(ctx, &ops, &[], 0, |d| d.to_string(), "mindepth", &desc);
        }
        if rng.chance(1, 3) {
            let ops = gen_chain(&mut rng);
            let desc = enc_ops(&ops);
            emit_kind::<MinSize>(ctx, &ops, &[], 0, |d| d.to_string(), "minsize", &desc);
            emit_kind::<MinDepth>(ctx, &ops, &[], 0, |d| d.to_string(), "mindepth", &desc);
        }
        if rng.chance(1, 3) {
            let ops = gen_selfloop(&mut rng);
            let desc = enc_ops(&ops);
            emit_height(ctx, &ops, &desc);
        }
        // histories with arbitrary unions for the size/depth analyses
        let (ops, _) = gen_history(&mut rng);
        let desc = enc_ops(&ops);
        if rng.chance(1, 2) {
            emit_height(ctx, &ops, &desc);
        }
        emit_kind::<MinSize>(ctx, &ops, &[], 0, |d| d.to_string(), "minsize", &desc);
        emit_kind::<MinDepth>(ctx, &ops, &[], 0, |d| d.to_string(), "mindepth", &desc);
        // rewriting histories (valid rules only) for all three
        let mut rops: Vec<Op> = Vec::new();
        for _ in 0..rng.range(1, 3) {
            let d = rng.range(1, 3);
            rops.push(Op::Add(gen_arith(&mut rng, d)));
        }
        let k = rng.range(2, 6);
        let mut idx: Vec<usize> = (0..POOL.len()).collect();
        rng.shuffle(&mut idx);
        idx.truncate(k);
        let iters = rng.range(1, 3);
        let rdesc = format!("{} rules={}", enc_ops(&rops), idx.iter().map(|i| POOL[*i].0).collect::<Vec<_>>().join("."));
        emit_kind::<ConstFold>(ctx, &rops, &idx, iters, |d| match d { Some(x) => format!("some:{x}"), None => "none".into() }, "const", &rdesc);
        emit_kind::<MinSize>(ctx, &rops, &idx, iters, |d| d.to_string(), "minsize", &rdesc);
    }
}
