//! corr.history + corr.progress.events — C13.  Long mixed histories; after every operation the
//! harness re-examines everything it remembered (equal pairs, old handles, slot sets, progress).
use crate::langs::*;
use crate::rng::Rng;
use crate::suites::eg::*;
use crate::suites::rw::*;
use crate::terms::*;
use crate::util::*;
use crate::{Case, Ctx};
use slotted_egraphs::*;

fn meas(p: &(usize, usize, usize, usize)) -> String {
    format!("{},{},{},{}", p.0, p.1, p.2, p.3)
}

/// the raw union-find table of the dump (no path compression is triggered by dumping), entries in id order
fn uf_table(snap: &str) -> String {
    let mut v: Vec<(usize, String)> = snap
        .lines()
        .filter_map(|l| l.strip_prefix("uf "))
        .filter_map(|l| l.split_once(' '))
        .map(|(i, e)| (i.parse::<usize>().unwrap(), e.to_string()))
        .collect();
    v.sort();
    v.into_iter().map(|(_, e)| e).collect::<Vec<_>>().join(",")
}

/// one step of the `ufw` protocol: the `unionfind_set` calls of the operation, then the table it left behind
fn uf_step(eg: &EGraph<Main>) -> String {
    let ws: Vec<String> = slotted_egraphs::verif::take_uf_writes().into_iter().map(|(i, e)| format!("{i}:{e}")).collect();
    // third field: what the operation did to the class groups (`move_to`, `shrink_slots`), for the `grpw` protocol
    let gl: Vec<String> = slotted_egraphs::verif::take_group_log().into_iter().map(|l| l.replace(' ', "!")).collect();
    format!("{}#{}#{}", ws.join(","), uf_table(&eg.verif_snapshot(|_| "-".to_string())), gl.join("&"))
}

pub fn exec_hist(ops: Vec<Op>) -> Vec<Case> {
    exec_hist_l(ops, false)
}

/// `force_lazy`: examine nothing before the end of the history (see `lazy` below)
pub fn exec_hist_l(ops: Vec<Op>, force_lazy: bool) -> Vec<Case> {
    let line_ops = enc_ops(&ops);
    let ops2 = ops.clone();
    let r = in_fresh_thread(move || {
        intern_names();
        fresh_noise(&enc_ops(&ops2));
        crate::suites::eg::warm_up(&enc_ops(&ops2));
        let mut eg: EGraph<Main> = EGraph::default();
        let mut tracked: Vec<AppliedId> = Vec::new();
        let mut slots_seen: Vec<usize> = Vec::new();
        let mut equal_pairs: Vec<(usize, usize)> = Vec::new();
        let mut steps: Vec<String> = Vec::new();
        let mut ufsteps: Vec<String> = Vec::new();
        let mut tags: Vec<String> = Vec::new();
        let mut viol = |t: &str, tags: &mut Vec<String>| {
            let t = format!("viol:{t}");
            if !tags.contains(&t) {
                tags.push(t)
            }
        };
        let _ = slotted_egraphs::verif::take_events();
        let _ = slotted_egraphs::verif::take_uf_writes();
        let _ = slotted_egraphs::verif::take_group_log();
        // a quarter of the histories run LAZILY: nothing is looked up between the operations (every look-up compresses
        // union-find chains), everything remembered is examined once, at the end, oldest handle first
        let lazy = force_lazy || enc_ops(&ops2).bytes().fold(0xcbf29ce484222325u64, |h, b| (h ^ b as u64).wrapping_mul(0x100000001b3)) >> 11 & 3 == 0;
        let rev = enc_ops(&ops2).len() % 2 == 0;
        if lazy {
            tags.push("t:lazy".into());
        }
        for (k, op) in ops2.iter().enumerate() {
            let before = eg.verif_measure();
            match op {
                Op::Add(t) => {
                    let re = to_recexpr::<Main>(t);
                    match guarded(|| eg.add_expr(re)) {
                        Ok(a) => {
                            slots_seen.push(a.m.len());
                            tracked.push(a)
                        }
                        Err(e) => return (steps, ufsteps, vec![format!("viol:panic-op{k}"), format!("panic:{e}")]),
                    }
                }
                Op::Union(i, j) => {
                    let (a, b) = (tracked[*i].clone(), tracked[*j].clone());
                    if let Err(e) = guarded(|| eg.union(&a, &b)) {
                        return (steps, ufsteps, vec![format!("viol:panic-op{k}"), format!("panic:{e}")]);
                    }
                    equal_pairs.push((*i, *j));
                }
                Op::Query => {}
            }
            let after = eg.verif_measure();
            let evs: Vec<&str> = slotted_egraphs::verif::take_events().into_iter().map(|(k, _)| k).collect();
            steps.push(format!("{}>{}:{}", meas(&before), meas(&after), evs.join(".")));
            ufsteps.push(uf_step(&eg));
            if lazy && k + 1 != ops2.len() {
                continue;
            }
            // a rewrite iteration every now and then (which rules: a function of the position, so that the history replays)
            if k % 11 == 7 && eg.total_number_of_nodes() < 120 {
                let names: [&[&str]; 3] = [&["add-comm", "mul-comm"], &["k-def", "add-assoc"], &["h-def", "sum-swap", "add-comm"]];
                let rws: Vec<Rewrite<Main>> = names[(k / 11) % 3].iter().filter_map(|n| POOL.iter().find(|r| r.0 == *n)).map(|r| mk_rule(r)).collect();
                let before = eg.verif_measure();
                if let Err(e) = guarded(|| apply_rewrites(&mut eg, &rws)) {
                    return (steps, ufsteps, vec![format!("viol:panic-rewrite-after-op{k}"), format!("panic:{e}")]);
                }
                let after = eg.verif_measure();
                let evs: Vec<&str> = slotted_egraphs::verif::take_events().into_iter().map(|(k, _)| k).collect();
                steps.push(format!("{}>{}:{}", meas(&before), meas(&after), evs.join(".")));
                ufsteps.push(uf_step(&eg));
                tags.push("t:rewrite-iteration".into());
            }
            // extraction from every handle ever returned, old ones included
            if !lazy && (k % 9 == 8 || k + 1 == ops2.len()) {
                let res = guarded(|| {
                    let ex = Extractor::<Main, AstSize>::new(&eg, AstSize);
                    let mut bad: Vec<&'static str> = Vec::new();
                    for h in &tracked {
                        let t = ex.extract(h, &eg);
                        match lookup_rec_expr(&t, &eg) {
                            Some(a) => {
                                if !eg.eq(&a, h) {
                                    bad.push("extracted-from-old-handle-not-eq-handle");
                                }
                            }
                            None => bad.push("extracted-from-old-handle-not-represented"),
                        }
                    }
                    bad
                });
                match res {
                    Ok(bad) => {
                        for b in bad {
                            viol(b, &mut tags);
                        }
                        tags.push("t:extract-old-handles".into());
                    }
                    Err(e) => {
                        viol(&format!("extract-from-old-handle-panics-op{k}"), &mut tags);
                        tags.push(format!("panic:{e}"));
                        return (steps, ufsteps, tags);
                    }
                }
            }
            // everything remembered so far must still hold
            let n = tracked.len();
            let res = guarded(|| {
                let mut bad: Vec<&'static str> = Vec::new();
                // lazy histories: the handles are canonicalised FIRST, oldest first or newest first (which handle of a chain
                // of merged classes is looked up first decides which entries get compressed on the way)
                let order: Vec<usize> = if lazy && rev { (0..n).rev().collect() } else { (0..n).collect() };
                if !lazy {
                    for &(i, j) in &equal_pairs {
                        if !eg.eq(&tracked[i], &tracked[j]) {
                            bad.push("equality-lost");
                        }
                    }
                }
                for &i in &order {
                    let f = eg.find_applied_id(&tracked[i]);
                    if !eg.is_alive(f.id) {
                        bad.push("find-not-alive");
                    }
                    if f.m.len() > slots_seen[i] {
                        bad.push("slot-set-grew");
                    }
                    if eg.find_applied_id(&f) != f {
                        bad.push("find-not-idempotent");
                    }
                    // keys of the canonical invocation are exactly the class slots
                    let ks: Vec<Slot> = f.m.iter().map(|(k, _)| k).collect();
                    let mut cs: Vec<Slot> = eg.slots(f.id).into_iter().collect();
                    cs.sort();
                    if ks != cs {
                        bad.push("find-keys-not-class-slots");
                    }
                    if !eg.eq(&tracked[i], &f) {
                        bad.push("handle-not-eq-its-find");
                    }
                }
                if lazy {
                    for &(i, j) in &equal_pairs {
                        if !eg.eq(&tracked[i], &tracked[j]) {
                            bad.push("equality-lost");
                        }
                    }
                }
                (bad, (0..n).map(|i| eg.find_applied_id(&tracked[i]).m.len()).collect::<Vec<_>>())
            });
            match res {
                Ok((bad, lens)) => {
                    for b in bad {
                        viol(b, &mut tags);
                    }
                    slots_seen = lens;
                    // newly equal pairs are remembered too (once equal, always equal)
                    if k % 3 == 0 {
                        for i in 0..n {
                            for j in i + 1..n {
                                if !equal_pairs.contains(&(i, j)) && eg.eq(&tracked[i], &tracked[j]) {
                                    equal_pairs.push((i, j));
                                }
                            }
                        }
                    }
                }
                Err(e) => {
                    viol(&format!("old-handle-panics-op{k}"), &mut tags);
                    tags.push(format!("panic:{e}"));
                    return (steps, ufsteps, tags);
                }
            }
        }
        (steps, ufsteps, tags)
    });
    match r {
        Ok((steps, ufsteps, tags)) => {
            let line = format!("prog {}", steps.join(";"));
            let nt = steps.iter().filter(|s| s.contains("shrink") || s.contains("addsym")).count() >= 1;
            let mut tags = tags;
            tags.push(format!("history:{}", line_ops.replace(',', "~")));
            let ones = vec!["1"; steps.len()].join(";");
            // the union-find writes of the same run, judged by the Lean write model (`ufw`)
            let mut utags: Vec<String> = vec![format!("history:{}", line_ops.replace(',', "~"))];
            let nw: usize = ufsteps.iter().map(|s| s.split('#').next().unwrap().split(',').filter(|w| !w.is_empty()).count()).sum();
            utags.push(format!("t:writes-{}", if nw < 10 { "lt10" } else if nw < 40 { "lt40" } else { "ge40" }));
            // the group half of the same run (`grpw`): every merge and every shrink, judged by the Lean contract checks
            let glines: Vec<String> = ufsteps.iter().filter_map(|s| s.split('#').nth(2)).flat_map(|g| g.split('&').filter(|x| !x.is_empty()).map(|x| x.replace('!', " ")).collect::<Vec<_>>()).collect();
            let ufsteps: Vec<String> = ufsteps.iter().map(|s| s.split('#').take(2).collect::<Vec<_>>().join("#")).collect();
            let ucase = Case { line: format!("ufw {}", ufsteps.join(";")), impl_out: vec!["1"; ufsteps.len()].join(";"), nontrivial: nt, tags: utags };
            let mut out = vec![Case { line, impl_out: ones, nontrivial: nt, tags }, ucase];
            if !glines.is_empty() {
                let nm = glines.iter().filter(|l| l.starts_with("merge")).count();
                let nadd = glines.iter().filter(|l| l.starts_with("add")).count();
                let nsym = glines.iter().filter(|l| l.contains('>')).count();
                let gtags = vec![format!("history:{}", line_ops.replace(',', "~")), format!("t:merges-{}", if nm < 5 { "lt5" } else { "ge5" }), format!("t:with-perms-{}", nsym.min(3)), format!("t:group-adds-{}", nadd.min(4))];
                out.push(Case { line: format!("grpw {}", glines.join(";")), impl_out: vec!["1"; glines.len()].join(";"), nontrivial: nsym > 0, tags: gtags });
            }
            out
        }
        Err(e) => vec![Case { line: "prog ".into(), impl_out: format!("PANIC {e}"), nontrivial: true, tags: vec!["viol:panic".into(), format!("history:{}", line_ops.replace(',', "~"))] }],
    }
}

pub fn gen_long(rng: &mut Rng, nops: usize) -> Vec<Op> {
    let mut ops: Vec<Op> = Vec::new();
    let mut terms: Vec<ATerm> = Vec::new();
    // seed with a structured history, then keep mixing adds and unions
    let (seed_ops, _) = gen_history(rng);
    for o in seed_ops {
        match o {
            Op::Add(t) => {
                terms.push(t.clone());
                ops.push(Op::Add(t))
            }
            Op::Union(i, j) => ops.push(Op::Union(i, j)),
            Op::Query => {}
        }
    }
    while ops.len() < nops {
        if terms.len() < 4 || rng.chance(1, 2) {
            let d = rng.range(0, 2);
            let t = if rng.chance(1, 3) && !terms.is_empty() {
                // a context around / renamed copy of an existing term
                let base = terms[rng.below(terms.len())].clone();
                if rng.chance(1, 2) {
                    ATerm { v: 13, fields: vec![CField::App], children: vec![base] }
                } else {
                    let fs = free_slots(&base);
                    let mut img = fs.clone();
                    rng.shuffle(&mut img);
                    let fs2 = fs.clone();
                    rename_free(&base, &move |c| fs2.iter().position(|x| *x == c).map(|i| img[i]).unwrap_or(c))
                }
            } else {
                let b = rng.chance(1, 3);
                gen_term(rng, 3, d, b)
            };
            if free_slots(&t).len() <= 4 {
                terms.push(t.clone());
                ops.push(Op::Add(t));
            }
        } else {
            let (i, j) = (rng.below(terms.len()), rng.below(terms.len()));
            if i != j {
                ops.push(Op::Union(i, j));
            }
        }
    }
    ops
}

/// a five-slot leaf whose symmetry group is built in two or three steps (a swap, a double swap, a three-cycle, in any order and
/// on any positions), with parents and unrelated operations in between: every equality seen after one step must survive the next
fn gen_sym5(rng: &mut Rng) -> Vec<Op> {
    let names = [4u32, 8, 12, 16, 20];
    let f = |perm: &Vec<usize>| leaf(20, &perm.iter().map(|&i| names[i]).collect::<Vec<_>>());
    let id: Vec<usize> = (0..5).collect();
    let mut pos: Vec<usize> = (0..5).collect();
    rng.shuffle(&mut pos);
    let mut swap = id.clone();
    swap.swap(pos[2], pos[4]);
    let mut dbl = id.clone();
    dbl.swap(pos[0], pos[1]);
    dbl.swap(pos[2], pos[3]);
    let mut cyc = id.clone();
    cyc[pos[0]] = pos[1];
    cyc[pos[1]] = pos[2];
    cyc[pos[2]] = pos[0];
    let mut gens = vec![swap, dbl];
    if rng.chance(1, 2) {
        gens.push(cyc);
    }
    rng.shuffle(&mut gens);
    let mut ops: Vec<Op> = vec![Op::Add(f(&id))];
    if rng.chance(1, 2) {
        ops.push(Op::Add(un(13, f(&id))));
    }
    let base = 0;
    for g in &gens {
        let k = ops.iter().filter(|o| matches!(o, Op::Add(_))).count();
        ops.push(Op::Add(f(g)));
        ops.push(Op::Union(base, k));
        if rng.chance(1, 2) {
            ops.push(Op::Add(un(13, f(g))));
        }
    }
    ops
}

/// a chain of two merges that nobody looks at: `h(f2(x,y))` and `h(g2(x,y))` become one class by congruence (`f2 = g2`), that
/// class is merged into a bigger one, which then loses a slot; the handles of the two `h` terms are two and one hop away from
/// the leader when they are finally looked up (lazy histories only examine at the end)
fn gen_chain2(rng: &mut Rng) -> Vec<Op> {
    let num = |s: &str| ATerm { v: 15, fields: vec![CField::Lit(s.into())], children: vec![] };
    let w = |s: u32, t: ATerm| ATerm { v: 19, fields: vec![CField::Slot(s), CField::App], children: vec![t] };
    let (x, y, z) = (4u32, 8u32, 12u32);
    let mut ops: Vec<Op> = Vec::new();
    let hf = un(13, leaf(7, &[x, y]));
    let hg = un(13, leaf(11, &[x, y]));
    if rng.chance(1, 2) {
        ops.push(Op::Add(hf.clone()));
        ops.push(Op::Add(hg.clone()));
    } else {
        ops.push(Op::Add(hg.clone()));
        ops.push(Op::Add(hf.clone()));
    }
    ops.push(Op::Add(leaf(7, &[x, y]))); // 2
    ops.push(Op::Add(leaf(11, &[x, y]))); // 3
    let c = |last: u32| w(x, leaf(10, &[last]));
    ops.push(Op::Add(c(y))); // 4
    ops.push(Op::Add(c(z))); // 5
    for j in 0..rng.range(2, 4) {
        ops.push(Op::Add(bin(14, c(y), num(&format!("{}", 2 + j)))));
    }
    ops.push(Op::Union(2, 3)); // congruence: the two h classes
    ops.push(if rng.chance(1, 2) { Op::Union(0, 4) } else { Op::Union(1, 4) }); // into the bigger class
    ops.push(Op::Union(4, 5)); // which loses its second slot
    ops
}

pub fn run(ctx: &mut Ctx) {
    let nops = ctx.param("ops", 40);
    for _ in 0..ctx.count {
        let mut rng = ctx.rng.fork();
        if rng.chance(1, 6) {
            // (with padding insertions so that about a quarter of these run lazily, in both examination orders)
            let mut ops = gen_chain2(&mut rng);
            for j in 0..rng.below(4) {
                ops.insert(0, Op::Add(ATerm { v: 15, fields: vec![CField::Lit(format!("{}", 70 + j))], children: vec![] }));
                for o in ops.iter_mut() {
                    if let Op::Union(a, b) = o {
                        *a += 1;
                        *b += 1;
                    }
                }
            }
            for c in exec_hist_l(ops, true) {
                ctx.emit(c);
            }
            continue;
        }
        if rng.chance(1, 8) {
            for c in exec_hist(gen_sym5(&mut rng)) {
                ctx.emit(c);
            }
            continue;
        }
        for c in exec_hist(gen_long(&mut rng, nops)) {
            ctx.emit(c);
        }
    }
}
