//! Metamorphic suites on top of `eg`: corr.order (C12) and corr.rename (C11).
use crate::langs::*;
use crate::rng::Rng;
use crate::suites::eg::*;
use crate::suites::rw::*;
use crate::terms::*;
use crate::util::*;
use crate::{Case, Ctx};
use slotted_egraphs::*;

/// final observables of a history, reported in the order of `order` (original term index of each tracked position)
fn run_final(ops: &[Op], orig_index: &[usize], rho_back: Option<Vec<(u32, u32)>>, rewrite: usize, ana: bool) -> Result<String, String> {
    // with or without the min-size analysis attached (the same choice for every run that is compared): the observables are
    // those of the congruence closure and must not depend on it
    if ana && rewrite == 0 {
        run_final_n::<crate::suites::ana::MinSize>(ops, orig_index, rho_back, |_| Ok(()))
    } else {
        let rw = move |eg: &mut EGraph<Main>| -> Result<(), String> {
        if rewrite > 0 {
            let names: [&[&str]; 5] = [&["add-comm", "mul-comm", "add-assoc"], &["k-def", "h-def"], &["sum-swap", "add-comm", "k-def"], &["var-factor", "add-comm"], &["mul-comm", "factor"]];
            let rws: Vec<Rewrite<Main>> = if rewrite == 6 {
                // (metamorphic suites only: a rule over a leaf with two slots of its own, one of them used again elsewhere)
                vec![Rewrite::new("two-slot", "(k (f2 $a $b) (g1 $a))", "(h (g1 $b))"), Rewrite::new("two-slot-rev", "(k (g2 $b $a) (g1 $a))", "(h (g1 $b))")]
            } else {
                names[(rewrite - 1) % 5].iter().filter_map(|n| POOL.iter().find(|r| r.0 == *n)).map(|r| mk_rule(r)).collect()
            };
            for _ in 0..2 {
                if eg.total_number_of_nodes() > 120 {
                    break;
                }
                if let Err(e) = guarded(|| apply_rewrites(eg, &rws)) {
                    return Err(format!("rewrite {e}"));
                }
            }
        }
            Ok(())
        };
        run_final_n::<()>(ops, orig_index, rho_back, rw)
    }
}

fn run_final_n<N: Analysis<Main> + Default>(ops: &[Op], orig_index: &[usize], rho_back: Option<Vec<(u32, u32)>>, rw: impl FnOnce(&mut EGraph<Main, N>) -> Result<(), String>) -> Result<String, String> {
    let mut eg: EGraph<Main, N> = EGraph::default();
    let mut tracked: Vec<AppliedId> = Vec::new();
    for (k, op) in ops.iter().enumerate() {
        match op {
            Op::Add(t) => {
                let re = to_recexpr::<Main>(t);
                match guarded(|| eg.add_expr(re)) {
                    Ok(a) => tracked.push(a),
                    Err(e) => return Err(format!("op{k}:add {e}")),
                }
            }
            Op::Union(i, j) => {
                let (a, b) = (tracked[*i].clone(), tracked[*j].clone());
                if let Err(e) = guarded(|| eg.union(&a, &b)) {
                    return Err(format!("op{k}:union {e}"));
                }
            }
            Op::Query => {}
        }
    }
    // optionally a few rewrite iterations with slot-name-independent rules (the same in every run that is compared)
    rw(&mut eg)?;
    // reorder tracked handles into the original term order
    let n = tracked.len();
    let mut by_orig: Vec<Option<AppliedId>> = vec![None; n];
    for (pos, &o) in orig_index.iter().enumerate() {
        by_orig[o] = Some(tracked[pos].clone());
    }
    let tr: Vec<AppliedId> = by_orig.into_iter().map(|x| x.unwrap()).collect();
    guarded(|| {
        let obs = observe(&eg, &tr);
        let mut s = show_obs(&obs);
        if let Some(back) = &rho_back {
            // the (non-fresh) slots of each returned invocation, mapped back to the original names
            let inv: Vec<String> = tr
                .iter()
                .map(|a| {
                    let mut v: Vec<u32> = a
                        .slots()
                        .iter()
                        .map(|x| code(*x))
                        .filter(|c| c % 4 != 1 || back.iter().any(|(_, y)| y == c))
                        .map(|c| back.iter().find(|(_, y)| *y == c).map(|(x, _)| *x).unwrap_or(c))
                        .collect();
                    v.sort();
                    v.iter().map(|x| x.to_string()).collect::<Vec<_>>().join(".")
                })
                .collect();
            s.push_str(&format!("|inv:{}", inv.join(",")));
            // the e-nodes of each handle's class as seen through the handle (`enodes_applied`, with the caller's slot names):
            // how many slots each of them has, as a sorted list — bound and redundant slots must come back fresh whatever the
            // caller's names are
            let ena: Vec<String> = tr
                .iter()
                .map(|a| {
                    let mut v: Vec<usize> = eg.enodes_applied(&eg.find_applied_id(a)).iter().map(|n| n.slots().len()).collect();
                    v.sort();
                    v.iter().map(|x| x.to_string()).collect::<Vec<_>>().join(".")
                })
                .collect();
            s.push_str(&format!("|ena:{}", ena.join(",")));
        }
        s
    })
}

fn split_ops(ops: &[Op]) -> (Vec<ATerm>, Vec<(usize, usize)>) {
    let mut terms = Vec::new();
    let mut unions = Vec::new();
    for o in ops {
        match o {
            Op::Add(t) => terms.push(t.clone()),
            Op::Union(i, j) => unions.push((*i, *j)),
            Op::Query => {}
        }
    }
    (terms, unions)
}

// ------------------------------------------------------------------ C12

/// a history with more slot names than the oracle can afford, for the order comparison alone (the model line is a bare query):
/// a ternary node over three three-slot leaves whose class gets all of S3 by two unions — 6·6·6 group-compatible variants
fn gen_wide(rng: &mut Rng) -> Vec<Op> {
    let t3 = |a: ATerm, b: ATerm, c: ATerm| ATerm { v: 17, fields: vec![CField::App, CField::App, CField::App], children: vec![a, b, c] };
    let c = |s: &[u32]| leaf(8, s);
    let s: [u32; 9] = [4, 8, 12, 16, 20, 24, 28, 32, 36];
    let parent = |s: &[u32; 9]| t3(c(&s[0..3]), c(&s[3..6]), c(&s[6..9]));
    let mut ops = vec![Op::Add(parent(&s)), Op::Add(c(&[4, 8, 12])), Op::Add(c(&[8, 4, 12]))];
    ops.push(Op::Add(if rng.chance(1, 2) { c(&[4, 12, 8]) } else { c(&[8, 12, 4]) }));
    // the same parent with one or two children rotated / flipped
    for _ in 0..rng.range(1, 2) {
        let mut s2 = s;
        let k = 3 * rng.below(3);
        if rng.chance(1, 2) {
            s2.swap(k, k + 1);
            s2.swap(k + 1, k + 2);
        } else {
            s2.swap(k + 1, k + 2);
        }
        ops.push(Op::Add(parent(&s2)));
    }
    ops.push(Op::Union(1, 2));
    ops.push(Op::Union(1, 3));
    ops
}

fn order_case(rng: &mut Rng, nvariants: usize) -> Case {
    let wide = rng.chance(1, 8);
    // one case in eight (always with the analysis attached): a parent that has BOTH operands of a union as children, next to
    // parents of one side — the parent is queued for an analysis refresh and for re-canonicalisation at once, whichever operand dies
    let both = !wide && rng.chance(1, 7);
    // one case in nine: a class with exactly ONE live slot that holds a node with a node-level redundant slot (`P(c(x,y)) = g1(x)`),
    // and a symmetry of the child that exchanges the live and the redundant slot (`c(x,y) = c(y,x)`): in whichever order the two
    // unions come, the last slot of the parent class has to go
    let redsym = !wide && !both && rng.chance(1, 8);
    let (ops, stream) = if wide {
        (gen_wide(rng), "wide")
    } else if redsym {
        let cv = if rng.chance(1, 2) { 7 } else { 11 };
        let (x, y) = (4u32, 8u32);
        let c = |a: u32, b2: u32| leaf(cv, &[a, b2]);
        let wrap = |t: ATerm, rng: &mut Rng| if rng.chance(1, 2) { un(13, t) } else { bin(14, t.clone(), t) };
        let parent = wrap(c(x, y), rng);
        let mut ops = vec![Op::Add(parent.clone()), Op::Add(leaf(10, &[x])), Op::Add(c(x, y)), Op::Add(c(y, x))];
        if rng.chance(1, 2) {
            ops.push(Op::Add(un(13, parent.clone())));
        }
        if rng.chance(1, 2) {
            ops.push(Op::Add(leaf(10, &[y])));
        }
        ops.push(Op::Union(0, 1));
        ops.push(Op::Union(2, 3));
        (ops, "redthensym")
    } else if both {
        let sym = |s: &str| ATerm { v: 16, fields: vec![CField::Lit(s.into())], children: vec![] };
        let slotted = rng.chance(1, 2);
        let small = if slotted { leaf(10, &[4]) } else { sym("b") };
        let big = if slotted { un(13, un(13, leaf(2, &[4]))) } else { un(13, un(13, sym("a"))) };
        let op = if rng.chance(1, 2) { 14 } else { 4 };
        let mut ops = vec![Op::Add(big.clone()), Op::Add(small.clone()), Op::Add(bin(op, big.clone(), small.clone())), Op::Add(bin(op, big.clone(), big.clone()))];
        if rng.chance(1, 2) {
            ops.push(Op::Add(un(13, bin(op, big.clone(), small.clone()))));
        }
        if rng.chance(1, 2) {
            ops.push(Op::Add(bin(op, small.clone(), small.clone())));
        }
        ops.push(Op::Union(0, 1));
        (ops, "bothsides")
    } else {
        gen_history(rng)
    };
    let (terms, unions) = split_ops(&ops);
    let n = terms.len();
    // variants: (ops, orig_index)
    let mut variants: Vec<(Vec<Op>, Vec<usize>)> = Vec::new();
    let base: Vec<Op> = terms.iter().cloned().map(Op::Add).chain(unions.iter().map(|(i, j)| Op::Union(*i, *j))).collect();
    variants.push((base.clone(), (0..n).collect()));
    for _ in 0..nvariants {
        let mut perm: Vec<usize> = (0..n).collect();
        rng.shuffle(&mut perm); // perm[pos] = original index added at position pos
        let pos_of = |o: usize| perm.iter().position(|x| *x == o).unwrap();
        let mut us: Vec<(usize, usize)> = unions.iter().map(|(i, j)| (pos_of(*i), pos_of(*j))).collect();
        rng.shuffle(&mut us);
        for u in us.iter_mut() {
            if rng.chance(1, 2) {
                *u = (u.1, u.0);
            }
        }
        let mut v: Vec<Op> = Vec::new();
        if rng.chance(1, 2) {
            // interleave: each union as early as possible after both its terms exist, at a random later point
            let mut pending = us.clone();
            for (pos, &o) in perm.iter().enumerate() {
                v.push(Op::Add(terms[o].clone()));
                let mut rest = Vec::new();
                for u in pending {
                    if u.0 <= pos && u.1 <= pos && rng.chance(2, 3) {
                        v.push(Op::Union(u.0, u.1));
                    } else {
                        rest.push(u);
                    }
                }
                pending = rest;
            }
            for u in pending {
                v.push(Op::Union(u.0, u.1));
            }
        } else {
            for &o in &perm {
                v.push(Op::Add(terms[o].clone()));
            }
            for u in us {
                v.push(Op::Union(u.0, u.1));
            }
        }
        variants.push((v, perm));
    }
    let mut base_q = base.clone();
    base_q.push(Op::Query);
    let line = if wide { "eg main;Q".to_string() } else { format!("eg main;{}", enc_ops(&base_q)) };
    let nunions = unions.len();
    let touching = unions.len() >= 3
        && unions.iter().enumerate().any(|(a, u)| unions.iter().skip(a + 1).any(|w| u.0 == w.0 || u.0 == w.1 || u.1 == w.0 || u.1 == w.1));
    let vs = variants.clone();
    let with_ana = both || rng.chance(1, 4);
    let r = in_fresh_thread(move || {
        intern_names();
        vs.iter().map(|(ops, idx)| run_final(ops, idx, None, 0, with_ana)).collect::<Vec<_>>()
    });
    let mut tags = vec![format!("s:{stream}")];
    match r {
        Ok(outs) => {
            let first = outs[0].clone();
            let mut bad = None;
            for (k, o) in outs.iter().enumerate() {
                if *o != first {
                    bad = Some(k);
                    break;
                }
            }
            if let Some(k) = bad {
                tags.push("viol:order-dependent".into());
                tags.push(format!("variant:{}", enc_ops(&variants[k].0).replace(',', "~")));
            }
            let impl_out = match &first {
                Ok(s) => s.clone(),
                Err(e) => format!("PANIC {e}"),
            };
            let extra = if let Some(k) = bad {
                format!(" ##differs-in-order#{k}: {}", match &outs[k] { Ok(s) => s.clone(), Err(e) => format!("PANIC {e}") })
            } else {
                String::new()
            };
            Case { line, impl_out: format!("{impl_out}{extra}"), nontrivial: touching && nunions >= 3, tags }
        }
        Err(e) => Case { line, impl_out: format!("PANIC {e}"), nontrivial: true, tags: vec!["panic".into()] },
    }
}

pub fn run_order(ctx: &mut Ctx) {
    let nv = ctx.param("variants", 5);
    for _ in 0..ctx.count {
        let mut rng = ctx.rng.fork();
        ctx.emit(order_case(&mut rng, nv));
    }
}

// ------------------------------------------------------------------ C11

fn rename_ops(ops: &[Op], rho: &dyn Fn(u32) -> u32) -> Vec<Op> {
    ops.iter()
        .map(|o| match o {
            Op::Add(t) => Op::Add(rename_all(t, rho)),
            x => x.clone(),
        })
        .collect()
}

/// rename every name, bound or free (binder names are kept apart from free names by the generator)
fn rename_all(t: &ATerm, rho: &dyn Fn(u32) -> u32) -> ATerm {
    fn f(c: &CField, rho: &dyn Fn(u32) -> u32) -> CField {
        match c {
            CField::Slot(s) => CField::Slot(rho(*s)),
            CField::App => CField::App,
            CField::Bind(s, x) => CField::Bind(rho(*s), Box::new(f(x, rho))),
            CField::Lit(v) => CField::Lit(v.clone()),
        }
    }
    ATerm { v: t.v, fields: t.fields.iter().map(|c| f(c, rho)).collect(), children: t.children.iter().map(|c| rename_all(c, rho)).collect() }
}

fn all_names(ops: &[Op]) -> Vec<u32> {
    fn go(t: &ATerm, out: &mut Vec<u32>) {
        fn f(c: &CField, out: &mut Vec<u32>) {
            match c {
                CField::Slot(s) => {
                    if !out.contains(s) {
                        out.push(*s)
                    }
                }
                CField::Bind(s, x) => {
                    if !out.contains(s) {
                        out.push(*s)
                    }
                    f(x, out)
                }
                _ => {}
            }
        }
        t.fields.iter().for_each(|c| f(c, out));
        t.children.iter().for_each(|c| go(c, out));
    }
    let mut out = Vec::new();
    for o in ops {
        if let Op::Add(t) = o {
            go(t, &mut out)
        }
    }
    out.sort();
    out
}

fn rename_case(rng: &mut Rng) -> Case {
    // half of the cases come from the streams with symmetric classes and parents over them: there the choice
    // among group-compatible variants (shape computation) is where slot order could leak into the result
    let want_sym = rng.chance(1, 2);
    // one case in six: terms `p*q + r` over slot names, rewritten with a rule whose pattern has free slots (one of them
    // twice): which matches exist must not depend on how the names sort
    let slotarith = rng.chance(1, 6);
    // one case in eight: `p*q + r*p` (the common factor at any of the four positions) under commutativity and the slot-free,
    // non-linear `factor` rule — once the products are symmetric, whether the rule finds its instance must not depend on
    // which of the variants of the sum node is the stored one, i.e. on how the names sort
    let symfactor = !slotarith && rng.chance(1, 7);
    // one case in eight: a pattern node with two slots of its own (`(f2 $a $b)`), one of which the pattern uses again: which
    // e-graph slot stands for which pattern slot is a matter of position, not of how the names sort
    let twoslot = !slotarith && !symfactor && rng.chance(1, 8);
    let (ops, stream) = if twoslot {
        let bin = |v: usize, a: ATerm, b: ATerm| ATerm { v, fields: vec![CField::App, CField::App], children: vec![a, b] };
        let mut nm: Vec<u32> = vec![4, 8, 2, 6];
        rng.shuffle(&mut nm);
        let (x, y) = (nm[0], nm[1]);
        let two = if rng.chance(1, 2) { 7 } else { 11 };
        let mut ops = vec![
            Op::Add(bin(14, leaf(two, &[x, y]), leaf(10, &[x]))),
            Op::Add(bin(14, leaf(two, &[y, x]), leaf(10, &[x]))),
            Op::Add(un(13, leaf(10, &[x]))),
            Op::Add(un(13, leaf(10, &[y]))),
        ];
        if rng.chance(1, 2) {
            ops.push(Op::Add(bin(14, leaf(two, &[x, y]), leaf(10, &[y]))));
        }
        (ops, "twoslot")
    } else if symfactor {
        let var = |c: u32| ATerm { v: 2, fields: vec![CField::Slot(c)], children: vec![] };
        let bin = |v: usize, a: ATerm, b: ATerm| ATerm { v, fields: vec![CField::App, CField::App], children: vec![a, b] };
        let mut nm: Vec<u32> = vec![4, 8, 2, 6];
        rng.shuffle(&mut nm);
        let (p, q, r) = (nm[0], nm[1], nm[2]);
        let m1 = if rng.chance(1, 2) { bin(5, var(p), var(q)) } else { bin(5, var(q), var(p)) };
        let m2 = if rng.chance(1, 2) { bin(5, var(p), var(r)) } else { bin(5, var(r), var(p)) };
        let mut ops = vec![Op::Add(bin(4, m1, m2))];
        if rng.chance(1, 2) {
            ops.push(Op::Add(bin(5, var(p), bin(4, var(q), var(r)))));
        }
        (ops, "symfactor")
    } else if slotarith {
        let k = rng.range(2, 4);
        let mut ops: Vec<Op> = (0..k).map(|_| Op::Add(gen_var_factor_term(rng))).collect();
        if rng.chance(1, 3) {
            ops.push(Op::Union(0, 1));
        }
        (ops, "slotarith")
    } else if rng.chance(1, 6) {
        (gen_symred4(rng), "symred4")
    } else {
        loop {
            let (ops, stream) = gen_history(rng);
            if !want_sym || matches!(stream, "inherit" | "symred" | "deepsym" | "symmetry" | "upmerge" | "symred4") {
                break (ops, stream);
            }
        }
    };
    let names = all_names(&ops);
    let n = names.len();
    // renamings chosen to stress internal order
    let numeric: Vec<u32> = (1..=n as u32).map(|i| 4 * i).collect();
    let named: Vec<u32> = (0..n as u32).map(|i| 4 * i + 2).collect();
    let freshlike: Vec<u32> = (0..n as u32).map(|i| 4 * (500 + i) + 1).collect();
    let mut renamings: Vec<(&str, Vec<u32>)> = Vec::new();
    let rev = |v: &Vec<u32>| v.iter().rev().copied().collect::<Vec<u32>>();
    renamings.push(("numeric-ascending", numeric.clone()));
    // (`$0`, `$1`, ..: the names stored shapes use for their own binders)
    renamings.push(("numeric-from-zero", (0..n as u32).map(|i| 4 * i).collect()));
    renamings.push(("numeric-reversed", rev(&numeric)));
    renamings.push(("named-reversed", rev(&named)));
    renamings.push(("f-names-above-counter", freshlike.clone()));
    let mut mixed: Vec<u32> = numeric.iter().zip(named.iter()).enumerate().map(|(i, (a, b))| if i % 2 == 0 { *b } else { *a }).collect();
    rng.shuffle(&mut mixed);
    renamings.push(("mixed-shuffled", mixed));
    let pick: Vec<usize> = {
        let mut v: Vec<usize> = (0..renamings.len()).collect();
        rng.shuffle(&mut v);
        v.truncate(3);
        v
    };
    let mut ops_q = ops.clone();
    if !matches!(ops_q.last(), Some(Op::Query)) {
        ops_q.push(Op::Query);
    }
    let line = format!("eg main;{}", enc_ops(&ops_q));
    let ntracked = ops.iter().filter(|o| matches!(o, Op::Add(_))).count();
    let idx: Vec<usize> = (0..ntracked).collect();
    let mut runs: Vec<(String, Vec<Op>, Option<Vec<(u32, u32)>>)> = Vec::new();
    runs.push(("identity".into(), ops.clone(), Some(names.iter().map(|x| (*x, *x)).collect())));
    let mut order_changed = false;
    for k in pick {
        let img = renamings[k].1.clone();
        let names2 = names.clone();
        let img2 = img.clone();
        let rho = move |c: u32| names2.iter().position(|x| *x == c).map(|i| img2[i]).unwrap_or(c);
        for i in 0..n {
            for j in i + 1..n {
                if (names[i] < names[j]) != (img[i] < img[j]) {
                    order_changed = true;
                }
            }
        }
        let back: Vec<(u32, u32)> = names.iter().copied().zip(img.iter().copied()).collect();
        runs.push((renamings[k].0.to_string(), rename_ops(&ops, &rho), Some(back)));
    }
    let rs = runs.clone();
    // a third of the cases continue with two rewrite iterations (arithmetic start terms make the rules fire)
    let with_ana = rng.chance(1, 5);
    let rewrite = if twoslot { 6 } else if symfactor { 5 } else if slotarith { 4 } else if rng.chance(1, 3) { 1 + rng.below(3) } else { 0 };
    let r = in_fresh_thread(move || {
        intern_names();
        rs.iter().map(|(_, ops, back)| run_final(ops, &idx, back.clone(), rewrite, with_ana)).collect::<Vec<_>>()
    });
    let mut tags = vec![format!("s:{stream}")];
    if rewrite > 0 {
        tags.push("t:rewrite-iterations".into());
    }
    match r {
        Ok(outs) => {
            let first = outs[0].clone();
            let mut extra = String::new();
            for (k, o) in outs.iter().enumerate() {
                if *o != first {
                    tags.push("viol:renaming-dependent".into());
                    tags.push(format!("renaming:{}", runs[k].0));
                    extra = format!(" ##differs-under-{}: {} ##renamed-history: {}", runs[k].0, match o { Ok(s) => s.clone(), Err(e) => format!("PANIC {e}") }, enc_ops(&runs[k].1));
                    break;
                }
            }
            let impl_out = match &first {
                Ok(s) => s.split("|inv:").next().unwrap().to_string(),
                Err(e) => format!("PANIC {e}"),
            };
            let marker = if rewrite > 0 { " ##rewrite-iterations" } else { "" };
            Case { line, impl_out: format!("{impl_out}{marker}{extra}"), nontrivial: order_changed, tags }
        }
        Err(e) => Case { line, impl_out: format!("PANIC {e}"), nontrivial: true, tags: vec!["panic".into()] },
    }
}

pub fn run_rename(ctx: &mut Ctx) {
    for _ in 0..ctx.count {
        let mut rng = ctx.rng.fork();
        ctx.emit(rename_case(&mut rng));
    }
}
