//! corr.spec.eq — histories of insertions and unions, observed through the public API and judged
//! by the Lean saturation oracle (C01, C02; variants for C11, C12, C13 reuse `run_history`).
use crate::langs::*;
use crate::rng::Rng;
use crate::terms::*;
use crate::util::*;
use crate::{Case, Ctx};
use slotted_egraphs::*;

#[derive(Clone, Debug)]
pub enum Op {
    Add(ATerm),
    Union(usize, usize),
    Query,
}

pub fn enc_ops(ops: &[Op]) -> String {
    ops.iter()
        .map(|o| match o {
            Op::Add(t) => format!("A{}", enc_term(t)),
            Op::Union(i, j) => format!("U{i},{j}"),
            Op::Query => "Q".to_string(),
        })
        .collect::<Vec<_>>()
        .join(";")
}

pub fn parse_ops(body: &str) -> Vec<Op> {
    body.split(';')
        .filter(|x| !x.is_empty())
        .map(|x| {
            if let Some(t) = x.strip_prefix('A') {
                Op::Add(parse_term(t))
            } else if let Some(u) = x.strip_prefix('U') {
                let (i, j) = u.split_once(',').unwrap();
                Op::Union(i.parse().unwrap(), j.parse().unwrap())
            } else {
                Op::Query
            }
        })
        .collect()
}

pub struct Obs {
    pub eq: String,
    pub slots: Vec<usize>,
    pub syms: Vec<usize>,
    pub classes: usize,
}

pub fn observe<L: HLang, N: Analysis<L>>(eg: &EGraph<L, N>, tracked: &[AppliedId]) -> Obs {
    let mut eq = String::new();
    for i in 0..tracked.len() {
        for j in i + 1..tracked.len() {
            eq.push(if eg.eq(&tracked[i], &tracked[j]) { '1' } else { '0' });
        }
    }
    let slots = tracked.iter().map(|a| eg.find_applied_id(a).m.len()).collect();
    let syms = tracked.iter().map(|a| eg.verif_group_count(eg.find_applied_id(a).id)).collect();
    Obs { eq, slots, syms, classes: eg.ids().len() }
}

pub fn show_obs(o: &Obs) -> String {
    let f = |v: &Vec<usize>| v.iter().map(|x| x.to_string()).collect::<Vec<_>>().join(",");
    format!("eq:{}|slots:{}|syms:{}|classes:{}", o.eq, f(&o.slots), f(&o.syms), o.classes)
}

/// runs the history on the real e-graph; one output per `Q`
pub fn run_history<L: HLang>(ops: &[Op], check_each: bool) -> Result<Vec<String>, String> {
    run_history_n::<L, ()>(ops, check_each)
}

/// the same with an analysis attached (the analysis must not influence any of the observables: equalities, slot counts,
/// symmetry counts and class counts are those of the congruence closure)
pub fn run_history_n<L: HLang, N: Analysis<L> + Default>(ops: &[Op], check_each: bool) -> Result<Vec<String>, String> {
    fresh_noise(&enc_ops(ops));
    warm_up(&enc_ops(ops));
    let mut eg: EGraph<L, N> = EGraph::default();
    let mut tracked: Vec<AppliedId> = Vec::new();
    let mut outs = Vec::new();
    for (k, op) in ops.iter().enumerate() {
        match op {
            Op::Add(t) => {
                let re = to_recexpr::<L>(t);
                match guarded(|| eg.add_expr(re)) {
                    Ok(a) => tracked.push(a),
                    Err(e) => return Err(format!("op{k}:add {e}")),
                }
            }
            Op::Union(i, j) => {
                if *i >= tracked.len() || *j >= tracked.len() {
                    continue; // shrunk histories may lose the insertion a union refers to: skipped on both sides
                }
                let (a, b) = (tracked[*i].clone(), tracked[*j].clone());
                if let Err(e) = guarded(|| eg.union(&a, &b)) {
                    return Err(format!("op{k}:union {e}"));
                }
            }
            Op::Query => match guarded(|| show_obs(&observe(&eg, &tracked))) {
                Ok(s) => outs.push(s),
                Err(e) => return Err(format!("op{k}:query {e}")),
            },
        }
        if check_each {
            if let Err(e) = guarded(|| eg.check()) {
                return Err(format!("op{k}:check {e}"));
            }
        }
    }
    Ok(outs)
}

// ---------------------------------------------------------------- generators

pub const FREE: [u32; 5] = [4, 8, 2, 12, 6];
pub const BINDERS: [u32; 3] = [10, 14, 18];

/// Main-language variants by role
pub const LEAVES: [usize; 8] = [2, 7, 8, 10, 11, 12, 15, 16]; // var f2 f3 g1 g2 g3 Number Symbol
pub const INNER: [usize; 6] = [13, 14, 4, 1, 0, 6]; // h k add app lam sum
pub const F4: usize = 9;

pub fn gen_term(rng: &mut Rng, nfree: usize, depth: usize, binders: bool) -> ATerm {
    let mut allowed: Vec<usize> = LEAVES.to_vec();
    allowed.extend(INNER.iter().copied().filter(|v| binders || (*v != 0 && *v != 6)));
    if rng.chance(1, 8) {
        allowed.push(F4);
    }
    let mut g = TermGen {
        rng,
        sig: Main::sig(),
        free: FREE[..nfree].to_vec(),
        binders: BINDERS.to_vec(),
        leaf_bias: 3,
        allowed,
    };
    g.term(depth, &mut Vec::new())
}

fn small_fv(t: &ATerm) -> bool {
    free_slots(t).len() <= 4
}

/// in half of the cases (a hash of the case line decides) another small e-graph lives and dies on this thread before the
/// one under test: a few terms, a union that makes a slot redundant, one that adds a symmetry, a rebuild, a lookup.  Nothing
/// an e-graph does may depend on what another one did earlier on the same thread
pub fn warm_up(key: &str) {
    let h = key.bytes().fold(0xcbf29ce484222325u64, |h, b| (h ^ b as u64).wrapping_mul(0x100000001b3)) >> 13;
    if h % 2 == 0 {
        return;
    }
    let leaf = |v: usize, sl: &[u32]| ATerm { v, fields: sl.iter().map(|s| CField::Slot(*s)).collect(), children: vec![] };
    let un = |v: usize, a: ATerm| ATerm { v, fields: vec![CField::App], children: vec![a] };
    let mut eg: EGraph<crate::langs::Main> = EGraph::default();
    let a = eg.add_expr(to_recexpr(&leaf(7, &[4, 8])));
    let b = eg.add_expr(to_recexpr(&leaf(7, &[8, 4])));
    let c = eg.add_expr(to_recexpr(&leaf(11, &[4, 8])));
    let d = eg.add_expr(to_recexpr(&leaf(10, &[4])));
    let _ = eg.add_expr(to_recexpr(&un(13, leaf(11, &[4, 8]))));
    let _ = guarded(|| eg.union(&a, &b));
    let _ = guarded(|| eg.union(&c, &d));
    let _ = guarded(|| eg.eq(&a, &b));
    let _ = guarded(|| lookup_rec_expr(&to_recexpr::<crate::langs::Main>(&un(13, leaf(11, &[4, 12]))), &eg));
}

/// every slot of the term spelled `$f<N>` — the spelling of the library's own fresh slots (numeric `$k` becomes `$f<2k>`,
/// the named ones `$f<2k+1>`): the names reach the slot table when the term is built, i.e. in the middle of the e-graph's
/// own fresh-slot allocations
pub fn fstyle_term(t: &ATerm) -> ATerm {
    fn m(c: u32) -> u32 {
        match c % 4 {
            0 => 4 * (2 * (c / 4)) + 1,
            2 => 4 * (2 * (c / 4) + 1) + 1,
            _ => c,
        }
    }
    fn cf(f: &CField) -> CField {
        match f {
            CField::Slot(s) => CField::Slot(m(*s)),
            CField::Bind(s, x) => CField::Bind(m(*s), Box::new(cf(x))),
            x => x.clone(),
        }
    }
    ATerm { v: t.v, fields: t.fields.iter().map(cf).collect(), children: t.children.iter().map(fstyle_term).collect() }
}

pub fn gen_history(rng: &mut Rng) -> (Vec<Op>, &'static str) {
    let (ops, stream) = gen_history0(rng);
    // the model side of the `eg` protocol sizes its term universe from all insertions of a history: a generator that inserts
    // after a union would make the model count classes the implementation does not have yet (a false alarm, twice made)
    if let Some(u) = ops.iter().position(|o| matches!(o, Op::Union(..))) {
        // (`latesym` inserts after unions on purpose; the model side then leaves the class count undetermined)
        assert!(stream == "latesym" || ops[u..].iter().all(|o| !matches!(o, Op::Add(_))), "generator `{stream}` inserts after a union");
    }
    if rng.chance(1, 8) {
        return (ops.into_iter().map(|o| match o { Op::Add(t) => Op::Add(fstyle_term(&t)), x => x }).collect(), stream);
    }
    (ops, stream)
}

fn gen_history0(rng: &mut Rng) -> (Vec<Op>, &'static str) {
    let stream = match rng.below(30) {
        29 => "twicered",
        28 => "latesym",
        27 => "redsym4",
        26 => "wred",
        25 => "symbinder",
        24 => "sumxor",
        23 => "symred4",
        22 => "fcapture",
        21 => "latered2",
        19 | 20 => "migrate",
        16 => "collapse",
        17 | 18 => "shadow",
        15 => "latered",
        0..=2 => "mixed",
        3 => "symmetry",
        4 => "redundancy",
        5 => "selfref",
        6 | 7 => "binders",
        8 | 9 => "inherit",
        10 | 11 => "symred",
        12 => "upmerge",
        _ => "deepsym",
    };
    if stream == "latered" || stream == "latered2" {
        // Query after every union, as in the other streams
        let mut ops = Vec::new();
        let raw = if stream == "latered" { gen_late_redundancy(rng) } else { gen_late_redundancy2(rng) };
        for o in raw {
            let is_union = matches!(o, Op::Union(..));
            let is_query = matches!(o, Op::Query);
            if !is_query {
                if is_union && !matches!(ops.last(), Some(Op::Query)) {
                    ops.push(Op::Query);
                }
                ops.push(o);
                if is_union {
                    ops.push(Op::Query);
                }
            }
        }
        return (ops, stream);
    }
    if stream == "inherit" || stream == "symred" || stream == "deepsym" || stream == "upmerge" {
        return (gen_structured(rng, stream), stream);
    }
    if stream == "tripledep" || stream == "collapse" || stream == "shadow" || stream == "migrate" || stream == "fcapture" || stream == "symred4" || stream == "sumxor" || stream == "symbinder" || stream == "wred" || stream == "redsym4" || stream == "latesym" || stream == "twicered" {
        let raw = match stream {
            "twicered" => gen_twicered(rng),
            "redsym4" => gen_redsym4(rng),
            "latesym" => gen_latesym(rng),
            "tripledep" => gen_tripledep(rng),
            "sumxor" => gen_sumxor(rng),
            "symbinder" => gen_symbinder(rng),
            "wred" => gen_wred(rng),
            "symred4" => gen_symred4(rng),
            "fcapture" => gen_fcapture(rng),
            "migrate" => gen_migrate(rng),
            "collapse" => gen_collapse(rng),
            _ => gen_shadow(rng),
        };
        let mut ops = Vec::new();
        for o in raw {
            let is_union = matches!(o, Op::Union(..));
            if is_union && !matches!(ops.last(), Some(Op::Query)) {
                ops.push(Op::Query);
            }
            ops.push(o);
            if is_union {
                ops.push(Op::Query);
            }
        }
        if !matches!(ops.last(), Some(Op::Query)) {
            ops.push(Op::Query);
        }
        return (ops, stream);
    }
    let nfree = rng.range(2, 4);
    let mut terms: Vec<ATerm> = Vec::new();
    let mut unions: Vec<(usize, usize)> = Vec::new();
    let push = |terms: &mut Vec<ATerm>, t: ATerm| -> usize {
        if let Some(i) = terms.iter().position(|x| *x == t) {
            i
        } else {
            terms.push(t);
            terms.len() - 1
        }
    };
    let fresh_term = |rng: &mut Rng, binders: bool| loop {
        let d = rng.range(0, 2);
        let t = gen_term(rng, nfree, d, binders);
        if small_fv(&t) {
            return t;
        }
    };
    match stream {
        "symmetry" => {
            // a term and permuted copies of it, asserted equal
            let t = loop {
                let t = fresh_term(rng, false);
                if free_slots(&t).len() >= 2 {
                    break t;
                }
            };
            let fs = free_slots(&t);
            let a = push(&mut terms, t.clone());
            for _ in 0..rng.range(1, 2) {
                let mut img = fs.clone();
                if rng.chance(1, 2) && fs.len() >= 3 {
                    img.rotate_left(1);
                } else {
                    let (i, j) = (rng.below(fs.len()), rng.below(fs.len()));
                    img.swap(i, j);
                }
                let fs2 = fs.clone();
                let rho = move |c: u32| fs2.iter().position(|x| *x == c).map(|i| img[i]).unwrap_or(c);
                let b = push(&mut terms, rename_free(&t, &rho));
                if a != b {
                    unions.push((a, b));
                }
            }
            // a context around it and one more copy to query
            let ctx = ATerm { v: 13, fields: vec![CField::App], children: vec![t.clone()] };
            push(&mut terms, ctx);
            let extra = fresh_term(rng, false);
            let e = push(&mut terms, extra);
            if rng.chance(1, 2) {
                unions.push((a, e));
            }
        }
        "redundancy" => {
            let t = loop {
                let t = fresh_term(rng, false);
                if free_slots(&t).len() >= 2 {
                    break t;
                }
            };
            let a = push(&mut terms, t.clone());
            // a term with fewer / partially overlapping slots
            let u = loop {
                let u = fresh_term(rng, false);
                if free_slots(&u).len() < free_slots(&t).len() {
                    break u;
                }
            };
            let b = push(&mut terms, u);
            unions.push((a, b));
            // renamed copy of t sharing some slots (f(x,y) = f(y,z) style)
            if rng.chance(1, 2) {
                let fs = free_slots(&t);
                let spare = FREE.iter().copied().find(|c| !fs.contains(c)).unwrap_or(16);
                let k = rng.below(fs.len());
                let fs2 = fs.clone();
                let rho = move |c: u32| if c == fs2[k] { spare } else { c };
                let c = push(&mut terms, rename_free(&t, &rho));
                if rng.chance(1, 2) {
                    unions.push((a, c));
                }
            }
            let ctx = ATerm { v: 14, fields: vec![CField::App, CField::App], children: vec![t.clone(), fresh_term(rng, false)] };
            push(&mut terms, ctx);
        }
        "selfref" => {
            // t = C[t'] where t' is a renamed copy of t
            let t = loop {
                let t = fresh_term(rng, false);
                if !free_slots(&t).is_empty() {
                    break t;
                }
            };
            let fs = free_slots(&t);
            let mut img = fs.clone();
            if rng.chance(1, 2) {
                rng.shuffle(&mut img);
            } else {
                let spare = FREE.iter().copied().find(|c| !fs.contains(c)).unwrap_or(16);
                let k = rng.below(img.len());
                img[k] = spare;
            }
            let fs2 = fs.clone();
            let rho = move |c: u32| fs2.iter().position(|x| *x == c).map(|i| img[i]).unwrap_or(c);
            let t2 = rename_free(&t, &rho);
            let ctx = if rng.chance(1, 2) {
                ATerm { v: 13, fields: vec![CField::App], children: vec![t2] }
            } else {
                ATerm { v: 14, fields: vec![CField::App, CField::App], children: vec![t2, fresh_term(rng, false)] }
            };
            if small_fv(&ctx) {
                let a = push(&mut terms, t.clone());
                let b = push(&mut terms, ctx.clone());
                unions.push((a, b));
                if rng.chance(1, 2) {
                    // afterwards the self-referential class changes in place (a slot becomes redundant or a symmetry appears),
                    // and then its self-loop e-node is needed under the new shape: another class is merged into it and the
                    // same context around that class has to be found equal
                    let spare = FREE.iter().copied().find(|c| !fs.contains(c)).unwrap_or(16);
                    let kk = rng.below(fs.len());
                    let fs3 = fs.clone();
                    let t_red = rename_free(&t, &move |c| if c == fs3[kk] { spare } else { c });
                    let c_red = push(&mut terms, t_red);
                    unions.push((a, c_red));
                    let m = ATerm { v: 9, fields: (0..4).map(|i| CField::Slot(fs[i % fs.len()])).collect(), children: vec![] };
                    let im = push(&mut terms, m.clone());
                    // the context of the self-reference, now around m
                    let ctx_m = match &ctx {
                        ATerm { v, fields, children } if !children.is_empty() => {
                            let mut ch = children.clone();
                            ch[0] = rename_free(&m, &rho);
                            ATerm { v: *v, fields: fields.clone(), children: ch }
                        }
                        other => other.clone(),
                    };
                    unions.push((im, a));
                    push(&mut terms, ctx_m);
                }
            } else {
                push(&mut terms, t);
            }
            push(&mut terms, fresh_term(rng, false));
        }
        _ => {
            let binders = stream == "binders" || rng.chance(1, 3);
            let n = rng.range(3, 6);
            for _ in 0..n {
                let t = fresh_term(rng, binders);
                // sometimes also track a direct child
                if rng.chance(1, 3) {
                    if let Some(c) = t.children.first() {
                        // children under binders have bound names free: only track closed-scope children
                        if free_slots(c).iter().all(|s| !BINDERS.contains(s)) {
                            push(&mut terms, c.clone());
                        }
                    }
                }
                push(&mut terms, t);
            }
            let m = rng.range(1, 4);
            for _ in 0..m {
                let (i, j) = (rng.below(terms.len()), rng.below(terms.len()));
                if i != j {
                    unions.push((i, j));
                }
            }
        }
    }
    // extra random union between existing terms in the special streams
    if stream != "mixed" && stream != "binders" && terms.len() >= 2 && rng.chance(1, 3) {
        let (i, j) = (rng.below(terms.len()), rng.below(terms.len()));
        if i != j {
            unions.push((i, j));
        }
    }
    let mut ops: Vec<Op> = terms.into_iter().map(Op::Add).collect();
    ops.push(Op::Query);
    for (i, j) in unions {
        ops.push(Op::Union(i, j));
        ops.push(Op::Query);
    }
    (ops, stream)
}

/// a parent that uses one child class three times; one argument of one occurrence becomes redundant in the parent's class
/// only, then the child class becomes symmetric: re-processing the parent must find the redundancy *and* every argument flip
pub fn gen_tripledep(rng: &mut Rng) -> Vec<Op> {
    let t3 = |a: ATerm, b: ATerm, c: ATerm| ATerm { v: 17, fields: vec![CField::App, CField::App, CField::App], children: vec![a, b, c] };
    let c = |x: u32, y: u32| leaf(7, &[x, y]);
    let s: [u32; 6] = [4, 8, 12, 16, 20, 24];
    let spare = 28u32;
    let which = rng.below(3);
    let parent = |sl: &[u32; 6]| t3(c(sl[0], sl[1]), c(sl[2], sl[3]), c(sl[4], sl[5]));
    let mut s2 = s;
    s2[2 * which + 1] = spare;
    let mut ops = vec![Op::Add(parent(&s)), Op::Add(parent(&s2)), Op::Add(c(4, 8)), Op::Add(c(8, 4))];
    // a flipped occurrence other than the one that lost its argument
    let other = (which + 1 + rng.below(2)) % 3;
    let mut s3 = s;
    s3.swap(2 * other, 2 * other + 1);
    ops.push(Op::Add(parent(&s3)));
    if rng.chance(1, 2) {
        let mut s4 = s;
        let o2 = (0..3).find(|k| *k != which && *k != other).unwrap();
        s4.swap(2 * o2, 2 * o2 + 1);
        ops.push(Op::Add(parent(&s4)));
    }
    if rng.chance(3, 4) {
        ops.push(Op::Union(0, 1));
        ops.push(Op::Union(2, 3));
    } else {
        ops.push(Op::Union(2, 3));
        ops.push(Op::Union(0, 1));
    }
    ops
}

/// two e-nodes of one class (from an explicit union) that collapse onto one shape with swapped slots when their children
/// are united later: the collapse is where the class's symmetry has to be discovered
pub fn gen_collapse(rng: &mut Rng) -> Vec<Op> {
    let op = if rng.chance(1, 2) { 14 } else { 4 };
    let (x, y, z) = (4u32, 8u32, 12u32);
    let a = |s: u32| leaf(2, &[s]);
    let b = |s: u32| leaf(10, &[s]);
    let mut ops = vec![Op::Add(bin(op, a(x), b(y))), Op::Add(bin(op, b(y), a(x))), Op::Add(a(z)), Op::Add(b(z))];
    if rng.chance(1, 2) {
        ops.push(Op::Add(un(13, bin(op, a(x), b(y)))));
    }
    if rng.chance(3, 4) {
        ops.push(Op::Union(0, 1));
        ops.push(Op::Union(2, 3));
    } else {
        ops.push(Op::Union(2, 3));
        ops.push(Op::Union(0, 1));
    }
    ops
}

/// a node with a slot of its own *and* a child (`w(c, f(a, c))`), where the slot is handed to the child only at a position
/// that becomes redundant (`f(a, b) = g(a)`): `w(c, f(a, c)) = w(c, g(a))`, and the slot of `w` itself still matters
pub fn gen_wred(rng: &mut Rng) -> Vec<Op> {
    let (a, b, c) = (4u32, 8u32, 2u32);
    let w = |s: u32, t: ATerm| ATerm { v: 19, fields: vec![CField::Slot(s), CField::App], children: vec![t] };
    let (fv, gv) = if rng.chance(1, 2) { (7usize, 10usize) } else { (11, 10) };
    let mut terms = vec![w(c, leaf(fv, &[a, c])), leaf(fv, &[a, b]), leaf(gv, &[a]), w(c, leaf(gv, &[a]))];
    if rng.chance(1, 2) {
        terms.push(w(b, leaf(fv, &[a, b])));
    }
    if rng.chance(1, 2) {
        terms.push(w(a, leaf(gv, &[a])));
    }
    if rng.chance(1, 3) {
        terms.swap(0, 3);
    }
    let f_idx = terms.iter().position(|t| *t == leaf(fv, &[a, b])).unwrap();
    let g_idx = terms.iter().position(|t| *t == leaf(gv, &[a])).unwrap();
    let mut ops: Vec<Op> = terms.into_iter().map(Op::Add).collect();
    ops.push(if rng.chance(1, 2) { Op::Union(f_idx, g_idx) } else { Op::Union(g_idx, f_idx) });
    ops
}

/// a binder over a child class whose symmetry exchanges the bound slot with a free one: `c = x op y`, `c = y op x`, and
/// `λx. c`, `λy. c` (also `sum`, `let`); the two spellings of the parent are one node, whichever variant is stored
pub fn gen_symbinder(rng: &mut Rng) -> Vec<Op> {
    let var = |s: u32| leaf(2, &[s]);
    let (x, y) = (BINDERS[0], 4u32);
    let c = |a: u32, b: u32, k: usize| match k {
        0 => bin(4, var(a), var(b)),
        1 => bin(5, var(a), var(b)),
        2 => leaf(7, &[a, b]),
        _ => bin(14, leaf(10, &[a]), leaf(10, &[b])),
    };
    let k = rng.below(4);
    let bind = |v: usize, s: u32, b: ATerm| ATerm { v, fields: vec![CField::Bind(s, Box::new(CField::App))], children: vec![b] };
    let bv = if rng.chance(1, 2) { 0 } else { 6 };
    let mut ops = vec![Op::Add(c(x, y, k)), Op::Add(c(y, x, k)), Op::Add(bind(bv, x, c(x, y, k)))];
    if rng.chance(1, 2) {
        ops.push(Op::Add(bind(bv, x, c(y, x, k))));
    }
    if rng.chance(1, 2) {
        ops.push(Op::Add(un(13, bind(bv, x, c(x, y, k)))));
    }
    ops.push(Op::Union(0, 1));
    ops
}

/// two invocations of one class over *different* slot sets that agree in every cheap summary (same size, same sum and same
/// xor of the slot numbers: `{s, s+3d}` and `{s+d, s+2d}`): nothing was asserted, they must not compare equal
pub fn gen_sumxor(rng: &mut Rng) -> Vec<Op> {
    let (base, d) = [(0u32, 4u32), (8, 4), (2, 4), (16, 4), (0, 8)][rng.below(5)];
    let (s0, s1, s2, s3) = (base, base + d, base + 2 * d, base + 3 * d);
    let op = if rng.chance(1, 2) { 7 } else { 11 };
    let mut ops = vec![Op::Add(leaf(op, &[s0, s3])), Op::Add(leaf(op, &[s1, s2]))];
    if rng.chance(1, 2) {
        ops.push(Op::Add(un(13, leaf(op, &[s0, s3]))));
        ops.push(Op::Add(un(13, leaf(op, &[s1, s2]))));
    }
    if rng.chance(1, 2) {
        // an unrelated equation, so that the history has a union
        let n = ops.len();
        ops.push(Op::Add(leaf(10, &[s0])));
        ops.push(Op::Add(un(13, leaf(10, &[s0]))));
        ops.push(Op::Union(n, n + 1));
    }
    ops
}

/// a four-slot leaf whose symmetry group has a composite element — `(a b)(c d)` together with `(a b)` or `(c d)` — and then
/// one position becomes redundant: two generators cross the boundary, and what is left of the group must not depend on the
/// order the group hands them out in (0-3 unrelated insertions first move the fresh-slot counter)
pub fn gen_symred4(rng: &mut Rng) -> Vec<Op> {
    let num = |s: &str| ATerm { v: 15, fields: vec![CField::Lit(s.into())], children: vec![] };
    let mut pos: Vec<usize> = (0..4).collect();
    rng.shuffle(&mut pos);
    let (a, b, c, d) = (pos[0], pos[1], pos[2], pos[3]);
    let names = [4u32, 8, 12, 16];
    let spare = 20u32;
    let f = |perm: &Vec<usize>, red: Option<usize>| {
        let sl: Vec<u32> = (0..4).map(|i| if Some(i) == red { spare } else { names[perm[i]] }).collect();
        leaf(9, &sl)
    };
    let id: Vec<usize> = (0..4).collect();
    let mut both = id.clone();
    both.swap(a, b);
    both.swap(c, d);
    let mut one = id.clone();
    if rng.chance(1, 2) {
        one.swap(a, b);
    } else {
        one.swap(c, d);
    }
    let mut ops: Vec<Op> = Vec::new();
    for i in 0..rng.below(4) {
        ops.push(Op::Add(un(13, num(&format!("{}", 3 + i)))));
    }
    let base = ops.len();
    ops.push(Op::Add(f(&id, None)));
    ops.push(Op::Add(f(&both, None)));
    ops.push(Op::Add(f(&one, None)));
    ops.push(Op::Add(f(&id, Some([a, b, c, d][rng.below(4)]))));
    let mut us = vec![(base, base + 1), (base, base + 2)];
    if rng.chance(1, 2) {
        us.reverse();
    }
    for (x, y) in us {
        ops.push(Op::Union(x, y));
    }
    ops.push(Op::Union(base, base + 3));
    ops
}

/// a parent over a four-slot leaf first loses one position (`h(c(x,y,u,v)) = h(c(x,z,u,v))`), then the leaf gets ONE composite
/// symmetry that exchanges the lost position with a live one and, at the same time, two other live positions: the parent keeps
/// the other pair (now with the swap as a symmetry) — it must not lose them
pub fn gen_redsym4(rng: &mut Rng) -> Vec<Op> {
    let num = |s: &str| ATerm { v: 15, fields: vec![CField::Lit(s.into())], children: vec![] };
    let mut pos: Vec<usize> = (0..4).collect();
    rng.shuffle(&mut pos);
    let (a, b, c, d) = (pos[0], pos[1], pos[2], pos[3]);
    let names = [4u32, 8, 12, 16];
    let spare = 20u32;
    let f = |perm: &Vec<usize>, red: Option<usize>| {
        let sl: Vec<u32> = (0..4).map(|i| if Some(i) == red { spare } else { names[perm[i]] }).collect();
        leaf(9, &sl)
    };
    let id: Vec<usize> = (0..4).collect();
    let mut both = id.clone();
    both.swap(a, b);
    both.swap(c, d);
    let par = |t: ATerm| un(13, t);
    let mut ops: Vec<Op> = Vec::new();
    for i in 0..rng.below(4) {
        ops.push(Op::Add(un(13, num(&format!("{}", 3 + i)))));
    }
    let base = ops.len();
    ops.push(Op::Add(par(f(&id, None))));
    ops.push(Op::Add(par(f(&id, Some(b)))));
    ops.push(Op::Add(f(&id, None)));
    ops.push(Op::Add(f(&both, None)));
    if rng.chance(1, 2) {
        // the same parent with the surviving pair exchanged
        let mut cd = id.clone();
        cd.swap(c, d);
        ops.push(Op::Add(par(f(&cd, None))));
    }
    if rng.chance(3, 4) {
        ops.push(Op::Union(base, base + 1));
        ops.push(Op::Union(base + 2, base + 3));
    } else {
        ops.push(Op::Union(base + 2, base + 3));
        ops.push(Op::Union(base, base + 1));
    }
    ops
}

/// parents inserted AFTER their children's symmetries are complete: the new class needs several generators at once (a child with
/// all of S3, or two commutative children), and further copies of the parent with permuted arguments must be found again
pub fn gen_latesym(rng: &mut Rng) -> Vec<Op> {
    let mut ops: Vec<Op> = Vec::new();
    if rng.chance(1, 2) {
        let (x, y, z) = (4u32, 8u32, 12u32);
        let c = |a: u32, b: u32, c: u32| leaf(8, &[a, b, c]);
        ops.push(Op::Add(c(x, y, z)));
        ops.push(Op::Add(c(y, x, z)));
        ops.push(Op::Add(if rng.chance(1, 2) { c(x, z, y) } else { c(y, z, x) }));
        ops.push(Op::Union(0, 1));
        ops.push(Op::Union(0, 2));
        let par = |t: ATerm| if true { un(13, t) } else { t };
        let perms = [[x, y, z], [y, x, z], [y, z, x], [z, y, x], [x, z, y], [z, x, y]];
        let first = rng.below(6);
        ops.push(Op::Add(par(c(perms[first][0], perms[first][1], perms[first][2]))));
        for _ in 0..rng.range(1, 3) {
            let k = rng.below(6);
            ops.push(Op::Add(par(c(perms[k][0], perms[k][1], perms[k][2]))));
        }
        if rng.chance(1, 2) {
            // one level higher: the grandparent's shape depends on the parent's (complete) group
            // (next to a sibling that mentions one of the slots: a unary context alone has one shape whatever the order)
            let sib = |s: u32| if true { leaf(2, &[s]) } else { leaf(10, &[s]) };
            ops.push(Op::Add(bin(14, sib(x), par(c(perms[first][0], perms[first][1], perms[first][2])))));
            if rng.chance(1, 3) {
                let k = rng.below(6);
                ops.push(Op::Add(bin(14, sib(x), par(c(perms[k][0], perms[k][1], perms[k][2])))));
            }
        }
    } else {
        let (a, b, c, d) = (4u32, 8u32, 12u32, 16u32);
        let l = |x: u32, y: u32| leaf(7, &[x, y]);
        let r = |x: u32, y: u32| leaf(11, &[x, y]);
        ops.push(Op::Add(l(a, b)));
        ops.push(Op::Add(l(b, a)));
        ops.push(Op::Add(r(c, d)));
        ops.push(Op::Add(r(d, c)));
        ops.push(Op::Union(0, 1));
        ops.push(Op::Union(2, 3));
        let outer = if rng.chance(1, 2) { 14 } else { 4 };
        ops.push(Op::Add(bin(outer, l(a, b), r(c, d))));
        let variants = [(b, a, c, d), (a, b, d, c), (b, a, d, c)];
        for _ in 0..rng.range(1, 3) {
            let (p, q, u, v) = variants[rng.below(3)];
            ops.push(Op::Add(bin(outer, l(p, q), r(u, v))));
        }
    }
    ops
}

/// one e-node mentions the same child class twice; the class then gets a redundant position, and the slot at that position of
/// exactly ONE of the two occurrences is used elsewhere in the node (by a sibling): `t3(f3(a,b,c), f3(a,b,d), var c)` and
/// `f3(a,b,c) = f3(a,b,e)` — the two occurrences need different treatment although they are invocations of one class
pub fn gen_twicered(rng: &mut Rng) -> Vec<Op> {
    let t3 = |x: ATerm, y: ATerm, z: ATerm| ATerm { v: 17, fields: vec![CField::App, CField::App, CField::App], children: vec![x, y, z] };
    let (a, b, c, d, e) = (4u32, 8u32, 12u32, 16u32, 20u32);
    let mut pos: Vec<usize> = (0..3).collect();
    rng.shuffle(&mut pos);
    let red = pos[0];
    let f = |last: u32| {
        let mut sl = [a, b, a];
        let mut k = 0;
        for i in 0..3 {
            if i == red {
                sl[i] = last;
            } else {
                sl[i] = [a, b][k];
                k += 1;
            }
        }
        leaf(8, &sl)
    };
    let sib = if rng.chance(1, 2) { leaf(2, &[c]) } else { leaf(10, &[c]) };
    let form = rng.chance(1, 2);
    let parent = |x: u32, y: u32| if form { t3(f(x), f(y), sib.clone()) } else { t3(f(x), sib.clone(), f(y)) };
    let shared_first = rng.chance(1, 2);
    let p0 = if shared_first { parent(c, d) } else { parent(d, c) };
    let mut ops = vec![Op::Add(p0), Op::Add(f(c)), Op::Add(f(e))];
    ops.push(Op::Add(if shared_first { parent(c, e) } else { parent(e, c) }));
    if rng.chance(1, 2) {
        ops.push(Op::Add(if shared_first { parent(e, d) } else { parent(d, e) }));
    }
    ops.push(Op::Union(1, 2));
    ops
}

/// a free slot spelled like a fresh slot the library has not handed out yet (`$f<N>`, N large), under a binder whose body
/// already exists as a class: the first fresh slot drawn after the name was read is the one that renames the binder — it
/// must not be the user's slot.  Two alpha-variants are united (a trivial equation), then `λx. x a` and `λx. x b` are compared
pub fn gen_fcapture(rng: &mut Rng) -> Vec<Op> {
    let var = |s: u32| leaf(2, &[s]);
    let lam = |x: u32, b: ATerm| ATerm { v: 0, fields: vec![CField::Bind(x, Box::new(CField::App))], children: vec![b] };
    let app = |a: ATerm, b: ATerm| bin(1, a, b);
    let (a, b2) = (4u32, 8u32);
    let f = 4 * rng.range(30, 60) as u32 + 1;
    let (x, y) = (BINDERS[0], BINDERS[1]);
    let body = |x: u32, s: u32| app(var(x), var(s));
    let mut ops = vec![Op::Add(app(var(a), var(b2)))];
    if rng.chance(1, 2) {
        ops.push(Op::Add(lam(x, app(var(x), var(f)))));
        ops.push(Op::Add(lam(y, app(var(y), var(f)))));
    } else {
        ops.push(Op::Add(lam(x, app(var(f), var(x)))));
        ops.push(Op::Add(lam(y, app(var(f), var(y)))));
    }
    // (all insertions first, like every history of this protocol)
    ops.push(Op::Add(lam(x, body(x, a))));
    ops.push(Op::Add(lam(x, body(x, b2))));
    ops.push(Op::Union(1, 2));
    ops
}

/// a slot becomes redundant *later*, below a node that is not where it was created:
/// (a) `h(f(x,y))` is merged into the bigger class of `g(x,y)` (the node migrates, its source class dies), then
///     `f(x,y) = v(x)` — the class must lose exactly `y`;
/// (b) `q(x) = k(q(z), p(x))` (a class equal to a term that contains it), then `p(x) = p(y)` — the self-referential
///     node loses its last link to `x`, and so must the class
pub fn gen_migrate(rng: &mut Rng) -> Vec<Op> {
    let (x, y, z) = (4u32, 8u32, 12u32);
    let op = if rng.chance(1, 2) { 14 } else { 4 };
    if rng.chance(1, 2) {
        let f = |a: u32, b: u32| leaf(7, &[a, b]);
        let g = |a: u32, b: u32| leaf(11, &[a, b]);
        let (p, q) = if rng.chance(1, 2) { (x, y) } else { (y, x) };
        let mut ops = vec![Op::Add(un(13, f(x, y))), Op::Add(g(p, q))];
        // usages decide which class is merged into which
        let extra = rng.below(3);
        for i in 0..extra {
            ops.push(Op::Add(if i == 0 { un(13, g(p, q)) } else { bin(op, g(p, q), g(p, q)) }));
        }
        // (all insertions come first: the model side sizes its term universe from them)
        let n = ops.len();
        ops.push(Op::Add(f(x, y)));
        ops.push(Op::Add(if rng.chance(1, 2) { leaf(10, &[x]) } else { leaf(10, &[y]) }));
        ops.push(Op::Union(0, 1));
        ops.push(Op::Union(n, n + 1));
        ops
    } else {
        let a = |s: u32| leaf(2, &[s]);
        let b = |s: u32| leaf(10, &[s]);
        let node = if rng.chance(1, 2) { bin(op, b(z), a(x)) } else { bin(op, a(x), b(z)) };
        let mut ops = vec![Op::Add(b(x)), Op::Add(node)];
        if rng.chance(1, 2) {
            ops.push(Op::Add(un(13, b(x))));
        }
        let n = ops.len();
        ops.push(Op::Add(a(x)));
        ops.push(Op::Add(a(y)));
        ops.push(Op::Union(0, 1));
        ops.push(Op::Union(n, n + 1));
        ops
    }
}

/// `on`: a child *before* a binder in the same node; the binder re-uses the name of a slot that is free in that child
pub fn gen_shadow(rng: &mut Rng) -> Vec<Op> {
    let on = |c0: ATerm, x: u32, c1: ATerm| ATerm { v: 18, fields: vec![CField::App, CField::Bind(x, Box::new(CField::App))], children: vec![c0, c1] };
    let var = |s: u32| leaf(2, &[s]);
    let names: [u32; 4] = [4, 8, 2, 6];
    let (p, z) = (names[rng.below(4)], 10u32);
    let mut ops = vec![Op::Add(on(var(p), z, var(z)))];
    let mut k = rng.range(2, 3);
    let mut used: Vec<u32> = Vec::new();
    while k > 0 {
        let x = names[rng.below(4)];
        if used.contains(&x) {
            continue;
        }
        used.push(x);
        ops.push(Op::Add(on(var(x), x, var(x))));
        k -= 1;
    }
    if rng.chance(1, 2) {
        // the body mentions the outer free slot as well
        let x = names[rng.below(4)];
        ops.push(Op::Add(on(var(x), x, bin(14, var(x), var(p)))));
    }
    if rng.chance(1, 3) {
        ops.push(Op::Union(0, 1));
    }
    ops
}

pub fn leaf(v: usize, slots: &[u32]) -> ATerm {
    ATerm { v, fields: slots.iter().map(|s| CField::Slot(*s)).collect(), children: vec![] }
}
pub fn un(v: usize, a: ATerm) -> ATerm {
    ATerm { v, fields: vec![CField::App], children: vec![a] }
}
pub fn bin(v: usize, a: ATerm, b: ATerm) -> ATerm {
    ATerm { v, fields: vec![CField::App, CField::App], children: vec![a, b] }
}

fn random_perm(rng: &mut Rng, n: usize) -> Vec<usize> {
    let mut p: Vec<usize> = (0..n).collect();
    match rng.below(4) {
        0 => {
            let (i, j) = (rng.below(n), rng.below(n));
            p.swap(i, j)
        }
        1 => p.rotate_left(1),
        2 if n >= 4 => {
            p.swap(0, 1);
            p.swap(2, 3)
        }
        _ => rng.shuffle(&mut p),
    }
    p
}

/// structured streams:
/// "inherit": a class acquires a whole symmetry group at once (union with an already symmetric class)
///            while parents that differ by a group element already exist;
/// "symred":  symmetries (incl. products of disjoint cycles) followed by a union that makes one or two
///            slots redundant, possibly a whole orbit or half of one.
fn gen_structured(rng: &mut Rng, stream: &str) -> Vec<Op> {
    let n = if rng.chance(1, 3) { 4 } else { 3 };
    let slots: Vec<u32> = FREE[..n].to_vec();
    let perm_slots = |p: &[usize]| -> Vec<u32> { p.iter().map(|&i| slots[i]).collect() };
    let id: Vec<usize> = (0..n).collect();
    // q: the symmetric leaf; p: another term over the same slots; c: a term pinning the names
    let (qv, pv) = if n == 3 { if rng.chance(1, 2) { (8, 12) } else { (12, 8) } } else { (9, 9) };
    let q = |sl: &[u32]| leaf(qv, sl);
    let p = |sl: &[u32]| -> ATerm {
        if n == 3 {
            leaf(pv, sl)
        } else {
            bin(14, leaf(11, &sl[0..2]), leaf(11, &sl[2..4]))
        }
    };
    let c = |sl: &[u32]| -> ATerm {
        if n == 3 {
            bin(14, leaf(7, &sl[0..2]), leaf(10, &sl[2..3]))
        } else {
            bin(4, leaf(7, &sl[0..2]), leaf(7, &sl[2..4]))
        }
    };
    let mut terms: Vec<ATerm> = Vec::new();
    let mut unions: Vec<(usize, usize)> = Vec::new();
    let mut push = |terms: &mut Vec<ATerm>, t: ATerm| -> usize {
        if let Some(i) = terms.iter().position(|x| *x == t) {
            i
        } else {
            terms.push(t);
            terms.len() - 1
        }
    };
    if stream == "upmerge" {
        // two parent classes over two child classes, one of them symmetric, in different orientations, each parent also
        // pinning one of the child's slots; the children are unioned afterwards, so the parents become congruent only
        // through upward merging — and only modulo the child's symmetry
        let a = |sl: &[u32]| q(sl);
        let b = |sl: &[u32]| p(sl);
        let var = |c: u32| leaf(2, &[c]);
        let outer = if rng.chance(1, 2) { 14 } else { 4 };
        let sigma = random_perm(rng, n);
        let pin = rng.below(n);
        let ia = push(&mut terms, a(&slots));
        let ib = push(&mut terms, b(&slots));
        push(&mut terms, bin(outer, a(&slots), var(slots[pin])));
        push(&mut terms, bin(outer, b(&perm_slots(&sigma)), var(slots[pin])));
        // the pairs a wrong orientation would identify
        push(&mut terms, bin(outer, a(&slots), var(slots[(pin + 1) % n])));
        push(&mut terms, bin(outer, b(&slots), var(slots[pin])));
        let mut sym_unions = Vec::new();
        for _ in 0..rng.range(1, 2) {
            let g = random_perm(rng, n);
            if g != id {
                let j = push(&mut terms, a(&perm_slots(&g)));
                sym_unions.push((ia, j));
            }
        }
        let link = if rng.chance(1, 2) { (ia, ib) } else { (ib, ia) };
        if rng.chance(2, 3) {
            unions.extend(sym_unions);
            unions.push(link);
        } else {
            unions.push(link);
            unions.extend(sym_unions);
        }
        let mut ops: Vec<Op> = terms.into_iter().map(Op::Add).collect();
        ops.push(Op::Query);
        for (i, j) in unions {
            if i != j {
                ops.push(Op::Union(i, j));
                ops.push(Op::Query);
            }
        }
        return ops;
    }
    if stream == "deepsym" {
        // a symmetry created at the bottom has to travel two or three levels up:
        // A = leaf, C = h(A), G = k(C·σ1, C·σ2), GG = h(G) / k(G, C)
        let a = |sl: &[u32]| q(sl);
        let cterm = |sl: &[u32]| un(13, a(sl));
        let s1 = random_perm(rng, n);
        let s2 = random_perm(rng, n);
        let g = bin(14, cterm(&perm_slots(&s1)), cterm(&perm_slots(&s2)));
        let ia = push(&mut terms, a(&slots));
        push(&mut terms, cterm(&slots));
        push(&mut terms, g.clone());
        if rng.chance(1, 2) {
            push(&mut terms, un(13, g.clone()));
        } else {
            push(&mut terms, bin(14, g.clone(), cterm(&slots)));
        }
        let s3 = random_perm(rng, n);
        push(&mut terms, bin(14, cterm(&perm_slots(&s3)), cterm(&slots)));
        for _ in 0..rng.range(1, 2) {
            let gperm = random_perm(rng, n);
            if gperm != id {
                let j = push(&mut terms, a(&perm_slots(&gperm)));
                unions.push((ia, j));
            }
        }
        let mut ops: Vec<Op> = terms.into_iter().map(Op::Add).collect();
        ops.push(Op::Query);
        for (i, j) in unions {
            if i != j {
                ops.push(Op::Union(i, j));
                ops.push(Op::Query);
            }
        }
        return ops;
    }
    let iq = push(&mut terms, q(&slots));
    let ngen = rng.range(1, 2);
    let mut sym_unions = Vec::new();
    for _ in 0..ngen {
        let g = random_perm(rng, n);
        if g != id {
            let j = push(&mut terms, q(&perm_slots(&g)));
            sym_unions.push((iq, j));
        }
    }
    if stream == "inherit" {
        let ip = push(&mut terms, p(&slots));
        for _ in 0..2 {
            let s = random_perm(rng, n);
            push(&mut terms, bin(14, c(&slots), p(&perm_slots(&s))));
            if rng.chance(1, 2) {
                push(&mut terms, un(13, p(&perm_slots(&s))));
            }
        }
        push(&mut terms, bin(14, c(&slots), p(&slots)));
        let link = if rng.chance(1, 2) { (ip, iq) } else { (iq, ip) };
        if rng.chance(2, 3) {
            unions.extend(sym_unions);
            unions.push(link);
        } else {
            unions.push(link);
            unions.extend(sym_unions);
        }
    } else {
        // symred
        unions.extend(sym_unions);
        let k = rng.range(1, 2.min(n - 1));
        let mut img = slots.clone();
        let spares: Vec<u32> = [16u32, 22, 26].to_vec();
        let mut pos: Vec<usize> = (0..n).collect();
        rng.shuffle(&mut pos);
        for (a, &i) in pos.iter().take(k).enumerate() {
            img[i] = spares[a];
        }
        let j = push(&mut terms, q(&img));
        push(&mut terms, un(13, q(&slots)));
        push(&mut terms, bin(14, q(&slots), c(&slots)));
        if rng.chance(1, 3) {
            // redundancy first, symmetry afterwards
            unions.insert(0, (iq, j));
        } else {
            unions.push((iq, j));
        }
        if rng.chance(1, 2) {
            let g1 = push(&mut terms, leaf(10, &slots[0..1]));
            unions.push((iq, g1));
        }
    }
    let mut ops: Vec<Op> = terms.into_iter().map(Op::Add).collect();
    ops.push(Op::Query);
    for (i, j) in unions {
        if i != j {
            ops.push(Op::Union(i, j));
            ops.push(Op::Query);
        }
    }
    ops
}

/// late-redundancy stream: parents (sibling and binder form) mention a slot of their child class elsewhere; the child class
/// is merged with another class first, and only afterwards that slot turns out to be redundant
pub fn gen_late_redundancy(rng: &mut Rng) -> Vec<Op> {
    use crate::terms::CField as F;
    let leaf = |v: usize, sl: &[u32]| ATerm { v, fields: sl.iter().map(|s| F::Slot(*s)).collect(), children: vec![] };
    let var = |c: u32| leaf(2, &[c]);
    let bin = |v: usize, a: ATerm, b: ATerm| ATerm { v, fields: vec![F::App, F::App], children: vec![a, b] };
    let bind = |v: usize, x: u32, a: ATerm| ATerm { v, fields: vec![F::Bind(x, Box::new(F::App))], children: vec![a] };
    let (x, y, z) = (4u32, 8u32, 2u32);
    let (av, bv) = if rng.chance(1, 2) { (7usize, 11usize) } else { (11usize, 7usize) };
    let a = leaf(av, &[x, y]);
    let b = leaf(bv, &[x, y]);
    let parent = |rng: &mut Rng, c: ATerm| -> ATerm {
        match rng.below(3) {
            0 => bin(14, c, var(y)),
            1 => bin(4, var(y), c),
            _ => bind(0, BINDERS[0], rename_free(&c, &|s| if s == y { BINDERS[0] } else { s })),
        }
    };
    let mut terms: Vec<ATerm> = vec![a.clone(), b.clone()];
    terms.push(parent(rng, a.clone()));
    terms.push(parent(rng, b.clone()));
    if rng.chance(1, 2) {
        terms.push(parent(rng, a.clone()));
    }
    // the copy that makes y redundant, of either class
    let red_of_b = rng.chance(1, 2);
    let copy = if red_of_b { leaf(bv, &[x, z]) } else { leaf(av, &[x, z]) };
    terms.push(copy);
    let n = terms.len();
    let mut ops: Vec<Op> = terms.into_iter().map(Op::Add).collect();
    if rng.chance(1, 2) {
        ops.push(Op::Union(0, 1));
    } else {
        ops.push(Op::Union(1, 0));
    }
    ops.push(Op::Union(if red_of_b { 1 } else { 0 }, n - 1));
    ops.push(Op::Query);
    ops
}


/// like `gen_late_redundancy`, but the parent mentions the slot that becomes redundant only through its child (`h(p(x,y))`),
/// the class of `p` has been merged away (frozen with both slots) *before* the leader learns that `y` is redundant, and the
/// same parent over a renamed copy of the child (`h(p(x,z))`) is tracked too — equal only through the late redundancy
pub fn gen_late_redundancy2(rng: &mut Rng) -> Vec<Op> {
    use crate::terms::CField as F;
    let leaf = |v: usize, sl: &[u32]| ATerm { v, fields: sl.iter().map(|s| F::Slot(*s)).collect(), children: vec![] };
    let un = |v: usize, a: ATerm| ATerm { v, fields: vec![F::App], children: vec![a] };
    let bin = |v: usize, a: ATerm, b: ATerm| ATerm { v, fields: vec![F::App, F::App], children: vec![a, b] };
    let (x, y, z) = (4u32, 8u32, 2u32);
    let (pv, qv) = if rng.chance(1, 2) { (7usize, 11usize) } else { (11usize, 7usize) };
    let p = |a: u32, b: u32| leaf(pv, &[a, b]);
    let q = |a: u32, b: u32| leaf(qv, &[a, b]);
    let r = leaf(10, &[x]);
    let wrap = |rng: &mut Rng, c: ATerm| if rng.chance(2, 3) { un(13, c) } else { bin(14, c.clone(), c) };
    let kind = rng.below(2);
    let par = |c: ATerm| if kind == 0 { un(13, c) } else { bin(4, c, leaf(2, &[x])) };
    // 0: f(p(x,y))   1: p(x,y)   2: q(x,y)   3..: parents of q (so that p is the class that dies)   then r(x), f(p(x,z))
    let mut terms = vec![par(p(x, y)), p(x, y), q(x, y)];
    for _ in 0..rng.range(0, 3) {
        let w = wrap(rng, q(x, y));
        terms.push(w);
    }
    terms.push(r);
    let ri = terms.len() - 1;
    terms.push(par(p(x, z)));
    if rng.chance(1, 2) {
        terms.push(par(q(x, z)));
    }
    let mut ops: Vec<Op> = terms.into_iter().map(Op::Add).collect();
    ops.push(if rng.chance(1, 2) { Op::Union(1, 2) } else { Op::Union(2, 1) });
    ops.push(if rng.chance(1, 2) { Op::Union(2, ri) } else { Op::Union(ri, 1) });
    ops.push(Op::Query);
    ops
}

pub fn exec_ops(ops: Vec<Op>, stream: &str, check_each: bool) -> Case {
    let line = format!("eg {};{}", "main", enc_ops(&ops));
    let ops2 = ops.clone();
    let r = in_fresh_thread(move || {
        intern_names();
        // a quarter of the histories (a function of the case line) run with the min-size analysis attached: pending entries
        // then come in two kinds (analysis-only and full), and the closure must be the same
        let h = enc_ops(&ops2).bytes().fold(0xcbf29ce484222325u64, |h, b| (h ^ b as u64).wrapping_mul(0x100000001b3)) >> 17;
        if h % 4 == 0 {
            run_history_n::<Main, crate::suites::ana::MinSize>(&ops2, check_each)
        } else {
            run_history::<Main>(&ops2, check_each)
        }
    });
    let nunions = ops.iter().filter(|o| matches!(o, Op::Union(..))).count();
    let mut tags = vec![format!("s:{stream}")];
    match r {
        Ok(Ok(outs)) => {
            // non-trivial: some non-asserted consequence is visible (a slot count or symmetry count changed)
            let first = outs.first().cloned().unwrap_or_default();
            let last = outs.last().cloned().unwrap_or_default();
            let part = |s: &str, k: usize| s.split('|').nth(k).unwrap_or("").to_string();
            let nt = nunions > 0 && (part(&first, 1) != part(&last, 1) || part(&first, 2) != part(&last, 2) || part(&last, 0).matches('1').count() > nunions);
            Case { line, impl_out: outs.join(";"), nontrivial: nt, tags }
        }
        Ok(Err(e)) => {
            tags.push("panic".into());
            Case { line, impl_out: format!("PANIC {e}"), nontrivial: true, tags }
        }
        Err(e) => {
            tags.push("panic".into());
            Case { line, impl_out: format!("PANIC thread {e}"), nontrivial: true, tags }
        }
    }
}

pub fn run(ctx: &mut Ctx) {
    let check_each = ctx.param("check_each", 0) == 1;
    for _ in 0..ctx.count {
        let mut rng = ctx.rng.fork();
        let (ops, stream) = gen_history(&mut rng);
        ctx.emit(exec_ops(ops, stream, check_each));
    }
}

pub fn replay(body: &str) -> Case {
    let body = body.strip_prefix("main;").unwrap_or(body);
    exec_ops(parse_ops(body), "replay", false)
}
