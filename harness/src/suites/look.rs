//! corr.add.lookup — C09.  Probes against a generated history: lookup_rec_expr before add_expr.
use crate::langs::*;
use crate::rng::Rng;
use crate::suites::eg::*;
use crate::terms::*;
use crate::util::*;
use crate::{Case, Ctx};
use slotted_egraphs::*;

fn alpha_rename(t: &ATerm, rng: &mut Rng) -> ATerm {
    // rename bound names consistently (binder names come from BINDERS; map them to other unused codes)
    let pool = [30u32, 34, 38];
    let k = rng.below(3);
    fn f(c: &CField, from: &[u32], to: &[u32]) -> CField {
        match c {
            CField::Slot(s) => CField::Slot(from.iter().position(|x| x == s).map(|i| to[i]).unwrap_or(*s)),
            CField::Bind(s, x) => CField::Bind(from.iter().position(|y| y == s).map(|i| to[i]).unwrap_or(*s), Box::new(f(x, from, to))),
            x => x.clone(),
        }
    }
    fn go(t: &ATerm, from: &[u32], to: &[u32]) -> ATerm {
        ATerm { v: t.v, fields: t.fields.iter().map(|c| f(c, from, to)).collect(), children: t.children.iter().map(|c| go(c, from, to)).collect() }
    }
    let to: Vec<u32> = (0..3).map(|i| pool[(i + k) % 3]).collect();
    go(t, &BINDERS, &to)
}

pub fn exec_look(ops: Vec<Op>, probes: Vec<(ATerm, &'static str)>, seed: u64) -> Case {
    let mut line_ops = ops.clone();
    line_ops.retain(|o| !matches!(o, Op::Query));
    let probe_txt: Vec<String> = probes.iter().map(|(t, _)| format!("L{}", enc_term(t))).collect();
    let line = format!("eg main;{};{}", enc_ops(&line_ops), probe_txt.join(";"));
    let kinds: Vec<&'static str> = probes.iter().map(|(_, k)| *k).collect();
    let probes0 = probes.clone();
    let r = in_fresh_thread(move || {
        intern_names();
        fresh_noise(&enc_ops(&line_ops));
        crate::suites::eg::warm_up(&enc_ops(&line_ops));
        let mut rng = Rng::new(seed);
        let mut eg: EGraph<Main> = EGraph::default();
        let mut tracked: Vec<AppliedId> = Vec::new();
        for op in &line_ops {
            match op {
                Op::Add(t) => tracked.push(eg.add_expr(to_recexpr::<Main>(t))),
                Op::Union(i, j) => {
                    // every probe is looked up before every union as well (answers discarded): an answer given earlier must
                    // not be what is answered later
                    for (t, _) in &probes0 {
                        let re = to_recexpr::<Main>(t);
                        let _ = guarded(|| lookup_rec_expr(&re, &eg));
                        let _ = guarded(|| eg.lookup(&re.node));
                    }
                    let (a, b) = (tracked[*i].clone(), tracked[*j].clone());
                    eg.union(&a, &b);
                }
                Op::Query => {}
            }
        }
        let mut outs: Vec<String> = Vec::new();
        let mut tags: Vec<String> = Vec::new();
        let mut viol = |t: &str| {
            let t = format!("viol:{t}");
            if !tags.contains(&t) {
                tags.push(t)
            }
        };
        // all probes are looked up first (lookups must not change anything), then inserted
        let snap0 = eg.verif_snapshot(|_| "-".to_string());
        let strip_uf = |s: &str| s.lines().filter(|l| !l.starts_with("uf ")).collect::<Vec<_>>().join("\n");
        let mut looked: Vec<Option<AppliedId>> = Vec::new();
        for (t, _) in &probes {
            let re = to_recexpr::<Main>(t);
            looked.push(match guarded(|| lookup_rec_expr(&re, &eg)) {
                Ok(x) => x,
                Err(_) => {
                    viol("lookup-panics");
                    None
                }
            });
        }
        if strip_uf(&snap0) != strip_uf(&eg.verif_snapshot(|_| "-".to_string())) {
            viol("lookup-modified-the-egraph");
        }
        for (k, (t, _)) in probes.iter().enumerate() {
            let re = to_recexpr::<Main>(t);
            // lookup again right before the insertion (earlier probe insertions may have added it)
            let l = guarded(|| lookup_rec_expr(&re, &eg)).ok().flatten();
            let before = eg.verif_measure();
            let nodes_before = eg.total_number_of_nodes();
            let a = match guarded(|| eg.add_expr(re.clone())) {
                Ok(a) => a,
                Err(_) => {
                    viol("add-panics");
                    outs.push("panic".into());
                    continue;
                }
            };
            let after = eg.verif_measure();
            let created = after.0 != before.0 || eg.total_number_of_nodes() != nodes_before;
            if l.is_some() == created {
                viol("lookup-disagrees-with-add-creating-something");
            }
            if let Some(l) = &l {
                if !eg.eq(l, &a) {
                    viol("lookup-not-eq-add");
                }
            }
            // renaming the free slots renames the result the same way
            let fs = free_slots(t);
            if !fs.is_empty() {
                let mut img: Vec<u32> = [40u32, 44, 48, 52, 56].iter().copied().take(fs.len()).collect();
                rng.shuffle(&mut img);
                let fs2 = fs.clone();
                let img2 = img.clone();
                let t2 = rename_free(t, &move |c| fs2.iter().position(|x| *x == c).map(|i| img2[i]).unwrap_or(c));
                if let Ok(a2) = guarded(|| eg.add_expr(to_recexpr::<Main>(&t2))) {
                    let rho: SlotMap = a
                        .slots()
                        .iter()
                        .map(|s| {
                            let c = code(*s);
                            let c2 = fs.iter().position(|x| *x == c).map(|i| img[i]).unwrap_or(c);
                            (*s, slot_of_code(c2))
                        })
                        .collect();
                    let expect = a.apply_slotmap(&rho);
                    if !eg.eq(&a2, &expect) {
                        viol("add-not-equivariant");
                    }
                }
            }
            // reported to the model: the answer on the *original* history (before any probe was inserted)
            outs.push(match &looked[k] {
                Some(x) => format!("rep:1|slots:{}", x.m.len()),
                None => "rep:0|slots:?".to_string(),
            });
        }
        // node-level probes: e-nodes built from the handles the history returned (some of them stale: their class lost a slot
        // or was merged away since) are looked up and then inserted with `add` — known nodes must create nothing
        for _ in 0..8 {
            if tracked.is_empty() {
                break;
            }
            let a = tracked[rng.below(tracked.len())].clone();
            let b2 = tracked[rng.below(tracked.len())].clone();
            let node = match rng.below(5) {
                0 => Main::H(a),
                1 => Main::K(a, b2),
                2 => Main::Add(a, b2),
                3 => Main::Lam(Bind { slot: slot_of_code(10), elem: a }),
                _ => Main::T3(a.clone(), b2, a),
            };
            let l = match guarded(|| eg.lookup(&node)) {
                Ok(x) => x,
                Err(_) => {
                    viol("node-lookup-panics");
                    continue;
                }
            };
            let before = eg.verif_measure();
            let nodes_before = eg.total_number_of_nodes();
            let n2 = node.clone();
            let r = match guarded(|| eg.add(n2)) {
                Ok(r) => r,
                Err(_) => {
                    viol("node-add-panics");
                    continue;
                }
            };
            let after = eg.verif_measure();
            let created = after.0 != before.0 || eg.total_number_of_nodes() != nodes_before;
            if l.is_some() == created {
                viol("node-lookup-disagrees-with-add-creating-something");
            }
            if let Some(l) = &l {
                if !eg.eq(l, &r) {
                    viol("node-lookup-not-eq-add");
                }
            }
            match guarded(|| eg.lookup(&node)) {
                Ok(Some(l2)) => {
                    if !eg.eq(&l2, &r) {
                        viol("node-lookup-after-add-not-eq-add");
                    }
                }
                _ => viol("node-not-represented-after-add"),
            }
        }
        (outs, tags)
    });
    match r {
        Ok((outs, mut tags)) => {
            for k in &kinds {
                let t = format!("p:{k}");
                if !tags.contains(&t) {
                    tags.push(t);
                }
            }
            let nt = kinds.iter().any(|k| *k == "via-union" || *k == "alpha" || *k == "permuted" || *k == "inner-permuted");
            Case { line, impl_out: outs.join(";"), nontrivial: nt, tags }
        }
        Err(e) => Case { line, impl_out: format!("PANIC {e}"), nontrivial: true, tags: vec!["viol:panic".into()] },
    }
}

pub fn run(ctx: &mut Ctx) {
    for _ in 0..ctx.count {
        let mut rng = ctx.rng.fork();
        // (a tenth of the cases: parents and grandparents inserted after their children's symmetries are complete)
        let (ops, stream) = if rng.chance(1, 10) { (gen_latesym(&mut rng), "latesym") } else { gen_history(&mut rng) };
        let terms: Vec<ATerm> = ops.iter().filter_map(|o| if let Op::Add(t) = o { Some(t.clone()) } else { None }).collect();
        let unions: Vec<(usize, usize)> = ops.iter().filter_map(|o| if let Op::Union(i, j) = o { Some((*i, *j)) } else { None }).collect();
        let mut probes: Vec<(ATerm, &'static str)> = Vec::new();
        if stream == "latesym" {
            // histories about symmetric classes: the terms inserted last, with their own free slots permuted
            for (n, base) in terms.iter().rev().take(3).enumerate() {
                // several permuted copies of the term inserted last, one of the two before it
                let fs = free_slots(base);
                let mut seen: Vec<Vec<u32>> = vec![fs.clone()];
                for _ in 0..(if n == 0 { 8 } else { 1 }) {
                    let mut img = fs.clone();
                    rng.shuffle(&mut img);
                    if seen.contains(&img) {
                        continue;
                    }
                    seen.push(img.clone());
                    let fs2 = fs.clone();
                    let img2 = img.clone();
                    probes.push((rename_free(base, &move |c| fs2.iter().position(|x| *x == c).map(|i| img[i]).unwrap_or(c)), "permuted"));
                    // the same permutation applied to the LAST child only (the rest of the term keeps its names): a different
                    // term, represented exactly when the permutation is a symmetry of that child
                    if let Some(last) = base.children.last() {
                        let fs3 = fs.clone();
                        let mut t2 = base.clone();
                        let k = t2.children.len() - 1;
                        t2.children[k] = rename_free(last, &move |c| fs3.iter().position(|x| *x == c).map(|i| img2[i]).unwrap_or(c));
                        if t2 != *base {
                            probes.push((t2, "inner-permuted"));
                        }
                    }
                }
            }
        }
        for _ in 0..6 {
            let base = terms[rng.below(terms.len())].clone();
            let p = match rng.below(7) {
                0 => (base, "literal"),
                6 => {
                    // the term's own free slots permuted: represented whenever the term is
                    let fs = free_slots(&base);
                    let mut img = fs.clone();
                    rng.shuffle(&mut img);
                    let fs2 = fs.clone();
                    (rename_free(&base, &move |c| fs2.iter().position(|x| *x == c).map(|i| img[i]).unwrap_or(c)), "permuted")
                }
                1 => (alpha_rename(&base, &mut rng), "alpha"),
                2 => {
                    let fs = free_slots(&base);
                    let mut img: Vec<u32> = vec![16, 22, 26, 4, 8][..fs.len().min(5)].to_vec();
                    rng.shuffle(&mut img);
                    let fs2 = fs.clone();
                    (rename_free(&base, &move |c| fs2.iter().position(|x| *x == c).and_then(|i| img.get(i).copied()).unwrap_or(c)), "renamed")
                }
                3 | 4 if !unions.is_empty() => {
                    // a context present for one side of a union, rebuilt around the other side
                    let (i, j) = unions[rng.below(unions.len())];
                    let (from, to) = if rng.chance(1, 2) { (i, j) } else { (j, i) };
                    // find a tracked term that contains terms[from] as a direct child and swap it
                    let mut found = None;
                    for t in &terms {
                        if let Some(pos) = t.children.iter().position(|c| *c == terms[from]) {
                            let mut t2 = t.clone();
                            t2.children[pos] = terms[to].clone();
                            found = Some(t2);
                            break;
                        }
                    }
                    match found {
                        Some(t2) if free_slots(&t2).len() <= 4 => (t2, "via-union"),
                        _ => (ATerm { v: 13, fields: vec![CField::App], children: vec![terms[to].clone()] }, "context"),
                    }
                }
                _ => {
                    let d = rng.range(0, 1);
                    (gen_term(&mut rng, 3, d, false), "random")
                }
            };
            if free_slots(&p.0).len() <= 4 {
                probes.push(p);
            }
        }
        // the oracle's universe is closed under the permutations of the name pool: keep history + probes to seven names
        let mut names: Vec<u32> = Vec::new();
        for t in &terms {
            for x in free_slots(t) {
                if !names.contains(&x) {
                    names.push(x);
                }
            }
        }
        probes.retain(|(t, _)| {
            let extra: Vec<u32> = free_slots(t).into_iter().filter(|x| !names.contains(x)).collect();
            if names.len() + extra.len() <= 7 {
                names.extend(extra);
                true
            } else {
                false
            }
        });
        let seed = rng.next();
        ctx.emit(exec_look(ops, probes, seed));
    }
}
