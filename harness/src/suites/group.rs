//! corr.group.direct — C10.  The crate-private `Group<Perm>` through the `VerifGroup` hook.
use crate::rng::Rng;
use crate::util::*;
use crate::{Case, Ctx};
use slotted_egraphs::verif::VerifGroup;
use slotted_egraphs::*;

fn perms_of(n: usize) -> Vec<Vec<usize>> {
    // all permutations of 0..n as image lists, lexicographic
    fn rec(cur: &mut Vec<usize>, used: &mut Vec<bool>, n: usize, out: &mut Vec<Vec<usize>>) {
        if cur.len() == n {
            out.push(cur.clone());
            return;
        }
        for i in 0..n {
            if !used[i] {
                used[i] = true;
                cur.push(i);
                rec(cur, used, n, out);
                cur.pop();
                used[i] = false;
            }
        }
    }
    let mut out = Vec::new();
    rec(&mut Vec::new(), &mut vec![false; n], n, &mut out);
    out
}

fn enc_perm(omega: &[u32], p: &[usize]) -> String {
    p.iter().map(|&i| omega[i].to_string()).collect::<Vec<_>>().join(",")
}

fn to_map(omega: &[u32], p: &[usize]) -> SlotMap {
    omega.iter().zip(p.iter()).map(|(&k, &i)| (slot_of_code(k), slot_of_code(omega[i]))).collect()
}

fn show_map(m: &SlotMap) -> String {
    m.iter().map(|(_, v)| code(v).to_string()).collect::<Vec<_>>().join(",")
}

fn show_set(v: Vec<SlotMap>) -> String {
    let mut s: Vec<String> = v.iter().map(show_map).collect();
    s.sort();
    s.join("/")
}

fn closure_size(n: usize, gens: &[Vec<usize>]) -> usize {
    // brute-force subgroup closure (B-side oracle, independent of both model and implementation)
    let id: Vec<usize> = (0..n).collect();
    let mut set = std::collections::BTreeSet::new();
    set.insert(id.clone());
    let mut todo = vec![id];
    while let Some(p) = todo.pop() {
        for g in gens {
            let q: Vec<usize> = (0..n).map(|i| g[p[i]]).collect();
            if set.insert(q.clone()) {
                todo.push(q);
            }
        }
    }
    set.len()
}

fn exec(omega: Vec<u32>, gens: Vec<Vec<usize>>, adds: Vec<Vec<usize>>, qs: Vec<Vec<usize>>) -> Case {
    let f = |v: &Vec<Vec<usize>>| v.iter().map(|p| enc_perm(&omega, p)).collect::<Vec<_>>().join("/");
    let line = format!(
        "grp {};{};{};{}",
        omega.iter().map(|x| x.to_string()).collect::<Vec<_>>().join(","),
        f(&gens),
        f(&adds),
        f(&qs)
    );
    let n = omega.len();
    let expect = closure_size(n, &gens);
    let mut all = gens.clone();
    all.extend(adds.iter().cloned());
    let expect2 = closure_size(n, &all);
    let nontrivial = expect > 1 && expect < (1..=n).product::<usize>();
    let r = in_fresh_thread(move || {
        intern_names();
        let mut tags = Vec::new();
        let set: SmallHashSet<Slot> = omega.iter().map(|&c| slot_of_code(c)).collect();
        let ident = SlotMap::identity(&set);
        let g = VerifGroup::new(&ident, gens.iter().map(|p| to_map(&omega, p)).collect());
        let count = g.count();
        let allp = g.all_perms();
        if count != expect || allp.len() != expect {
            tags.push("viol:group-size".to_string());
        }
        {
            let mut d: Vec<String> = allp.iter().map(show_map).collect();
            d.sort();
            d.dedup();
            if d.len() != allp.len() {
                tags.push("viol:duplicate-elements".to_string());
            }
        }
        let cont: String = qs
            .iter()
            .map(|q| {
                let m = to_map(&omega, q);
                match guarded(|| g.contains(&m)) {
                    Ok(b) => b.to_string().chars().next().map(|c| if c == 't' { '1' } else { '0' }).unwrap().to_string(),
                    Err(_) => "panic".to_string(),
                }
            })
            .collect();
        let orbits: Vec<String> = omega.iter().map(|&x| enc_set(g.orbit(slot_of_code(x)))).collect();
        let mut g2 = VerifGroup::new(&ident, gens.iter().map(|p| to_map(&omega, p)).collect());
        let grew = g2.add_set(adds.iter().map(|p| to_map(&omega, p)).collect());
        if grew != (expect2 > expect) || g2.count() != expect2 {
            tags.push("viol:add-set".to_string());
        }
        // incremental
        let mut gi = VerifGroup::new(&ident, vec![]);
        let mut flags = String::new();
        for p in &gens {
            flags.push_str(b(gi.add_set(vec![to_map(&omega, p)])));
        }
        if gi.count() != expect {
            tags.push("viol:incremental-size".to_string());
        }
        let conti: String = qs.iter().map(|q| b(gi.contains(&to_map(&omega, q))).to_string()).collect();
        let outs = vec![
            count.to_string(),
            show_set(allp),
            cont,
            orbits.join("|"),
            b(grew).to_string(),
            g2.count().to_string(),
            show_set(g2.all_perms()),
            flags,
            gi.count().to_string(),
            show_set(gi.all_perms()),
            conti,
            b(g.is_trivial()).to_string(),
        ];
        (outs, tags)
    });
    match r {
        Ok((outs, tags)) => Case { line, impl_out: outs.join(";"), nontrivial, tags },
        Err(e) => Case { line, impl_out: format!("PANIC {e}"), nontrivial: true, tags: vec!["viol:panic".into()] },
    }
}


/// the e-graph path of the property: the symmetries of a class are asserted one after the other as unions of a leaf term
/// with permuted copies of itself (`Group::add` under `EGraph::union`); every further permuted copy must compare equal
/// exactly on the generated subgroup.  Model: membership in `mk (identity Ω) gens` (`contains_iff`).
fn exec_egs(n: usize, gens: Vec<Vec<usize>>) -> Case {
    use crate::langs::Main;
    use crate::terms::*;
    let omega: Vec<u32> = (1..=n as u32).map(|i| 4 * i).collect();
    let qs = perms_of(n);
    let f = |v: &Vec<Vec<usize>>| v.iter().map(|p| enc_perm(&omega, p)).collect::<Vec<_>>().join("/");
    let line = format!("egs {};{};{}", omega.iter().map(|x| x.to_string()).collect::<Vec<_>>().join(","), f(&gens), f(&qs));
    let expect = closure_size(n, &gens);
    let nontrivial = expect > 1 && expect < (1..=n).product::<usize>();
    let om = omega.clone();
    let r = in_fresh_thread(move || {
        intern_names();
        let mut tags = Vec::new();
        let v = match n {
            2 => 7,
            3 => 8,
            _ => 9,
        };
        let leaf = |p: &Vec<usize>| ATerm { v, fields: p.iter().map(|&i| CField::Slot(om[i])).collect(), children: vec![] };
        let idp: Vec<usize> = (0..n).collect();
        let mut eg: EGraph<Main> = EGraph::default();
        let t = eg.add_expr(to_recexpr::<Main>(&leaf(&idp)));
        for g in &gens {
            let tp = eg.add_expr(to_recexpr::<Main>(&leaf(g)));
            eg.union(&t, &tp);
        }
        let cont: String = qs
            .iter()
            .map(|q| {
                let tq = eg.add_expr(to_recexpr::<Main>(&leaf(q)));
                match guarded(|| eg.eq(&t, &tq)) {
                    Ok(x) => b(x).to_string(),
                    Err(_) => "panic".to_string(),
                }
            })
            .collect();
        let lead = eg.find_applied_id(&t).id;
        let count = eg.verif_group_count(lead);
        if count != expect {
            tags.push("viol:class-group-size".to_string());
        }
        if eg.slots(lead).len() != n {
            tags.push("viol:slot-lost".to_string());
        }
        (vec![cont, count.to_string()], tags)
    });
    match r {
        Ok((outs, tags)) => Case { line, impl_out: outs.join(";"), nontrivial, tags },
        Err(e) => Case { line, impl_out: format!("PANIC {e}"), nontrivial: true, tags: vec!["viol:panic".into()] },
    }
}

fn closure_set(n: usize, gens: &[Vec<usize>]) -> std::collections::BTreeSet<Vec<usize>> {
    let id: Vec<usize> = (0..n).collect();
    let mut set = std::collections::BTreeSet::new();
    set.insert(id.clone());
    let mut todo = vec![id];
    while let Some(p) = todo.pop() {
        for g in gens {
            let q: Vec<usize> = (0..n).map(|i| g[p[i]]).collect();
            if set.insert(q.clone()) {
                todo.push(q);
            }
        }
    }
    set
}

/// the e-graph path with redundancy ("restricted to non-redundant slots"): the symmetries are asserted by unions, and the
/// argument positions `red` are declared redundant by `f(.., x, ..) = f(.., fresh, ..)` — before the symmetries, after them,
/// or in between.  Expected (Lean model `egrRun` and, independently, brute force here): the orbit of a redundant position is
/// redundant, and a permuted copy is equal exactly when the permutation maps the remaining positions to themselves and its
/// restriction is the restriction of an element of the generated group.
fn exec_egr(n: usize, gens: Vec<Vec<usize>>, red: Vec<usize>, order: usize) -> Case {
    use crate::langs::Main;
    use crate::terms::*;
    let omega: Vec<u32> = (1..=n as u32).map(|i| 4 * i).collect();
    let qs = perms_of(n);
    let f = |v: &Vec<Vec<usize>>| v.iter().map(|p| enc_perm(&omega, p)).collect::<Vec<_>>().join("/");
    let line = format!(
        "egr {};{};{};{};{order}",
        omega.iter().map(|x| x.to_string()).collect::<Vec<_>>().join(","),
        f(&gens),
        f(&qs),
        red.iter().map(|&r| omega[r].to_string()).collect::<Vec<_>>().join(",")
    );
    // brute force
    let grp = closure_set(n, &gens);
    let mut dead = vec![false; n];
    for g in &grp {
        for &r in &red {
            dead[g[r]] = true;
        }
    }
    let keep: Vec<usize> = (0..n).filter(|i| !dead[*i]).collect();
    let restricted: std::collections::BTreeSet<Vec<usize>> = grp.iter().map(|g| keep.iter().map(|&i| g[i]).collect()).collect();
    let expect_cont: String = qs.iter().map(|q| b(restricted.contains(&keep.iter().map(|&i| q[i]).collect::<Vec<usize>>())).to_string()).collect();
    let expect_count = restricted.len();
    let nontrivial = !red.is_empty() && keep.len() >= 2 && expect_count > 1;
    let om = omega.clone();
    let nkeep = keep.len();
    let r = in_fresh_thread(move || {
        intern_names();
        let mut tags = Vec::new();
        let v = match n {
            2 => 7,
            3 => 8,
            _ => 9,
        };
        let leaf = |p: &Vec<usize>| ATerm { v, fields: p.iter().map(|&i| CField::Slot(om[i])).collect(), children: vec![] };
        let spare = 4 * (n as u32 + 1);
        let leaf_red = |r: usize| ATerm { v, fields: (0..n).map(|i| CField::Slot(if i == r { spare } else { om[i] })).collect(), children: vec![] };
        let idp: Vec<usize> = (0..n).collect();
        // `order / 3` fresh slots are drawn first: the class's own slot names (and with them the iteration order of the hash
        // sets inside its group) then differ from case to case
        for _ in 0..(order / 3) % 8 {
            let _ = Slot::fresh();
        }
        let mut eg: EGraph<Main> = EGraph::default();
        let t = eg.add_expr(to_recexpr::<Main>(&leaf(&idp)));
        // the steps: symmetries (S i) and redundancies (R r), interleaved as `order % 3` says
        let mut steps: Vec<(bool, usize)> = Vec::new();
        match order % 3 {
            0 => {
                steps.extend((0..gens.len()).map(|i| (true, i)));
                steps.extend(red.iter().map(|&r| (false, r)));
            }
            1 => {
                steps.extend(red.iter().map(|&r| (false, r)));
                steps.extend((0..gens.len()).map(|i| (true, i)));
            }
            _ => {
                let mut gi = 0;
                for &r in &red {
                    if gi < gens.len() {
                        steps.push((true, gi));
                        gi += 1;
                    }
                    steps.push((false, r));
                }
                steps.extend((gi..gens.len()).map(|i| (true, i)));
            }
        }
        // `order / 24`: the class is also merged with another leaf class of the same arity (1: `f = g`, 2: `g = f`; argument
        // order rotated) — before the other steps if there is a redundancy step first, after them otherwise.  What compares
        // equal among the copies of `f` does not change, whichever of the two classes survives
        let merge = if n <= 3 { order / 24 } else { 0 };
        let other = |eg: &mut EGraph<Main>| {
            let gv = if n == 2 { 11 } else { 12 };
            let rot: Vec<usize> = (0..n).map(|i| (i + 1) % n).collect();
            eg.add_expr(to_recexpr::<Main>(&ATerm { v: gv, fields: rot.iter().map(|&i| CField::Slot(om[i])).collect(), children: vec![] }))
        };
        let merge_first = order % 3 == 1;
        let do_merge = |eg: &mut EGraph<Main>, tags: &mut Vec<String>| {
            if merge > 0 {
                let o = other(eg);
                let r = if merge == 1 { guarded(|| eg.union(&t, &o)) } else { guarded(|| eg.union(&o, &t)) };
                if r.is_err() {
                    tags.push("viol:panic".to_string());
                }
            }
        };
        if merge_first {
            do_merge(&mut eg, &mut tags);
        }
        for (is_sym, i) in steps {
            let u = if is_sym { leaf(&gens[i]) } else { leaf_red(i) };
            let tu = eg.add_expr(to_recexpr::<Main>(&u));
            if guarded(|| eg.union(&t, &tu)).is_err() {
                tags.push("viol:panic".to_string());
            }
        }
        if !merge_first {
            do_merge(&mut eg, &mut tags);
        }
        let cont: String = qs
            .iter()
            .map(|q| {
                let tq = eg.add_expr(to_recexpr::<Main>(&leaf(q)));
                match guarded(|| eg.eq(&t, &tq)) {
                    Ok(x) => b(x).to_string(),
                    Err(_) => "panic".to_string(),
                }
            })
            .collect();
        let lead = eg.find_applied_id(&t).id;
        let count = eg.verif_group_count(lead);
        if count != expect_count {
            tags.push("viol:class-group-size".to_string());
        }
        if eg.slots(lead).len() != nkeep {
            tags.push("viol:redundant-slot-count".to_string());
        }
        if cont != expect_cont {
            tags.push("viol:equal-copies-differ-from-brute-force".to_string());
        }
        tags.push(format!("t:order{}", order % 3));
        (vec![cont, count.to_string(), eg.slots(lead).len().to_string()], tags)
    });
    match r {
        Ok((outs, tags)) => Case { line, impl_out: outs.join(";"), nontrivial, tags },
        Err(e) => Case { line, impl_out: format!("PANIC {e}"), nontrivial: true, tags: vec!["viol:panic".into()] },
    }
}

const OMEGAS: [&[u32]; 6] = [&[4, 8], &[4, 8, 12], &[4, 8, 12, 16], &[2, 6, 10, 14], &[4, 2, 8, 6], &[8, 12, 2]];

pub fn run(ctx: &mut Ctx) {
    // exhaustive: all generator sets of <= 3 permutations on <= 4 slots, each with every single added permutation
    let mut idx = 0u64;
    let maxn = ctx.param("maxn", 4);
    for n in 2..=maxn {
        let perms = perms_of(n);
        let omega: Vec<u32> = (1..=n as u32).map(|i| 4 * i).collect();
        let m = perms.len();
        let mut sets: Vec<Vec<usize>> = vec![vec![]];
        for a in 0..m {
            sets.push(vec![a]);
            for b2 in a + 1..m {
                sets.push(vec![a, b2]);
                for c in b2 + 1..m {
                    sets.push(vec![a, b2, c]);
                }
            }
        }
        ctx.note("exhaustive_generator_sets", sets.len() as u64);
        for s in &sets {
            for add in 0..m {
                if ctx.mine(idx) {
                    // generators in a rotated order so that incremental addition sees different orders
                    let mut gens: Vec<Vec<usize>> = s.iter().map(|&i| perms[i].clone()).collect();
                    if !gens.is_empty() {
                        let k = add % gens.len();
                        gens.rotate_left(k);
                    }
                    let om = if add % 3 == 0 && n <= 4 { OMEGAS.iter().find(|o| o.len() == n && o[0] != 4).map(|o| o.to_vec()).unwrap_or(omega.clone()) } else { omega.clone() };
                    let mut om_sorted = om.clone();
                    om_sorted.sort();
                    ctx.emit(exec(om_sorted, gens, vec![perms[add].clone()], perms.clone()));
                }
                idx += 1;
            }
        }
    }
    // e-graph path: all ordered pairs of permutations on 3 and 4 slots, and random ordered triples on 4 slots
    for n in 3..=maxn.min(4) {
        let perms = perms_of(n);
        for a in 1..perms.len() {
            for b2 in 1..perms.len() {
                if ctx.mine(idx) {
                    ctx.emit(exec_egs(n, vec![perms[a].clone(), perms[b2].clone()]));
                }
                idx += 1;
            }
        }
    }
    for _ in 0..ctx.count / 4 {
        let mut rng = ctx.rng.fork();
        let perms = perms_of(4);
        let k = rng.range(2, 4);
        let gens: Vec<Vec<usize>> = (0..k).map(|_| perms[rng.range(1, perms.len() - 1)].clone()).collect();
        ctx.emit(exec_egs(4, gens));
    }
    // e-graph path with redundant positions: 1-3 generators on 3-4 slots (the widest leaf operator has four), 1-2 redundant
    // positions, three interleavings
    for _ in 0..ctx.count / 2 {
        let mut rng = ctx.rng.fork();
        let n = rng.range(3, 4);
        let perms = perms_of(n);
        let k = rng.range(1, 3);
        let gens: Vec<Vec<usize>> = (0..k)
            .map(|_| {
                if rng.chance(1, 2) {
                    // a product of disjoint transpositions / short cycles: leaves room for slots that stay
                    let mut p: Vec<usize> = (0..n).collect();
                    for _ in 0..rng.range(1, 2) {
                        let (i, j) = (rng.below(n), rng.below(n));
                        p.swap(i, j);
                    }
                    p
                } else {
                    perms[rng.range(1, perms.len() - 1)].clone()
                }
            })
            .collect();
        let mut red: Vec<usize> = vec![rng.below(n)];
        if rng.chance(1, 4) {
            let r2 = rng.below(n);
            if r2 != red[0] {
                red.push(r2);
            }
        }
        let mut order = rng.below(3);
        let (mut n, mut gens, mut red) = (n, gens, red);
        if rng.chance(1, 3) {
            // two blocks {a,b} and {c,d} of the four positions: one generator acts on both blocks at once, another inside the
            // second block only; a position of the second block becomes redundant.  The symmetry of the first block is then
            // known only through a generator that also moves the dropped positions, so what is left of the group depends on
            // every such generator being restricted or re-asserted, in whatever order the group hands them out
            n = 4;
            let mut pos: Vec<usize> = (0..4).collect();
            rng.shuffle(&mut pos);
            let (a, b2, c, d) = (pos[0], pos[1], pos[2], pos[3]);
            let mut both: Vec<usize> = (0..4).collect();
            both.swap(a, b2);
            both.swap(c, d);
            let mut second: Vec<usize> = (0..4).collect();
            second.swap(c, d);
            gens = if rng.chance(1, 2) { vec![both, second] } else { vec![second, both] };
            red = vec![if rng.chance(1, 2) { c } else { d }];
            order = if rng.chance(3, 4) { 0 } else { 2 };
        }
        order += 3 * rng.below(8);
        if n <= 3 && rng.chance(1, 2) {
            order += 24 * rng.range(1, 2);
            if rng.chance(1, 2) {
                // no redundant position: the merged classes keep all their slots, and the whole group has to move over
                red.clear();
            }
        }
        ctx.emit(exec_egr(n, gens, red, order));
    }
    // random: 1-4 generators on 5 and 6 slots
    for _ in 0..ctx.count {
        let mut rng = ctx.rng.fork();
        let n = rng.range(5, 6);
        let mut omega: Vec<u32> = if rng.chance(1, 2) { (1..=n as u32).map(|i| 4 * i).collect() } else { vec![4, 2, 8, 6, 12, 10][..n].to_vec() };
        omega.sort();
        let rp = |rng: &mut Rng| {
            let mut p: Vec<usize> = (0..n).collect();
            if rng.chance(1, 3) {
                // sparse: a few transpositions / a short cycle
                for _ in 0..rng.range(1, 2) {
                    let (i, j) = (rng.below(n), rng.below(n));
                    p.swap(i, j);
                }
            } else {
                rng.shuffle(&mut p);
            }
            p
        };
        let k = rng.range(1, 4);
        let mut gens: Vec<Vec<usize>> = (0..k).map(|_| rp(&mut rng)).collect();
        let mut adds_override: Option<Vec<Vec<usize>>> = None;
        if rng.chance(1, 2) {
            // block-structured sets: the slots are split into two blocks (at a random position of a random arrangement);
            // some generators permute inside one block only (they fix the other block, possibly a whole orbit, pointwise),
            // others act on both blocks at once — stabilizers then need conjugates of the block-local generators
            let mut arr: Vec<usize> = (0..n).collect();
            rng.shuffle(&mut arr);
            let cut = rng.range(2, n - 2);
            let (ba, bb) = arr.split_at(cut);
            let within = |rng: &mut Rng, blk: &[usize]| -> Vec<usize> {
                let mut p: Vec<usize> = (0..n).collect();
                let mut img = blk.to_vec();
                if blk.len() >= 3 && rng.chance(1, 2) {
                    img.rotate_left(1);
                } else {
                    let (i, j) = (rng.below(blk.len()), rng.below(blk.len()));
                    img.swap(i, j);
                }
                for (x, y) in blk.iter().zip(img.iter()) {
                    p[*x] = *y;
                }
                p
            };
            let compose = |a: &Vec<usize>, b: &Vec<usize>| -> Vec<usize> { (0..n).map(|i| b[a[i]]).collect() };
            let mut g: Vec<Vec<usize>> = Vec::new();
            let both = compose(&within(&mut rng, ba), &within(&mut rng, bb));
            g.push(both);
            g.push(within(&mut rng, bb));
            if rng.chance(1, 2) {
                g.push(within(&mut rng, ba));
            }
            rng.shuffle(&mut g);
            gens = g;
            // the permutation added afterwards is block-local in two thirds of these cases, and the stored generators then
            // often are the both-blocks one alone (a subdirect product): the new element's support may miss the orbit of
            // the first base point altogether, and its conjugates by the old elements must still be found
            if rng.chance(2, 3) {
                if rng.chance(1, 2) {
                    gens.truncate(1);
                    gens[0] = compose(&within(&mut rng, ba), &within(&mut rng, bb));
                }
                let blk = if rng.chance(1, 2) { ba } else { bb };
                adds_override = Some(vec![within(&mut rng, blk)]);
            }
        }
        let adds: Vec<Vec<usize>> = match adds_override {
            Some(a) => a,
            None => (0..rng.range(1, 2)).map(|_| rp(&mut rng)).collect(),
        };
        let qs: Vec<Vec<usize>> = (0..40).map(|_| rp(&mut rng)).collect();
        ctx.emit(exec(omega, gens, adds, qs));
    }
}

pub fn replay_egs(body: &str) -> Case {
    let parts: Vec<&str> = body.split(';').collect();
    let omega: Vec<u32> = parts[0].split(',').map(|x| x.parse().unwrap()).collect();
    let gens: Vec<Vec<usize>> = if parts[1].is_empty() {
        vec![]
    } else {
        parts[1].split('/').map(|p| p.split(',').map(|x| omega.iter().position(|o| *o == x.parse::<u32>().unwrap()).unwrap()).collect()).collect()
    };
    exec_egs(omega.len(), gens)
}

pub fn replay_egr(body: &str) -> Case {
    let parts: Vec<&str> = body.split(';').collect();
    let omega: Vec<u32> = parts[0].split(',').map(|x| x.parse().unwrap()).collect();
    let pos = |x: &str| omega.iter().position(|o| *o == x.parse::<u32>().unwrap()).unwrap();
    let gens: Vec<Vec<usize>> = if parts[1].is_empty() { vec![] } else { parts[1].split('/').map(|p| p.split(',').map(pos).collect()).collect() };
    let red: Vec<usize> = if parts[3].is_empty() { vec![] } else { parts[3].split(',').map(pos).collect() };
    exec_egr(omega.len(), gens, red, parts[4].parse().unwrap_or(0))
}

pub fn replay(body: &str) -> Case {
    if let Some(b2) = body.strip_prefix("egs ") {
        return replay_egs(b2);
    }
    if let Some(b2) = body.strip_prefix("egr ") {
        return replay_egr(b2);
    }
    let parts: Vec<&str> = body.split(';').collect();
    let omega: Vec<u32> = parts[0].split(',').map(|x| x.parse().unwrap()).collect();
    let pp = |s: &str| -> Vec<Vec<usize>> {
        if s.is_empty() {
            return vec![];
        }
        s.split('/')
            .map(|p| p.split(',').map(|x| omega.iter().position(|o| *o == x.parse::<u32>().unwrap()).unwrap()).collect())
            .collect()
    };
    exec(omega.clone(), pp(parts[1]), pp(parts[2]), pp(parts[3]))
}
