//! corr.extract.cost — C06.  Extraction with three cost functions on e-graphs reached by insertion,
//! union and rewriting (cyclic classes, classes whose cheapest node has redundant slots, symmetric classes).
use crate::langs::*;
use crate::rng::Rng;
use crate::suites::eg::*;
use crate::suites::rw::*;
use crate::terms::*;
use crate::util::*;
use crate::{Case, Ctx};
use slotted_egraphs::*;

/// depth-weighted size: a node costs 1 plus twice the cost of each child
pub struct DepthWeighted;
impl CostFunction<Main> for DepthWeighted {
    type Cost = u64;
    fn cost<C>(&self, enode: &Main, costs: C) -> u64
    where
        C: Fn(Id) -> u64,
    {
        let mut s: u64 = 1;
        for x in enode.applied_id_occurrences() {
            s = s.saturating_add(costs(x.id).saturating_mul(2));
        }
        s
    }
}

/// per-operator weights (leaves are NOT uniformly cheapest: numbers cost 10, symbols 3)
pub struct OpWeighted;
pub fn op_weight(n: &Main) -> u64 {
    match n {
        Main::Number(_) => 10,
        Main::Symbol(_) => 3,
        Main::Var(_) => 2,
        Main::H(_) => 1,
        Main::K(..) => 4,
        Main::Add(..) => 2,
        Main::Mul(..) => 5,
        Main::Lam(_) | Main::Sum(_) => 3,
        Main::Let(..) | Main::App(..) => 6,
        Main::G1(_) => 1,
        _ => 7,
    }
}
impl CostFunction<Main> for OpWeighted {
    type Cost = u64;
    fn cost<C>(&self, enode: &Main, costs: C) -> u64
    where
        C: Fn(Id) -> u64,
    {
        let mut s: u64 = op_weight(enode);
        for x in enode.applied_id_occurrences() {
            s = s.saturating_add(costs(x.id));
        }
        s
    }
}

fn probe<CF: CostFunction<Main, Cost = u64>>(eg: &EGraph<Main>, cf: CF, cf2: CF, name: &str, rng: &mut Rng, qs: &mut Vec<String>, outs: &mut Vec<String>, tags: &mut Vec<String>, tracked: &[AppliedId]) {
    let mut viol = |t: &str, tags: &mut Vec<String>| {
        let t = format!("viol:{t}");
        if !tags.contains(&t) {
            tags.push(t)
        }
    };
    let ex = match guarded(|| Extractor::<Main, CF>::new(eg, cf)) {
        Ok(e) => e,
        Err(e) => {
            viol("extractor-new-panics", tags);
            tags.push(format!("panic:{}", e.replace(',', " ")));
            return;
        }
    };
    for i in eg.ids() {
        let idn = eg.mk_identity_applied_id(i);
        // best cost (None if the class has no finite term)
        let best = guarded(|| ex.get_best_cost::<()>(&idn)).ok();
        qs.push(format!("best {name} {}", i.0));
        outs.push(match best {
            Some(c) => c.to_string(),
            None => "none".into(),
        });
        if best.is_none() {
            continue;
        }
        // extract under a random renaming of the arguments
        // one distinct numeric name per parameter (classes can have many parameters: an invocation must stay injective)
        // (half of the queries use `$0`, `$1`, ..: the names stored shapes use for their own binders)
        let base = if rng.chance(1, 2) { 0 } else { 40 };
        let names: Vec<u32> = (0..idn.m.len().max(6) as u32).map(|k| base + 4 * k).collect();
        let mut img = names.clone();
        rng.shuffle(&mut img);
        let m: SlotMap = idn.m.iter().enumerate().map(|(k, (key, v))| (key, if rng.chance(1, 2) { slot_of_code(img[k % img.len()]) } else { v })).collect();
        let q = AppliedId { id: i, m };
        match guarded(|| ex.extract(&q, eg)) {
            Ok(t) => {
                let c = cf2.cost_rec(&t);
                if Some(c) != best {
                    viol("extracted-term-cost-differs-from-best-cost", tags);
                }
                match guarded(|| lookup_rec_expr(&t, eg)) {
                    Ok(Some(a)) => {
                        if !eg.eq(&a, &q) {
                            viol("extracted-term-not-in-queried-invocation", tags);
                        }
                    }
                    _ => viol("extracted-term-not-represented", tags),
                }
                let qslots: Vec<u32> = q.slots().iter().map(|s| code(*s)).collect();
                for s in free_slots(&from_recexpr::<Main>(&t)) {
                    if !qslots.contains(&s) && s % 4 != 1 {
                        viol("extracted-term-has-foreign-slot", tags);
                    }
                }
            }
            Err(e) => {
                viol("extract-panics", tags);
                tags.push(format!("panic:{}", e.replace(',', " ")));
            }
        }
    }
    // the handles the history returned, as they were returned (ids of classes merged away since, arguments of slots dropped
    // since): `extract` canonicalises its argument, so the same three facts must hold for them
    for h in tracked {
        let f = eg.find_applied_id(h);
        let best = guarded(|| ex.get_best_cost::<()>(&f)).ok();
        if best.is_none() {
            continue;
        }
        match guarded(|| ex.extract(h, eg)) {
            Ok(t) => {
                if Some(cf2.cost_rec(&t)) != best {
                    viol("extracted-from-old-handle-cost-differs-from-best-cost", tags);
                }
                match guarded(|| lookup_rec_expr(&t, eg)) {
                    Ok(Some(a)) => {
                        if !eg.eq(&a, h) {
                            viol("extracted-from-old-handle-not-in-queried-invocation", tags);
                        }
                    }
                    _ => viol("extracted-from-old-handle-not-represented", tags),
                }
                let hslots: Vec<u32> = h.slots().iter().map(|s| code(*s)).collect();
                for s in free_slots(&from_recexpr::<Main>(&t)) {
                    if !hslots.contains(&s) && s % 4 != 1 {
                        viol("extracted-from-old-handle-has-foreign-slot", tags);
                    }
                }
            }
            Err(e) => {
                viol("extract-from-old-handle-panics", tags);
                tags.push(format!("panic:{}", e.replace(',', " ")));
            }
        }
    }
}

pub fn exec_ext(ops: Vec<Op>, rules: Vec<usize>, iters: usize, seed: u64) -> Case {
    let sig = enc_sig(&Main::sig());
    let desc = format!("{} rules={}", enc_ops(&ops), rules.iter().map(|i| POOL[*i].0).collect::<Vec<_>>().join("."));
    let r = in_fresh_thread(move || {
        intern_names();
        for nm in ["i", "z", "y", "x", "o"] {
            let _ = Slot::named(nm);
        }
        let mut rng = Rng::new(seed);
        let mut eg: EGraph<Main> = EGraph::default();
        let mut tracked: Vec<AppliedId> = Vec::new();
        let last_union = ops.iter().rposition(|o| matches!(o, Op::Union(..)));
        for (k, op) in ops.iter().enumerate() {
            match op {
                Op::Add(t) => tracked.push(eg.add_expr(to_recexpr::<Main>(t))),
                Op::Union(i, j) => {
                    if Some(k) == last_union {
                        // extractors are built (and dropped) right before the last union: nothing they read or leave behind
                        // may survive into the extractors built afterwards
                        let _ = guarded(|| Extractor::<Main, AstSize>::new(&eg, AstSize).get_best_cost::<()>(&tracked[0]));
                        let _ = guarded(|| Extractor::<Main, OpWeighted>::new(&eg, OpWeighted).get_best_cost::<()>(&tracked[0]));
                    }
                    let (a, b2) = (tracked[*i].clone(), tracked[*j].clone());
                    eg.union(&a, &b2);
                }
                Op::Query => {}
            }
        }
        if !rules.is_empty() {
            let rws: Vec<Rewrite<Main>> = rules.iter().map(|i| mk_rule(&POOL[*i])).collect();
            for _ in 0..iters {
                if eg.total_number_of_nodes() > 200 || !apply_rewrites(&mut eg, &rws) {
                    break;
                }
            }
        }
        let snap = eg.verif_snapshot(|_| "-".to_string()).trim_end().replace('\n', "~");
        let mut qs = Vec::new();
        let mut outs = Vec::new();
        let mut tags = Vec::new();
        probe(&eg, AstSize, AstSize, "ast", &mut rng, &mut qs, &mut outs, &mut tags, &tracked);
        probe(&eg, DepthWeighted, DepthWeighted, "depth", &mut rng, &mut qs, &mut outs, &mut tags, &tracked);
        probe(&eg, OpWeighted, OpWeighted, "op", &mut rng, &mut qs, &mut outs, &mut tags, &tracked);
        let redundant = snap.split('~').any(|l| l.starts_with("uf ") && false) || eg.ids().iter().any(|i| eg.enodes(*i).iter().any(|n| n.slots().len() > eg.slots(*i).len()));
        (snap, qs, outs, tags, redundant)
    });
    match r {
        Ok((snap, qs, outs, mut tags, redundant)) => {
            tags.push(format!("history:{}", desc.replace(',', "~")));
            if redundant {
                tags.push("has-redundant-slot-node".into());
            }
            Case { line: format!("snap {sig};{snap};{}", qs.join(";")), impl_out: outs.join(";"), nontrivial: redundant || snap.contains("gen "), tags }
        }
        Err(e) => Case { line: format!("snap {sig};;"), impl_out: format!("PANIC {e}"), nontrivial: true, tags: vec!["viol:panic".into(), format!("panic:{}", e.replace(',', " ")), format!("history:{}", desc.replace(',', "~"))] },
    }
}

/// terms over the ternary operator `t3` with repeated children (same class at two positions, adjacent or separated by
/// another class, with equal or different arguments), some of them the only or the cheapest way to build their class
fn gen_ternary(rng: &mut Rng) -> Vec<Op> {
    let leaf = |v: usize, sl: &[u32]| ATerm { v, fields: sl.iter().map(|s| CField::Slot(*s)).collect(), children: vec![] };
    let sym = |s: &str| ATerm { v: 16, fields: vec![CField::Lit(s.into())], children: vec![] };
    let num = |s: &str| ATerm { v: 15, fields: vec![CField::Lit(s.into())], children: vec![] };
    let bin = |v: usize, a: ATerm, b: ATerm| ATerm { v, fields: vec![CField::App, CField::App], children: vec![a, b] };
    let t3 = |a: ATerm, b: ATerm, c: ATerm| ATerm { v: 17, fields: vec![CField::App, CField::App, CField::App], children: vec![a, b, c] };
    let lam = |x: u32, a: ATerm| ATerm { v: 0, fields: vec![CField::Bind(x, Box::new(CField::App))], children: vec![a] };
    let atoms: Vec<ATerm> = vec![sym("a"), sym("b"), num("1"), leaf(2, &[4]), leaf(2, &[8]), leaf(7, &[4, 8]), leaf(10, &[4])];
    let pick = |rng: &mut Rng| atoms[rng.below(atoms.len())].clone();
    let (k, x, y) = (pick(rng), pick(rng), pick(rng));
    let shapes: Vec<ATerm> = vec![
        t3(k.clone(), x.clone(), k.clone()),
        t3(k.clone(), k.clone(), x.clone()),
        t3(x.clone(), k.clone(), k.clone()),
        t3(k.clone(), k.clone(), k.clone()),
        t3(k.clone(), x.clone(), y.clone()),
        t3(leaf(7, &[4, 8]), x.clone(), leaf(7, &[8, 4])),
    ];
    let mut ops: Vec<Op> = Vec::new();
    let t = shapes[rng.below(shapes.len())].clone();
    ops.push(Op::Add(t.clone()));
    match rng.below(4) {
        0 => {
            // a more expensive alternative in the same class
            ops.push(Op::Add(bin(4, bin(5, k.clone(), x.clone()), bin(5, k.clone(), y.clone()))));
            ops.push(Op::Union(0, 1));
        }
        1 => {
            // the ternary node is the only way to build its class, below a binder
            ops.push(Op::Add(lam(10, t3(leaf(2, &[10]), k.clone(), leaf(2, &[10])))));
        }
        2 => {
            ops.push(Op::Add(bin(14, t.clone(), x.clone())));
            ops.push(Op::Add(t3(t.clone(), x.clone(), t.clone())));
        }
        _ => {
            ops.push(Op::Add(shapes[rng.below(shapes.len())].clone()));
            if rng.chance(1, 2) {
                ops.push(Op::Union(0, 1));
            }
        }
    }
    ops
}

/// a class whose only (hence cheapest) e-node is a BINDER node with a redundant slot — `λx. x y z = λx. x y w` — alone or below
/// another such binder; queried with arguments called `$0`, `$1`, .. the extracted binder must not capture them
fn gen_redbinder(rng: &mut Rng) -> Vec<Op> {
    let var = |c: u32| ATerm { v: 2, fields: vec![CField::Slot(c)], children: vec![] };
    let app = |a: ATerm, b: ATerm| ATerm { v: 1, fields: vec![CField::App, CField::App], children: vec![a, b] };
    let lam = |x: u32, a: ATerm| ATerm { v: 0, fields: vec![CField::Bind(x, Box::new(CField::App))], children: vec![a] };
    let (x, u, y, z, w) = (10u32, 14u32, 4u32, 8u32, 12u32);
    let body = |last: u32| lam(x, app(app(var(x), var(y)), var(last)));
    let mut ops = vec![Op::Add(body(z)), Op::Add(body(w)), Op::Union(0, 1)];
    if rng.chance(1, 2) {
        // one level up: again a binder with a redundant slot, around the first one
        let outer = |last: u32, inner: u32| lam(u, app(app(var(u), body(inner)), var(last)));
        ops = vec![Op::Add(body(z)), Op::Add(body(w)), Op::Add(outer(z, z)), Op::Add(outer(w, z)), Op::Union(0, 1), Op::Union(2, 3)];
    }
    ops
}

pub fn run(ctx: &mut Ctx) {
    for _ in 0..ctx.count {
        let mut rng = ctx.rng.fork();
        let (ops, rules, iters) = if rng.chance(1, 8) {
            (gen_redbinder(&mut rng), vec![], 0)
        } else if rng.chance(1, 6) {
            (gen_ternary(&mut rng), vec![], 0)
        } else if rng.chance(1, 2) {
            let (ops, _) = gen_history(&mut rng);
            (ops, vec![], 0)
        } else {
            // arithmetic start terms + unions between them + a few rewrite iterations
            let mut ops: Vec<Op> = Vec::new();
            let n = rng.range(2, 4);
            for _ in 0..n {
                let d = rng.range(1, 3);
                ops.push(Op::Add(gen_arith(&mut rng, d)));
            }
            if rng.chance(1, 2) {
                ops.push(Op::Union(0, 1));
            }
            let k = rng.range(1, 5);
            let mut idx: Vec<usize> = (0..POOL.len()).collect();
            rng.shuffle(&mut idx);
            idx.truncate(k);
            (ops, idx, rng.range(1, 3))
        };
        let seed = rng.next();
        ctx.emit(exec_ext(ops, rules, iters, seed));
    }
}
