//! corr.slot.table — C17.  Interleavings of fresh / numeric / named / display in a fresh thread.
use crate::rng::Rng;
use crate::util::*;
use crate::{Case, Ctx};
use slotted_egraphs::*;

fn enc_cps(s: &str) -> String {
    if s.is_empty() {
        "-".into()
    } else {
        s.chars().map(|c| (c as u32).to_string()).collect::<Vec<_>>().join(".")
    }
}

fn dec_cps(s: &str) -> String {
    if s == "-" {
        String::new()
    } else {
        s.split('.').map(|x| char::from_u32(x.parse().unwrap()).unwrap()).collect()
    }
}

fn show(s: Slot) -> String {
    let d = guarded(move || s.to_string());
    match d {
        Ok(d) => format!("{}/{}", code(s), enc_cps(&d[1..])),
        Err(_) => format!("{}/panic", code(s)),
    }
}

pub fn run_ops(ops: &[String]) -> (Vec<String>, Vec<String>, bool) {
    let mut issued: Vec<Slot> = Vec::new();
    let mut names: Vec<(String, Slot)> = Vec::new();
    let mut outs = Vec::new();
    let mut tags = Vec::new();
    let mut saw_fresh = false;
    let mut saw_tricky = false;
    for op in ops {
        let t: Vec<&str> = op.split_whitespace().collect();
        let out = match t[0] {
            "fresh" => match guarded(Slot::fresh) {
                Ok(s) => {
                    saw_fresh = true;
                    if issued.contains(&s) {
                        tags.push("viol:fresh-reissued".to_string());
                    }
                    issued.push(s);
                    show(s)
                }
                Err(_) => "panic".into(),
            },
            "num" => {
                let u: u32 = t[1].parse().unwrap();
                match guarded(move || Slot::numeric(u)) {
                    Ok(s) => {
                        issued.push(s);
                        show(s)
                    }
                    Err(_) => "panic".into(),
                }
            }
            "nam" => {
                let name = dec_cps(t[1]);
                let n2 = name.clone();
                match guarded(move || Slot::named(&n2)) {
                    Ok(s) => {
                        for (other, os) in &names {
                            if *other != name && *os == s {
                                tags.push("viol:alias".to_string());
                            }
                            if *other == name && *os != s {
                                tags.push("viol:unstable-name".to_string());
                            }
                        }
                        if name.starts_with('f') || name.chars().next().map(|c| c.is_ascii_digit() || c == '+').unwrap_or(false) {
                            saw_tricky = true;
                        }
                        names.push((name, s));
                        issued.push(s);
                        show(s)
                    }
                    Err(_) => {
                        tags.push("viol:named-panics".to_string());
                        "panic".into()
                    }
                }
            }
            "prs" => {
                // through the parser: `(var $<name>)` over the main harness language
                let name = dec_cps(t[1]);
                let text = format!("(var ${name})");
                match guarded(move || RecExpr::<crate::langs::Main>::parse(&text)) {
                    Ok(Ok(re)) => match re.node.slots().iter().next().copied() {
                        Some(s) => {
                            for (other, os) in &names {
                                if *other != name && *os == s {
                                    tags.push("viol:alias".to_string());
                                }
                                if *other == name && *os != s {
                                    tags.push("viol:unstable-name".to_string());
                                }
                            }
                            saw_tricky = true;
                            names.push((name, s));
                            issued.push(s);
                            show(s)
                        }
                        None => "noslot".into(),
                    },
                    Ok(Err(_)) => "err".into(),
                    Err(_) => {
                        tags.push("viol:parse-panics".to_string());
                        "panic".into()
                    }
                }
            }
            "reprs" => {
                let i: usize = t[1].parse().unwrap();
                match issued.get(i).copied() {
                    Some(s) => match guarded(move || RecExpr::<crate::langs::Main>::parse(&format!("(var {})", s.to_string()))) {
                        Ok(Ok(re)) => match re.node.slots().iter().next().copied() {
                            Some(s2) => {
                                if s2 != s {
                                    tags.push("viol:roundtrip".to_string());
                                }
                                show(s2)
                            }
                            None => "noslot".into(),
                        },
                        Ok(Err(_)) => "err".into(),
                        Err(_) => {
                            tags.push("viol:roundtrip-panics".to_string());
                            "panic".into()
                        }
                    },
                    None => "none".into(),
                }
            }
            "disp" => {
                let i: usize = t[1].parse().unwrap();
                match issued.get(i) {
                    Some(s) => show(*s),
                    None => "none".into(),
                }
            }
            "reparse" => {
                let i: usize = t[1].parse().unwrap();
                match issued.get(i).copied() {
                    Some(s) => match guarded(move || {
                        let d = s.to_string();
                        Slot::named(&d[1..])
                    }) {
                        Ok(s2) => {
                            if s2 != s {
                                tags.push("viol:roundtrip".to_string());
                            }
                            show(s2)
                        }
                        Err(_) => {
                            tags.push("viol:roundtrip-panics".to_string());
                            "panic".into()
                        }
                    },
                    None => "none".into(),
                }
            }
            "eqm" => {
                let mut m = String::from("m");
                for i in 0..issued.len() {
                    for j in i + 1..issued.len() {
                        m.push(if issued[i] == issued[j] { '1' } else { '0' });
                    }
                }
                m
            }
            _ => "bad-op".into(),
        };
        outs.push(out);
    }
    tags.sort();
    tags.dedup();
    (outs, tags, saw_fresh && saw_tricky)
}

fn exec(ops: Vec<String>) -> Case {
    let line = format!("slot {}", ops.join(";"));
    let ops2 = ops.clone();
    // NOTE: no intern_names() here: the table must start empty
    let r = in_fresh_thread(move || run_ops(&ops2));
    match r {
        Ok((outs, tags, nt)) => Case { line, impl_out: outs.join(";"), nontrivial: nt, tags },
        Err(e) => Case { line, impl_out: format!("PANIC {e}"), nontrivial: true, tags: vec!["panic".into()] },
    }
}

fn name_pool(rng: &mut Rng) -> String {
    let small = rng.below(12) as u64;
    let big30 = (1u64 << 30) + rng.below(3) as u64 - 1;
    let big32 = (1u64 << 32) + rng.below(3) as u64 - 1;
    match rng.below(24) {
        // names that start with the `$` sigil themselves (must not alias the un-prefixed, numeric or fresh name)
        22 => ["$x", "$7", "$f3", "$$x", "$", "$foo", "$0"][rng.below(7)].to_string(),
        23 => format!("$f{small}"),
        0 | 1 => ["x", "y", "foo", "X", "Foo", "in", "a1", "f", "ff", "fx", "g3"][rng.below(11)].to_string(),
        2 | 3 | 4 => format!("f{small}"),
        5 => format!("f0{small}"),
        6 => format!("f+{small}"),
        7 | 8 => format!("{small}"),
        9 => format!("0{small}"),
        10 => format!("+{small}"),
        11 => format!("00{small}"),
        12 => format!("{big30}"),
        13 => format!("{big32}"),
        14 => format!("f{big30}"),
        15 => format!("f{big32}"),
        16 => String::new(),
        17 => ["λ", "ß", "x́", "ｆ1", "１", "f１", "۱"][rng.below(7)].to_string(),
        18 => format!("f{}", (1u64 << 30) - 2 - rng.below(3) as u64),
        19 => format!("{}", (1u64 << 30) - 1 - rng.below(2) as u64),
        20 => format!("-{small}"),
        _ => format!("n{small}"),
    }
}

fn random_case(rng: &mut Rng) -> Vec<String> {
    let len = rng.range(2, 30);
    let mut ops = Vec::new();
    let mut issued = 0usize;
    for _ in 0..len {
        match rng.below(10) {
            0..=2 => {
                ops.push("fresh".to_string());
                issued += 1;
            }
            3 => {
                let u = if rng.chance(1, 8) { (1u32 << 30) - 2 + rng.below(4) as u32 } else { rng.below(12) as u32 };
                ops.push(format!("num {u}"));
                issued += 1;
            }
            4..=7 => {
                let name = name_pool(rng);
                // a third of the names that are one identifier for the tokenizer come in through the parser
                let ident = !name.is_empty() && name.chars().all(|c| !c.is_whitespace() && !"()[]".contains(c));
                if ident && rng.chance(1, 3) {
                    ops.push(format!("prs {}", enc_cps(&name)));
                } else {
                    ops.push(format!("nam {}", enc_cps(&name)));
                }
                issued += 1;
            }
            8 => {
                if issued > 0 {
                    ops.push(format!("reparse {}", rng.below(issued)));
                }
            }
            _ => {
                if issued > 0 {
                    ops.push(format!("disp {}", rng.below(issued)));
                }
            }
        }
    }
    // the count of issued slots above is an upper bound (panicking ops issue nothing): out-of-range is "none"
    for i in 0..issued.min(6) {
        ops.push(format!("reparse {i}"));
    }
    for i in 0..issued.min(4) {
        ops.push(format!("reprs {i}"));
    }
    ops.push("eqm".to_string());
    ops
}

pub fn run(ctx: &mut Ctx) {
    for _ in 0..ctx.count {
        let mut rng = ctx.rng.fork();
        ctx.emit(exec(random_case(&mut rng)));
    }
}

pub fn replay(body: &str) -> Case {
    exec(body.split(';').map(|x| x.trim().to_string()).filter(|x| !x.is_empty()).collect())
}
