//! corr.parse.roundtrip / corr.parse.fuzz — C18.
use crate::langs::*;
use crate::rng::Rng;
use crate::util::*;
use crate::{Case, Ctx};
use slotted_egraphs::*;

fn enc_cps(s: &str) -> String {
    if s.is_empty() {
        "-".into()
    } else {
        s.chars().map(|c| (c as u32).to_string()).collect::<Vec<_>>().join(".")
    }
}
fn dec_cps(s: &str) -> String {
    if s == "-" {
        String::new()
    } else {
        s.split('.').map(|x| char::from_u32(x.parse().unwrap()).unwrap()).collect()
    }
}

const SLOTNAMES: [&str; 13] = ["x", "y", "z", "0", "1", "7", "f0", "f3", "in", "k2", "ä", "éa", "xλ"];
const PVARS: [&str; 8] = ["a", "b", "body", "x1", "e", "f", "é", "aß"];

fn gen_lit(ty: &str, rng: &mut Rng, tricky: bool) -> String {
    if tricky && ty == "sym" {
        return ["12", "true", "-3", "x", "+5", "007"][rng.below(6)].to_string();
    }
    if tricky && ty == "u32" {
        return ["+5", "007", "12"][rng.below(3)].to_string();
    }
    match ty {
        "u32" => ["0", "1", "7", "42", "4294967295"][rng.below(5)].to_string(),
        "i64" => ["-1", "-77", "-9223372036854775808"][rng.below(3)].to_string(),
        "bool" => ["true", "false"][rng.below(2)].to_string(),
        "char" => ["a", "Z", "q", "λ"][rng.below(4)].to_string(),
        _ => ["ab", "bb", "foo", "map", "x1", "zero", "café", "éa", "ñ"][rng.below(9)].to_string(),
    }
}

fn gen_field(k: &Kind, rng: &mut Rng, tricky: bool) -> AField {
    match k {
        Kind::S => AField::Slot(Slot::named(SLOTNAMES[rng.below(SLOTNAMES.len())])),
        Kind::A => AField::App(AppliedId::null()),
        Kind::B(inner) => AField::Bind(Slot::named(SLOTNAMES[rng.below(SLOTNAMES.len())]), Box::new(gen_field(inner, rng, tricky))),
        Kind::L(ty) => AField::Lit(gen_lit(ty, rng, tricky)),
    }
}

fn count_apps(k: &Kind) -> usize {
    match k {
        Kind::A => 1,
        Kind::B(k) => count_apps(k),
        _ => 0,
    }
}

fn gen_pat<L: HLang>(rng: &mut Rng, depth: usize, allow_pvar: bool, allow_subst: bool, tricky: bool) -> Pattern<L> {
    let sig = L::sig();
    if allow_subst && depth > 0 && rng.chance(1, 6) {
        return Pattern::Subst(
            Box::new(gen_pat(rng, depth - 1, allow_pvar, allow_subst, tricky)),
            Box::new(gen_pat(rng, depth - 1, allow_pvar, allow_subst, tricky)),
            Box::new(gen_pat(rng, depth - 1, allow_pvar, allow_subst, tricky)),
        );
    }
    if allow_pvar && (depth == 0 || rng.chance(1, 4)) {
        return Pattern::PVar(PVARS[rng.below(PVARS.len())].to_string());
    }
    // choose a variant; at depth 0 one without children
    let mut cands: Vec<usize> = (0..sig.len()).collect();
    if depth == 0 {
        cands.retain(|&v| sig[v].kinds.iter().map(count_apps).sum::<usize>() == 0);
        if cands.is_empty() {
            return Pattern::PVar("a".into());
        }
    }
    let v = *rng.pick(&cands);
    let fields: Vec<AField> = sig[v].kinds.iter().map(|k| gen_field(k, rng, tricky)).collect();
    let n: usize = sig[v].kinds.iter().map(count_apps).sum();
    let node = L::from_anode(&ANode { v, fields });
    let children = (0..n).map(|_| gen_pat(rng, depth.saturating_sub(1), allow_pvar, allow_subst, tricky)).collect();
    Pattern::ENode(node, children)
}

fn pat_unambiguous<L: HLang>(p: &Pattern<L>) -> bool {
    match p {
        Pattern::ENode(n, cs) => unambiguous::<L>(&n.to_anode()) && cs.iter().all(pat_unambiguous),
        Pattern::PVar(_) => true,
        Pattern::Subst(a, b, c) => pat_unambiguous(a) && pat_unambiguous(b) && pat_unambiguous(c),
    }
}

fn has_named_payload<L: HLang>(p: &Pattern<L>) -> bool {
    match p {
        Pattern::ENode(n, cs) => {
            let a = n.to_anode();
            (L::sig()[a.v].name.is_some() && a.fields.iter().any(|f| matches!(f, AField::Lit(_)))) || cs.iter().any(has_named_payload)
        }
        Pattern::PVar(_) => false,
        Pattern::Subst(a, b, c) => has_named_payload(a) || has_named_payload(b) || has_named_payload(c),
    }
}

fn pat_wf<L: Language>(p: &Pattern<L>) -> bool {
    match p {
        Pattern::ENode(n, cs) => n.applied_id_occurrences().len() == cs.len() && cs.iter().all(pat_wf),
        Pattern::PVar(_) => true,
        Pattern::Subst(a, b, c) => pat_wf(a) && pat_wf(b) && pat_wf(c),
    }
}
fn re_wf<L: Language>(p: &RecExpr<L>) -> bool {
    p.node.applied_id_occurrences().len() == p.children.len() && p.children.iter().all(re_wf)
}

fn mutate(text: &str, rng: &mut Rng) -> String {
    let chars: Vec<char> = text.chars().collect();
    let mut toks: Vec<String> = Vec::new();
    {
        // crude tokenisation for mutation purposes
        let mut cur = String::new();
        for &c in &chars {
            if "()[] ".contains(c) {
                if !cur.is_empty() {
                    toks.push(std::mem::take(&mut cur));
                }
                toks.push(c.to_string());
            } else {
                cur.push(c);
            }
        }
        if !cur.is_empty() {
            toks.push(cur);
        }
    }
    match rng.below(13) {
        0 | 1 | 2 => chars[..rng.below(chars.len() + 1)].iter().collect(),
        3 => chars[rng.below(chars.len() + 1)..].iter().collect(),
        4 if !toks.is_empty() => {
            let i = rng.below(toks.len());
            toks.remove(i);
            toks.concat()
        }
        5 if !toks.is_empty() => {
            let i = rng.below(toks.len());
            let t = toks[i].clone();
            toks.insert(i, t);
            toks.concat()
        }
        6 if toks.len() > 1 => {
            let i = rng.below(toks.len());
            let j = rng.below(toks.len());
            toks.swap(i, j);
            toks.concat()
        }
        7 => {
            let i = rng.below(chars.len() + 1);
            let ins = ["(", ")", "[", "]", ":=", "?", "$", " ", "\u{a0}", "\u{2003}", "\t", "\u{85}", "==", ",", "?x", "$f9", " 3 "][rng.below(17)];
            let mut s: String = chars[..i].iter().collect();
            s.push_str(ins);
            s.extend(chars[i..].iter());
            s
        }
        8 => text.replace(' ', ["  ", "\u{3000}", "\n", "\u{2028}"][rng.below(4)]),
        9 => text.replace(":=", [":", "=", ": =", ":=:="][rng.below(4)]),
        10 => {
            // add a surplus argument before a closing paren
            if let Some(i) = text.rfind(')') {
                let extra = [" ?zz", " $q", " 5", " (var $x)", " foo"][rng.below(5)];
                format!("{}{}{}", &text[..i], extra, &text[i..])
            } else {
                format!("({text} ?zz)")
            }
        }
        11 => {
            // a dangling sigil (rejected by the tokenizer, whose error echoes the rest of the input) somewhere in the text,
            // and a long tail of identifiers with multi-byte characters at every byte offset
            let i = rng.below(chars.len() + 1);
            let sig = ["? ", "$ ", "?)", "$(", "?", "$", " ? ", "$]"][rng.below(8)];
            let pieces = ["x", "ab", "é", "ñ", "λ", "ü", "grün", "café", "字", "ß", "zz9", "q", "€", "😀"];
            let mut tail = String::new();
            let want = rng.range(20, 60);
            while tail.len() < want {
                tail.push_str(pieces[rng.below(pieces.len())]);
                if rng.chance(1, 4) {
                    tail.push(' ');
                }
            }
            let mut s: String = chars[..i].iter().collect();
            s.push_str(sig);
            s.extend(chars[i..].iter());
            s.push(' ');
            s.push_str(&tail);
            s
        }
        _ => String::new(),
    }
}

fn run_text<L: HLang>(kind: &str, text: &str) -> (String, Vec<String>) {
    let mut tags = Vec::new();
    let out = match kind {
        "pat" => match guarded(|| Pattern::<L>::parse(text)) {
            Ok(Ok(p)) => {
                if !pat_wf(&p) {
                    tags.push("viol:arity".to_string());
                }
                match guarded(|| p.to_string()) {
                    Ok(s) => format!("ok:{}", enc_cps(&s)),
                    Err(_) => {
                        tags.push("viol:print-panics".to_string());
                        "ok:printpanic".into()
                    }
                }
            }
            Ok(Err(e)) => format!("err:{}", err_name(&e)),
            Err(_) => {
                tags.push("viol:parse-panics".to_string());
                "panic".into()
            }
        },
        "re" => match guarded(|| RecExpr::<L>::parse(text)) {
            Ok(Ok(p)) => {
                if !re_wf(&p) {
                    tags.push("viol:arity".to_string());
                }
                format!("ok:{}", enc_cps(&p.to_string()))
            }
            Ok(Err(e)) => format!("err:{}", err_name(&e)),
            Err(_) => {
                tags.push("viol:parse-panics".to_string());
                "panic".into()
            }
        },
        _ => match guarded(|| MultiPattern::<L>::parse(text)) {
            Ok(Ok(p)) => format!("ok:{}", enc_cps(&p.to_string())),
            Ok(Err(e)) => format!("err:{}", err_name(&e)),
            Err(_) => {
                tags.push("viol:parse-panics".to_string());
                "panic".into()
            }
        },
    };
    (out, tags)
}

fn err_name<E: std::fmt::Debug>(e: &E) -> String {
    // `ParseError` is not nameable outside the crate; its Debug output starts with the variant name
    let d = format!("{:?}", e);
    d.split('(').next().unwrap_or("").to_string()
}

fn line_of<L: HLang>(kind: &str, text: &str) -> String {
    format!("parse {};{};{}", enc_sig(&L::sig()), kind, enc_cps(text))
}

/// valid stream: generate a value, print it, parse the text back.
fn valid_case<L: HLang>(rng: &mut Rng) -> Case {
    let mut r = rng.fork();
    let res = in_fresh_thread(move || {
        let kind = ["pat", "pat", "re", "mp"][r.below(4)];
        let tricky = r.chance(1, 10);
        let mut tags: Vec<String> = Vec::new();
        let mut nt = false;
        let text = match kind {
            "pat" => {
                let p: Pattern<L> = gen_pat(&mut r, 4, true, true, tricky);
                let text = p.to_string();
                nt = text.matches('(').count() >= 2 || text.contains('[');
                if has_named_payload(&p) {
                    tags.push("t:named-payload".to_string());
                }
                if !pat_unambiguous(&p) {
                    tags.push("ambiguous-payload".to_string());
                } else {
                    // half of the cases: the library hands out fresh slots between printing and parsing back (as any e-graph
                    // work would); what a printed name denotes must not depend on how many there were
                    if r.chance(1, 2) {
                        for _ in 0..r.range(1, 12) {
                            let _ = Slot::fresh();
                        }
                        tags.push("t:fresh-slots-in-between".to_string());
                    }
                    match guarded(|| Pattern::<L>::parse(&text)) {
                        Ok(Ok(q)) if q == p && q.to_string() == text => {}
                        _ => tags.push("viol:roundtrip".to_string()),
                    }
                }
                text
            }
            "re" => {
                let p: Pattern<L> = gen_pat(&mut r, 4, false, false, tricky);
                let re = pattern_to_re(&p);
                let text = re.to_string();
                nt = text.matches('(').count() >= 2;
                if has_named_payload(&p) {
                    tags.push("t:named-payload".to_string());
                }
                if !pat_unambiguous(&p) {
                    tags.push("ambiguous-payload".to_string());
                } else {
                    if r.chance(1, 2) {
                        for _ in 0..r.range(1, 12) {
                            let _ = Slot::fresh();
                        }
                        tags.push("t:fresh-slots-in-between".to_string());
                    }
                    match guarded(|| RecExpr::<L>::parse(&text)) {
                        Ok(Ok(q)) if q == re => {}
                        _ => tags.push("viol:roundtrip".to_string()),
                    }
                }
                text
            }
            _ => {
                let n = r.range(1, 3);
                let mut parts = Vec::new();
                let mut amb = false;
                for _ in 0..n {
                    let Pattern::ENode(node, cs) = gen_pat::<L>(&mut r, 1, false, false, tricky) else { unreachable!() };
                    amb |= !unambiguous::<L>(&node.to_anode());
                    if has_named_payload::<L>(&Pattern::ENode(node.clone(), vec![])) && !tags.contains(&"t:named-payload".to_string()) {
                        tags.push("t:named-payload".to_string());
                    }
                    let cs: Vec<Pattern<L>> = cs.iter().map(|_| Pattern::PVar(PVARS[r.below(PVARS.len())].to_string())).collect();
                    parts.push(format!("?{} == {}", PVARS[r.below(PVARS.len())], Pattern::ENode(node, cs)));
                }
                let text = parts.join(", ");
                nt = n >= 2;
                if amb {
                    tags.push("ambiguous-payload".to_string());
                } else {
                    match guarded(|| MultiPattern::<L>::parse(&text)) {
                        Ok(Ok(q)) if q.to_string() == text => {}
                        _ => tags.push("viol:roundtrip".to_string()),
                    }
                }
                text
            }
        };
        (kind.to_string(), text, tags, nt, tricky)
    })
    .unwrap();
    let (kind, text, tags0, nt, tricky) = res;
    finish::<L>(&kind, &text, tags0, nt, if tricky { "tricky-payload" } else { "valid" })
}

fn finish<L: HLang>(kind: &str, text: &str, mut tags: Vec<String>, nt: bool, stream: &str) -> Case {
    let line = line_of::<L>(kind, text);
    let (k2, t2) = (kind.to_string(), text.to_string());
    // the parse under test runs in its own fresh thread (empty slot table, like the model)
    let r = in_fresh_thread(move || run_text::<L>(&k2, &t2));
    tags.push(stream.to_string());
    match r {
        Ok((out, t)) => {
            tags.extend(t);
            let kindtag = out.split(':').next().unwrap_or("").to_string();
            tags.push(format!("r:{}", if kindtag == "err" { out.clone() } else { kindtag }));
            Case { line, impl_out: out, nontrivial: nt, tags }
        }
        Err(e) => Case { line, impl_out: format!("PANIC {e}"), nontrivial: true, tags: vec!["viol:parse-panics".into()] },
    }
}

/// two parses in ONE thread: whatever the first one did (failed half-way through, interned names, moved the fresh counter),
/// the second must answer as if it were alone.  The model is asked about the second text only.
fn finish2<L: HLang>(kind1: &str, text1: &str, kind2: &str, text2: &str, mut tags: Vec<String>, stream: &str) -> Case {
    let line = format!("parse2 {};{};{};{};{}", enc_sig(&L::sig()), kind1, enc_cps(text1), kind2, enc_cps(text2));
    let (k1, t1, k2, t2) = (kind1.to_string(), text1.to_string(), kind2.to_string(), text2.to_string());
    let r = in_fresh_thread(move || {
        // `kind*N`: the first text is parsed N times (a thread that has rejected many inputs must still accept a good one)
        let (k1b, reps) = match k1.split_once('*') {
            Some((k, n)) => (k.to_string(), n.parse::<usize>().unwrap_or(1)),
            None => (k1.clone(), 1),
        };
        let mut first = run_text::<L>(&k1b, &t1);
        for _ in 1..reps {
            first = run_text::<L>(&k1b, &t1);
        }
        let second = run_text::<L>(&k2, &t2);
        (first.0, second)
    });
    tags.push(stream.to_string());
    match r {
        Ok((first, (out, t))) => {
            tags.extend(t);
            let kt = |o: &str| o.split(':').next().unwrap_or("").to_string();
            tags.push(format!("first:{}", if kt(&first) == "err" { first.clone() } else { kt(&first) }));
            tags.push(format!("r:{}", if kt(&out) == "err" { out.clone() } else { kt(&out) }));
            Case { line, impl_out: out, nontrivial: true, tags }
        }
        Err(e) => Case { line, impl_out: format!("PANIC {e}"), nontrivial: true, tags: vec!["viol:parse-panics".into()] },
    }
}

fn pair_case<L: HLang>(rng: &mut Rng) -> Case {
    let mut r = rng.fork();
    let (k1, t1, k2, t2) = in_fresh_thread(move || {
        let mut gen = |r: &mut Rng, broken: bool| -> (String, String) {
            let kind = ["pat", "pat", "re", "mp"][r.below(4)];
            let base = match kind {
                "mp" => {
                    let Pattern::ENode(node, cs) = gen_pat::<L>(r, 1, false, false, false) else { unreachable!() };
                    let cs: Vec<Pattern<L>> = cs.iter().map(|_| Pattern::PVar("b".to_string())).collect();
                    format!("?a == {}, ?b == {}", Pattern::ENode(node.clone(), cs.clone()), Pattern::ENode(node, cs))
                }
                "re" => gen_pat::<L>(r, 3, false, false, false).to_string(),
                _ => gen_pat::<L>(r, 3, true, true, false).to_string(),
            };
            let t = if broken {
                match r.below(4) {
                    // a dangling sigil somewhere after the first token: tokenization itself fails half-way through
                    0 => {
                        let cut = base.char_indices().map(|(i, _)| i).filter(|i| *i > 0).nth(r.below(base.chars().count().max(2) - 1)).unwrap_or(base.len());
                        format!("{}{}", &base[..cut], if r.chance(1, 2) { " $" } else { " ?" })
                    }
                    1 => format!("{base} $ {base}"),
                    _ => mutate(&base, r),
                }
            } else {
                base
            };
            (kind.to_string(), t)
        };
        let (mut k1, mut t1) = gen(&mut r, true);
        let second_broken = r.chance(1, 3);
        let (k2, t2) = gen(&mut r, second_broken);
        if r.chance(1, 8) {
            // a long run of rejected inputs, each cut off inside several open parentheses, before the second text
            let deep = gen_pat::<L>(&mut r, 4, true, false, false).to_string();
            let opens: Vec<usize> = deep.char_indices().filter(|(_, c)| *c == '(').map(|(i, _)| i).collect();
            if opens.len() >= 2 {
                let cut = opens[opens.len() - 1] + 1;
                let mut end = cut;
                while end < deep.len() && !deep.is_char_boundary(end) {
                    end += 1;
                }
                t1 = deep[..end].to_string();
                k1 = format!("pat*{}", 150 + r.below(200));
            }
        }
        (k1, t1, k2, t2)
    })
    .unwrap();
    finish2::<L>(&k1, &t1, &k2, &t2, vec![], "pair")
}

fn fuzz_case<L: HLang>(rng: &mut Rng) -> Case {
    let mut r = rng.fork();
    let (kind, text) = in_fresh_thread(move || {
        let kind = ["pat", "pat", "re", "mp"][r.below(4)];
        let base = match kind {
            "mp" => {
                let Pattern::ENode(node, cs) = gen_pat::<L>(&mut r, 1, false, false, false) else { unreachable!() };
                let cs: Vec<Pattern<L>> = cs.iter().map(|_| Pattern::PVar("b".to_string())).collect();
                format!("?a == {}, ?b == {}", Pattern::ENode(node.clone(), cs.clone()), Pattern::ENode(node, cs))
            }
            "re" => gen_pat::<L>(&mut r, 3, false, false, false).to_string(),
            _ => gen_pat::<L>(&mut r, 3, true, true, false).to_string(),
        };
        let mut t = mutate(&base, &mut r);
        if r.chance(1, 4) {
            t = mutate(&t, &mut r);
        }
        (kind.to_string(), t)
    })
    .unwrap();
    finish::<L>(&kind, &text, vec![], true, "fuzz")
}

pub fn run(ctx: &mut Ctx) {
    for i in 0..ctx.count {
        let mut rng = ctx.rng.fork();
        let lang = LANGS[i % LANGS.len()];
        let c = if i % 6 == 0 {
            crate::with_lang!(lang, valid_case(&mut rng))
        } else if i % 6 == 3 {
            crate::with_lang!(lang, pair_case(&mut rng))
        } else {
            crate::with_lang!(lang, fuzz_case(&mut rng))
        };
        ctx.emit(c);
    }
}

fn replay_l<L: HLang>(kind: &str, text: &str) -> Case {
    finish::<L>(kind, text, vec![], true, "replay")
}

fn replay2_l<L: HLang>(k1: &str, t1: &str, k2: &str, t2: &str) -> Case {
    finish2::<L>(k1, t1, k2, t2, vec![], "replay")
}

pub fn replay(body: &str) -> Case {
    if let Some(b2) = body.strip_prefix("parse2 ") {
        let parts: Vec<&str> = b2.split(';').collect();
        let lang = LANGS.iter().copied().find(|l| crate::with_lang!(*l, sig_string()) == parts[0]).expect("unknown signature");
        let (t1, t2) = (dec_cps(parts[2]), dec_cps(parts[4]));
        return crate::with_lang!(lang, replay2_l(parts[1], &t1, parts[3], &t2));
    }
    let parts: Vec<&str> = body.split(';').collect();
    let lang = LANGS.iter().copied().find(|l| crate::with_lang!(*l, sig_string()) == parts[0]).expect("unknown signature");
    let text = dec_cps(parts[2]);
    crate::with_lang!(lang, replay_l(parts[1], &text))
}

fn sig_string<L: HLang>() -> String {
    enc_sig(&L::sig())
}
