//! corr.replay — C20.  The same history replayed in several fresh threads (while other threads do unrelated
//! e-graph work) and in a second process must give byte-identical transcripts.
use crate::langs::*;
use crate::rng::Rng;
use crate::suites::eg::*;
use crate::suites::rw::*;
use crate::terms::*;
use crate::util::*;
use crate::{Case, Ctx};
use slotted_egraphs::*;

/// everything observable, in the order the API returns it (nothing sorted, nothing canonicalised)
pub fn transcript(ops: &[Op], rules: &[usize], iters: usize) -> String {
    transcript_t(ops, rules, iters, None)
}

/// `texts`: the inserted terms as text (in insertion order) — they are then *parsed* in the replaying thread instead of being
/// built from the abstract term
pub fn transcript_t(ops: &[Op], rules: &[usize], iters: usize, texts: Option<&[String]>) -> String {
    let mut out = String::new();
    let mut eg: EGraph<Main> = EGraph::default();
    let mut tracked: Vec<AppliedId> = Vec::new();
    #[cfg(feature = "explanations")]
    let mut exprs: Vec<RecExpr<Main>> = Vec::new();
    let mut nadd = 0;
    for op in ops {
        match op {
            Op::Add(t) => {
                let re = match texts {
                    Some(tx) => RecExpr::<Main>::parse(&tx[nadd]).unwrap(),
                    None => to_recexpr::<Main>(t),
                };
                nadd += 1;
                #[cfg(feature = "explanations")]
                exprs.push(re.clone());
                let a = eg.add_expr(re);
                out.push_str(&format!("add -> {:?}\n", a));
                tracked.push(a);
            }
            Op::Union(i, j) => {
                let (a, b2) = (tracked[*i].clone(), tracked[*j].clone());
                let r = eg.union(&a, &b2);
                out.push_str(&format!("union -> {r}\n"));
            }
            Op::Query => {}
        }
    }
    let rws: Vec<Rewrite<Main>> = rules.iter().map(|i| mk_rule(&POOL[*i])).collect();
    for _ in 0..iters {
        if eg.total_number_of_nodes() > 200 {
            break;
        }
        let ch = apply_rewrites(&mut eg, &rws);
        out.push_str(&format!("rewrite -> {ch} nodes={} ids={:?}\n", eg.total_number_of_nodes(), eg.ids()));
    }
    for a in &tracked {
        out.push_str(&format!("find {:?} -> {:?}\n", a, eg.find_applied_id(a)));
    }
    for i in eg.ids() {
        out.push_str(&format!("class {:?} slots {:?}\n", i, eg.slots(i)));
        for n in eg.enodes(i) {
            out.push_str(&format!("  {:?}\n", n));
        }
    }
    // matching: the returned lists in their returned order (HashMap<String, AppliedId> printed by sorted key only)
    for pat in ["(k ?a ?b)", "(add ?a ?b)", "(h ?a)", "(lam $x ?b)", "(sum $x (mul ?a ?b))", "(f2 $x $y)"] {
        let p = Pattern::<Main>::parse(pat).unwrap();
        for s in ematch_all(&eg, &p) {
            let mut kv: Vec<(&String, &AppliedId)> = s.iter().collect();
            kv.sort_by_key(|(k, _)| (*k).clone());
            out.push_str(&format!("match {pat}: {:?}\n", kv));
        }
    }
    // multi-pattern matching: the returned substitutions in their returned order (a variable shared by two atoms is
    // unified across the symmetries of its class: the order in which the open slots are tried must not follow a per-thread hasher)
    for mp in ["?x == (h ?a), ?y == (k ?a ?b)", "?x == (k ?a ?b), ?y == (k ?b ?a)", "?x == (add ?a ?b), ?y == (h ?a)",
               "?x == (h ?a), ?y == (h ?a)", "?x == (k ?a ?b), ?y == (add ?a ?c)", "?x == (k ?a ?a), ?y == (h ?a)"] {
        if let Ok(p) = MultiPattern::<Main>::parse(mp) {
            if let Ok(ms) = guarded(|| multi_ematch(&p, &eg)) {
                for s in ms {
                    let mut kv: Vec<(&String, &AppliedId)> = s.iter().collect();
                    kv.sort_by_key(|(k, _)| (*k).clone());
                    out.push_str(&format!("mmatch {mp}: {:?}\n", kv));
                }
            }
        }
    }
    // extraction
    let ex = Extractor::<Main, AstSize>::new(&eg, AstSize);
    for i in eg.ids() {
        let idn = eg.mk_identity_applied_id(i);
        if let Ok(t) = guarded(|| ex.extract(&idn, &eg)) {
            out.push_str(&format!("extract {:?} -> {}\n", i, t));
        }
    }
    out.push_str(&format!("progress {:?}\n", eg.verif_measure()));
    // explanations build: the printed proofs of the equalities between tracked handles are part of the transcript
    #[cfg(feature = "explanations")]
    {
        let mut shown = 0;
        'outer: for i in 0..tracked.len() {
            for j in i + 1..tracked.len() {
                if shown >= 6 {
                    break 'outer;
                }
                if eg.eq(&tracked[i], &tracked[j]) {
                    if let Ok(txt) = guarded(|| eg.explain_equivalence(exprs[i].clone(), exprs[j].clone()).to_string(&eg)) {
                        out.push_str(&format!("explain {i} {j}\n{txt}\n"));
                        shown += 1;
                    }
                }
            }
        }
    }
    out
}

fn noise(seed: u64, stop: std::sync::Arc<std::sync::atomic::AtomicBool>) {
    let mut rng = Rng::new(seed);
    while !stop.load(std::sync::atomic::Ordering::Relaxed) {
        let mut eg: EGraph<Main> = EGraph::default();
        let mut ids = Vec::new();
        for _ in 0..6 {
            let d = rng.range(0, 2);
            let t = gen_term(&mut rng, 3, d, true);
            ids.push(eg.add_expr(to_recexpr::<Main>(&t)));
            let _ = Symbol::from(format!("noise{}", rng.below(1000)).as_str());
            let _ = Slot::named(&format!("noise{}", rng.below(50)));
            let _ = Slot::fresh();
        }
        let (i, j) = (rng.below(ids.len()), rng.below(ids.len()));
        let (a, b2) = (ids[i].clone(), ids[j].clone());
        let _ = guarded(|| eg.union(&a, &b2));
        let _v: Vec<u8> = Vec::with_capacity(rng.below(100000));
    }
}

fn fnv(s: &str) -> u64 {
    let mut h: u64 = 0xcbf29ce484222325;
    for b in s.bytes() {
        h ^= b as u64;
        h = h.wrapping_mul(0x100000001b3);
    }
    h
}

pub fn exec_repro(ops: Vec<Op>, rules: Vec<usize>, iters: usize, seed: u64, second_process: bool) -> Case {
    exec_repro_t(ops, rules, iters, seed, second_process, false)
}

/// all named slots of a history become `$f<N>` names (the spelling of fresh slots): the printed terms then mention numeric
/// and fresh-style slots only
fn fstyle(t: &ATerm) -> ATerm {
    fn cf(f: &CField) -> CField {
        let m = |c: u32| if c % 4 == 2 { 4 * (c / 4 + 3) + 1 } else { c };
        match f {
            CField::Slot(s) => CField::Slot(m(*s)),
            CField::Bind(s, x) => CField::Bind(m(*s), Box::new(cf(x))),
            x => x.clone(),
        }
    }
    ATerm { v: t.v, fields: t.fields.iter().map(cf).collect(), children: t.children.iter().map(fstyle).collect() }
}

fn texts_of(ops: &[Op]) -> Vec<String> {
    let terms: Vec<ATerm> = ops.iter().filter_map(|o| if let Op::Add(t) = o { Some(t.clone()) } else { None }).collect();
    in_fresh_thread(move || {
        intern_names();
        terms.iter().map(|t| to_recexpr::<Main>(t).to_string()).collect::<Vec<String>>()
    })
    .unwrap_or_default()
}

/// `text`: the replicas parse the inserted terms from text (what a name denotes, and what parsing it does to the thread's
/// slot table, must not depend on which thread parsed the same text first)
pub fn exec_repro_t(ops: Vec<Op>, rules: Vec<usize>, iters: usize, seed: u64, second_process: bool, text: bool) -> Case {
    let ops: Vec<Op> = if text { ops.into_iter().map(|o| match o { Op::Add(t) => Op::Add(fstyle(&t)), x => x }).collect() } else { ops };
    let texts: Option<Vec<String>> = if text { Some(texts_of(&ops)) } else { None };
    let desc = format!("{}{} rules={}", if text { "text " } else { "" }, enc_ops(&ops), rules.iter().map(|i| POOL[*i].0).collect::<Vec<_>>().join("."));
    let stop = std::sync::Arc::new(std::sync::atomic::AtomicBool::new(false));
    let noise_threads: Vec<_> = (0..4)
        .map(|k| {
            let st = stop.clone();
            std::thread::Builder::new().stack_size(32 << 20).spawn(move || noise(seed.wrapping_add(k), st)).unwrap()
        })
        .collect();
    let replicas: Vec<_> = (0..4)
        .map(|k| {
            let (o, r, tx) = (ops.clone(), rules.clone(), texts.clone());
            std::thread::Builder::new()
                .stack_size(64 << 20)
                .spawn(move || {
                    // replicas start at slightly different times and with different allocation prefixes
                    let _pad: Vec<u64> = vec![k as u64; 1000 * (k + 1)];
                    std::thread::sleep(std::time::Duration::from_micros(137 * k as u64));
                    guarded(move || {
                        intern_names();
                        transcript_t(&o, &r, iters, tx.as_deref())
                    })
                })
                .unwrap()
        })
        .collect();
    let mut results: Vec<Result<String, String>> = replicas.into_iter().map(|h| h.join().unwrap_or(Err("thread-died".into()))).collect();
    // one more replica *after* an unrelated e-graph of a very different size has been built (and dropped) in another
    // thread: nothing another e-graph did earlier in the process may show in a transcript
    {
        let big = [40usize, 150, 600, 2500][(seed % 4) as usize];
        let _ = std::thread::Builder::new()
            .stack_size(64 << 20)
            .spawn(move || {
                let _ = guarded(move || {
                    let mut eg: EGraph<Main> = EGraph::default();
                    for i in 0..big {
                        let t = ATerm { v: 13, fields: vec![CField::App], children: vec![ATerm { v: 15, fields: vec![CField::Lit(i.to_string())], children: vec![] }] };
                        eg.add_expr(to_recexpr::<Main>(&t));
                    }
                    eg.total_number_of_nodes()
                });
            })
            .unwrap()
            .join();
        let (o, r, tx) = (ops.clone(), rules.clone(), texts.clone());
        let late = std::thread::Builder::new()
            .stack_size(64 << 20)
            .spawn(move || {
                guarded(move || {
                    intern_names();
                    transcript_t(&o, &r, iters, tx.as_deref())
                })
            })
            .unwrap()
            .join()
            .unwrap_or(Err("thread-died".into()));
        results.push(late);
    }
    stop.store(true, std::sync::atomic::Ordering::Relaxed);
    for h in noise_threads {
        let _ = h.join();
    }
    let mut tags = vec![format!("history:{}", desc.replace(',', "~"))];
    let first = results[0].clone();
    let mut verdict = "ok".to_string();
    for (k, r) in results.iter().enumerate() {
        if *r != first {
            tags.push("viol:replicas-differ".into());
            let (a, b2) = (first.clone().unwrap_or_else(|e| format!("PANIC {e}")), r.clone().unwrap_or_else(|e| format!("PANIC {e}")));
            let diff_line = a.lines().zip(b2.lines()).position(|(x, y)| x != y).unwrap_or(0);
            verdict = format!(
                "replica#{k} differs at transcript line {diff_line}: {:?} VS {:?}",
                a.lines().nth(diff_line).unwrap_or(""),
                b2.lines().nth(diff_line).unwrap_or("")
            )
            .replace(['\t', ';'], " ");
            break;
        }
    }
    if let Err(e) = &first {
        tags.push("panics".into());
        tags.push(format!("panic:{}", e.replace(',', " ")));
    }
    if second_process && verdict == "ok" {
        if let Ok(t) = &first {
            // the same history in a fresh process (other addresses, other allocation history)
            let exe = std::env::current_exe().unwrap();
            let out = std::process::Command::new(exe)
                .args(["repro-child", "--replay", &format!("{}{iters}|{}|{}", if text { "T" } else { "" }, rules.iter().map(|i| i.to_string()).collect::<Vec<_>>().join("."), enc_ops(&ops))])
                .output();
            match out {
                Ok(o) => {
                    let h = String::from_utf8_lossy(&o.stdout).trim().to_string();
                    if h != format!("{:016x}", fnv(t)) {
                        tags.push("viol:second-process-differs".into());
                        verdict = format!("second process transcript hash {h} vs {:016x}", fnv(t));
                    }
                }
                Err(_) => tags.push("second-process-unavailable".into()),
            }
        }
    }
    let nt = first.as_ref().map(|t| t.contains("match ") && t.contains("rewrite -> true")).unwrap_or(false);
    Case { line: format!("echo ok {:016x}", fnv(&desc)), impl_out: verdict, nontrivial: nt, tags }
}

pub fn child(arg: &str) {
    let parts: Vec<&str> = arg.splitn(3, '|').collect();
    let text = parts[0].starts_with('T');
    let iters: usize = parts[0].trim_start_matches('T').parse().unwrap();
    let rules: Vec<usize> = if parts[1].is_empty() { vec![] } else { parts[1].split('.').map(|x| x.parse().unwrap()).collect() };
    let ops = parse_ops(parts[2]);
    let texts: Option<Vec<String>> = if text { Some(texts_of(&ops)) } else { None };
    // another thread of this process has seen the slot names first, in the opposite order (what a thread interns is its own
    // business: the replay below must not notice)
    let _ = std::thread::spawn(|| {
        for i in (0..NNAMES).rev() {
            let _ = Slot::named(&format!("n{i}"));
        }
    })
    .join();
    let r = in_fresh_thread(move || {
        intern_names();
        transcript_t(&ops, &rules, iters, texts.as_deref())
    });
    match r {
        Ok(t) => println!("{:016x}", fnv(&t)),
        Err(e) => println!("PANIC {e}"),
    }
}

fn strip_symbols(t: &ATerm) -> ATerm {
    if t.v == 16 {
        let n = match t.fields.first() {
            Some(CField::Lit(s)) => (s.bytes().map(|b| b as u32).sum::<u32>() % 5).to_string(),
            _ => "0".to_string(),
        };
        return ATerm { v: 15, fields: vec![CField::Lit(n)], children: vec![] };
    }
    ATerm { v: t.v, fields: t.fields.clone(), children: t.children.iter().map(strip_symbols).collect() }
}

fn has_symbol(t: &ATerm) -> bool {
    t.v == 16 || t.children.iter().any(has_symbol)
}

pub fn run(ctx: &mut Ctx) {
    let second = ctx.param("second_process", 1) == 1;
    for k in 0..ctx.count {
        let mut rng = ctx.rng.fork();
        let (mut ops, _) = gen_history(&mut rng);
        // some arithmetic terms so that the rules have something to do
        for _ in 0..rng.range(0, 2) {
            let d = rng.range(1, 3);
            let pos = ops.iter().position(|o| !matches!(o, Op::Add(_))).unwrap_or(ops.len());
            ops.insert(pos, Op::Add(gen_arith(&mut rng, d)));
        }
        let nr = rng.range(0, 4);
        let mut idx: Vec<usize> = (0..POOL.len()).collect();
        rng.shuffle(&mut idx);
        idx.truncate(nr);
        if rng.chance(1, 4) {
            // a rule that equates an open term with a closed one (`(mul ?a 0) => 0`), next to a binder: whatever the library
            // does the first time that happens in a process, it must do in every replay
            let var = |c: u32| ATerm { v: 2, fields: vec![CField::Slot(c)], children: vec![] };
            let bin = |v: usize, a: ATerm, b: ATerm| ATerm { v, fields: vec![CField::App, CField::App], children: vec![a, b] };
            let zero = ATerm { v: 15, fields: vec![CField::Lit("0".into())], children: vec![] };
            let pos = ops.iter().position(|o| !matches!(o, Op::Add(_))).unwrap_or(ops.len());
            ops.insert(pos, Op::Add(bin(5, bin(4, var(4), var(8)), zero)));
            ops.insert(pos, Op::Add(ATerm { v: 6, fields: vec![CField::Bind(10, Box::new(CField::App))], children: vec![bin(5, var(10), var(4))] }));
            // (two insertions before the first union: the indices of the unions refer to earlier insertions and stay valid)
            let mz = POOL.iter().position(|r| r.0 == "mul-zero").unwrap();
            if !idx.contains(&mz) {
                idx.insert(0, mz);
            }
        }
        let iters = rng.range(1, 2);
        let seed = rng.next();
        // half of the histories are free of `Symbol` payloads (whose ordering and hashing go through the
        // process-global symbol table, see known finding F14)
        if k % 2 == 0 {
            ops = ops.into_iter().map(|o| match o { Op::Add(t) => Op::Add(strip_symbols(&t)), x => x }).collect();
        }
        let symbols = ops.iter().any(|o| matches!(o, Op::Add(t) if has_symbol(t)));
        // a third of the symbol-free histories are replayed from text, with `$f<N>` names for all named slots
        let text = k % 2 == 0 && rng.chance(2, 3);
        let mut c = exec_repro_t(ops, idx, iters, seed, second && k % 4 == 0, text);
        if text {
            c.tags.push("t:from-text".into());
        }
        if symbols {
            c.tags.push("t:symbol-payloads".into());
        }
        ctx.emit(c);
    }
}
