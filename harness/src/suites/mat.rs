//! corr.match.sound (C05) and corr.match.complete (C04).
use crate::langs::*;
use crate::rng::Rng;
use crate::suites::eg::*;
use crate::terms::*;
use crate::util::*;
use crate::{Case, Ctx};
use slotted_egraphs::*;

/// pattern over the abstract term syntax
#[derive(Clone, Debug)]
pub enum APat {
    Node(usize, Vec<CField>, Vec<APat>),
    PVar(String),
}

fn enc_apat(p: &APat) -> String {
    match p {
        APat::PVar(v) => format!("{{?{v}}}"),
        APat::Node(v, fields, cs) => {
            let fs: Vec<String> = fields.iter().map(enc_cfield).collect();
            format!("{{{}({}){}}}", v, fs.join(","), cs.iter().map(enc_apat).collect::<Vec<_>>().join(""))
        }
    }
}

fn to_pattern(p: &APat) -> Pattern<Main> {
    match p {
        APat::PVar(v) => Pattern::PVar(v.clone()),
        APat::Node(v, fields, cs) => {
            let t = ATerm { v: *v, fields: fields.clone(), children: vec![] };
            let node = to_recexpr::<Main>(&ATerm { children: (0..cs.len()).map(|_| ATerm { v: 16, fields: vec![CField::Lit("a".into())], children: vec![] }).collect(), ..t }).node;
            Pattern::ENode(node, cs.iter().map(to_pattern).collect())
        }
    }
}

/// abstract random subterms of `t` into pattern variables (equal subterms may share a variable)
fn abstract_term(t: &ATerm, rng: &mut Rng, vars: &mut Vec<(String, ATerm)>, depth: usize, bound: &mut Vec<u32>) -> APat {
    let abstractable = depth > 0 && (t.children.is_empty() && rng.chance(1, 3) || !t.children.is_empty() && rng.chance(1, 4));
    if abstractable {
        // reuse a variable for an identical subterm (repeated variable), else a new one
        if let Some((v, _)) = vars.iter().find(|(_, u)| u == t) {
            return APat::PVar(v.clone());
        }
        let v = format!("v{}", vars.len());
        vars.push((v.clone(), t.clone()));
        return APat::PVar(v);
    }
    let mut kid_binders = Vec::new();
    for f in &t.fields {
        fn fb(f: &CField, acc: &mut Vec<u32>, out: &mut Vec<Vec<u32>>) {
            match f {
                CField::App => out.push(acc.clone()),
                CField::Bind(s, f) => {
                    acc.push(*s);
                    fb(f, acc, out);
                    acc.pop();
                }
                _ => {}
            }
        }
        fb(f, &mut Vec::new(), &mut kid_binders);
    }
    let cs = t
        .children
        .iter()
        .zip(kid_binders.iter())
        .map(|(c, bs)| {
            let n = bound.len();
            bound.extend(bs.iter().copied());
            let r = abstract_term(c, rng, vars, depth + 1, bound);
            bound.truncate(n);
            r
        })
        .collect();
    APat::Node(t.v, t.fields.clone(), cs)
}

fn rename_apat(p: &APat, rho: &dyn Fn(u32) -> u32) -> APat {
    fn f(c: &CField, rho: &dyn Fn(u32) -> u32) -> CField {
        match c {
            CField::Slot(s) => CField::Slot(rho(*s)),
            CField::Bind(s, x) => CField::Bind(rho(*s), Box::new(f(x, rho))),
            x => x.clone(),
        }
    }
    match p {
        APat::PVar(v) => APat::PVar(v.clone()),
        APat::Node(v, fields, cs) => APat::Node(*v, fields.iter().map(|c| f(c, rho)).collect(), cs.iter().map(|c| rename_apat(c, rho)).collect()),
    }
}

fn pat_slots(p: &APat, out: &mut Vec<u32>) {
    fn f(c: &CField, out: &mut Vec<u32>) {
        match c {
            CField::Slot(s) => {
                if !out.contains(s) {
                    out.push(*s)
                }
            }
            CField::Bind(s, x) => {
                if !out.contains(s) {
                    out.push(*s)
                }
                f(x, out)
            }
            _ => {}
        }
    }
    if let APat::Node(_, fields, cs) = p {
        fields.iter().for_each(|c| f(c, out));
        cs.iter().for_each(|c| pat_slots(c, out));
    }
}

fn enc_subst(s: &Subst) -> String {
    if s.is_empty() {
        return "-".into();
    }
    let mut v: Vec<String> = s.iter().map(|(k, a)| format!("{k}={}", verif_enc_applied_id(a))).collect();
    v.sort();
    v.join("&")
}

/// read-only instantiation through the implementation's own lookup
fn inst_lookup(eg: &EGraph<Main>, p: &Pattern<Main>, s: &Subst) -> Option<AppliedId> {
    match p {
        Pattern::PVar(v) => s.get(v).cloned(),
        Pattern::ENode(n, cs) => {
            let mut n = n.clone();
            let kids: Option<Vec<AppliedId>> = cs.iter().map(|c| inst_lookup(eg, c, s)).collect();
            let kids = kids?;
            for (r, k) in n.applied_id_occurrences_mut().into_iter().zip(kids) {
                *r = k;
            }
            eg.lookup(&n)
        }
        Pattern::Subst(..) => None,
    }
}

const PSLOTS: [u32; 6] = [42, 46, 50, 54, 58, 62]; // n10.. used as pattern slot names


/// canonical rendering of a list of matches: modulo the names of fresh slots (numbered by first appearance per match, variables
/// in name order) and modulo the symmetries of the bound classes (the smallest rendering over the orbit) — the same procedure
/// as `canonMatches` in the Lean driver
pub fn canon_matches(eg: &EGraph<Main>, pslots: &[u32], substs: &[Subst]) -> String {
    let mut strs: Vec<String> = Vec::new();
    for s in substs {
        let mut vars: Vec<&String> = s.keys().collect();
        vars.sort();
        // all fresh-slot numberings that produced the smallest texts so far
        let mut nums: Vec<Vec<u32>> = vec![Vec::new()];
        let mut parts: Vec<String> = Vec::new();
        let coarse = format!("!{}", vars.iter().map(|v| format!("{}=@{}#{}", v, s[*v].id.0, s[*v].m.len())).collect::<Vec<_>>().join("&"));
        for v in vars {
            if nums.len() > 48 {
                break;
            }
            let a = &s[v];
            let perms = eg.verif_group_perms(a.id);
            let maps: Vec<SlotMap> = if perms.is_empty() { vec![a.m.clone()] } else { perms.iter().map(|p| p.compose_partial(&a.m)).collect() };
            let mut rendered: Vec<(String, Vec<u32>)> = Vec::new();
            for num in &nums {
                for m in &maps {
                    let mut n2 = num.clone();
                    let mut ps: Vec<String> = Vec::new();
                    for (k, val) in m.iter() {
                        let vc = code(val);
                        if pslots.contains(&vc) {
                            ps.push(format!("{}>p{}", code(k), vc));
                        } else if let Some(i) = n2.iter().position(|x| *x == vc) {
                            ps.push(format!("{}>F{}", code(k), i));
                        } else {
                            ps.push(format!("{}>F{}", code(k), n2.len()));
                            n2.push(vc);
                        }
                    }
                    rendered.push((ps.join("|"), n2));
                }
            }
            let best: String = rendered.iter().map(|r| r.0.clone()).min().unwrap_or_default();
            let mut next: Vec<Vec<u32>> = Vec::new();
            for (t, n2) in rendered {
                if t == best && !next.contains(&n2) {
                    next.push(n2);
                }
            }
            nums = next;
            parts.push(format!("{}=@{}[{}]", v, a.id.0, best));
        }
        // too many equally good numberings (large symmetry groups over interchangeable fresh slots): the coarse form
        strs.push(if nums.len() > 48 { coarse } else { parts.join("&") });
    }
    strs.sort();
    strs.dedup();
    format!("{}:{}", strs.len(), strs.join("/"))
}

pub fn exec_mat(ops: Vec<Op>, seed: u64) -> Case {
    let sig = enc_sig(&Main::sig());
    let desc = enc_ops(&ops);
    let r = in_fresh_thread(move || {
        intern_names();
        let mut rng = Rng::new(seed);
        let mut eg: EGraph<Main> = EGraph::default();
        let mut tracked: Vec<AppliedId> = Vec::new();
        let mut terms: Vec<ATerm> = Vec::new();
        for op in &ops {
            match op {
                Op::Add(t) => {
                    tracked.push(eg.add_expr(to_recexpr::<Main>(t)));
                    terms.push(t.clone());
                }
                Op::Union(i, j) => {
                    let (a, b2) = (tracked[*i].clone(), tracked[*j].clone());
                    eg.union(&a, &b2);
                }
                Op::Query => {}
            }
        }
        let snap = eg.verif_snapshot(|_| "-".to_string()).trim_end().replace('\n', "~");
        let has_redundant = eg.ids().iter().any(|i| eg.enodes(*i).iter().any(|n| n.slots().len() > eg.slots(*i).len()));
        let mut qs: Vec<String> = Vec::new();
        let mut outs: Vec<String> = Vec::new();
        let mut tags: Vec<String> = Vec::new();
        let mut viol = |t: &str, tags: &mut Vec<String>| {
            let t = format!("viol:{t}");
            if !tags.contains(&t) {
                tags.push(t)
            }
        };
        let mut nmatches = 0usize;
        // single patterns derived from tracked terms
        for round in 0..8 {
            // rounds 4 and 5: the non-linear patterns `(k ?v0 ?v0)` / `(add ?v0 ?v0)` — a repeated variable has to be bound to
            // the same invocation up to the class symmetries, not merely to the same class with the same slot set
            let (p0, mut vars): (APat, Vec<(String, ATerm)>) = if round >= 6 {
                // rounds 6 and 7: patterns whose binder shadows a name already in use — `(lam $x (lam $x ?v0))` and
                // `(app (var $x) (lam $x ?v0))`; the two positions hold different slots in most terms, so the variable must not
                // be reported with both renamed to `$x`
                let lam = |x: u32, b: APat| APat::Node(0, vec![CField::Bind(x, Box::new(CField::App))], vec![b]);
                let x = PSLOTS[0];
                let p = if round == 6 {
                    lam(x, lam(x, APat::PVar("v0".into())))
                } else {
                    APat::Node(1, vec![CField::App, CField::App], vec![APat::Node(2, vec![CField::Slot(x)], vec![]), lam(x, APat::PVar("v0".into()))])
                };
                (p, vec![("v0".to_string(), terms[0].clone())])
            } else if round >= 4 {
                let op = if round == 4 { 14 } else { 4 };
                (APat::Node(op, vec![CField::App, CField::App], vec![APat::PVar("v0".into()), APat::PVar("v0".into())]), vec![("v0".to_string(), terms[0].clone())])
            } else {
                let t = terms[rng.below(terms.len())].clone();
                let mut vars = Vec::new();
                let p0 = abstract_term(&t, &mut rng, &mut vars, 0, &mut Vec::new());
                (p0, vars)
            };
            let _ = &mut vars;
            let mut sl = Vec::new();
            pat_slots(&p0, &mut sl);
            let mut img: Vec<u32> = PSLOTS.to_vec();
            rng.shuffle(&mut img);
            if round < 4 && rng.chance(1, 3) {
                // the pattern's slots are spelled like slots the e-graph invented for its own classes (`$f<N>`, read back from
                // a printed class): the matcher's internal names for the rest of the match must stay clear of them
                let mut own: Vec<u32> = Vec::new();
                for i in eg.ids() {
                    for sl in eg.slots(i) {
                        let c = code(sl);
                        if c % 4 == 1 && !own.contains(&c) {
                            own.push(c);
                        }
                    }
                }
                own.sort();
                rng.shuffle(&mut own);
                own.truncate(6);
                for (i, c) in own.into_iter().enumerate() {
                    img[i] = c;
                }
                if !tags.contains(&"t:pattern-slots-named-like-class-slots".to_string()) {
                    tags.push("t:pattern-slots-named-like-class-slots".into());
                }
            }
            let sl2 = sl.clone();
            let p = rename_apat(&p0, &move |c| sl2.iter().position(|x| *x == c).map(|i| img[i % img.len()]).unwrap_or(c));
            // a quarter of the derived patterns with a binder: the binder re-uses a slot name that is already in use in the
            // pattern (an enclosing binder of the same name, or a free occurrence elsewhere) — shadowing is legal in patterns
            let p = if round < 4 && rng.chance(1, 4) {
                fn binders(p: &APat, out: &mut Vec<u32>) {
                    fn f(c: &CField, out: &mut Vec<u32>) {
                        if let CField::Bind(s, x) = c {
                            if !out.contains(s) {
                                out.push(*s);
                            }
                            f(x, out)
                        }
                    }
                    if let APat::Node(_, fields, cs) = p {
                        fields.iter().for_each(|c| f(c, out));
                        cs.iter().for_each(|c| binders(c, out));
                    }
                }
                let mut bs = Vec::new();
                binders(&p, &mut bs);
                let mut all = Vec::new();
                pat_slots(&p, &mut all);
                if !bs.is_empty() && all.len() >= 2 {
                    let b0 = bs[rng.below(bs.len())];
                    let others: Vec<u32> = all.iter().copied().filter(|x| *x != b0).collect();
                    let s0 = others[rng.below(others.len())];
                    rename_apat(&p, &move |c| if c == b0 { s0 } else { c })
                } else {
                    p
                }
            } else {
                p
            };
            let pat = to_pattern(&p);
            let substs = match guarded(|| ematch_all(&eg, &pat)) {
                Ok(s) => s,
                Err(e) => {
                    viol("ematch-panics", &mut tags);
                    tags.push(format!("panic:{}", e.replace(',', " ")));
                    continue;
                }
            };
            // the whole match list against the Lean model of the matcher
            if substs.len() <= 60 {
                let mut psl = Vec::new();
                pat_slots(&p, &mut psl);
                qs.push(format!("ematch {}", enc_apat(&p)));
                outs.push(canon_matches(&eg, &psl, &substs));
            }
            let pvars: Vec<String> = vars.iter().map(|(v, _)| v.clone()).collect();
            for s in substs.iter().take(12) {
                nmatches += 1;
                if !pvars.iter().all(|v| s.contains_key(v)) {
                    viol("match-leaves-variable-unbound", &mut tags);
                }
                match guarded(|| inst_lookup(&eg, &pat, s)) {
                    Ok(Some(_)) => {}
                    _ => viol("match-instance-not-represented", &mut tags),
                }
                qs.push(format!("match {} {}", enc_apat(&p), enc_subst(s)));
                outs.push("1".into());
            }
        }
        // multi-patterns: `?o == node(?c..)` equations from e-nodes of tracked terms
        for round in 0..4 {
            let mut eqs: Vec<(String, Main, Vec<String>)> = Vec::new();
            if round == 2 {
                // 4-5 equations over two shared child variables and binary operators, optionally pinning a variable
                // to `(var $p)`: long chains of slot unifications and disequality constraints
                let n_eq = rng.range(4, 5);
                for k in 0..n_eq {
                    let op = if rng.chance(2, 3) { 14 } else { 4 };
                    let node = to_recexpr::<Main>(&ATerm { v: op, fields: vec![CField::App, CField::App], children: vec![ATerm { v: 16, fields: vec![CField::Lit("a".into())], children: vec![] }, ATerm { v: 16, fields: vec![CField::Lit("a".into())], children: vec![] }] }).node;
                    let pick = |rng: &mut Rng| if rng.chance(1, 2) { "a".to_string() } else { "b".to_string() };
                    eqs.push((format!("o{k}"), node, vec![pick(&mut rng), pick(&mut rng)]));
                }
                if rng.chance(1, 2) {
                    let node = to_recexpr::<Main>(&ATerm { v: 2, fields: vec![CField::Slot(PSLOTS[0])], children: vec![] }).node;
                    eqs.push((if rng.chance(1, 2) { "a".into() } else { "b".into() }, node, vec![]));
                }
            }
            if round == 3 {
                // a subterm taken apart: one equation for its root node and one for (most of) its children's nodes, the child
                // variables shared, all slots — free and bound — renamed consistently across the equations (numeric names
                // `$0..` in half of the cases, the names stored shapes give their binders).  The subterm itself is a match,
                // found through a chain of slot unifications between already-bound variables and later equations
                let t = terms[rng.below(terms.len())].clone();
                let mut subs = Vec::new();
                subterms(&t, &mut subs);
                let cands: Vec<ATerm> = subs.into_iter().filter(|u| !u.children.is_empty()).collect();
                if cands.is_empty() {
                    continue;
                }
                let u = cands[rng.below(cands.len())].clone();
                fn all_names(f: &CField, out: &mut Vec<u32>) {
                    match f {
                        CField::Slot(s) => {
                            if !out.contains(s) {
                                out.push(*s)
                            }
                        }
                        CField::Bind(s, x) => {
                            if !out.contains(s) {
                                out.push(*s)
                            }
                            all_names(x, out)
                        }
                        _ => {}
                    }
                }
                let mut names: Vec<u32> = Vec::new();
                u.fields.iter().for_each(|f| all_names(f, &mut names));
                u.children.iter().for_each(|c| c.fields.iter().for_each(|f| all_names(f, &mut names)));
                if names.len() > 6 {
                    continue;
                }
                let mut alphabet: Vec<u32> = if rng.chance(2, 3) { vec![0, 4, 8, 12, 16, 20] } else { PSLOTS.to_vec() };
                match rng.below(3) {
                    0 => rng.shuffle(&mut alphabet),
                    1 => {
                        // the free names first: they get `$0`, `$1`, the names a stored shape gives its own binders
                        fn bnames(f: &CField, out: &mut Vec<u32>) {
                            if let CField::Bind(s, x) = f {
                                out.push(*s);
                                bnames(x, out)
                            }
                        }
                        let mut bs = Vec::new();
                        u.fields.iter().for_each(|f| bnames(f, &mut bs));
                        u.children.iter().for_each(|c| c.fields.iter().for_each(|f| bnames(f, &mut bs)));
                        names.sort_by_key(|n| bs.contains(n));
                    }
                    _ => {}
                }
                let ren = |c: u32| names.iter().position(|x| *x == c).map(|i| alphabet[i]).unwrap_or(c);
                fn ren_field(f: &CField, ren: &dyn Fn(u32) -> u32) -> CField {
                    match f {
                        CField::Slot(s) => CField::Slot(ren(*s)),
                        CField::Bind(s, x) => CField::Bind(ren(*s), Box::new(ren_field(x, ren))),
                        x => x.clone(),
                    }
                }
                let dummy = ATerm { v: 16, fields: vec![CField::Lit("a".into())], children: vec![] };
                let node_of = |w: &ATerm| to_recexpr::<Main>(&ATerm { v: w.v, fields: w.fields.iter().map(|f| ren_field(f, &ren)).collect(), children: w.children.iter().map(|_| dummy.clone()).collect() }).node;
                let kid_var = |j: usize| format!("c{j}");
                eqs.push(("r".to_string(), node_of(&u), (0..u.children.len()).map(kid_var).collect()));
                let mut order: Vec<usize> = (0..u.children.len()).collect();
                rng.shuffle(&mut order);
                for j in order {
                    if rng.chance(3, 4) {
                        let c = &u.children[j];
                        eqs.push((kid_var(j), node_of(c), (0..c.children.len()).map(|i| format!("d{j}{i}")).collect()));
                    }
                }
                if rng.chance(1, 3) {
                    // the root equation last
                    let r = eqs.remove(0);
                    eqs.push(r);
                }
                tags.push("t:decomposed-multipattern".into());
            }
            let n_eq = if round >= 2 { 0 } else { rng.range(1, 3) };
            // half of the derived multi-patterns spell their slots `$0`, `$1`, ..: the names the stored shapes use for their
            // own binders (a class invoked with such a slot must not have it captured by a node's binder)
            let alphabet: [u32; 6] = if rng.chance(1, 2) { [0, 4, 8, 12, 16, 20] } else { PSLOTS };
            for k in 0..n_eq {
                let t = terms[rng.below(terms.len())].clone();
                let mut subs = Vec::new();
                subterms(&t, &mut subs);
                let u = subs[rng.below(subs.len())].clone();
                let mut sl = free_slots(&u);
                // binder names too
                fn binders(f: &CField, out: &mut Vec<u32>) {
                    if let CField::Bind(s, x) = f {
                        if !out.contains(s) {
                            out.push(*s)
                        }
                        binders(x, out)
                    }
                }
                u.fields.iter().for_each(|f| binders(f, &mut sl));
                let node_t = ATerm { v: u.v, fields: u.fields.clone(), children: u.children.iter().map(|_| ATerm { v: 16, fields: vec![CField::Lit("a".into())], children: vec![] }).collect() };
                let sl2 = sl.clone();
                let node_t = rename_free(&node_t, &move |c| sl2.iter().position(|x| *x == c).map(|i| alphabet[i % alphabet.len()]).unwrap_or(c));
                let node = to_recexpr::<Main>(&node_t).node;
                let kids: Vec<String> = (0..u.children.len()).map(|j| if rng.chance(1, 3) { "c0".to_string() } else { format!("c{k}{j}") }).collect();
                let out = if k > 0 && rng.chance(1, 2) { eqs[0].2.first().cloned().unwrap_or(format!("o{k}")) } else { format!("o{k}") };
                eqs.push((out, node, kids));
            }
            let text = eqs
                .iter()
                .map(|(o, n, ks)| {
                    let cs: Vec<Pattern<Main>> = ks.iter().map(|x| Pattern::PVar(x.clone())).collect();
                    format!("?{o} == {}", Pattern::ENode(n.clone(), cs))
                })
                .collect::<Vec<_>>()
                .join(", ");
            let mp = match guarded(|| MultiPattern::<Main>::parse(&text)) {
                Ok(Ok(mp)) => mp,
                _ => {
                    tags.push("multipattern-unparsable".into());
                    continue;
                }
            };
            let substs = match guarded(|| multi_ematch(&mp, &eg)) {
                Ok(s) => s,
                Err(e) => {
                    viol("multi-ematch-panics", &mut tags);
                    tags.push(format!("panic:{}", e.replace(',', " ")));
                    continue;
                }
            };
            // the whole list of substitutions against the Lean model of the multi-pattern matcher
            // (the number of intermediate states grows like (largest symmetry group)^(number of equations); the Lean model is
            // list-based and about a hundred times slower than the implementation, so the comparison is limited to cases
            // where that bound is small — a deterministic criterion, independent of timing)
            let maxg = eg.ids().iter().map(|i| eg.verif_group_count(*i)).max().unwrap_or(1).max(1) as u64;
            let work = (0..eqs.len()).fold(1u64, |w, _| w.saturating_mul(maxg));
            if work <= 3000 && substs.len() <= 60 && substs.iter().all(|s| s.values().all(|a| a.m.is_bijection())) {
                let mut psl: Vec<u32> = Vec::new();
                for (_, n, _) in &eqs {
                    for sl in n.all_slot_occurrences() {
                        let c = code(sl);
                        if !psl.contains(&c) {
                            psl.push(c);
                        }
                    }
                }
                let enc: Vec<String> = eqs.iter().map(|(o, n, ks)| format!("{o}~{}~{}", enc_anode(&n.to_anode()), if ks.is_empty() { "-".to_string() } else { ks.join(",") })).collect();
                qs.push(format!("mmatch {}", enc.join("/")));
                outs.push(canon_matches(&eg, &psl, &substs));
            }
            for s in substs.iter().take(10) {
                nmatches += 1;
                if !s.values().all(|a| a.m.is_bijection()) {
                    // not even a well-formed invocation: reported once, not passed on to the model
                    viol("multi-match-non-bijective-invocation", &mut tags);
                    if std::env::var("SV_DEBUG").is_ok() {
                        eprintln!("DEBUG non-bijective: pattern `{text}` subst {}", enc_subst(s));
                    }
                    continue;
                }
                for (o, n, ks) in &eqs {
                    if !s.contains_key(o) || !ks.iter().all(|x| s.contains_key(x)) {
                        viol("multi-match-leaves-variable-unbound", &mut tags);
                        continue;
                    }
                    let cs = if ks.is_empty() { "-".to_string() } else { ks.join(",") };
                    qs.push(format!("mateq {o} {} {cs} {}", enc_anode(&n.to_anode()), enc_subst(s)));
                    outs.push("1".into());
                }
            }
        }
        // matching does not change any observable state
        let snap2 = eg.verif_snapshot(|_| "-".to_string()).trim_end().replace('\n', "~");
        let strip_uf = |s: &str| s.split('~').filter(|l| !l.starts_with("uf ")).collect::<Vec<_>>().join("~");
        if strip_uf(&snap) != strip_uf(&snap2) {
            viol("matching-changed-the-state", &mut tags);
        }
        if has_redundant {
            tags.push("t:redundant-node".into());
        }
        (snap, qs, outs, tags, nmatches)
    });
    match r {
        Ok((snap, qs, outs, mut tags, nmatches)) => {
            tags.push(format!("history:{}", desc.replace(',', "~")));
            Case { line: format!("snap {sig};{snap};{}", qs.join(";")), impl_out: outs.join(";"), nontrivial: nmatches >= 2, tags }
        }
        Err(e) => Case { line: format!("snap {sig};;"), impl_out: format!("PANIC {e}"), nontrivial: true, tags: vec!["viol:panic".into(), format!("panic:{}", e.replace(',', " ")), format!("history:{}", desc.replace(',', "~"))] },
    }
}

pub fn run(ctx: &mut Ctx) {
    for _ in 0..ctx.count {
        let mut rng = ctx.rng.fork();
        let (mut ops, _) = gen_history(&mut rng);
        if rng.chance(1, 6) {
            // binary e-nodes over variables whose class lost some or all of its slots (redundant e-nodes with two distinct
            // slots): the multi-patterns with repeated child variables must not identify the two slots
            let var = |c: u32| ATerm { v: 2, fields: vec![CField::Slot(c)], children: vec![] };
            let bin = |v: usize, a: ATerm, b: ATerm| ATerm { v, fields: vec![CField::App, CField::App], children: vec![a, b] };
            let sym = |x: &str| ATerm { v: 16, fields: vec![CField::Lit(x.into())], children: vec![] };
            let op = if rng.chance(2, 3) { 14 } else { 4 };
            let mut o: Vec<Op> = vec![Op::Add(bin(op, var(4), var(8)))];
            match rng.below(3) {
                0 => o.push(Op::Add(sym("c"))),                     // both slots redundant
                1 => o.push(Op::Add(ATerm { v: 10, fields: vec![CField::Slot(4)], children: vec![] })), // one slot redundant
                _ => o.push(Op::Add(bin(op, var(4), var(2)))),      // k(x,y) = k(x,z): y redundant
            }
            o.push(Op::Union(0, 1));
            if rng.chance(1, 2) {
                o.insert(2, Op::Add(bin(if op == 14 { 4 } else { 14 }, var(8), var(4))));
            }
            o.push(Op::Query);
            ops = o;
        }
        if rng.chance(1, 10) {
            // nested binders and a free variable next to a binder, bodies that mention both variables
            let var = |c: u32| ATerm { v: 2, fields: vec![CField::Slot(c)], children: vec![] };
            let bin = |v: usize, a: ATerm, b: ATerm| ATerm { v, fields: vec![CField::App, CField::App], children: vec![a, b] };
            let lam = |x: u32, b: ATerm| ATerm { v: 0, fields: vec![CField::Bind(x, Box::new(CField::App))], children: vec![b] };
            let (a, b2, c) = (10u32, 14u32, 4u32);
            let body = |rng: &mut Rng, x: u32, y: u32| match rng.below(3) {
                0 => bin(1, var(x), var(y)),
                1 => bin(14, var(y), var(x)),
                _ => bin(4, var(x), bin(5, var(y), var(x))),
            };
            let mut o: Vec<Op> = Vec::new();
            o.push(Op::Add(lam(a, lam(b2, body(&mut rng, a, b2)))));
            o.push(Op::Add(bin(1, var(c), lam(b2, body(&mut rng, c, b2)))));
            if rng.chance(1, 2) {
                o.push(Op::Add(lam(a, lam(b2, var(b2)))));
            }
            if rng.chance(1, 2) {
                o.push(Op::Add(bin(1, var(c), lam(b2, var(c)))));
            }
            o.push(Op::Query);
            ops = o;
        } else if rng.chance(1, 8) {
            // a class whose symmetry group is a proper subgroup of the symmetric group on its orbit (rotations of three slots,
            // or a double transposition of four) below binary nodes whose two children are related by a permutation inside /
            // outside that group: `(k ?a ?a)` must match the former and not the latter
            let leaf = |v: usize, sl: &[u32]| ATerm { v, fields: sl.iter().map(|s| CField::Slot(*s)).collect(), children: vec![] };
            let bin = |v: usize, a: ATerm, b: ATerm| ATerm { v, fields: vec![CField::App, CField::App], children: vec![a, b] };
            let mut o: Vec<Op> = Vec::new();
            let op = if rng.chance(2, 3) { 14 } else { 4 };
            if rng.chance(2, 3) {
                o.push(Op::Add(leaf(8, &[4, 8, 12])));
                o.push(Op::Add(leaf(8, &[8, 12, 4])));
                o.push(Op::Union(0, 1));
                let others: [[u32; 3]; 5] = [[8, 4, 12], [4, 12, 8], [12, 8, 4], [12, 4, 8], [8, 12, 4]];
                for _ in 0..rng.range(1, 3) {
                    o.push(Op::Add(bin(op, leaf(8, &[4, 8, 12]), leaf(8, &others[rng.below(5)]))));
                }
            } else {
                o.push(Op::Add(leaf(9, &[4, 8, 12, 16])));
                o.push(Op::Add(leaf(9, &[8, 4, 16, 12])));
                o.push(Op::Union(0, 1));
                let others: [[u32; 4]; 4] = [[8, 4, 12, 16], [4, 8, 16, 12], [8, 4, 16, 12], [12, 16, 4, 8]];
                for _ in 0..rng.range(1, 3) {
                    o.push(Op::Add(bin(op, leaf(9, &[4, 8, 12, 16]), leaf(9, &others[rng.below(4)]))));
                }
            }
            o.push(Op::Query);
            ops = o;
        } else if rng.chance(1, 2) {
            // binary nodes over variables (equal and different arguments), for the long multi-patterns
            let var = |c: u32| ATerm { v: 2, fields: vec![CField::Slot(c)], children: vec![] };
            let bin = |v: usize, a: ATerm, b: ATerm| ATerm { v, fields: vec![CField::App, CField::App], children: vec![a, b] };
            let mut extra = vec![bin(14, var(4), var(8)), bin(14, var(4), var(4))];
            if rng.chance(1, 2) {
                extra.push(bin(4, var(4), var(8)));
            }
            if rng.chance(1, 2) {
                extra.push(bin(14, var(8), var(4)));
            }
            let mut new_ops: Vec<Op> = extra.into_iter().map(Op::Add).collect();
            // keep union indices valid: new terms are appended after the existing adds
            let nadds = ops.iter().filter(|o| matches!(o, Op::Add(_))).count();
            let pos = ops.iter().position(|o| !matches!(o, Op::Add(_))).unwrap_or(ops.len());
            let _ = nadds;
            for (k, o) in new_ops.drain(..).enumerate() {
                ops.insert(pos + k, o);
            }
        }
        let seed = rng.next();
        let c = exec_mat(ops.clone(), seed);
        if ctx.param("print_replay", 0) == 2 || ctx.param("print_replay", 0) == 1 && c.tags.iter().any(|t| t.starts_with("viol:")) {
            eprintln!("REPLAY mat seed={seed};main;{}", enc_ops(&ops));
        }
        ctx.emit(c);
    }
}

/// `mat seed=<n>;main;<ops>`: re-runs one case (the printed case line is the state dump with its queries)
pub fn replay(body: &str) -> Case {
    let (seed, rest) = body.split_once(';').unwrap_or(("seed=0", ""));
    let seed: u64 = seed.trim_start_matches("seed=").parse().unwrap_or(0);
    let rest = rest.strip_prefix("main;").unwrap_or(rest);
    exec_mat(parse_ops(rest), seed)
}

// ====================================================================== C04: planted instances

fn apat_to_text(p: &APat) -> String {
    to_pattern(p).to_string()
}

fn inst_term(p: &APat, vars: &[(String, ATerm)], back: &dyn Fn(u32) -> u32) -> ATerm {
    match p {
        APat::PVar(v) => vars.iter().find(|(n, _)| n == v).unwrap().1.clone(),
        APat::Node(v, fields, cs) => {
            fn f(c: &CField, back: &dyn Fn(u32) -> u32) -> CField {
                match c {
                    CField::Slot(s) => CField::Slot(back(*s)),
                    CField::Bind(s, x) => CField::Bind(back(*s), Box::new(f(x, back))),
                    x => x.clone(),
                }
            }
            ATerm { v: *v, fields: fields.iter().map(|c| f(c, back)).collect(), children: cs.iter().map(|c| inst_term(c, vars, back)).collect() }
        }
    }
}

fn all_binders(t: &ATerm, out: &mut Vec<u32>) {
    fn f(c: &CField, out: &mut Vec<u32>) {
        if let CField::Bind(s, x) = c {
            out.push(*s);
            f(x, out)
        }
    }
    t.fields.iter().for_each(|c| f(c, out));
    t.children.iter().for_each(|c| all_binders(c, out));
}

/// same children and slots, different operator (so: a different term with the same free slots)
fn mutate_op(t: &ATerm) -> Option<ATerm> {
    let v = match t.v {
        7 => 11,  // f2 -> g2
        11 => 7,  // g2 -> f2
        8 => 12,  // f3 -> g3
        12 => 8,
        4 => 5,   // add -> mul
        5 => 4,
        14 => 4,  // k -> add
        13 => return Some(ATerm { v: 13, fields: vec![CField::App], children: vec![t.clone()] }), // h(u) ~ h(h(u))
        _ => return None,
    };
    Some(ATerm { v, ..t.clone() })
}

pub fn exec_plant(seed: u64) -> Vec<Case> {
    let sig = enc_sig(&Main::sig());
    let r = in_fresh_thread(move || {
        intern_names();
        let mut rng = Rng::new(seed);
        // 1. a term and a pattern abstracted from it
        let t0 = loop {
            let d = rng.range(1, 3);
            let b = rng.chance(1, 2);
            let t = gen_term(&mut rng, 3, d, b);
            let mut bs = Vec::new();
            all_binders(&t, &mut bs);
            let mut u = bs.clone();
            u.sort();
            u.dedup();
            // scope of C04: every bound name is bound once (and the generator keeps binder names apart from free names)
            if u.len() == bs.len() && free_slots(&t).len() <= 4 && !t.children.is_empty() {
                break t;
            }
        };
        let mut vars: Vec<(String, ATerm)> = Vec::new();
        let p0 = abstract_term(&t0, &mut rng, &mut vars, 0, &mut Vec::new());
        if matches!(p0, APat::PVar(_)) {
            return None;
        }
        // a third of the plants: the term bound to one variable is wrapped as `(add u 0)` and the simplifier `(add ?z 0) => ?z`
        // runs *before* the planted rule in the same round; `u` gets extra parents, so the wrapped class is the one that is
        // merged away — the planted match (found before any rule was applied) then names a class that no longer leads
        let mut companion: Option<ATerm> = None;
        let mut t0 = t0;
        if !vars.is_empty() && rng.chance(1, 3) {
            let i = rng.below(vars.len());
            let u = vars[i].1.clone();
            let zero = ATerm { v: 15, fields: vec![CField::Lit("0".into())], children: vec![] };
            let u2 = ATerm { v: 4, fields: vec![CField::App, CField::App], children: vec![u.clone(), zero] };
            vars[i].1 = u2;
            t0 = inst_term(&p0, &vars, &|c| c);
            companion = Some(u);
        }
        let mut sl = Vec::new();
        pat_slots(&p0, &mut sl);
        let mut img: Vec<u32> = PSLOTS.to_vec();
        rng.shuffle(&mut img);
        let (sl2, img2) = (sl.clone(), img.clone());
        let fwd = move |c: u32| sl2.iter().position(|x| *x == c).map(|i| img2[i % img2.len()]).unwrap_or(c);
        let (sl3, img3) = (sl.clone(), img.clone());
        let back = move |c: u32| img3.iter().position(|x| *x == c).and_then(|i| sl3.get(i).copied()).unwrap_or(c);
        let lhs = rename_apat(&p0, &fwd);
        // 2. right-hand side over the same variables
        let pv: Vec<APat> = vars.iter().map(|(v, _)| APat::PVar(v.clone())).collect();
        let rhs = match (pv.len(), rng.below(3)) {
            (0, _) | (_, 0) => APat::Node(13, vec![CField::App], vec![lhs.clone()]),
            (_, 1) => APat::Node(14, vec![CField::App, CField::App], vec![pv[0].clone(), APat::Node(13, vec![CField::App], vec![pv[pv.len() - 1].clone()])]),
            _ => APat::Node(14, vec![CField::App, CField::App], vec![lhs.clone(), pv[0].clone()]),
        };
        let rhs_inst = inst_term(&rhs, &vars, &back);
        // a sixth of the remaining plants: a proper non-variable subpattern `q` of the left side becomes the left side of a
        // second rule `q => 0` that runs *before* the planted rule in the same round. Beforehand no class has a redundant
        // slot (scope of C04) and both rules are searched on that e-graph; the first rule's unions then make every slot of
        // the `q` instance redundant, which is exactly the situation the matcher cannot handle any more — so the planted
        // match has to come from the search that happened before anything was applied
        let mut shrinker: Option<APat> = None;
        if companion.is_none() && rng.chance(1, 5) {
            fn subpats(p: &APat, depth: usize, out: &mut Vec<APat>) {
                if let APat::Node(_, _, cs) = p {
                    if depth > 0 {
                        out.push(p.clone());
                    }
                    cs.iter().for_each(|c| subpats(c, depth + 1, out));
                }
            }
            let mut qs = Vec::new();
            subpats(&lhs, 0, &mut qs);
            let qs: Vec<APat> = qs.into_iter().filter(|q| !free_slots(&inst_term(q, &vars, &back)).is_empty()).collect();
            if !qs.is_empty() {
                shrinker = Some(qs[rng.below(qs.len())].clone());
            }
        }
        if free_slots(&rhs_inst).iter().any(|s| !free_slots(&t0).contains(s)) || free_slots(&rhs_inst).len() != free_slots(&t0).len() {
            // a rhs with fewer free slots would make slots redundant: outside the scope of C04
            return None;
        }
        // 3. make the instance present only up to equality
        let mut eg: EGraph<Main> = EGraph::default();
        let mut steps: Vec<(ATerm, Option<ATerm>)> = Vec::new();
        let mut subs = Vec::new();
        subterms(&t0, &mut subs);
        let cands: Vec<ATerm> = subs.iter().skip(1).filter(|u| mutate_op(u).is_some() && free_slots(u).iter().all(|s| !BINDERS.contains(s))).cloned().collect();
        let mut only_up_to_equality = false;
        if !cands.is_empty() && rng.chance(3, 4) {
            let u = cands[rng.below(cands.len())].clone();
            let w = mutate_op(&u).unwrap();
            fn replace(t: &ATerm, u: &ATerm, w: &ATerm) -> ATerm {
                if t == u {
                    return w.clone();
                }
                ATerm { v: t.v, fields: t.fields.clone(), children: t.children.iter().map(|c| replace(c, u, w)).collect() }
            }
            let t1 = replace(&t0, &u, &w);
            steps.push((t1, None));
            steps.push((u.clone(), Some(w)));
            only_up_to_equality = true;
        } else {
            steps.push((t0.clone(), None));
        }
        if let Some(u) = &companion {
            // extra parents of `u`: its class is the bigger one when `(add u 0)` is united with it
            steps.push((ATerm { v: 13, fields: vec![CField::App], children: vec![u.clone()] }, None));
            steps.push((ATerm { v: 14, fields: vec![CField::App, CField::App], children: vec![u.clone(), u.clone()] }, None));
        }
        // optionally a symmetric child class
        if companion.is_none() && rng.chance(1, 4) {
            if let Some(u) = subs.iter().find(|u| free_slots(u).len() >= 2 && u.children.is_empty()) {
                let fs = free_slots(u);
                let (x, y) = (fs[0], fs[1]);
                let sw = rename_free(u, &move |c| if c == x { y } else if c == y { x } else { c });
                steps.push((u.clone(), Some(sw)));
            }
        }
        // (t, None): insert t;  (a, Some(b)): insert both and unite them
        let build = |eg: &mut EGraph<Main>| {
            for (a, b) in &steps {
                let ia = eg.add_expr(to_recexpr::<Main>(a));
                if let Some(b) = b {
                    let ib = eg.add_expr(to_recexpr::<Main>(b));
                    eg.union(&ia, &ib);
                }
            }
        };
        build(&mut eg);
        let warm_first = rng.chance(1, 2);
        let mut tags: Vec<String> = Vec::new();
        // scope: no class with a redundant slot
        if eg.ids().iter().any(|i| eg.enodes(*i).iter().any(|n| n.slots().len() > eg.slots(*i).len())) {
            return None;
        }
        let lhs_re = to_recexpr::<Main>(&t0);
        let Some(root) = lookup_rec_expr(&lhs_re, &eg) else { return None };
        // the planted substitution, in pattern slot names
        let mut sigma: Subst = Subst::default();
        for (v, u) in &vars {
            let Some(a) = lookup_rec_expr(&to_recexpr::<Main>(u), &eg) else { return None };
            let m: SlotMap = a.m.iter().map(|(k, val)| (k, slot_of_code(fwd(code(val))))).collect();
            sigma.insert(v.clone(), AppliedId { id: a.id, m });
        }
        let snap_before = eg.verif_snapshot(|_| "-".to_string()).trim_end().replace('\n', "~");
        let q_before = format!("match {} {}", enc_apat(&lhs), enc_subst(&sigma));
        // 4. the rule, applied once
        let rule: Rewrite<Main> = Rewrite::new("plant", &apat_to_text(&lhs), &apat_to_text(&rhs));
        let rules: Vec<Rewrite<Main>> = if companion.is_some() {
            tags.push("t:companion-rule-first".into());
            vec![Rewrite::new("add-zero", "(add ?z 0)", "?z"), rule]
        } else if let Some(q) = &shrinker {
            tags.push("t:shrinking-rule-first".into());
            vec![Rewrite::new("shrink", &apat_to_text(q), "0"), rule]
        } else {
            vec![rule]
        };
        if warm_first {
            // the very same rule objects have been applied to another e-graph first — one built by the same steps, so with
            // the same counts of classes, nodes, slots and symmetries
            let mut warm: EGraph<Main> = EGraph::default();
            build(&mut warm);
            let _ = guarded(|| apply_rewrites(&mut warm, &rules));
            tags.push("t:rules-used-on-another-egraph-first".into());
        }
        if let Err(e) = guarded(|| apply_rewrites(&mut eg, &rules)) {
            tags.push("viol:apply-rewrites-panics".into());
            tags.push(format!("panic:{}", e.replace(',', " ")));
        }
        let rhs_re = to_recexpr::<Main>(&rhs_inst);
        match guarded(|| lookup_rec_expr(&rhs_re, &eg)) {
            Ok(Some(b2)) => {
                if !eg.eq(&b2, &root) {
                    tags.push("viol:rhs-instance-not-equal-to-lhs-instance".into());
                }
            }
            _ => tags.push("viol:planted-instance-did-not-fire".into()),
        }
        let snap_after = eg.verif_snapshot(|_| "-".to_string()).trim_end().replace('\n', "~");
        // after the rewrite the planted substitution (re-canonicalised) must make the RIGHT pattern represented too
        let mut sigma2: Subst = Subst::default();
        for (v, a) in &sigma {
            sigma2.insert(v.clone(), eg.find_applied_id(a));
        }
        let q_after = format!("match {} {}", enc_apat(&rhs), enc_subst(&sigma2));
        if only_up_to_equality {
            tags.push("only-up-to-equality".into());
        }
        tags.push(format!("rule:{} => {}", apat_to_text(&lhs).replace(',', "~"), apat_to_text(&rhs).replace(',', "~")));
        tags.push(format!("instance:{}", enc_term(&t0).replace(',', "~")));
        Some((snap_before, q_before, snap_after, q_after, tags, only_up_to_equality))
    });
    match r {
        Ok(Some((sb, qb, sa, qa, tags, nt))) => vec![
            Case { line: format!("snap {sig};{sb};{qb}"), impl_out: "1".into(), nontrivial: nt, tags: tags.clone() },
            Case { line: format!("snap {sig};{sa};{qa}"), impl_out: "1".into(), nontrivial: nt, tags: tags.iter().filter(|t| !t.starts_with("viol:")).cloned().collect() },
        ],
        Ok(None) => vec![],
        Err(e) => vec![Case { line: format!("snap {sig};;"), impl_out: format!("PANIC {e}"), nontrivial: true, tags: vec!["viol:panic".into(), format!("panic:{}", e.replace(',', " ")), format!("seed:{seed}")] }],
    }
}

/// a symmetric child under a pattern that descends into it with slots: every symmetry of the child gives a
/// different instance of the right side, and all of them must be represented afterwards
pub fn exec_symplant(seed: u64) -> Vec<Case> {
    let sig = enc_sig(&Main::sig());
    let r = in_fresh_thread(move || {
        intern_names();
        let mut rng = Rng::new(seed);
        let leaf = |v: usize, sl: &[u32]| ATerm { v, fields: sl.iter().map(|s| CField::Slot(*s)).collect(), children: vec![] };
        let bin = |v: usize, a: ATerm, b: ATerm| ATerm { v, fields: vec![CField::App, CField::App], children: vec![a, b] };
        let un = |v: usize, a: ATerm| ATerm { v, fields: vec![CField::App], children: vec![a] };
        let n = if rng.chance(1, 2) { 2 } else { 3 };
        let slots: Vec<u32> = FREE[..n].to_vec();
        let (cv, gv) = if n == 2 { (7usize, 11usize) } else { (8usize, 12usize) }; // f2/g2 or f3/g3
        let u = leaf(cv, &slots);
        // the asymmetric sibling mentions one of the slots
        let sib = match rng.below(3) {
            0 => leaf(10, &slots[0..1]),
            1 => un(13, leaf(10, &slots[1..2])),
            _ => leaf(2, &slots[0..1]),
        };
        let outer = if rng.chance(1, 2) { 14 } else { 4 };
        let t0 = bin(outer, u.clone(), sib.clone());
        // the symmetries of the child: one or two random non-identity permutations (two of them can generate a group
        // that is larger than the identity plus its generators, e.g. all of S3)
        let id: Vec<usize> = (0..n).collect();
        let ngen = if n == 3 && rng.chance(1, 2) { 2 } else { 1 };
        let mut perms: Vec<Vec<usize>> = Vec::new();
        while perms.len() < ngen {
            let mut perm = id.clone();
            rng.shuffle(&mut perm);
            if perm != id && !perms.contains(&perm) {
                perms.push(perm);
            }
        }
        let mut eg: EGraph<Main> = EGraph::default();
        let root = eg.add_expr(to_recexpr::<Main>(&t0));
        let a = eg.add_expr(to_recexpr::<Main>(&u));
        for perm in &perms {
            let u_perm = leaf(cv, &perm.iter().map(|&i| slots[i]).collect::<Vec<_>>());
            let b2 = eg.add_expr(to_recexpr::<Main>(&u_perm));
            if rng.chance(1, 2) {
                eg.union(&a, &b2);
            } else {
                eg.union(&b2, &a);
            }
        }
        if eg.ids().iter().any(|i| eg.enodes(*i).iter().any(|nd| nd.slots().len() > eg.slots(*i).len())) {
            return None;
        }
        // rule: (outer (c $p..) ?z) => (outer (g $p..) ?z)
        let ps: Vec<u32> = PSLOTS[..n].to_vec();
        let lhs = APat::Node(outer, vec![CField::App, CField::App], vec![APat::Node(cv, ps.iter().map(|s| CField::Slot(*s)).collect(), vec![]), APat::PVar("z".into())]);
        let rhs = APat::Node(outer, vec![CField::App, CField::App], vec![APat::Node(gv, ps.iter().map(|s| CField::Slot(*s)).collect(), vec![]), APat::PVar("z".into())]);
        let rule: Rewrite<Main> = Rewrite::new("symplant", &apat_to_text(&lhs), &apat_to_text(&rhs));
        let mut tags: Vec<String> = Vec::new();
        if let Err(e) = guarded(|| apply_rewrites(&mut eg, &[rule])) {
            tags.push("viol:apply-rewrites-panics".into());
            tags.push(format!("panic:{}", e.replace(',', " ")));
        }
        // every element of the group generated by the permutations gives an instance
        let mut group: Vec<Vec<usize>> = vec![id.clone()];
        let mut k = 0;
        while k < group.len() {
            for perm in &perms {
                let next: Vec<usize> = group[k].iter().map(|&i| perm[i]).collect();
                if !group.contains(&next) {
                    group.push(next);
                }
            }
            k += 1;
        }
        let mut expected = 0;
        for cur in &group {
            let inst = bin(outer, leaf(gv, &cur.iter().map(|&i| slots[i]).collect::<Vec<_>>()), sib.clone());
            expected += 1;
            match guarded(|| lookup_rec_expr(&to_recexpr::<Main>(&inst), &eg)) {
                Ok(Some(x)) => {
                    if !eg.eq(&x, &root) {
                        tags.push("viol:rhs-instance-not-equal-to-lhs-instance".into());
                    }
                }
                _ => tags.push("viol:symmetric-instance-did-not-fire".into()),
            }
        }
        tags.push(format!("t:group{}", group.len()));
        tags.sort();
        tags.dedup();
        tags.push(format!("rule:{} => {}", apat_to_text(&lhs).replace(',', "~"), apat_to_text(&rhs).replace(',', "~")));
        tags.push(format!("instance:{}", enc_term(&t0).replace(',', "~")));
        let snap = eg.verif_snapshot(|_| "-".to_string()).trim_end().replace('\n', "~");
        Some((snap, tags, expected))
    });
    match r {
        Ok(Some((snap, tags, _))) => vec![Case { line: format!("snap {sig};{snap};inv"), impl_out: "1".into(), nontrivial: true, tags }],
        Ok(None) => vec![],
        Err(e) => vec![Case { line: format!("snap {sig};;"), impl_out: format!("PANIC {e}"), nontrivial: true, tags: vec!["viol:panic".into(), format!("panic:{}", e.replace(',', " ")), format!("seed:{seed}")] }],
    }
}

/// slot-free patterns over a symmetric child class: `x+y = y+x` is asserted by a union (the class of the sum gets a symmetry;
/// the hashcons stores ONE orientation of its parents), and a rule whose left side has no slot at all, a nested node pattern and a
/// repeated or twice-used variable must fire on the represented instance that needs the *other* orientation:
/// `(O (add ?b ?a) ?a)` on `O(x+y, x)` (instance `O(y+x, x)`), and both bindings of `(add ?a (add ?b ?c))` on `x+(x+y)`.
pub fn exec_slotfree_symplant(seed: u64) -> Vec<Case> {
    let sig = enc_sig(&Main::sig());
    let r = in_fresh_thread(move || {
        intern_names();
        let mut rng = Rng::new(seed);
        let leaf = |v: usize, sl: &[u32]| ATerm { v, fields: sl.iter().map(|s| CField::Slot(*s)).collect(), children: vec![] };
        let bin = |v: usize, a: ATerm, b: ATerm| ATerm { v, fields: vec![CField::App, CField::App], children: vec![a, b] };
        let un = |v: usize, a: ATerm| ATerm { v, fields: vec![CField::App], children: vec![a] };
        let t3 = |a: ATerm, b: ATerm, c: ATerm| ATerm { v: 17, fields: vec![CField::App, CField::App, CField::App], children: vec![a, b, c] };
        for _ in 0..rng.below(4) {
            let _ = Slot::fresh();
        }
        let mk = |rng: &mut Rng, s: u32| if rng.chance(1, 3) { un(13, leaf(2, &[s])) } else { leaf(2, &[s]) };
        let x = mk(&mut rng, FREE[0]);
        let y = mk(&mut rng, FREE[1]);
        let inner = if rng.chance(1, 2) { 4usize } else { 5usize }; // add / mul: the operator made commutative on x, y
        let mut eg: EGraph<Main> = EGraph::default();
        let mut tags: Vec<String> = Vec::new();
        let pv = |n: &str| APat::PVar(n.into());
        let pbin = |v: usize, a: APat, b: APat| APat::Node(v, vec![CField::App, CField::App], vec![a, b]);
        let template = rng.below(2);
        // which orientation is inserted (and therefore stored) first
        let (s1, s2) = if rng.chance(1, 2) { (bin(inner, x.clone(), y.clone()), bin(inner, y.clone(), x.clone())) } else { (bin(inner, y.clone(), x.clone()), bin(inner, x.clone(), y.clone())) };
        let (root_t, lhs, rhs, expected): (ATerm, APat, APat, Vec<ATerm>) = if template == 0 {
            let outer = if rng.chance(1, 2) { 14usize } else { 5usize };
            let root_t = bin(outer, s1.clone(), x.clone());
            let lhs = pbin(outer, pbin(inner, pv("b"), pv("a")), pv("a"));
            let rhs = APat::Node(17, vec![CField::App, CField::App, CField::App], vec![pv("b"), pv("a"), pv("a")]);
            // the only instance: ?a = x, ?b = y
            (root_t, lhs, rhs, vec![t3(y.clone(), x.clone(), x.clone())])
        } else {
            let root_t = bin(inner, x.clone(), s1.clone());
            let lhs = pbin(inner, pv("a"), pbin(inner, pv("b"), pv("c")));
            let rhs = APat::Node(17, vec![CField::App, CField::App, CField::App], vec![pv("a"), pv("b"), pv("c")]);
            (root_t, lhs, rhs, vec![t3(x.clone(), x.clone(), y.clone()), t3(x.clone(), y.clone(), x.clone())])
        };
        let late_union = rng.chance(1, 2);
        let a = eg.add_expr(to_recexpr::<Main>(&s1));
        let root = if late_union { Some(eg.add_expr(to_recexpr::<Main>(&root_t))) } else { None };
        let b2 = eg.add_expr(to_recexpr::<Main>(&s2));
        if rng.chance(1, 2) {
            eg.union(&a, &b2);
        } else {
            eg.union(&b2, &a);
        }
        let root = match root {
            Some(r) => r,
            None => eg.add_expr(to_recexpr::<Main>(&root_t)),
        };
        let rule: Rewrite<Main> = Rewrite::new("slotfree-symplant", &apat_to_text(&lhs), &apat_to_text(&rhs));
        if let Err(e) = guarded(|| apply_rewrites(&mut eg, &[rule])) {
            tags.push("viol:apply-rewrites-panics".into());
            tags.push(format!("panic:{}", e.replace(',', " ")));
        }
        for inst in &expected {
            match guarded(|| lookup_rec_expr(&to_recexpr::<Main>(inst), &eg)) {
                Ok(Some(xx)) => {
                    if !eg.eq(&xx, &root) {
                        tags.push("viol:rhs-instance-not-equal-to-lhs-instance".into());
                    }
                }
                _ => tags.push("viol:symmetric-instance-did-not-fire".into()),
            }
        }
        tags.push(format!("t:slotfree{template}"));
        tags.sort();
        tags.dedup();
        tags.push(format!("rule:{} => {}", apat_to_text(&lhs).replace(',', "~"), apat_to_text(&rhs).replace(',', "~")));
        tags.push(format!("instance:{}", enc_term(&root_t).replace(',', "~")));
        let snap = eg.verif_snapshot(|_| "-".to_string()).trim_end().replace('\n', "~");
        (snap, tags)
    });
    match r {
        Ok((snap, tags)) => vec![Case { line: format!("snap {sig};{snap};inv"), impl_out: "1".into(), nontrivial: true, tags }],
        Err(e) => vec![Case { line: format!("snap {sig};;"), impl_out: format!("PANIC {e}"), nontrivial: true, tags: vec!["viol:panic".into(), format!("panic:{}", e.replace(',', " ")), format!("seed:{seed}")] }],
    }
}

/// a class with TWO e-nodes of the operator the pattern descends into, each carrying a slot of its own at the position the
/// pattern has already fixed — `W = {w(a, g1 b), w(b, h(g1 a))}` under `k(var a, W)` and `k(var b, W)`: for each root exactly one
/// of the two nodes fits, whichever comes first in the class
pub fn exec_twonode_plant(seed: u64) -> Vec<Case> {
    let sig = enc_sig(&Main::sig());
    let r = in_fresh_thread(move || {
        intern_names();
        let mut rng = Rng::new(seed);
        let leaf = |v: usize, sl: &[u32]| ATerm { v, fields: sl.iter().map(|s| CField::Slot(*s)).collect(), children: vec![] };
        let bin = |v: usize, a: ATerm, b: ATerm| ATerm { v, fields: vec![CField::App, CField::App], children: vec![a, b] };
        let un = |v: usize, a: ATerm| ATerm { v, fields: vec![CField::App], children: vec![a] };
        let w = |s: u32, t: ATerm| ATerm { v: 19, fields: vec![CField::Slot(s), CField::App], children: vec![t] };
        for _ in 0..rng.below(4) {
            let _ = Slot::fresh();
        }
        let (a, b) = (FREE[0], FREE[1]);
        let (pa, pb): (ATerm, ATerm) = match rng.below(3) {
            0 => (leaf(10, &[b]), un(13, leaf(10, &[a]))),
            1 => (un(13, leaf(2, &[b])), leaf(2, &[a])),
            _ => (bin(4, leaf(2, &[b]), leaf(2, &[b])), leaf(10, &[a])),
        };
        let (w1, w2) = (w(a, pa.clone()), w(b, pb.clone()));
        let outer = if rng.chance(1, 2) { 14 } else { 4 };
        let r1 = bin(outer, leaf(2, &[a]), w1.clone());
        let r2 = bin(outer, leaf(2, &[b]), w1.clone());
        let mut eg: EGraph<Main> = EGraph::default();
        let order = rng.chance(1, 2);
        let (x1, x2) = if order {
            let x1 = eg.add_expr(to_recexpr::<Main>(&w1));
            (x1, eg.add_expr(to_recexpr::<Main>(&w2)))
        } else {
            let x2 = eg.add_expr(to_recexpr::<Main>(&w2));
            (eg.add_expr(to_recexpr::<Main>(&w1)), x2)
        };
        let root1 = eg.add_expr(to_recexpr::<Main>(&r1));
        let root2 = eg.add_expr(to_recexpr::<Main>(&r2));
        if rng.chance(1, 2) {
            eg.union(&x1, &x2);
        } else {
            eg.union(&x2, &x1);
        }
        if eg.ids().iter().any(|i| eg.enodes(*i).iter().any(|nd| nd.slots().len() > eg.slots(*i).len())) {
            return None;
        }
        // rule: (outer (var $p) (w $p ?t)) => (outer (g1 $p) ?t)
        let p = PSLOTS[0];
        let lhs = APat::Node(outer, vec![CField::App, CField::App], vec![APat::Node(2, vec![CField::Slot(p)], vec![]), APat::Node(19, vec![CField::Slot(p), CField::App], vec![APat::PVar("t".into())])]);
        let rhs = APat::Node(outer, vec![CField::App, CField::App], vec![APat::Node(10, vec![CField::Slot(p)], vec![]), APat::PVar("t".into())]);
        let rule: Rewrite<Main> = Rewrite::new("twonode", &apat_to_text(&lhs), &apat_to_text(&rhs));
        let mut tags: Vec<String> = Vec::new();
        if let Err(e) = guarded(|| apply_rewrites(&mut eg, &[rule])) {
            tags.push("viol:apply-rewrites-panics".into());
            tags.push(format!("panic:{}", e.replace(',', " ")));
        }
        for (inst, root) in [(bin(outer, leaf(10, &[a]), pa.clone()), &root1), (bin(outer, leaf(10, &[b]), pb.clone()), &root2)] {
            match guarded(|| lookup_rec_expr(&to_recexpr::<Main>(&inst), &eg)) {
                Ok(Some(x)) => {
                    if !eg.eq(&x, root) {
                        tags.push("viol:rhs-instance-not-equal-to-lhs-instance".into());
                    }
                }
                _ => tags.push("viol:instance-in-two-node-class-did-not-fire".into()),
            }
        }
        tags.push("t:twonode".into());
        tags.sort();
        tags.dedup();
        tags.push(format!("rule:{} => {}", apat_to_text(&lhs).replace(',', "~"), apat_to_text(&rhs).replace(',', "~")));
        tags.push(format!("instance:{}", enc_term(&r1).replace(',', "~")));
        let snap = eg.verif_snapshot(|_| "-".to_string()).trim_end().replace('\n', "~");
        Some((snap, tags))
    });
    match r {
        Ok(Some((snap, tags))) => vec![Case { line: format!("snap {sig};{snap};inv"), impl_out: "1".into(), nontrivial: true, tags }],
        Ok(None) => vec![],
        Err(e) => vec![Case { line: format!("snap {sig};;"), impl_out: format!("PANIC {e}"), nontrivial: true, tags: vec!["viol:panic".into(), format!("panic:{}", e.replace(',', " ")), format!("seed:{seed}")] }],
    }
}

pub fn run_plant(ctx: &mut Ctx) {
    let mut produced = 0u64;
    let mut skipped = 0u64;
    for _ in 0..ctx.count {
        let seed = ctx.rng.next();
        let cs = if seed % 4 == 0 { exec_symplant(seed) } else if seed % 8 == 1 { exec_twonode_plant(seed) } else if seed % 8 == 3 { exec_slotfree_symplant(seed) } else { exec_plant(seed) };
        if cs.is_empty() {
            skipped += 1;
        }
        for c in cs {
            produced += 1;
            ctx.emit(c);
        }
    }
    ctx.note("plant_cases", produced);
    ctx.note("plants_out_of_scope_or_degenerate", skipped);
}
