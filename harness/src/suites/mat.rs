//! corr.match.sound (C05) and corr.match.complete (C04).
use crate::langs::*;
use crate::rng::Rng;
use crate::suites::eg::*;
use crate::terms::*;
use crate::util::*;
use crate::{Case, Ctx};
use slotted_egraphs::*;

/// pattern over the abstract term syntax
#[derive(Clone, Debug)]
pub enum APat {
    Node(usize, Vec<CField>, Vec<APat>),
    PVar(String),
}

fn enc_apat(p: &APat) -> String {
    match p {
        APat::PVar(v) => format!("{{?{v}}}"),
        APat::Node(v, fields, cs) => {
            let fs: Vec<String> = fields.iter().map(enc_cfield).collect();
            format!("{{{}({}){}}}", v, fs.join(","), cs.iter().map(enc_apat).collect::<Vec<_>>().join(""))
        }
    }
}

fn to_pattern(p: &APat) -> Pattern<Main> {
    match p {
        APat::PVar(v) => Pattern::PVar(v.clone()),
        APat::Node(v, fields, cs) => {
            let t = ATerm { v: *v, fields: fields.clone(), children: vec![] };
            let node = to_recexpr::<Main>(&ATerm { children: (0..cs.len()).map(|_| ATerm { v: 16, fields: vec![CField::Lit("a".into())], children: vec![] }).collect(), ..t }).node;
            Pattern::ENode(node, cs.iter().map(to_pattern).collect())
        }
    }
}

/// abstract random subterms of `t` into pattern variables (equal subterms may share a variable)
fn abstract_term(t: &ATerm, rng: &mut Rng, vars: &mut Vec<(String, ATerm)>, depth: usize, bound: &mut Vec<u32>) -> APat {
    let abstractable = depth > 0 && (t.children.is_empty() && rng.chance(1, 3) || !t.children.is_empty() && rng.chance(1, 4));
    if abstractable {
        // reuse a variable for an identical subterm (repeated variable), else a new one
        if let Some((v, _)) = vars.iter().find(|(_, u)| u == t) {
            return APat::PVar(v.clone());
        }
        let v = format!("v{}", vars.len());
        vars.push((v.clone(), t.clone()));
        return APat::PVar(v);
    }
    let mut kid_binders = Vec::new();
    for f in &t.fields {
        fn fb(f: &CField, acc: &mut Vec<u32>, out: &mut Vec<Vec<u32>>) {
            match f {
                CField::App => out.push(acc.clone()),
                CField::Bind(s, f) => {
                    acc.push(*s);
                    fb(f, acc, out);
                    acc.pop();
                }
                _ => {}
            }
        }
        fb(f, &mut Vec::new(), &mut kid_binders);
    }
    let cs = t
        .children
        .iter()
        .zip(kid_binders.iter())
        .map(|(c, bs)| {
            let n = bound.len();
            bound.extend(bs.iter().copied());
            let r = abstract_term(c, rng, vars, depth + 1, bound);
            bound.truncate(n);
            r
        })
        .collect();
    APat::Node(t.v, t.fields.clone(), cs)
}

fn rename_apat(p: &APat, rho: &dyn Fn(u32) -> u32) -> APat {
    fn f(c: &CField, rho: &dyn Fn(u32) -> u32) -> CField {
        match c {
            CField::Slot(s) => CField::Slot(rho(*s)),
            CField::Bind(s, x) => CField::Bind(rho(*s), Box::new(f(x, rho))),
            x => x.clone(),
        }
    }
    match p {
        APat::PVar(v) => APat::PVar(v.clone()),
        APat::Node(v, fields, cs) => APat::Node(*v, fields.iter().map(|c| f(c, rho)).collect(), cs.iter().map(|c| rename_apat(c, rho)).collect()),
    }
}

fn pat_slots(p: &APat, out: &mut Vec<u32>) {
    fn f(c: &CField, out: &mut Vec<u32>) {
        match c {
            CField::Slot(s) => {
                if !out.contains(s) {
                    out.push(*s)
                }
            }
            CField::Bind(s, x) => {
                if !out.contains(s) {
                    out.push(*s)
                }
                f(x, out)
            }
            _ => {}
        }
    }
    if let APat::Node(_, fields, cs) = p {
        fields.iter().for_each(|c| f(c, out));
        cs.iter().for_each(|c| pat_slots(c, out));
    }
}

fn enc_subst(s: &Subst) -> String {
    if s.is_empty() {
        return "-".into();
    }
    let mut v: Vec<String> = s.iter().map(|(k, a)| format!("{k}={}", verif_enc_applied_id(a))).collect();
    v.sort();
    v.join("&")
}

/// read-only instantiation through the implementation's own lookup
fn inst_lookup(eg: &EGraph<Main>, p: &Pattern<Main>, s: &Subst) -> Option<AppliedId> {
    match p {
        Pattern::PVar(v) => s.get(v).cloned(),
        Pattern::ENode(n, cs) => {
            let mut n = n.clone();
            let kids: Option<Vec<AppliedId>> = cs.iter().map(|c| inst_lookup(eg, c, s)).collect();
            let kids = kids?;
            for (r, k) in n.applied_id_occurrences_mut().into_iter().zip(kids) {
                *r = k;
            }
            eg.lookup(&n)
        }
        Pattern::Subst(..) => None,
    }
}

const PSLOTS: [u32; 6] = [42, 46, 50, 54, 58, 62]; // n10.. used as pattern slot names

pub fn exec_mat(ops: Vec<Op>, seed: u64) -> Case {
    let sig = enc_sig(&Main::sig());
    let desc = enc_ops(&ops);
    let r = in_fresh_thread(move || {
        intern_names();
        let mut rng = Rng::new(seed);
        let mut eg: EGraph<Main> = EGraph::default();
        let mut tracked: Vec<AppliedId> = Vec::new();
        let mut terms: Vec<ATerm> = Vec::new();
        for op in &ops {
            match op {
                Op::Add(t) => {
                    tracked.push(eg.add_expr(to_recexpr::<Main>(t)));
                    terms.push(t.clone());
                }
                Op::Union(i, j) => {
                    let (a, b2) = (tracked[*i].clone(), tracked[*j].clone());
                    eg.union(&a, &b2);
                }
                Op::Query => {}
            }
        }
        let snap = eg.verif_snapshot(|_| "-".to_string()).trim_end().replace('\n', "~");
        let has_redundant = eg.ids().iter().any(|i| eg.enodes(*i).iter().any(|n| n.slots().len() > eg.slots(*i).len()));
        let mut qs: Vec<String> = Vec::new();
        let mut outs: Vec<String> = Vec::new();
        let mut tags: Vec<String> = Vec::new();
        let mut viol = |t: &str, tags: &mut Vec<String>| {
            let t = format!("viol:{t}");
            if !tags.contains(&t) {
                tags.push(t)
            }
        };
        let mut nmatches = 0usize;
        // single patterns derived from tracked terms
        for _ in 0..4 {
            let t = terms[rng.below(terms.len())].clone();
            let mut vars = Vec::new();
            let p0 = abstract_term(&t, &mut rng, &mut vars, 0, &mut Vec::new());
            let mut sl = Vec::new();
            pat_slots(&p0, &mut sl);
            let mut img: Vec<u32> = PSLOTS.to_vec();
            rng.shuffle(&mut img);
            let sl2 = sl.clone();
            let p = rename_apat(&p0, &move |c| sl2.iter().position(|x| *x == c).map(|i| img[i % img.len()]).unwrap_or(c));
            let pat = to_pattern(&p);
            let substs = match guarded(|| ematch_all(&eg, &pat)) {
                Ok(s) => s,
                Err(e) => {
                    viol("ematch-panics", &mut tags);
                    tags.push(format!("panic:{}", e.replace(',', " ")));
                    continue;
                }
            };
            let pvars: Vec<String> = vars.iter().map(|(v, _)| v.clone()).collect();
            for s in substs.iter().take(12) {
                nmatches += 1;
                if !pvars.iter().all(|v| s.contains_key(v)) {
                    viol("match-leaves-variable-unbound", &mut tags);
                }
                match guarded(|| inst_lookup(&eg, &pat, s)) {
                    Ok(Some(_)) => {}
                    _ => viol("match-instance-not-represented", &mut tags),
                }
                qs.push(format!("match {} {}", enc_apat(&p), enc_subst(s)));
                outs.push("1".into());
            }
        }
        // multi-patterns: `?o == node(?c..)` equations from e-nodes of tracked terms
        for round in 0..3 {
            let mut eqs: Vec<(String, Main, Vec<String>)> = Vec::new();
            if round == 2 {
                // 4-5 equations over two shared child variables and binary operators, optionally pinning a variable
                // to `(var $p)`: long chains of slot unifications and disequality constraints
                let n_eq = rng.range(4, 5);
                for k in 0..n_eq {
                    let op = if rng.chance(2, 3) { 14 } else { 4 };
                    let node = to_recexpr::<Main>(&ATerm { v: op, fields: vec![CField::App, CField::App], children: vec![ATerm { v: 16, fields: vec![CField::Lit("a".into())], children: vec![] }, ATerm { v: 16, fields: vec![CField::Lit("a".into())], children: vec![] }] }).node;
                    let pick = |rng: &mut Rng| if rng.chance(1, 2) { "a".to_string() } else { "b".to_string() };
                    eqs.push((format!("o{k}"), node, vec![pick(&mut rng), pick(&mut rng)]));
                }
                if rng.chance(1, 2) {
                    let node = to_recexpr::<Main>(&ATerm { v: 2, fields: vec![CField::Slot(PSLOTS[0])], children: vec![] }).node;
                    eqs.push((if rng.chance(1, 2) { "a".into() } else { "b".into() }, node, vec![]));
                }
            }
            let n_eq = if round == 2 { 0 } else { rng.range(1, 3) };
            for k in 0..n_eq {
                let t = terms[rng.below(terms.len())].clone();
                let mut subs = Vec::new();
                subterms(&t, &mut subs);
                let u = subs[rng.below(subs.len())].clone();
                let mut sl = free_slots(&u);
                // binder names too
                fn binders(f: &CField, out: &mut Vec<u32>) {
                    if let CField::Bind(s, x) = f {
                        if !out.contains(s) {
                            out.push(*s)
                        }
                        binders(x, out)
                    }
                }
                u.fields.iter().for_each(|f| binders(f, &mut sl));
                let node_t = ATerm { v: u.v, fields: u.fields.clone(), children: u.children.iter().map(|_| ATerm { v: 16, fields: vec![CField::Lit("a".into())], children: vec![] }).collect() };
                let sl2 = sl.clone();
                let node_t = rename_free(&node_t, &move |c| sl2.iter().position(|x| *x == c).map(|i| PSLOTS[i % PSLOTS.len()]).unwrap_or(c));
                let node = to_recexpr::<Main>(&node_t).node;
                let kids: Vec<String> = (0..u.children.len()).map(|j| if rng.chance(1, 3) { "c0".to_string() } else { format!("c{k}{j}") }).collect();
                let out = if k > 0 && rng.chance(1, 2) { eqs[0].2.first().cloned().unwrap_or(format!("o{k}")) } else { format!("o{k}") };
                eqs.push((out, node, kids));
            }
            let text = eqs
                .iter()
                .map(|(o, n, ks)| {
                    let cs: Vec<Pattern<Main>> = ks.iter().map(|x| Pattern::PVar(x.clone())).collect();
                    format!("?{o} == {}", Pattern::ENode(n.clone(), cs))
                })
                .collect::<Vec<_>>()
                .join(", ");
            let mp = match guarded(|| MultiPattern::<Main>::parse(&text)) {
                Ok(Ok(mp)) => mp,
                _ => {
                    tags.push("multipattern-unparsable".into());
                    continue;
                }
            };
            let substs = match guarded(|| multi_ematch(&mp, &eg)) {
                Ok(s) => s,
                Err(e) => {
                    viol("multi-ematch-panics", &mut tags);
                    tags.push(format!("panic:{}", e.replace(',', " ")));
                    continue;
                }
            };
            for s in substs.iter().take(10) {
                nmatches += 1;
                if !s.values().all(|a| a.m.is_bijection()) {
                    // not even a well-formed invocation: reported once, not passed on to the model
                    viol("multi-match-non-bijective-invocation", &mut tags);
                    continue;
                }
                for (o, n, ks) in &eqs {
                    if !s.contains_key(o) || !ks.iter().all(|x| s.contains_key(x)) {
                        viol("multi-match-leaves-variable-unbound", &mut tags);
                        continue;
                    }
                    let cs = if ks.is_empty() { "-".to_string() } else { ks.join(",") };
                    qs.push(format!("mateq {o} {} {cs} {}", enc_anode(&n.to_anode()), enc_subst(s)));
                    outs.push("1".into());
                }
            }
        }
        // matching does not change any observable state
        let snap2 = eg.verif_snapshot(|_| "-".to_string()).trim_end().replace('\n', "~");
        let strip_uf = |s: &str| s.split('~').filter(|l| !l.starts_with("uf ")).collect::<Vec<_>>().join("~");
        if strip_uf(&snap) != strip_uf(&snap2) {
            viol("matching-changed-the-state", &mut tags);
        }
        if has_redundant {
            tags.push("t:redundant-node".into());
        }
        (snap, qs, outs, tags, nmatches)
    });
    match r {
        Ok((snap, qs, outs, mut tags, nmatches)) => {
            tags.push(format!("history:{}", desc.replace(',', "~")));
            Case { line: format!("snap {sig};{snap};{}", qs.join(";")), impl_out: outs.join(";"), nontrivial: nmatches >= 2, tags }
        }
        Err(e) => Case { line: format!("snap {sig};;"), impl_out: format!("PANIC {e}"), nontrivial: true, tags: vec!["viol:panic".into(), format!("panic:{}", e.replace(',', " ")), format!("history:{}", desc.replace(',', "~"))] },
    }
}

pub fn run(ctx: &mut Ctx) {
    for _ in 0..ctx.count {
        let mut rng = ctx.rng.fork();
        let (mut ops, _) = gen_history(&mut rng);
        if rng.chance(1, 2) {
            // binary nodes over variables (equal and different arguments), for the long multi-patterns
            let var = |c: u32| ATerm { v: 2, fields: vec![CField::Slot(c)], children: vec![] };
            let bin = |v: usize, a: ATerm, b: ATerm| ATerm { v, fields: vec![CField::App, CField::App], children: vec![a, b] };
            let mut extra = vec![bin(14, var(4), var(8)), bin(14, var(4), var(4))];
            if rng.chance(1, 2) {
                extra.push(bin(4, var(4), var(8)));
            }
            if rng.chance(1, 2) {
                extra.push(bin(14, var(8), var(4)));
            }
            let mut new_ops: Vec<Op> = extra.into_iter().map(Op::Add).collect();
            // keep union indices valid: new terms are appended after the existing adds
            let nadds = ops.iter().filter(|o| matches!(o, Op::Add(_))).count();
            let pos = ops.iter().position(|o| !matches!(o, Op::Add(_))).unwrap_or(ops.len());
            let _ = nadds;
            for (k, o) in new_ops.drain(..).enumerate() {
                ops.insert(pos + k, o);
            }
        }
        let seed = rng.next();
        ctx.emit(exec_mat(ops, seed));
    }
}
