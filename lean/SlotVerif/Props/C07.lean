import SlotVerif.Model.ProofCheck
import SlotVerif.Props.C01
/-!
# C07 — Explanations are valid proofs of the queried equation

Proof *construction* (`src/explain/`, the proof-carrying union-find and groups) is not modelled.
The Lean side is an **independent checker that works on terms** (`Model/ProofCheck.lean`): every
node of an exported proof DAG claims an equation between terms and names its premises; a node is
accepted if its claim follows from its premises' claims alone — for a leaf: from the asserted
equation carrying the leaf's justification — in the specification `Cong`, decided by the
verified-sound saturation oracle run with exactly those equations.

Proved here, for DAGs of any size and shape and for *every* choice of the heuristics `Heur`
(universe, candidate pairs, fuel):

* `accepts_sound`   — an accepted claim is `Cong`-derivable from the equations handed to the oracle;
* `leaf_sound`      — an accepted leaf follows from the asserted equations carrying its own label;
* `checkDag_sound`  — if every node is accepted then *every* claim in the DAG, in particular the
                      root, is derivable from the asserted equations (strong induction over the DAG);
* `conclusion_transfers` — if the root claim matches the queried pair up to an injective renaming
                      (`Orc.instOf`), the queried equation itself is derivable;
* `ruleInstance_spec` — the equation added for a leaf of a rule application is an instance of that rule
                      (injective renaming of its pattern slots, pattern variables replaced by terms).
-/
namespace SV.C07
open SV SV.Term SV.PC

theorem closure_inv (gen : Orc → List (Nat × Nat)) : ∀ (fuel : Nat) (o : Orc), Orc.Inv o → o.cls.size = o.univ.size →
    Orc.Inv (closure gen fuel o) ∧ (closure gen fuel o).E = o.E
  | 0, o, h, _ => ⟨h, rfl⟩
  | k + 1, o, h, hsz => by
    simp only [closure]
    split
    · exact ⟨h, rfl⟩
    · have hr := Orc.run_sound (gen o) h hsz
      split
      · exact ⟨hr.1, hr.2.1⟩
      · have := closure_inv gen k _ hr.1 hr.2.2.2
        exact ⟨this.1, this.2.trans hr.2.1⟩

/-- **the oracle's "yes" is a derivation** -/
theorem accepts_sound (h : Heur) (E : List (Term × Term)) (l r : Term) (ha : accepts h E l r = true) :
    Cong E l r := by
  unfold accepts at ha
  generalize hu : h.uni E l r = u at ha
  obtain ⟨pool, univ, index⟩ := u
  simp only at ha
  have hc := closure_inv h.gen h.fuel _ (Orc.init_inv E pool univ index) (by simp)
  generalize closure h.gen h.fuel _ = o at ha hc
  split at ha
  · rename_i i j hi hj
    have := hc.1 i j l r (Orc.lookup_some hi) (Orc.lookup_some hj) (by simpa using ha)
    rwa [hc.2] at this
  · simp at ha

theorem mem_premiseEqs {nodes : List PNode} {n : PNode} {a b : Term} (hm : (a, b) ∈ premiseEqs nodes n) :
    ∃ j p, j ∈ n.premises ∧ nodes[j]? = some p ∧ p.l = a ∧ p.r = b := by
  simp only [premiseEqs, List.mem_filterMap] at hm
  obtain ⟨j, hj, hjn⟩ := hm
  cases hp : nodes[j]? with
  | none => rw [hp] at hjn; simp at hjn
  | some p =>
    rw [hp] at hjn
    simp at hjn
    exact ⟨j, p, hj, hp, hjn.1, hjn.2⟩

theorem mem_leafEqs {A : List Asserted} {n : PNode} {a b : Term} (hm : (a, b) ∈ leafEqs A n) :
    ∃ x ∈ A, some x.label = n.label ∧ x.l = a ∧ x.r = b := by
  unfold leafEqs at hm
  split at hm
  · rename_i lb hl
    simp only [List.mem_map, List.mem_filter] at hm
    obtain ⟨x, ⟨hx, hlb⟩, he⟩ := hm
    simp at he
    exact ⟨x, hx, by rw [hl]; simpa using hlb, he.1, he.2⟩
  · simp at hm

def eqsOf (A : List Asserted) : List (Term × Term) := A.map fun a => (a.l, a.r)

/-- an accepted leaf follows from the asserted equations that carry **its** justification -/
theorem leaf_sound (h : Heur) (A : List Asserted) (nodes : List PNode) (i : Nat) (n : PNode)
    (hr : n.rule = .explicit) (hc : checkNode h A nodes i n = true) :
    Cong (eqsOf (A.filter fun a => some a.label == n.label)) n.l n.r := by
  simp only [checkNode, hr, Bool.and_eq_true] at hc
  apply cong_lift _ (accepts_sound h _ _ _ hc.2)
  intro a b hm
  obtain ⟨x, hx, hl, h1, h2⟩ := mem_leafEqs hm
  apply Cong.ax
  simp only [eqsOf, List.mem_map, List.mem_filter]
  exact ⟨x, ⟨hx, by simpa using hl⟩, by rw [h1, h2]⟩

theorem checkFrom_all (h : Heur) (A : List Asserted) (nodes : List PNode) :
    ∀ (rest : List PNode) (i : Nat), checkFrom h A nodes i rest = true →
      ∀ k n, rest[k]? = some n → checkNode h A nodes (i + k) n = true
  | [], _, _, k, n, hk => by simp at hk
  | m :: rest, i, hc, k, n, hk => by
    simp only [checkFrom, Bool.and_eq_true] at hc
    cases k with
    | zero => simp at hk; subst hk; simpa using hc.1
    | succ k =>
      have := checkFrom_all h A nodes rest (i + 1) hc.2 k n (by simpa using hk)
      rwa [Nat.add_assoc, Nat.add_comm 1 k] at this

/-- **soundness of the proof-DAG checker**: every claim of an accepted DAG follows from the asserted equations -/
theorem checkDag_sound (h : Heur) (A : List Asserted) (nodes : List PNode) (hc : checkDag h A nodes = true) :
    ∀ (i : Nat) (n : PNode), nodes[i]? = some n → Cong (eqsOf A) n.l n.r := by
  intro i
  induction i using Nat.strongRecOn with
  | _ i ih =>
    intro n hn
    have hnode := checkFrom_all h A nodes nodes 0 hc i n hn
    rw [Nat.zero_add] at hnode
    by_cases hr : n.rule = .explicit
    · apply cong_lift _ (leaf_sound h A nodes i n hr hnode)
      intro a b hm
      apply Cong.ax
      simp only [eqsOf, List.mem_map, List.mem_filter] at hm ⊢
      obtain ⟨x, ⟨hx, _⟩, he⟩ := hm
      exact ⟨x, hx, he⟩
    · have hcn := hnode
      simp only [checkNode, Bool.and_eq_true, List.all_eq_true, decide_eq_true_eq] at hcn
      obtain ⟨⟨_, hlt⟩, hacc⟩ := hcn
      have hacc' : accepts h (premiseEqs nodes n) n.l n.r = true := by
        cases hrule : n.rule <;> simp_all
      apply cong_lift _ (accepts_sound h _ _ _ hacc')
      intro a b hm
      obtain ⟨j, p, hj, hp, h1, h2⟩ := mem_premiseEqs hm
      rw [← h1, ← h2]
      exact ih j (hlt j hj) p hp

/-- the conclusion matches the query up to an injective renaming of slots -/
theorem conclusion_transfers {E : List (Term × Term)} {l r t u : Term} (h : Cong E l r)
    (hi : Orc.instOf l r t u = true) : Cong E t u := Orc.instOf_sound h hi

/-- end-to-end statement used by the check: accepted DAG + matching root ⇒ the queried equation holds in the spec -/
theorem explanation_valid (h : Heur) (A : List Asserted) (nodes : List PNode) (root : PNode) (t u : Term)
    (hc : checkDag h A nodes = true) (hroot : nodes.getLast? = some root)
    (hq : Orc.instOf root.l root.r t u = true) : Cong (eqsOf A) t u := by
  have : nodes[nodes.length - 1]? = some root := by
    rw [List.getLast?_eq_getElem?] at hroot; exact hroot
  exact conclusion_transfers (checkDag_sound h A nodes hc _ root this) hq

/-- **leaves of rule applications**: what the checker adds to the asserted equations for a leaf justified by a rule name is,
by definition, both sides of *that rule* under one renaming of its pattern slots — different pattern slots to different
slots — with the pattern variables replaced by terms (`PC.ruleInstance`; the substitution comes from an untrusted matcher).
`checkDag_sound` then reads: every claim follows from the user's asserted equations together with these rule instances. -/
theorem ruleInstance_spec (rd : RuleDef) (θ : List (String × Term)) (σ : List (Nat × Nat)) (il ir : Term)
    (h : ruleInstance rd θ σ = some (il, ir)) :
    il = Term.close (instT θ (renameAllT (Orc.applyRen σ) rd.lhs)) ∧
    ir = Term.close (instT θ (renameAllT (Orc.applyRen σ) rd.rhs)) ∧
    ((Orc.dedupL (allSlotsT rd.lhs ++ allSlotsT rd.rhs)).map (Orc.applyRen σ)).length =
      (Orc.dedupL ((Orc.dedupL (allSlotsT rd.lhs ++ allSlotsT rd.rhs)).map (Orc.applyRen σ))).length := by
  unfold ruleInstance at h
  simp only at h
  split at h
  · rename_i hc
    simp only [Option.some.injEq, Prod.mk.injEq] at h
    exact ⟨h.1.symm, h.2.symm, by simpa using hc⟩
  · simp at h

/-! non-vacuity: a two-node DAG (asserted leaf, then symmetry) is accepted by a trivial heuristic, so the
hypothesis of `checkDag_sound` is satisfiable; and a wrong step is rejected. -/
section Examples
def c0 : Term := .mk { v := 1, fields := [] } []
def c1 : Term := .mk { v := 2, fields := [] } []
def c2 : Term := .mk { v := 3, fields := [] } []
def tinyHeur : Heur :=
  { uni := fun _ _ _ =>
      let univ := #[c0, c1, c2]
      ([], univ, (((({} : Std.HashMap String Nat).insert (Term.key c0) 0).insert (Term.key c1) 1).insert (Term.key c2) 2)),
    gen := fun _ => [(0, 1), (1, 0), (0, 2), (1, 2)],
    fuel := 3 }
def tinyA : List Asserted := [⟨"j0", c0, c1⟩]
def goodDag : List PNode := [⟨.explicit, [], some "j0", c0, c1⟩, ⟨.symm, [0], none, c1, c0⟩]
def badDag : List PNode := [⟨.explicit, [], some "j0", c0, c1⟩, ⟨.symm, [0], none, c2, c0⟩]
#guard checkDag tinyHeur tinyA goodDag
#guard !checkDag tinyHeur tinyA badDag
#guard firstBad tinyHeur tinyA badDag 0 badDag == some 1
end Examples

end SV.C07
