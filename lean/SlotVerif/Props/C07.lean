import SlotVerif.Props.C01
/-!
# C07 — Explanations are valid proofs of the queried equation

Proof *construction* (`explain/`) is not modelled.  The Lean side is an **independent checker that
works on terms**: every node of an exported proof DAG claims an equation `l = r` between terms and
names its premises; the checker accepts the node if the claim follows from the premises' claims
(for a leaf: from the one asserted equation carrying the leaf's justification) in the specification
`Cong` — decided by the verified-sound saturation oracle, run with exactly those equations.  Proved
here: if every node of a DAG is locally accepted, then every claim of the DAG — in particular the
root — is derivable from the asserted equations alone (`dag_sound`), for DAGs of any size.
-/
namespace SV.C07
open SV SV.Term

/-- one node of an exported proof DAG -/
structure PNode where
  l : Term
  r : Term
  premises : List Nat                 -- indices of earlier nodes
  leaf : Option (Term × Term) := none -- for an explicit step: the asserted equation it instantiates

/-- the equations a node may use: the claims of its premises, and the asserted equation of a leaf -/
def localEqs (nodes : List PNode) (n : PNode) : List (Term × Term) :=
  (n.premises.filterMap fun i => (nodes[i]?).map fun p => (p.l, p.r)) ++ n.leaf.toList

/-- a DAG is locally valid w.r.t. the asserted equations `A` -/
def LocallyValid (A : List (Term × Term)) (nodes : List PNode) : Prop :=
  ∀ (i : Nat) (n : PNode), nodes[i]? = some n →
    (∀ j ∈ n.premises, j < i) ∧
    (∀ e, n.leaf = some e → e ∈ A) ∧
    Cong (localEqs nodes n) n.l n.r

/-- **soundness of the proof-DAG checker**: every claim of a locally valid DAG follows from the asserted equations -/
theorem dag_sound (A : List (Term × Term)) (nodes : List PNode) (h : LocallyValid A nodes) :
    ∀ (i : Nat) (n : PNode), nodes[i]? = some n → Cong A n.l n.r := by
  intro i
  induction i using Nat.strongRecOn with
  | _ i ih =>
    intro n hn
    obtain ⟨hlt, hleaf, hc⟩ := h i n hn
    apply cong_lift _ hc
    intro a b hm
    simp only [localEqs, List.mem_append, List.mem_filterMap, Option.mem_toList] at hm
    rcases hm with ⟨j, hj, hjn⟩ | hm
    · cases hp : nodes[j]? with
      | none => rw [hp] at hjn; simp at hjn
      | some p =>
        rw [hp] at hjn
        simp at hjn
        obtain ⟨h1, h2⟩ := hjn
        subst h1; subst h2
        exact ih j (hlt j hj) p hp
    · exact Cong.ax (hleaf (a, b) (by simpa using hm))

/-- the conclusion matches the query up to an injective renaming of slots (in either direction) -/
theorem conclusion_transfers {A : List (Term × Term)} {l r t u : Term} (h : Cong A l r)
    (hi : Orc.instOf l r t u = true) : Cong A t u := Orc.instOf_sound h hi

/-- what local acceptance by the oracle means (the run-time half): equal labels after running the oracle with
the node's local equations give `Cong (localEqs ..)` -/
theorem oracle_accepts_sound (E : List (Term × Term)) (pool : List Nat) (univ : Array Term)
    (index : Std.HashMap String Nat) (cands : List (Nat × Nat)) (a b : Nat) (t u : Term) :
    let o := ({ E := E, pool := pool, univ := univ, cls := Array.range univ.size, index := index } : Orc).run cands
    o.univ[a]? = some t → o.univ[b]? = some u → o.find a = o.find b → Cong E t u :=
  fun ha hb hab => SV.C01.oracle_sound E pool univ index cands a b t u ha hb hab

end SV.C07
