import SlotVerif.Props.C17
/-!
# C20 — Runs are reproducible: the same operations give the same transcript

A Lean function is deterministic by construction, so "same operations ⇒ same transcript" is not a
statement one can fail to prove about a model; the property is about what every model in this
development *abstracts away* (hash seeds, addresses, thread-local and global interning state).
What the proof technique contributes is small and is stated here honestly:
* the slot table is a value threaded through a thread's own operations only (`run`): the model has
  no state shared between threads, so in the model a thread's transcript is a function of its own
  history *by construction* (this is a modelling decision, not a theorem); `outputs_append` records
  the one non-trivial structural fact, that transcripts only grow;
* every other correspondence in this development presupposes that the implementation is a function
  of its operation list; the C20 check (replaying each history concurrently in fresh threads and in
  a second process and comparing raw transcripts) is the per-run validation of that modelling
  assumption.
-/
namespace SV.C20
open SV SV.Slot SV.Slot.C17

/-- outputs of a history: the slots (or panics) returned by each operation -/
def outputs : St → List Op → List (Res Nat)
  | _, [] => []
  | st, o :: rest => (step st o).2 :: outputs (step st o).1 rest

/-- what a thread has observed so far is not revised by what it does later: the transcript of a
prefix of the history is a prefix of the transcript (no operation of the model reaches back) -/
theorem outputs_append (st : St) (ops₁ ops₂ : List Op) :
    outputs st (ops₁ ++ ops₂) = outputs st ops₁ ++ outputs (run st ops₁) ops₂ := by
  induction ops₁ generalizing st with
  | nil => rfl
  | cons o t ih =>
    simp only [List.cons_append, outputs, run, List.foldl_cons]
    rw [ih]
    rfl

end SV.C20
