import SlotVerif.Model.Extract
import SlotVerif.Proofs.Dijkstra
/-!
# C06 — Extraction returns a cheapest term of the requested class

`Extractor::new`'s heap loop **is modelled** (`Extract.loop` / `Extract.dijkstra`, session 6) and proved correct for every
state with distinct class ids: `extractor_table_accepted`, `extractor_cost_is_min`, `extractor_total` below
(`Proofs/Dijkstra.lean`: the invariant of Dijkstra's algorithm for a superior cost function, preserved by every turn of the
loop; termination by the pair (classes without entry, queue length)).  Also proved: the **cost-table checker** — any table that
`checkTable` accepts is a lower bound for the cost of *every* extraction tree of every live class
(an extraction tree = a choice of one e-node per subterm, i.e. a term represented in the class), for
the three cost functions of the runs.  Per run the Lean side computes a table by relaxation, checks
it, and the implementation's `get_best_cost` must equal it for every live class; `table_attained` / `table_is_min`: every entry of an
accepted table is the cost of some represented term, hence the *minimum* over all represented terms
of the class.  The implementation's own extracted term is re-costed independently per run as well.
-/
namespace SV.C06
open SV SV.Extract SV.Snap

/-- a term represented in a class, abstracted to the choice of e-nodes -/
inductive XTree where
  | mk (cls : Nat) (node : Nat) (kids : List XTree)

def XTree.root : XTree → Nat
  | .mk c _ _ => c

mutual
/-- the tree is a valid extraction from the state: live class, existing e-node, one subtree per child, rooted at the child's class -/
def wfTree (s : Snap) : XTree → Bool
  | .mk c n kids =>
    match s.cls c with
    | none => false
    | some cl =>
      s.isAlive c &&
      match cl.nodes[n]? with
      | none => false
      | some e => wfKids s ((Node.appOcc e.1).map (·.id)) kids
def wfKids (s : Snap) : List Nat → List XTree → Bool
  | [], [] => true
  | i :: is, t :: ts => decide (t.root = i) && wfTree s t && wfKids s is ts
  | _, _ => false
end

mutual
def treeCost (cf : CF) (s : Snap) : XTree → Nat
  | .mk c n kids =>
    match (s.cls c).bind (fun cl => cl.nodes[n]?) with
    | some e => nodeCost cf e.1.v (kidsCost cf s kids)
    | none => 0
def kidsCost (cf : CF) (s : Snap) : List XTree → List Nat
  | [] => []
  | t :: ts => treeCost cf s t :: kidsCost cf s ts
end

/-- pointwise order on cost lists -/
inductive LeL : List Nat → List Nat → Prop
  | nil : LeL [] []
  | cons {a b : Nat} {as bs : List Nat} : a ≤ b → LeL as bs → LeL (a :: as) (b :: bs)

theorem foldl_add_mono {as bs : List Nat} (hl : LeL as bs) : ∀ (x y : Nat), x ≤ y →
    as.foldl (· + ·) x ≤ bs.foldl (· + ·) y := by
  induction hl with
  | nil => intro x y h; exact h
  | cons hab _ ih => intro x y h; exact ih _ _ (by show _ + _ ≤ _ + _; omega)

theorem foldl_add2_mono {as bs : List Nat} (hl : LeL as bs) : ∀ (x y : Nat), x ≤ y →
    as.foldl (fun a c => a + 2 * c) x ≤ bs.foldl (fun a c => a + 2 * c) y := by
  induction hl with
  | nil => intro x y h; exact h
  | cons hab _ ih => intro x y h; exact ih _ _ (by show _ + 2 * _ ≤ _ + 2 * _; omega)

/-- every cost function of the runs is monotone in the children's costs -/
theorem nodeCost_mono (cf : CF) (v : Nat) {as bs : List Nat} (h : LeL as bs) :
    nodeCost cf v as ≤ nodeCost cf v bs := by
  cases cf with
  | ast => simp only [nodeCost]; have := foldl_add_mono h 0 0 (Nat.le_refl _); omega
  | depth => simp only [nodeCost]; have := foldl_add2_mono h 0 0 (Nat.le_refl _); omega
  | op => simp only [nodeCost]; have := foldl_add_mono h 0 0 (Nat.le_refl _); omega

/-- what `checkTable`'s first half says about one e-node -/
theorem closed_of_check {cf : CF} {s : Snap} {t : Table} (h : checkTable cf s t = true)
    {c : SClass} (hc : c ∈ s.classes) (ha : s.isAlive c.id = true) {e : Node × SlotMap} (he : e ∈ c.nodes)
    {ks : List Nat} (hk : kidCosts t e.1 = some ks) : ∃ k, t.get c.id = some k ∧ k ≤ nodeCost cf e.1.v ks := by
  unfold checkTable at h
  simp only [Bool.and_eq_true, List.all_eq_true] at h
  have := h.1 c hc
  simp only [ha, Bool.not_true, Bool.false_or, List.all_eq_true] at this
  have := this e he
  rw [hk] at this
  cases hg : t.get c.id with
  | none => rw [hg] at this; simp at this
  | some k => rw [hg] at this; exact ⟨k, rfl, by simpa using this⟩

mutual
/-- **no represented term is cheaper than the accepted table says** -/
theorem table_lower_bound {cf : CF} {s : Snap} {t : Table} (h : checkTable cf s t = true) :
    ∀ (T : XTree), wfTree s T = true → ∃ k, t.get T.root = some k ∧ k ≤ treeCost cf s T
  | .mk c n kids, hw => by
    simp only [wfTree] at hw
    cases hcl : s.cls c with
    | none => rw [hcl] at hw; simp at hw
    | some cl =>
      rw [hcl] at hw
      simp only [Bool.and_eq_true] at hw
      obtain ⟨halive, hrest⟩ := hw
      have hmem : cl ∈ s.classes := List.mem_of_find?_eq_some hcl
      cases hn : cl.nodes[n]? with
      | none => rw [hn] at hrest; simp at hrest
      | some e =>
        rw [hn] at hrest
        have hid : cl.id = c := by
          have := List.find?_some hcl
          simpa using this
        obtain ⟨ks, hks, hle⟩ := kids_lower_bound h ((Node.appOcc e.1).map (·.id)) kids hrest
        have hkc : kidCosts t e.1 = some ks := by
          unfold kidCosts
          rw [← hks]
          clear hks hle hrest
          induction (Node.appOcc e.1) with
          | nil => rfl
          | cons a as ih => simp [List.mapM_cons, ih]
        have he : e ∈ cl.nodes := List.mem_of_getElem? hn
        obtain ⟨k, hk1, hk2⟩ := closed_of_check h hmem (by rw [hid]; exact halive) he hkc
        refine ⟨k, by simpa [XTree.root, hid] using hk1, ?_⟩
        simp only [treeCost, hcl, Option.bind_some, hn]
        exact Nat.le_trans hk2 (nodeCost_mono cf e.1.v hle)
theorem kids_lower_bound {cf : CF} {s : Snap} {t : Table} (h : checkTable cf s t = true) :
    ∀ (ids : List Nat) (kids : List XTree), wfKids s ids kids = true →
      ∃ ks, (ids.mapM fun i => t.get i) = some ks ∧ LeL ks (kidsCost cf s kids)
  | [], [], _ => ⟨[], rfl, .nil⟩
  | i :: is, T :: ts, hw => by
    simp only [wfKids, Bool.and_eq_true, decide_eq_true_eq] at hw
    obtain ⟨⟨hroot, hT⟩, hrest⟩ := hw
    obtain ⟨k, hk1, hk2⟩ := table_lower_bound h T hT
    obtain ⟨ks, hks1, hks2⟩ := kids_lower_bound h is ts hrest
    refine ⟨k :: ks, ?_, .cons hk2 hks2⟩
    rw [hroot] at hk1
    simp [List.mapM_cons, hk1, hks1]
  | [], _ :: _, hw => by simp [wfKids] at hw
  | _ :: _, [], hw => by simp [wfKids] at hw
end

/-- the cost functions are *superior*: a node costs strictly more than each of its children
(why a cost-ordered queue may finalise a class when it first pops it) -/
theorem nodeCost_gt_child (cf : CF) (v : Nat) (ks : List Nat) (k : Nat) (hk : k ∈ ks)
    (hpos : 0 < opWeight v) : k < nodeCost cf v ks := by
  have key1 : ∀ (l : List Nat) (x : Nat), k ∈ l → x + k ≤ l.foldl (· + ·) x := by
    intro l
    induction l with
    | nil => intro x h; simp at h
    | cons a t ih =>
      intro x h
      simp at h
      rcases h with h | h
      · subst h
        have : ∀ (l : List Nat) (y : Nat), y ≤ l.foldl (· + ·) y := by
          intro l; induction l with
          | nil => intro y; exact Nat.le_refl _
          | cons b u ihu => intro y; exact Nat.le_trans (by omega) (ihu (y + b))
        exact this t (x + k)
      · exact Nat.le_trans (by omega) (ih (x + a) h)
  have key2 : ∀ (l : List Nat) (x : Nat), k ∈ l → x + k ≤ l.foldl (fun a c => a + 2 * c) x := by
    intro l
    induction l with
    | nil => intro x h; simp at h
    | cons a t ih =>
      intro x h
      simp at h
      rcases h with h | h
      · subst h
        have : ∀ (l : List Nat) (y : Nat), y ≤ l.foldl (fun a c => a + 2 * c) y := by
          intro l; induction l with
          | nil => intro y; exact Nat.le_refl _
          | cons b u ihu => intro y; exact Nat.le_trans (by omega) (ihu (y + 2 * b))
        exact Nat.le_trans (by omega) (this t (x + 2 * k))
      · exact Nat.le_trans (by omega) (ih (x + 2 * a) h)
  cases cf with
  | ast => simp only [nodeCost]; have := key1 ks 0 hk; omega
  | depth => simp only [nodeCost]; have := key2 ks 0 hk; omega
  | op => simp only [nodeCost]; have := key1 ks 0 hk; omega

/-! ### the bound is attained -/

theorem mem_of_table_get {t : Table} {c k : Nat} (h : t.get c = some k) : (c, k) ∈ t := by
  simp only [Table.get, Option.map_eq_some_iff] at h
  obtain ⟨p, hp, rfl⟩ := h
  have h1 := List.find?_some hp
  have h2 := List.mem_of_find?_eq_some hp
  have : p.1 = c := by simpa using h1
  rw [← this]; exact h2

theorem attained_of_check {cf : CF} {s : Snap} {t : Table} (h : checkTable cf s t = true) {c k : Nat}
    (hg : t.get c = some k) : ∃ (cl : SClass) (n : Nat) (e : Node × SlotMap) (ks : List Nat), s.cls c = some cl ∧
      s.isAlive c = true ∧ cl.nodes[n]? = some e ∧ kidCosts t e.1 = some ks ∧ nodeCost cf e.1.v ks = k := by
  unfold checkTable at h
  simp only [Bool.and_eq_true, List.all_eq_true] at h
  have := h.2 (c, k) (mem_of_table_get hg)
  simp only [Bool.and_eq_true] at this
  obtain ⟨halive, hrest⟩ := this
  cases hcl : s.cls c with
  | none => simp only [hcl] at hrest; simp at hrest
  | some cl =>
    simp only [hcl, List.any_eq_true] at hrest
    obtain ⟨e, he, hcost⟩ := hrest
    obtain ⟨n, hn, hne⟩ := List.getElem_of_mem he
    cases hk : kidCosts t e.1 with
    | none => rw [hk] at hcost; simp at hcost
    | some ks =>
      rw [hk] at hcost
      exact ⟨cl, n, e, ks, rfl, halive, by rw [← hne]; exact List.getElem?_eq_getElem hn, hk, by simpa using hcost⟩

theorem mem_of_mapM_get {t : Table} : ∀ (as : List AppId) (ks : List Nat), (as.mapM fun a => t.get a.id) = some ks →
    ∀ a ∈ as, ∀ k', t.get a.id = some k' → k' ∈ ks
  | [], _, _, a, ha, _, _ => by simp at ha
  | b :: bs, ks, h, a, ha, k', hk' => by
    simp only [List.mapM_cons, Option.bind_eq_bind, Option.bind_eq_some_iff, Option.pure_def, Option.some.injEq] at h
    obtain ⟨k0, hk0, ks0, hks0, rfl⟩ := h
    rcases List.mem_cons.mp ha with rfl | hb
    · rw [hk'] at hk0
      have : k' = k0 := by simpa using hk0
      simp [this]
    · exact List.mem_cons_of_mem _ (mem_of_mapM_get bs ks0 hks0 a hb k' hk')

/-- subtrees for a list of children whose table entries are all attained -/
theorem kids_attained {cf : CF} {s : Snap} {t : Table} (ids : List Nat) :
    ∀ (ks : List Nat), (ids.mapM fun i => t.get i) = some ks →
      (∀ i k', i ∈ ids → t.get i = some k' → ∃ T, wfTree s T = true ∧ T.root = i ∧ treeCost cf s T = k') →
      ∃ Ts, wfKids s ids Ts = true ∧ kidsCost cf s Ts = ks := by
  induction ids with
  | nil => intro ks h _; simp at h; subst h; exact ⟨[], rfl, rfl⟩
  | cons i is ih =>
    intro ks h hall
    simp only [List.mapM_cons, Option.bind_eq_bind, Option.bind_eq_some_iff, Option.pure_def, Option.some.injEq] at h
    obtain ⟨k0, hk0, ks0, hks0, rfl⟩ := h
    obtain ⟨T, hT1, hT2, hT3⟩ := hall i k0 (by simp) hk0
    obtain ⟨Ts, hTs1, hTs2⟩ := ih ks0 hks0 (fun j k' hj hk' => hall j k' (by simp [hj]) hk')
    refine ⟨T :: Ts, ?_, ?_⟩
    · simp [wfKids, hT1, hT2, hTs1]
    · simp [kidsCost, hT3, hTs2]

/-- **the accepted table is attained**: for every entry there is a represented term (extraction tree) of exactly
that cost.  With `table_lower_bound`: the entry is the *minimum* cost over all represented terms of the class. -/
theorem table_attained {cf : CF} {s : Snap} {t : Table} (h : checkTable cf s t = true) :
    ∀ (k c : Nat), t.get c = some k → ∃ T, wfTree s T = true ∧ T.root = c ∧ treeCost cf s T = k := by
  intro k
  induction k using Nat.strongRecOn with
  | _ k ih =>
    intro c hg
    obtain ⟨cl, n, e, ks, hcl, halive, hn, hkc, hcost⟩ := attained_of_check h hg
    have hkids : ∃ Ts, wfKids s ((Node.appOcc e.1).map (·.id)) Ts = true ∧ kidsCost cf s Ts = ks := by
      apply kids_attained
      · unfold kidCosts at hkc
        rw [List.mapM_map]; exact hkc
      · intro i k' hi hk'
        apply ih k' _ i hk'
        -- a child's entry is strictly below the node's cost
        have hmem : k' ∈ ks := by
          unfold kidCosts at hkc
          obtain ⟨a, ha, rfl⟩ := List.mem_map.mp hi
          exact mem_of_mapM_get (Node.appOcc e.1) ks hkc a ha k' hk'
        rw [← hcost]
        exact nodeCost_gt_child cf e.1.v ks k' hmem (by unfold opWeight; split <;> omega)
    obtain ⟨Ts, hTs1, hTs2⟩ := hkids
    refine ⟨.mk c n Ts, ?_, rfl, ?_⟩
    · simp [wfTree, hcl, halive, hn, hTs1]
    · simp [treeCost, hcl, hn, hTs2, hcost]

/-- the accepted entry is the minimum over all represented terms of the class -/
theorem table_is_min {cf : CF} {s : Snap} {t : Table} (h : checkTable cf s t = true) {c k : Nat} (hg : t.get c = some k) :
    (∃ T, wfTree s T = true ∧ T.root = c ∧ treeCost cf s T = k) ∧
    (∀ T, wfTree s T = true → T.root = c → k ≤ treeCost cf s T) := by
  refine ⟨table_attained h k c hg, ?_⟩
  intro T hT hroot
  obtain ⟨k', hk1, hk2⟩ := table_lower_bound h T hT
  rw [hroot, hg] at hk1
  have : k = k' := by simpa using hk1
  omega

/-- non-vacuity: on a two-class state the relaxation table is accepted and a valid tree exists -/
def demo : Snap :=
  { uf := [⟨0, []⟩, ⟨1, []⟩],
    classes := [
      { id := 0, slots := [], nodes := [(⟨16, [.lit "a"]⟩, [])], gens := [], syn := ⟨16, [.lit "a"]⟩, data := "-" },
      { id := 1, slots := [], nodes := [(⟨13, [.app ⟨0, []⟩]⟩, []), (⟨15, [.lit "7"]⟩, [])], gens := [],
        syn := ⟨15, [.lit "7"]⟩, data := "-" }] }
example : checkTable .op demo (minCost .op demo) = true ∧ (minCost .op demo).get 1 = some 4 := by decide
example : wfTree demo (.mk 1 0 [.mk 0 0 []]) = true ∧ treeCost .op demo (.mk 1 0 [.mk 0 0 []]) = 4 := by
  constructor
  · simp [wfTree, wfKids, demo, Snap.cls, Snap.isAlive, Node.appOcc, Field.appOcc, XTree.root]
  · simp [treeCost, kidsCost, demo, Snap.cls, nodeCost, opWeight]

/-! ### the heap loop of `Extractor::new` (model `Extract.dijkstra`) -/

/-- the table computed by the cost-ordered work list is accepted by the checker — for **every** state -/
theorem extractor_table_accepted (cf : CF) (s : Snap) (hd : DistinctIds s) :
    checkTable cf s (dijkstra cf s) = true := dijkstra_accepted cf s hd

/-- **the cost `Extractor::new` records for a class is the minimum over all terms represented in it**, and it is the
cost of one of them -/
theorem extractor_cost_is_min (cf : CF) (s : Snap) (hd : DistinctIds s) {c k : Nat}
    (hg : (dijkstra cf s).get c = some k) :
    (∃ T, wfTree s T = true ∧ T.root = c ∧ treeCost cf s T = k) ∧
    (∀ T, wfTree s T = true → T.root = c → k ≤ treeCost cf s T) :=
  table_is_min (dijkstra_accepted cf s hd) hg

/-- **every class that contains a finite term gets an entry** (extraction succeeds for it) -/
theorem extractor_total (cf : CF) (s : Snap) (hd : DistinctIds s) (T : XTree) (hT : wfTree s T = true) :
    ∃ k, (dijkstra cf s).get T.root = some k ∧ k ≤ treeCost cf s T :=
  table_lower_bound (dijkstra_accepted cf s hd) T hT

/-- two accepted tables agree wherever both have an entry; so the implementation's `get_best_cost` can only equal the
model's if it is the minimum -/
theorem accepted_tables_agree {cf : CF} {s : Snap} {t t' : Table} (h : checkTable cf s t = true)
    (h' : checkTable cf s t' = true) {c k k' : Nat} (hg : t.get c = some k) (hg' : t'.get c = some k') : k = k' := by
  obtain ⟨⟨T, hT1, hT2, hT3⟩, hmin⟩ := table_is_min h hg
  obtain ⟨⟨T', hT1', hT2', hT3'⟩, hmin'⟩ := table_is_min h' hg'
  have := hmin T' hT1' hT2'
  have := hmin' T hT1 hT2
  omega

/-! ### `Extractor::extract` at the level of costs (model `Extract.extractTree`) -/

mutual
def toX : XT → XTree
  | .mk c n kids => .mk c n (toXs kids)
def toXs : List XT → List XTree
  | [] => []
  | T :: Ts => toX T :: toXs Ts
end

mutual
/-- **extraction succeeds and returns a represented term of exactly the recorded cost**: for every accepted table (the one
of `Extractor::new` in particular), every class with an entry `k` and every fuel above `k` — the recursion is well founded
because a node costs strictly more than each child -/
theorem extract_spec {cf : CF} {s : Snap} {t : Table} (h : checkTable cf s t = true) :
    ∀ (fuel k c : Nat), t.get c = some k → k < fuel →
      ∃ T, extractTree cf s t fuel c = some T ∧ wfTree s (toX T) = true ∧ (toX T).root = c ∧ treeCost cf s (toX T) = k
  | 0, k, _, _, hlt => by omega
  | fuel + 1, k, c, hg, hlt => by
    obtain ⟨cl, n, e, ks, hcl, halive, hn, hkc, hcost⟩ := attained_of_check h hg
    -- the first e-node that attains the entry
    let P : Node × SlotMap → Bool := fun e => (kidCosts t e.1).map (nodeCost cf e.1.v) == some k
    have hex : ∃ x, x ∈ cl.nodes ∧ P x = true := ⟨e, List.mem_of_getElem? hn, by simp [P, hkc, hcost]⟩
    have hlt' : cl.nodes.findIdx P < cl.nodes.length := List.findIdx_lt_length_of_exists hex
    have hP : P cl.nodes[cl.nodes.findIdx P] = true := List.findIdx_getElem
    have hbest : bestIdx cf s t c = some (cl.nodes.findIdx P) := by
      unfold bestIdx; simp only [hcl, hg]; simp [P, hlt']
    generalize hidx : cl.nodes.findIdx P = i at *
    generalize he' : cl.nodes[i] = e' at *
    have hnode : (s.cls c).bind (fun cl => cl.nodes[i]?) = some e' := by
      simp [hcl, ← he', List.getElem?_eq_getElem hlt']
    have hk' : ∃ ks', kidCosts t e'.1 = some ks' ∧ nodeCost cf e'.1.v ks' = k := by
      simp only [P, beq_iff_eq, Option.map_eq_some_iff] at hP
      exact hP
    obtain ⟨ks', hkc', hcost'⟩ := hk'
    have hkids := extractKids_spec h fuel ((Node.appOcc e'.1).map (·.id)) ks'
      (by unfold kidCosts at hkc'; rw [List.mapM_map]; exact hkc')
      (by
        intro i k' hi hk'
        have hmem : k' ∈ ks' := by
          unfold kidCosts at hkc'
          obtain ⟨a, ha, rfl⟩ := List.mem_map.mp hi
          exact mem_of_mapM_get (Node.appOcc e'.1) ks' hkc' a ha k' hk'
        have := nodeCost_gt_child cf e'.1.v ks' k' hmem (by unfold opWeight; split <;> omega)
        omega)
    obtain ⟨Ts, hTs1, hTs2, hTs3⟩ := hkids
    refine ⟨.mk c i Ts, ?_, ?_, rfl, ?_⟩
    · simp only [extractTree, hbest, hnode, hTs1, Option.map_some]
    · simp only [toX, wfTree, hcl, halive, Bool.true_and]
      have : cl.nodes[i]? = some e' := by rw [← he']; exact List.getElem?_eq_getElem hlt'
      simp only [this, hTs2]
    · have : cl.nodes[i]? = some e' := by rw [← he']; exact List.getElem?_eq_getElem hlt'
      simp [toX, treeCost, hcl, this, hTs3, hcost']
theorem extractKids_spec {cf : CF} {s : Snap} {t : Table} (h : checkTable cf s t = true) :
    ∀ (fuel : Nat) (ids : List Nat) (ks : List Nat), (ids.mapM fun i => t.get i) = some ks →
      (∀ i k', i ∈ ids → t.get i = some k' → k' < fuel) →
      ∃ Ts, extractKids cf s t fuel ids = some Ts ∧ wfKids s ids (toXs Ts) = true ∧ kidsCost cf s (toXs Ts) = ks
  | _, [], ks, hm, _ => by
    simp at hm; subst hm
    exact ⟨[], by simp [extractKids], by simp [toXs, wfKids], by simp [toXs, kidsCost]⟩
  | fuel, i :: is, ks, hm, hall => by
    simp only [List.mapM_cons, Option.bind_eq_bind, Option.bind_eq_some_iff, Option.pure_def, Option.some.injEq] at hm
    obtain ⟨k0, hk0, ks0, hks0, rfl⟩ := hm
    obtain ⟨T, hT1, hT2, hT3, hT4⟩ := extract_spec h fuel k0 i hk0 (hall i k0 (by simp) hk0)
    obtain ⟨Ts, hTs1, hTs2, hTs3⟩ := extractKids_spec h fuel is ks0 hks0 (fun j k' hj hk' => hall j k' (by simp [hj]) hk')
    refine ⟨T :: Ts, ?_, ?_, ?_⟩
    · simp [extractKids, hT1, hTs1]
    · simp [toXs, wfKids, hT2, hT3, hTs2]
    · simp [toXs, kidsCost, hT4, hTs3]
end

/-- `Extractor::new` followed by `extract`: on every state with distinct class ids, for every class the work list gave an
entry, extraction returns a represented term whose cost is that entry — which is the minimum (`extractor_cost_is_min`) -/
theorem extractor_extract_spec (cf : CF) (s : Snap) (hd : DistinctIds s) {c k : Nat}
    (hg : (dijkstra cf s).get c = some k) :
    ∃ T, extractTree cf s (dijkstra cf s) (k + 1) c = some T ∧ wfTree s (toX T) = true ∧ (toX T).root = c ∧
      treeCost cf s (toX T) = k :=
  extract_spec (dijkstra_accepted cf s hd) (k + 1) k c hg (by omega)

/-- **for every tie-breaking rule of the heap**: `BinaryHeap` promises a cheapest entry, not which one among equals; the
table is accepted (hence minimal, total, and equal to any other accepted table wherever both have entries) whichever rule
`pick` the heap follows -/
theorem extractor_table_accepted_any_tiebreak {pick : QEntry → List QEntry → QEntry} (hp : IsMinPick pick) (cf : CF)
    (s : Snap) (hd : DistinctIds s) : checkTable cf s (dijkstraP pick cf s) = true :=
  dijkstraP_accepted hp cf s hd

/-- so the recorded costs do not depend on the tie-breaking rule -/
theorem extractor_costs_independent_of_tiebreak {pick pick' : QEntry → List QEntry → QEntry} (hp : IsMinPick pick)
    (hp' : IsMinPick pick') (cf : CF) (s : Snap) (hd : DistinctIds s) {c k k' : Nat}
    (hg : (dijkstraP pick cf s).get c = some k) (hg' : (dijkstraP pick' cf s).get c = some k') : k = k' :=
  accepted_tables_agree (dijkstraP_accepted hp cf s hd) (dijkstraP_accepted hp' cf s hd) hg hg'

/-- non-vacuity: the demo state has distinct class ids -/
example : DistinctIds demo := by
  unfold DistinctIds demo
  simp

end SV.C06
