import SlotVerif.Model.Extract
/-!
# C06 — Extraction returns a cheapest term of the requested class

`Extractor::new`'s heap loop is not modelled.  Proved: the **cost-table checker** — any table that
`checkTable` accepts is a lower bound for the cost of *every* extraction tree of every live class
(an extraction tree = a choice of one e-node per subterm, i.e. a term represented in the class), for
the three cost functions of the runs.  Per run the Lean side computes a table by relaxation, checks
it, and the implementation's `get_best_cost` must equal it for every live class; that the bound is
attained is shown by the implementation's own extracted term, whose independently recomputed cost
must equal the reported one.
-/
namespace SV.C06
open SV SV.Extract SV.Snap

/-- a term represented in a class, abstracted to the choice of e-nodes -/
inductive XTree where
  | mk (cls : Nat) (node : Nat) (kids : List XTree)

def XTree.root : XTree → Nat
  | .mk c _ _ => c

mutual
/-- the tree is a valid extraction from the state: live class, existing e-node, one subtree per child, rooted at the child's class -/
def wfTree (s : Snap) : XTree → Bool
  | .mk c n kids =>
    match s.cls c with
    | none => false
    | some cl =>
      s.isAlive c &&
      match cl.nodes[n]? with
      | none => false
      | some e => wfKids s ((Node.appOcc e.1).map (·.id)) kids
def wfKids (s : Snap) : List Nat → List XTree → Bool
  | [], [] => true
  | i :: is, t :: ts => decide (t.root = i) && wfTree s t && wfKids s is ts
  | _, _ => false
end

mutual
def treeCost (cf : CF) (s : Snap) : XTree → Nat
  | .mk c n kids =>
    match (s.cls c).bind (fun cl => cl.nodes[n]?) with
    | some e => nodeCost cf e.1.v (kidsCost cf s kids)
    | none => 0
def kidsCost (cf : CF) (s : Snap) : List XTree → List Nat
  | [] => []
  | t :: ts => treeCost cf s t :: kidsCost cf s ts
end

/-- pointwise order on cost lists -/
inductive LeL : List Nat → List Nat → Prop
  | nil : LeL [] []
  | cons {a b : Nat} {as bs : List Nat} : a ≤ b → LeL as bs → LeL (a :: as) (b :: bs)

theorem foldl_add_mono {as bs : List Nat} (hl : LeL as bs) : ∀ (x y : Nat), x ≤ y →
    as.foldl (· + ·) x ≤ bs.foldl (· + ·) y := by
  induction hl with
  | nil => intro x y h; exact h
  | cons hab _ ih => intro x y h; exact ih _ _ (by show _ + _ ≤ _ + _; omega)

theorem foldl_add2_mono {as bs : List Nat} (hl : LeL as bs) : ∀ (x y : Nat), x ≤ y →
    as.foldl (fun a c => a + 2 * c) x ≤ bs.foldl (fun a c => a + 2 * c) y := by
  induction hl with
  | nil => intro x y h; exact h
  | cons hab _ ih => intro x y h; exact ih _ _ (by show _ + 2 * _ ≤ _ + 2 * _; omega)

/-- every cost function of the runs is monotone in the children's costs -/
theorem nodeCost_mono (cf : CF) (v : Nat) {as bs : List Nat} (h : LeL as bs) :
    nodeCost cf v as ≤ nodeCost cf v bs := by
  cases cf with
  | ast => simp only [nodeCost]; have := foldl_add_mono h 0 0 (Nat.le_refl _); omega
  | depth => simp only [nodeCost]; have := foldl_add2_mono h 0 0 (Nat.le_refl _); omega
  | op => simp only [nodeCost]; have := foldl_add_mono h 0 0 (Nat.le_refl _); omega

/-- what `checkTable`'s first half says about one e-node -/
theorem closed_of_check {cf : CF} {s : Snap} {t : Table} (h : checkTable cf s t = true)
    {c : SClass} (hc : c ∈ s.classes) (ha : s.isAlive c.id = true) {e : Node × SlotMap} (he : e ∈ c.nodes)
    {ks : List Nat} (hk : kidCosts t e.1 = some ks) : ∃ k, t.get c.id = some k ∧ k ≤ nodeCost cf e.1.v ks := by
  unfold checkTable at h
  simp only [Bool.and_eq_true, List.all_eq_true] at h
  have := h.1 c hc
  simp only [ha, Bool.not_true, Bool.false_or, List.all_eq_true] at this
  have := this e he
  rw [hk] at this
  cases hg : t.get c.id with
  | none => rw [hg] at this; simp at this
  | some k => rw [hg] at this; exact ⟨k, rfl, by simpa using this⟩

mutual
/-- **no represented term is cheaper than the accepted table says** -/
theorem table_lower_bound {cf : CF} {s : Snap} {t : Table} (h : checkTable cf s t = true) :
    ∀ (T : XTree), wfTree s T = true → ∃ k, t.get T.root = some k ∧ k ≤ treeCost cf s T
  | .mk c n kids, hw => by
    simp only [wfTree] at hw
    cases hcl : s.cls c with
    | none => rw [hcl] at hw; simp at hw
    | some cl =>
      rw [hcl] at hw
      simp only [Bool.and_eq_true] at hw
      obtain ⟨halive, hrest⟩ := hw
      have hmem : cl ∈ s.classes := List.mem_of_find?_eq_some hcl
      cases hn : cl.nodes[n]? with
      | none => rw [hn] at hrest; simp at hrest
      | some e =>
        rw [hn] at hrest
        have hid : cl.id = c := by
          have := List.find?_some hcl
          simpa using this
        obtain ⟨ks, hks, hle⟩ := kids_lower_bound h ((Node.appOcc e.1).map (·.id)) kids hrest
        have hkc : kidCosts t e.1 = some ks := by
          unfold kidCosts
          rw [← hks]
          clear hks hle hrest
          induction (Node.appOcc e.1) with
          | nil => rfl
          | cons a as ih => simp [List.mapM_cons, ih]
        have he : e ∈ cl.nodes := List.mem_of_getElem? hn
        obtain ⟨k, hk1, hk2⟩ := closed_of_check h hmem (by rw [hid]; exact halive) he hkc
        refine ⟨k, by simpa [XTree.root, hid] using hk1, ?_⟩
        simp only [treeCost, hcl, Option.bind_some, hn]
        exact Nat.le_trans hk2 (nodeCost_mono cf e.1.v hle)
theorem kids_lower_bound {cf : CF} {s : Snap} {t : Table} (h : checkTable cf s t = true) :
    ∀ (ids : List Nat) (kids : List XTree), wfKids s ids kids = true →
      ∃ ks, (ids.mapM fun i => t.get i) = some ks ∧ LeL ks (kidsCost cf s kids)
  | [], [], _ => ⟨[], rfl, .nil⟩
  | i :: is, T :: ts, hw => by
    simp only [wfKids, Bool.and_eq_true, decide_eq_true_eq] at hw
    obtain ⟨⟨hroot, hT⟩, hrest⟩ := hw
    obtain ⟨k, hk1, hk2⟩ := table_lower_bound h T hT
    obtain ⟨ks, hks1, hks2⟩ := kids_lower_bound h is ts hrest
    refine ⟨k :: ks, ?_, .cons hk2 hks2⟩
    rw [hroot] at hk1
    simp [List.mapM_cons, hk1, hks1]
  | [], _ :: _, hw => by simp [wfKids] at hw
  | _ :: _, [], hw => by simp [wfKids] at hw
end

/-- the cost functions are *superior*: a node costs strictly more than each of its children
(why a cost-ordered queue may finalise a class when it first pops it) -/
theorem nodeCost_gt_child (cf : CF) (v : Nat) (ks : List Nat) (k : Nat) (hk : k ∈ ks)
    (hpos : 0 < opWeight v) : k < nodeCost cf v ks := by
  have key1 : ∀ (l : List Nat) (x : Nat), k ∈ l → x + k ≤ l.foldl (· + ·) x := by
    intro l
    induction l with
    | nil => intro x h; simp at h
    | cons a t ih =>
      intro x h
      simp at h
      rcases h with h | h
      · subst h
        have : ∀ (l : List Nat) (y : Nat), y ≤ l.foldl (· + ·) y := by
          intro l; induction l with
          | nil => intro y; exact Nat.le_refl _
          | cons b u ihu => intro y; exact Nat.le_trans (by omega) (ihu (y + b))
        exact this t (x + k)
      · exact Nat.le_trans (by omega) (ih (x + a) h)
  have key2 : ∀ (l : List Nat) (x : Nat), k ∈ l → x + k ≤ l.foldl (fun a c => a + 2 * c) x := by
    intro l
    induction l with
    | nil => intro x h; simp at h
    | cons a t ih =>
      intro x h
      simp at h
      rcases h with h | h
      · subst h
        have : ∀ (l : List Nat) (y : Nat), y ≤ l.foldl (fun a c => a + 2 * c) y := by
          intro l; induction l with
          | nil => intro y; exact Nat.le_refl _
          | cons b u ihu => intro y; exact Nat.le_trans (by omega) (ihu (y + 2 * b))
        exact Nat.le_trans (by omega) (this t (x + 2 * k))
      · exact Nat.le_trans (by omega) (ih (x + 2 * a) h)
  cases cf with
  | ast => simp only [nodeCost]; have := key1 ks 0 hk; omega
  | depth => simp only [nodeCost]; have := key2 ks 0 hk; omega
  | op => simp only [nodeCost]; have := key1 ks 0 hk; omega

/-- non-vacuity: on a two-class state the relaxation table is accepted and a valid tree exists -/
def demo : Snap :=
  { uf := [⟨0, []⟩, ⟨1, []⟩],
    classes := [
      { id := 0, slots := [], nodes := [(⟨16, [.lit "a"]⟩, [])], gens := [], syn := ⟨16, [.lit "a"]⟩, data := "-" },
      { id := 1, slots := [], nodes := [(⟨13, [.app ⟨0, []⟩]⟩, []), (⟨15, [.lit "7"]⟩, [])], gens := [],
        syn := ⟨15, [.lit "7"]⟩, data := "-" }] }
example : checkTable .op demo (minCost .op demo) = true ∧ (minCost .op demo).get 1 = some 4 := by decide
example : wfTree demo (.mk 1 0 [.mk 0 0 []]) = true ∧ treeCost .op demo (.mk 1 0 [.mk 0 0 []]) = 4 := by
  constructor
  · simp [wfTree, wfKids, demo, Snap.cls, Snap.isAlive, Node.appOcc, Field.appOcc, XTree.root]
  · simp [treeCost, kidsCost, demo, Snap.cls, nodeCost, opWeight]

end SV.C06
