import SlotVerif.Props.C05
import SlotVerif.Props.C02
/-!
# C04 — Every represented instance of a rule's left side fires

`apply_rewrites` is not modelled, and completeness of the matcher is not a theorem: it is validated per run on *planted*
instances.  (The single- and the multi-pattern matcher *are* modelled — `Model/EMatch.lean`, `Model/MultiMatch.lean`, see
C05 — and the whole match list of the implementation is compared with the model's on every state of the `mat` suite, which
is registered for this property too; what is proved about those models is that every returned substitution binds every
variable, not that no instance is missed.)  The Lean side supplies the two judgements the plant is measured with, both by the
verified match checker of C05 on dumped states:
* before the rewrite, the planted substitution is accepted for the **left** pattern — so it is a
  genuine obligation for the matcher (every variable bound, the instance represented, possibly only
  through unions of subterms);
* after one `apply_rewrites`, the same substitution (re-canonicalised) is accepted for the **right**
  pattern — the right instance is represented;
and the harness checks through the public API that it is `eq` to the left instance.
-/
namespace SV.C04
open SV SV.MPat

/-- the obligation: an accepted planted substitution binds every variable of the left pattern and its
instance is represented on that state -/
theorem plant_is_match (s : Snap) (lhs : MPat) (σ : Subst) (h : checkMatch s lhs σ = true) :
    (∀ v ∈ pvars lhs, ∃ b, σ.get v = some b) ∧ ∃ a, lookupPat s σ lhs = some a :=
  SV.C05.checkMatch_sound s lhs σ h

/-- the discharge: after the rewrite the right pattern's instance is represented -/
theorem fired_is_represented (s' : Snap) (rhs : MPat) (σ : Subst) (h : checkMatch s' rhs σ = true) :
    ∃ a, lookupPat s' σ rhs = some a := (SV.C05.checkMatch_sound s' rhs σ h).2

/-- what "the rule fired on this instance" means on the specification: once the instance pair is asserted,
every injectively renamed copy of it is derivable as well (a rule instance is not tied to slot names) -/
theorem fired_instance_renamed {E : List (Term × Term)} {l r : Term} (h : (l, r) ∈ E) (σ : Nat → Nat)
    (hσ : NameMap σ) (hi : InjOn σ (Term.freeOcc l ++ Term.freeOcc r)) :
    Cong E (Term.mapFree σ l) (Term.mapFree σ r) := SV.C02.cong_asserted_renamed h σ hσ hi

end SV.C04
