import SlotVerif.Proofs.SlotMap
import SlotVerif.Proofs.SlotMapFresh
/-!
# C19 — Slot maps behave as finite maps independent of construction order

Property theorems only.  Model: `Model/SlotMap.lean` (one definition per method of
`/repo/src/slotmap.rs`).  The reference finite map is `Nat → Option Nat`; `get` is the
abstraction function.  All statements are for maps of arbitrary size.
-/
namespace SV.SlotMap.C19

/-- operations that build a slot map step by step -/
inductive Op
  | insert (k v : Nat)
  | remove (k : Nat)

def Op.apply : SlotMap → Op → SlotMap
  | m, .insert k v => SlotMap.insert m k v
  | m, .remove k => SlotMap.remove m k

/-- the reference semantics on abstract finite maps -/
def Op.abs : (Nat → Option Nat) → Op → (Nat → Option Nat)
  | f, .insert k v => fun k' => if k' = k then some v else f k'
  | f, .remove k => fun k' => if k' = k then none else f k'

/-- every constructor keeps the representation invariant (sorted, unique keys). -/
theorem wf_ops (ops : List Op) {m : SlotMap} (h : WF m) : WF (ops.foldl Op.apply m) := by
  induction ops generalizing m with
  | nil => exact h
  | cons o t ih => cases o with
    | insert k v => exact ih (wf_insert h k v)
    | remove k => exact ih (wf_remove h k)

/-- refinement: `get` after any operation sequence is the reference map after the same sequence. -/
theorem get_ops (ops : List Op) {m : SlotMap} (h : WF m) :
    get (ops.foldl Op.apply m) = ops.foldl Op.abs (get m) := by
  induction ops generalizing m with
  | nil => rfl
  | cons o t ih => cases o with
    | insert k v =>
      simp only [List.foldl_cons, Op.apply, Op.abs]
      rw [ih (wf_insert h k v)]; congr 1; funext k'; exact get_insert h k v k'
    | remove k =>
      simp only [List.foldl_cons, Op.apply, Op.abs]
      rw [ih (wf_remove h k)]; congr 1; funext k'; exact get_remove h k k'

/-- **Construction-order independence.**  Two arbitrary build sequences that denote the same
finite map produce the *same value* — hence `==`, the derived `Hash` and the derived `Ord`
(all functions of the value) cannot distinguish them. -/
theorem construction_order_independent (ops₁ ops₂ : List Op)
    (h : ops₁.foldl Op.abs (fun _ => none) = ops₂.foldl Op.abs (fun _ => none)) :
    ops₁.foldl Op.apply [] = ops₂.foldl Op.apply [] := by
  apply ext (wf_ops _ wf_nil) (wf_ops _ wf_nil)
  intro k
  have h1 := get_ops ops₁ wf_nil
  have h2 := get_ops ops₂ wf_nil
  have : get ([] : SlotMap) = fun _ => none := by funext k; rfl
  rw [this] at h1 h2
  rw [h1, h2, h]

/-- equality is extensional: same key–value pairs ⇒ equal maps. -/
theorem eq_iff_same_pairs {a b : SlotMap} (ha : WF a) (hb : WF b) :
    a = b ↔ ∀ k, get a k = get b k :=
  ⟨fun h => by subst h; intro _; rfl, ext ha hb⟩

/-- the derived ordering is `Equal` exactly on equal maps (so it is a function of the pair set). -/
theorem cmpLex_eq_iff (a b : SlotMap) : cmpLex a b = .eq ↔ a = b := by
  induction a generalizing b with
  | nil => cases b <;> simp [cmpLex]
  | cons p t ih =>
    obtain ⟨x, y⟩ := p
    cases b with
    | nil => simp [cmpLex]
    | cons q u =>
      obtain ⟨x', y'⟩ := q
      simp only [cmpLex]
      split
      · simp; omega
      · split
        · simp; omega
        · split
          · simp; omega
          · split
            · simp; omega
            · rw [ih]; simp; omega

/-- `from_iter` / `from_pairs` do not depend on the order of the pairs when keys are distinct. -/
theorem ofPairs_perm {l₁ l₂ : List (Nat × Nat)} (hp : l₁.Perm l₂) (hk : (l₁.map (·.1)).Nodup) :
    ofPairs l₁ = ofPairs l₂ := by
  apply ext (wf_ofPairs _) (wf_ofPairs _)
  intro k
  have key : ∀ (l : List (Nat × Nat)), (l.map (·.1)).Nodup → ∀ v, get (ofPairs l) k = some v ↔ (k, v) ∈ l := by
    intro l hnd v
    unfold ofPairs
    rw [get_foldl_insert (fun (p : Nat × Nat) => p) l wf_nil]
    have hc := foldl_ite_cases (fun (p : Nat × Nat) => p) k l (get [] k)
    simp only at hc
    constructor
    · intro h
      rcases hc with ⟨h1, _⟩ | ⟨p, hp, h1, h2⟩
      · rw [h] at h1; simp [get] at h1
      · rw [h] at h2; simp at h2; subst h1; subst h2; exact hp
    · intro h
      rcases hc with ⟨_, h2⟩ | ⟨p, hp, h1, h2⟩
      · exact absurd rfl (h2 _ h)
      · rw [h2]
        have : p = (k, v) := by
          exact inj_on_of_nodup_map hnd hp h h1
        rw [this]
  have hk2 : (l₂.map (·.1)).Nodup := (hp.map _).nodup_iff.mp hk
  cases hg : get (ofPairs l₁) k with
  | some v =>
    exact ((key l₂ hk2 v).mpr (hp.mem_iff.mp ((key l₁ hk v).mp hg))).symm
  | none =>
    cases hg2 : get (ofPairs l₂) k with
    | none => rfl
    | some v =>
      have := (key l₁ hk v).mpr (hp.mem_iff.mpr ((key l₂ hk2 v).mp hg2))
      rw [hg] at this; simp at this

/-! ### agreement with the reference finite map, method by method -/

theorem get_insert' {m : SlotMap} (h : WF m) (k v k') :
    get (insert m k v) k' = if k' = k then some v else get m k' := get_insert h k v k'
theorem get_remove' {m : SlotMap} (h : WF m) (k k') :
    get (remove m k) k' = if k' = k then none else get m k' := get_remove h k k'
theorem mem_keys_iff {m : SlotMap} (h : WF m) (k) : k ∈ keys m ↔ (get m k).isSome :=
  (get_isSome_iff h k).symm
theorem mem_values_iff {m : SlotMap} (h : WF m) (v) : v ∈ valuesVec m ↔ ∃ k, get m k = some v := by
  constructor
  · intro hv; obtain ⟨p, hp, rfl⟩ := List.mem_map.mp hv
    exact ⟨p.1, (get_eq_some_iff h _ _).mpr hp⟩
  · rintro ⟨k, hk⟩; exact List.mem_map.mpr ⟨(k, v), (get_eq_some_iff h _ _).mp hk, rfl⟩
theorem get_identity' (s : List Nat) (x) : get (identity s) x = if x ∈ s then some x else none :=
  get_identity s x
theorem get_composePartial' {m : SlotMap} (h : WF m) (o x) :
    get (composePartial m o) x = (get m x).bind (get o) := get_composePartial h o x
theorem get_inverse' {m : SlotMap} (hw : WF m) (hb : isBijection m = true) (x y) :
    get (inverse m) y = some x ↔ get m x = some y := get_inverse hw ((isBijection_iff m).mp hb) x y
theorem get_union' {m o : SlotMap} (hm : WF m) (ho : WF o) (k) :
    get (union m o) k = match get o k with | some v => some v | none => get m k := get_union hm ho k

/-- `try_union` succeeds exactly on compatible maps and then equals `union`. -/
theorem tryUnion_spec {m o : SlotMap} (hm : WF m) (ho : WF o) :
    (Compatible m o → tryUnion m o = some (union m o)) ∧ (¬ Compatible m o → tryUnion m o = none) :=
  ⟨tryUnion_some hm ho, tryUnion_none hm ho⟩

/-- all constructors return well-formed maps -/
theorem wf_all (m o : SlotMap) (s : List Nat) (l : List (Nat × Nat)) (hm : WF m) :
    WF (inverse m) ∧ WF (composePartial m o) ∧ WF (identity s) ∧ WF (ofPairs l) ∧ WF (union m o) :=
  ⟨wf_inverse m, wf_composePartial m o, wf_identity s, wf_ofPairs l, wf_union hm o⟩

/-! ### the algebraic laws named in the property -/

/-- inverting a bijection twice gives it back -/
theorem inverse_inverse' {m : SlotMap} (hw : WF m) (hb : isBijection m = true) :
    inverse (inverse m) = m := inverse_inverse hw ((isBijection_iff m).mp hb)

/-- composition is associative (partial composition, unconditionally) -/
theorem compose_assoc' {a b : SlotMap} (ha : WF a) (hb : WF b) (c : SlotMap) :
    composePartial (composePartial a b) c = composePartial a (composePartial b c) :=
  compose_assoc ha hb c

/-- composing a bijection with its inverse is the identity on its keys -/
theorem compose_inverse_self' {m : SlotMap} (hw : WF m) (hb : isBijection m = true) :
    composePartial m (inverse m) = identity (keys m) :=
  compose_inverse_self hw ((isBijection_iff m).mp hb)

/-! ### non-vacuity: a 12-entry bijection (beyond the inline capacity of 10) meets the hypotheses -/
def big : SlotMap := ofPairs ((List.range 12).map (fun i => (4 * i, 4 * (11 - i) + 1)))
example : wfb big = true ∧ isBijection big = true ∧ big.length = 12 := by decide
example : inverse (inverse big) = big ∧ composePartial big (inverse big) = identity (keys big) := by
  decide


/-- **`compose_fresh` refines the reference map**: same key set as `self`; a key whose value is in the domain of
`other` is composed; every other key gets a fresh slot — at or above the fresh counter the call started from,
below the counter it leaves, of the fresh kind, and different keys get different fresh slots. -/
theorem composeFresh_spec (m o : SlotMap) (f : Nat) (hm : WF m) :
    WF (composeFresh m o f).1 ∧ f ≤ (composeFresh m o f).2 ∧
    (∀ k, (get (composeFresh m o f).1 k).isSome ↔ (get m k).isSome) ∧
    (∀ k v z, get m k = some v → get o v = some z → get (composeFresh m o f).1 k = some z) ∧
    (∀ k v, get m k = some v → get o v = none →
      ∃ c, get (composeFresh m o f).1 k = some c ∧ f ≤ c ∧ c < (composeFresh m o f).2 ∧ c % 4 = f % 4) ∧
    (∀ k v k' v', get m k = some v → get m k' = some v' → get o v = none → get o v' = none →
      get (composeFresh m o f).1 k = get (composeFresh m o f).1 k' → k = k') := by
  have h0 : CFInv o f [] ([], f) :=
    ⟨wf_nil, Nat.le_refl _, by intro k; simp [get], by intro p hp; simp at hp, by intro p hp; simp at hp,
     by intro p hp; simp at hp, rfl⟩
  have h := cf_foldl o f m [] ([], f) (by simpa [keys] using wf_nodup hm) h0
  rw [List.nil_append, ← composeFresh_eq] at h
  refine ⟨h.wf, h.ge, ?_, ?_, ?_, ?_⟩
  · intro k; rw [h.keys k, get_isSome_iff hm]; rfl
  · intro k v z hk hz
    exact h.hit (k, v) ((get_eq_some_iff hm k v).mp hk) z hz
  · intro k v hk hz
    exact h.miss (k, v) ((get_eq_some_iff hm k v).mp hk) hz
  · intro k v k' v' hk hk' hz hz' he
    exact h.inj (k, v) ((get_eq_some_iff hm k v).mp hk) (k', v') ((get_eq_some_iff hm k' v').mp hk') hz hz' he


/-- **`bijection_from_fresh_to` refines the reference map**: the `i`-th element of the (ordered) set is the image of the
`i`-th fresh slot handed out by the call, nothing else is a key, and the counter advances by one fresh slot per element. -/
theorem bijectionFromFreshTo_spec (s : List Nat) (f : Nat) :
    WF (bijectionFromFreshTo s f).1 ∧ (bijectionFromFreshTo s f).2 = f + 4 * s.length ∧
    (∀ i, get (bijectionFromFreshTo s f).1 (f + 4 * i) = s[i]?) ∧
    (∀ k v, get (bijectionFromFreshTo s f).1 k = some v → ∃ i, i < s.length ∧ k = f + 4 * i) := by
  have h0 : BFInv f [] ([], f) := ⟨wf_nil, by simp, by intro i; simp [get], by intro k v h; simp [get] at h⟩
  have h := bf_foldl f s [] ([], f) h0
  rw [List.nil_append, ← bijectionFromFreshTo_eq] at h
  exact ⟨h.wf, h.cnt, h.get, h.keys⟩

end SV.SlotMap.C19
