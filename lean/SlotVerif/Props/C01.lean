import SlotVerif.Proofs.Oracle
import SlotVerif.Proofs.Term
/-!
# C01 — Equality is sound: no equality is reported that the input does not imply

Spec: `Cong E` (`Model/Spec.lean`) on locally nameless terms.  The e-graph's mutators are not
modelled (DESIGN §4); what is proved here is the judge: the saturation oracle against which every
`eq`, dropped slot and symmetry claimed by the implementation is compared derives *only* members
of `Cong E` — for every universe, every pool, every candidate schedule, every size.
-/
namespace SV.C01
open SV SV.Term SV.Orc

/-- **oracle soundness**: start from the discrete partition, run any list of candidate merges:
elements that end up with one label are related by `Cong E`. -/
theorem oracle_sound (E : List (Term × Term)) (pool : List Nat) (univ : Array Term)
    (index : Std.HashMap String Nat) (cands : List (Nat × Nat)) :
    let o := ({ E := E, pool := pool, univ := univ, cls := Array.range univ.size, index := index } : Orc).run cands
    ∀ a b t u, o.univ[a]? = some t → o.univ[b]? = some u → o.find a = o.find b → Cong E t u := by
  intro o
  have h := run_sound cands (init_inv E pool univ index) (by simp)
  intro a b t u ha hb hab
  have := h.1 a b t u ha hb hab
  rwa [h.2.1] at this

/-- adding an asserted equation keeps the invariant (so the oracle can be run incrementally,
one union of the history after the other) -/
theorem inv_add_equation {o : Orc} (h : Inv o) (e : Term × Term) : Inv { o with E := e :: o.E } := by
  intro a b t u ha hb hab
  exact cong_mono (fun x hx => by simp [hx]) (h a b t u ha hb hab)

/-- one phase of the driver: assert an equation, then run candidates -/
def phase (o : Orc) (p : (Term × Term) × List (Nat × Nat)) : Orc := ({ o with E := p.1 :: o.E }).run p.2

/-- **incremental soundness over a whole history of unions** -/
theorem phases_sound (ps : List ((Term × Term) × List (Nat × Nat))) {o : Orc} (h : Inv o)
    (hsz : o.cls.size = o.univ.size) : Inv (ps.foldl phase o) := by
  induction ps generalizing o with
  | nil => exact h
  | cons p t ih =>
    simp only [List.foldl_cons]
    have h1 := run_sound p.2 (inv_add_equation h p.1) (o := { o with E := p.1 :: o.E }) hsz
    exact ih h1.1 h1.2.2.2

/-- reading of an equality answer: two looked-up terms with one label are `Cong`-equal -/
theorem spec_equal_sound {o : Orc} (h : Inv o) {t u : Term} {i j : Nat}
    (hi : o.lookup t = some i) (hj : o.lookup u = some j) (hc : o.find i = o.find j) : Cong o.E t u :=
  h i j t u (lookup_some hi) (lookup_some hj) hc

/-- reading of a dropped slot: the oracle reports `s` redundant in `t` only if it is (`Redundant`) -/
theorem spec_redundant_sound {o : Orc} (h : Inv o) {t : Term} {s c : Nat} {i j : Nat}
    (hs : s ∈ freeOcc t) (hc : isBvar c = false) (hct : c ∉ freeOcc t)
    (hi : o.lookup t = some i) (hj : o.lookup (mapFree (fun x => if x = s then c else x) t) = some j)
    (hcls : o.find i = o.find j) : Redundant o.E t s :=
  redundant_of_one_fresh hs hc hct (spec_equal_sound h hi hj hcls)

end SV.C01
