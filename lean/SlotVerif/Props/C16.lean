import SlotVerif.Model.Node
import SlotVerif.Proofs.ListAux
import SlotVerif.Proofs.Shape
import SlotVerif.Proofs.ShapeIdem
import SlotVerif.Proofs.Syntax
import SlotVerif.Proofs.ShapeDecode
import SlotVerif.Proofs.ShapeApply
import SlotVerif.Proofs.ShapeBij
import SlotVerif.Proofs.ShapeKeys
import SlotVerif.Proofs.ShapeImage
import SlotVerif.Proofs.AddInv
/-!
# C16 — Node shapes are canonical modulo renaming; derived Language impls are coherent

Model: `Model/Node.lean` (generic over the language signature, so the theorems cover every
`define_language!` instance).  This file: the occurrence-list laws and the central
shape law `weakShape_rename` — **the shape of a node does not change when all its slot occurrences
(free and bound alike) are renamed injectively**, for every node of every language, by a simulation
argument over the weak-shape state (`Proofs/Shape.lean`).  So free renaming and alpha-renaming of
binders both leave the shape — the hashcons key — unchanged.  `weakShape_idem`: **the shape of a shape is the shape itself**
(`Proofs/ShapeIdem.lean`).  `fromSyntax_toSyntax` / `fromSyntax_toSyntax_payload`: **`from_syntax(to_syntax(n)) = n`** for
every well-typed node of every signature (`Proofs/Syntax.lean`; the generated first-fitting-prefix loop
finds exactly each field's own syntax).  `node_decode`: **nothing but names is lost** — every node is its shape with
the shape's numbers renamed back to the names that received them (the total form of "applying the bijection to
the shape gives back the node": free *and* bound names; `Proofs/ShapeDecode.lean`).  Hence the converse of
`weakShape_rename`, `shape_eq_imp_renamed`: **two nodes with the same shape differ only by a renaming of their
occurrences**, injective whenever neither node uses one name for two different variables (`Hygienic`, decidable per
node; `shape_eq_iff_renamed`).  For non-hygienic nodes (a name bound twice, or bound and free) the two nodes are still
both renamings of the one shape (`same_shape_common_skeleton`), but no single renaming maps one to the other.
`weakShape_apply`: **applying the returned bijection to the shape** never fails and renames exactly the public
numbers back to the node's own free names, leaving binders as numbered (`apply_eq`); when no free name of the node
is a number its shape uses for a binder (`NoCapture` — decidable; its failure is the known finding F9, kernel-checked
below) the result has the shape of the original node, i.e. it *is* the node up to bound names
(`Proofs/ShapeApply.lean`: simulation over the weak-shape state with the frame lemmas of `ShapeIdem`).
-/
namespace SV.Node.C16
open SV

/-- binder names occurring in a field -/
def Field.binders : Field → List Nat
  | .bind s f => s :: Field.binders f
  | _ => []

def binders (n : Node) : List Nat := n.fields.flatMap Field.binders

theorem mem_dedupSorted_ins (x y : Nat) (l : List Nat) :
    y ∈ Node.dedupSorted.ins x l ↔ y = x ∨ y ∈ l := by
  induction l with
  | nil => simp [Node.dedupSorted.ins]
  | cons a t ih =>
    simp only [Node.dedupSorted.ins]
    split
    · simp
    · split
      · rename_i h; subst h; simp
      · simp [ih]; constructor
        · rintro (h | h | h) <;> simp [h]
        · rintro (h | h | h) <;> simp [h]

theorem mem_dedupSorted (l : List Nat) (y : Nat) : y ∈ Node.dedupSorted l ↔ y ∈ l := by
  unfold Node.dedupSorted
  suffices ∀ acc, y ∈ l.foldl (fun acc x => Node.dedupSorted.ins x acc) acc ↔ y ∈ acc ∨ y ∈ l by
    simpa using this []
  induction l with
  | nil => simp
  | cons a t ih =>
    intro acc
    simp only [List.foldl_cons, ih, mem_dedupSorted_ins, List.mem_cons]
    constructor
    · rintro ((h | h) | h) <;> simp [h]
    · rintro (h | h | h) <;> simp [h]

/-- **the free-slot set is the set of public occurrences** -/
theorem slots_eq_public (n : Node) (x : Nat) : x ∈ Node.slots n ↔ x ∈ Node.publicOcc n :=
  mem_dedupSorted _ x

theorem Field.public_sub_all (f : Field) : ∀ x ∈ Field.publicOcc f, x ∈ Field.allOcc f := by
  induction f with
  | slot s => simp [Field.publicOcc, Field.allOcc]
  | app a => simp [Field.publicOcc, Field.allOcc]
  | bind s f ih =>
    intro x hx
    simp only [Field.publicOcc, List.mem_filter] at hx
    simp only [Field.allOcc, List.mem_cons]
    exact Or.inr (ih x hx.1)
  | lit v => simp [Field.publicOcc]

/-- every public occurrence is an occurrence -/
theorem public_sub_all (n : Node) : ∀ x ∈ Node.publicOcc n, x ∈ Node.allOcc n := by
  intro x hx
  simp only [Node.publicOcc, Node.allOcc, List.mem_flatMap] at hx ⊢
  obtain ⟨f, hf, hx⟩ := hx
  exact ⟨f, hf, Field.public_sub_all f x hx⟩

/-- public and (name-based) private occurrences never share a name -/
theorem private_disjoint_public (n : Node) : ∀ x ∈ Node.privateOcc n, x ∉ Node.publicOcc n := by
  intro x hx
  simp only [Node.privateOcc, List.mem_filter] at hx
  simpa using hx.2

theorem Field.filter_all_eq (P : Nat → Bool) (f : Field)
    (hb : ∀ b ∈ Field.binders f, P b = false) :
    (Field.allOcc f).filter P = (Field.publicOcc f).filter P := by
  induction f with
  | slot s => rfl
  | app a => rfl
  | lit v => rfl
  | bind s f ih =>
    have hs : P s = false := hb s (by simp [Field.binders])
    have ih' := ih (fun b hb' => hb b (by simp [Field.binders, hb']))
    simp only [Field.allOcc, Field.publicOcc, List.filter_cons, hs]
    rw [List.filter_filter]
    simp only [Bool.false_eq_true, if_false]
    rw [ih']
    apply List.filter_congr
    intro x _
    by_cases hx : x = s
    · subst hx; simp [hs]
    · simp [hx]

/-- the hypothesis of the partition law: no binder name is also a public name of the node
(every node the e-graph itself builds satisfies it, because it refreshes private slots first) -/
def NoBinderPublic (n : Node) : Prop := ∀ b ∈ binders n, b ∉ Node.publicOcc n

/-- under `NoBinderPublic`, the public occurrences are exactly the occurrences with a public name … -/
theorem public_eq_filter (n : Node) (h : NoBinderPublic n) :
    (Node.allOcc n).filter (fun x => (Node.publicOcc n).contains x) = Node.publicOcc n := by
  have key : ∀ fs : List Field, (∀ f ∈ fs, ∀ b ∈ Field.binders f, (Node.publicOcc n).contains b = false) →
      (fs.flatMap Field.allOcc).filter (fun x => (Node.publicOcc n).contains x) =
      (fs.flatMap Field.publicOcc).filter (fun x => (Node.publicOcc n).contains x) := by
    intro fs hfs
    induction fs with
    | nil => rfl
    | cons f t ih =>
      simp only [List.flatMap_cons, List.filter_append]
      rw [Field.filter_all_eq _ f (hfs f (by simp)), ih (fun g hg => hfs g (by simp [hg]))]
  have hb : ∀ f ∈ n.fields, ∀ b ∈ Field.binders f, (Node.publicOcc n).contains b = false := by
    intro f hf b hb
    have := h b (by simp only [binders, List.mem_flatMap]; exact ⟨f, hf, hb⟩)
    simpa using this
  have := key n.fields hb
  simp only [Node.allOcc]
  rw [this]
  apply List.filter_eq_self.mpr
  intro x hx
  simpa [Node.publicOcc] using hx

/-- … and therefore **public and private occurrences partition all occurrences** (as multisets) -/
theorem occ_partition (n : Node) (h : NoBinderPublic n) :
    (Node.publicOcc n ++ Node.privateOcc n).Perm (Node.allOcc n) := by
  have h1 := public_eq_filter n h
  unfold Node.privateOcc
  conv => lhs; arg 1; rw [← h1]
  exact List.filter_append_perm _ _

/-- the unguarded partition law is false of the code (known finding F5b): `let $x (c[$x]) (d[$x])` -/
example : let n : Node := { v := 0, fields := [.bind 2 (.app ⟨1, [(4, 2)]⟩), .app ⟨2, [(4, 2)]⟩] }
    ¬ (Node.publicOcc n ++ Node.privateOcc n).Perm (Node.allOcc n) := by
  intro n h
  have := h.length_eq
  revert this; decide

/-- non-vacuity: a `let` node with a properly named binder meets `NoBinderPublic` -/
example : NoBinderPublic { v := 0, fields := [.bind 6 (.app ⟨1, [(4, 6), (8, 2)]⟩), .app ⟨2, [(4, 2)]⟩] } := by
  intro b hb; revert b; decide


/-- **Shapes are invariant under injective renaming of all slot occurrences** (`weak_shape().0`):
renaming the free slots and alpha-renaming the binders of a node, with any map injective on the
node's occurrences, gives a node with literally the same shape. -/
theorem weakShape_rename (n : Node) (ρ : Nat → Nat) (hρ : Shape.InjOn ρ (Node.allOcc n)) :
    (Node.weakShape (Node.rename ρ n)).1 = (Node.weakShape n).1 := by
  have h0 : Shape.Rel ρ (Node.allOcc n) (([], 0) : Field.WS) ([], 0) :=
    ⟨rfl, SlotMap.wf_nil, SlotMap.wf_nil, fun _ _ => rfl⟩
  have hA : ∀ f ∈ n.fields, ∀ x ∈ Field.allOcc f, x ∈ Node.allOcc n := by
    intro f hf x hx
    simp only [Node.allOcc, List.mem_flatMap]
    exact ⟨f, hf, hx⟩
  obtain ⟨h1, _⟩ := Shape.weakShapeFields_rel hρ n.fields h0 hA
  simp only [Node.weakShape, Node.rename]
  rw [h1]

/-- the counter of fresh shape names advances identically, and the two final renamings agree along `ρ` -/
theorem weakShape_rename_state (n : Node) (ρ : Nat → Nat) (hρ : Shape.InjOn ρ (Node.allOcc n)) :
    Shape.Rel ρ (Node.allOcc n) (Node.weakShapeFields n.fields ([], 0)).2
      (Node.weakShapeFields (n.fields.map (Field.rename ρ)) ([], 0)).2 := by
  have h0 : Shape.Rel ρ (Node.allOcc n) (([], 0) : Field.WS) ([], 0) :=
    ⟨rfl, SlotMap.wf_nil, SlotMap.wf_nil, fun _ _ => rfl⟩
  have hA : ∀ f ∈ n.fields, ∀ x ∈ Field.allOcc f, x ∈ Node.allOcc n := by
    intro f hf x hx
    simp only [Node.allOcc, List.mem_flatMap]
    exact ⟨f, hf, hx⟩
  exact (Shape.weakShapeFields_rel hρ n.fields h0 hA).2

/-- two nodes that differ by an injective renaming have the same shape (so they hit the same hashcons entry) -/
theorem shape_eq_of_renamed (n m : Node) (ρ : Nat → Nat) (hρ : Shape.InjOn ρ (Node.allOcc n))
    (h : m = Node.rename ρ n) : (Node.weakShape m).1 = (Node.weakShape n).1 := by
  subst h; exact weakShape_rename n ρ hρ

/-- non-vacuity: `lam $x. f($x, $y)` and its alpha/free renaming `lam $a. f($a, $b)` (kernel-checked shapes) -/
def exNode : Node := { v := 0, fields := [.bind 8 (.app { id := 3, m := [(0, 8), (4, 12)] })] }
example : (Node.weakShape (Node.rename (fun x => x + 100) exNode)).1 = (Node.weakShape exNode).1 := by decide
example : Shape.InjOn (fun x => x + 100) (Node.allOcc exNode) := by
  intro a _ b _ h; simpa using h


/-! ### nothing but names is lost; the converse of `weakShape_rename` -/

theorem allOcc_rename (ρ : Nat → Nat) (n : Node) : Node.allOcc (Node.rename ρ n) = (Node.allOcc n).map ρ := by
  unfold Node.allOcc Node.rename
  simp only
  induction n.fields with
  | nil => rfl
  | cons f t ih => simp only [List.map_cons, List.flatMap_cons, List.map_append, ShapeDecode.allOcc_rename, ih]

theorem rename_rename (ρ σ : Nat → Nat) (n : Node) : Node.rename σ (Node.rename ρ n) = Node.rename (fun x => σ (ρ x)) n := by
  unfold Node.rename
  simp only [List.map_map]
  congr 1
  apply List.map_congr_left
  intro f _
  exact ShapeDecode.rename_rename ρ σ f

theorem rename_congr {ρ ρ' : Nat → Nat} (n : Node) (h : ∀ x ∈ Node.allOcc n, ρ x = ρ' x) :
    Node.rename ρ n = Node.rename ρ' n := by
  unfold Node.rename
  congr 1
  apply List.map_congr_left
  intro f hf
  apply ShapeDecode.rename_congr
  intro x hx
  exact h x (by simp only [Node.allOcc, List.mem_flatMap]; exact ⟨f, hf, hx⟩)

/-- **every node is its shape with the numbers renamed back** (`namesOf n` lists, per shape number, the name it replaced) -/
theorem node_decode (n : Node) :
    Node.rename (ShapeDecode.decode (ShapeDecode.namesOf n)) (Node.weakShape n).1 = n :=
  ShapeDecode.node_decode n

/-- two nodes with the same shape are renamings of one common skeleton -/
theorem same_shape_common_skeleton (n m : Node) (h : (Node.weakShape n).1 = (Node.weakShape m).1) :
    ∃ sh dn dm, n = Node.rename dn sh ∧ m = Node.rename dm sh :=
  ⟨(Node.weakShape n).1, _, _, (node_decode n).symm, by rw [h]; exact (node_decode m).symm⟩

/-- no name of the node stands for two different variables (a name bound by two binders, or bound and also free):
decoding is injective on the occurrences of the shape -/
def Hygienic (n : Node) : Prop :=
  Shape.InjOn (ShapeDecode.decode (ShapeDecode.namesOf n)) (Node.allOcc (Node.weakShape n).1)

instance (n : Node) : Decidable (Hygienic n) := by unfold Hygienic Shape.InjOn; infer_instance

/-- **equal shapes ⇒ equal up to renaming**: the converse of `weakShape_rename` -/
theorem shape_eq_imp_renamed (n m : Node) (h : (Node.weakShape n).1 = (Node.weakShape m).1) (hn : Hygienic n) :
    ∃ ρ, m = Node.rename ρ n ∧ (Hygienic m → Shape.InjOn ρ (Node.allOcc n)) := by
  let sh := (Node.weakShape n).1
  let dn := ShapeDecode.decode (ShapeDecode.namesOf n)
  let dm := ShapeDecode.decode (ShapeDecode.namesOf m)
  let ρ : Nat → Nat := fun x => match (Node.allOcc sh).find? (fun c => dn c == x) with
    | some c => dm c
    | none => x
  have hn' : Node.rename dn sh = n := node_decode n
  have hm' : Node.rename dm sh = m := by have := node_decode m; rw [← h] at this; exact this
  have hρ : ∀ c ∈ Node.allOcc sh, ρ (dn c) = dm c := by
    intro c hc
    simp only [ρ]
    cases hf : (Node.allOcc sh).find? (fun c' => dn c' == dn c) with
    | none =>
      have := List.find?_eq_none.mp hf c hc
      simp at this
    | some c' =>
      have h1 : dn c' = dn c := by simpa using List.find?_some hf
      have h2 : c' ∈ Node.allOcc sh := List.mem_of_find?_eq_some hf
      rw [hn c' h2 c hc h1]
  refine ⟨ρ, ?_, ?_⟩
  · rw [← hm', ← hn', rename_rename]
    exact (rename_congr sh hρ).symm
  · intro hmh a ha b hb hab
    rw [← hn', allOcc_rename] at ha hb
    obtain ⟨c1, hc1, rfl⟩ := List.mem_map.mp ha
    obtain ⟨c2, hc2, rfl⟩ := List.mem_map.mp hb
    rw [hρ c1 hc1, hρ c2 hc2] at hab
    have hmh' : Shape.InjOn dm (Node.allOcc sh) := by
      have := hmh; unfold Hygienic at this; rw [← h] at this; exact this
    rw [hmh' c1 hc1 c2 hc2 hab]

/-- **two hygienic nodes have equal shapes exactly when they differ by an injective renaming of their occurrences** -/
theorem shape_eq_iff_renamed (n m : Node) (hn : Hygienic n) (hm : Hygienic m) :
    (Node.weakShape m).1 = (Node.weakShape n).1 ↔ ∃ ρ, Shape.InjOn ρ (Node.allOcc n) ∧ m = Node.rename ρ n := by
  constructor
  · intro h
    obtain ⟨ρ, h1, h2⟩ := shape_eq_imp_renamed n m h.symm hn
    exact ⟨ρ, h2 hm, h1⟩
  · rintro ⟨ρ, hρ, rfl⟩
    exact weakShape_rename n ρ hρ

/-- non-vacuity: `exNode` is hygienic; a node that binds `8` and also uses it free is not, and is still decoded -/
example : Hygienic exNode := by decide
example : ¬ Hygienic { v := 0, fields := [.slot 8, .bind 8 (.slot 8)] } := by decide
example : ShapeDecode.namesOf { v := 0, fields := [.slot 8, .bind 8 (.slot 8)] } = [8, 8] := by decide


/-- **The shape of a shape is itself** (`sh.weak_shape().0 == sh` for every `sh = n.weak_shape().0`), for all
nodes of all languages, including binders that shadow an enclosing slot name. -/
theorem weakShape_idem (n : Node) : (Node.weakShape (Node.weakShape n).1).1 = (Node.weakShape n).1 := by
  have h0 : ShapeIdem.Inv (([], 0) : Field.WS) ([], 0) :=
    ⟨rfl, SlotMap.wf_nil, SlotMap.wf_nil, fun _ _ h => by simp [SlotMap.get] at h,
     fun _ _ h => by simp [SlotMap.get] at h, fun _ _ h => by simp [SlotMap.get] at h⟩
  obtain ⟨h1, _⟩ := ShapeIdem.step_fields n.fields h0
  simp only [Node.weakShape]
  rw [h1]

/-- **the bijection `weak_shape` returns is a well-formed injective map**, for every node of every language (what the e-graph stores
beside a shape and composes with on every lookup) -/
theorem weakShape_bijection_wellformed (n : Node) :
    SlotMap.wfb (Node.weakShape n).2 = true ∧ SlotMap.isBijection (Node.weakShape n).2 = true :=
  Node.weakShape_bij_ok n

/-- **the returned bijection is defined on every free slot of the shape** (so `apply_slotmap(bijection)` on a stored shape never hits the
`SlotMap::index` panic) — one inclusion of `keys bij = slots(shape)`, the third conjunct of the snapshot invariant's `nodeOK` -/
theorem weakShape_bijection_defined_on_slots (n : Node) :
    ∀ x ∈ Node.slots (Node.weakShape n).1, x ∈ SlotMap.keys (Node.weakShape n).2 := by
  intro x hx
  rw [slots_eq_public] at hx
  unfold Node.publicOcc at hx
  obtain ⟨f', hf', hxf⟩ := List.mem_flatMap.mp hx
  have hg := (ShapeApply.bij_spec n f' hf').1 x hxf
  have hw : SlotMap.WF (Node.weakShape n).2 := SlotMap.wf_inverse _
  have := (SlotMap.get_eq_some_iff hw _ _).mp hg
  exact List.mem_map.mpr ⟨_, this, rfl⟩

theorem pairwise_dedupSorted_ins (x : Nat) : ∀ (l : List Nat), l.Pairwise (· < ·) → (Node.dedupSorted.ins x l).Pairwise (· < ·)
  | [], _ => by simp [Node.dedupSorted.ins]
  | a :: t, h => by
    rw [List.pairwise_cons] at h
    simp only [Node.dedupSorted.ins]
    split
    · rename_i hxa
      rw [List.pairwise_cons]
      refine ⟨?_, List.pairwise_cons.mpr h⟩
      intro z hz
      rcases List.mem_cons.mp hz with hz | hz
      · omega
      · have := h.1 z hz; omega
    · split
      · exact List.pairwise_cons.mpr h
      · rename_i h1 h2
        rw [List.pairwise_cons]
        refine ⟨?_, pairwise_dedupSorted_ins x t h.2⟩
        intro z hz
        rcases (mem_dedupSorted_ins x z t).mp hz with hz | hz
        · omega
        · exact h.1 z hz

/-- **`slots()` ascends strictly** (the `VecSet` a node's free slots are collected into) -/
theorem slots_sorted (n : Node) : (Node.slots n).Pairwise (· < ·) := by
  unfold Node.slots Node.dedupSorted
  suffices ∀ (l acc : List Nat), acc.Pairwise (· < ·) →
      (l.foldl (fun acc x => Node.dedupSorted.ins x acc) acc).Pairwise (· < ·) from this _ [] List.Pairwise.nil
  intro l
  induction l with
  | nil => intro acc h; exact h
  | cons a t ih => intro acc h; exact ih _ (pairwise_dedupSorted_ins a acc h)

/-- **the keys of the bijection `weak_shape` returns are exactly the free slots of the shape**, as lists, for every node of every
language (`keys e.2 == Node.slots e.1`, the third conjunct of the snapshot invariant's `nodeOK`): defined on every free slot
(`weakShape_bijection_defined_on_slots`) and on nothing else — no binder number and no stale number stays in the renaming
(`Proofs/ShapeKeys.lean`) -/
theorem weakShape_bijection_keys (n : Node) : SlotMap.keys (Node.weakShape n).2 = Node.slots (Node.weakShape n).1 := by
  apply Snap.sorted_ext
  · have hw : SlotMap.WF (Node.weakShape n).2 := SlotMap.wf_inverse _
    unfold SlotMap.WF at hw
    unfold SlotMap.keys
    exact List.pairwise_map.mpr hw
  · exact slots_sorted _
  · intro x
    constructor
    · intro hx
      rw [slots_eq_public]
      exact ShapeKeys.keys_public n x hx
    · exact weakShape_bijection_defined_on_slots n x

/-- **the image of the bijection `weak_shape` returns is the free-slot set of the node** (`Proofs/ShapeImage.lean`: the renaming is
defined, after each field, on what it was defined on before and on the field's free occurrences; a binder's entry is removed or the
shadowed one restored) — with `weakShape_bijection_keys`: the bijection is a bijection from `slots(shape)` onto `slots(node)` -/
theorem weakShape_bijection_image (n : Node) (x : Nat) :
    x ∈ SlotMap.valuesVec (Node.weakShape n).2 ↔ x ∈ Node.slots n := by
  rw [slots_eq_public]
  exact ShapeImage.image_public n x

/-- non-vacuity (kernel-checked): the shadowing node below has free slots `{8, 12}`; its bijection is `$0 ↦ 8, $8 ↦ 12`, and the binder's
number `$4` is not a key -/
example : (Node.weakShape { v := 0, fields := [.slot 8, .bind 8 (.app { id := 3, m := [(0, 8), (4, 12)] }), .slot 8] }).2 = [(0, 8), (8, 12)] := by
  decide

/-- non-vacuity (kernel-checked): a binder shadowing a free slot of the same name -/
def exShadow : Node := { v := 0, fields := [.slot 8, .bind 8 (.app { id := 3, m := [(0, 8), (4, 12)] }), .slot 8] }
example : (Node.weakShape exShadow).1 =
    { v := 0, fields := [.slot 0, .bind 4 (.app { id := 3, m := [(0, 4), (4, 8)] }), .slot 0] } := by decide
example : (Node.weakShape (Node.weakShape exShadow).1).1 = (Node.weakShape exShadow).1 := by decide


/-! ### applying the returned bijection -/

/-- **applying the bijection to the shape gives back the node up to bound names.**  The call succeeds for every node;
the result is the shape with every public number renamed to the free name of `n` it replaced and every binder (and
the occurrences it binds) left as numbered; and, when no free name collides with a binder number, its shape is the
shape of `n` and its free slots are those of `n` in the same order. -/
theorem weakShape_apply (n : Node) :
    ∃ n', Node.applySlotmap (Node.weakShape n).1 (Node.weakShape n).2 = some n' ∧
      n' = Node.rename (ShapeApply.back n) (Node.weakShape n).1 ∧
      (∀ x ∈ Node.publicOcc (Node.weakShape n).1, ShapeApply.back n x = ShapeDecode.decode (ShapeDecode.namesOf n) x) ∧
      (∀ b ∈ ShapeApply.bindersN (Node.weakShape n).1, ShapeApply.back n b = b) ∧
      (ShapeApply.NoCapture n → (Node.weakShape n').1 = (Node.weakShape n).1) := by
  refine ⟨_, ShapeApply.apply_eq n, rfl, ShapeApply.back_public n, ShapeApply.back_binder n, ?_⟩
  intro hnc
  rw [weakShape_rename _ _ (ShapeApply.back_injOn n hnc)]
  exact weakShape_idem n

/-- non-vacuity, and the capture of finding F9 as a kernel-checked fact: `lam $8. f($8, $12)` meets `NoCapture`;
`lam $8. c($8, $0)` — the free numeric slot `$0` is the number the shape gives the binder — does not, and applying the
bijection captures it: the result has a different shape -/
example : ShapeApply.NoCapture exNode := by decide
example : ¬ ShapeApply.NoCapture { v := 0, fields := [.bind 8 (.app ⟨3, [(0, 8), (4, 0)]⟩)] } := by decide
example : let n : Node := { v := 0, fields := [.bind 8 (.app ⟨3, [(0, 8), (4, 0)]⟩)] }
    ((Node.applySlotmap (Node.weakShape n).1 (Node.weakShape n).2).map fun n' => (Node.weakShape n').1) ≠
      some (Node.weakShape n).1 := by decide

/-- **`from_syntax ∘ to_syntax = id`** for a variant with an operator string: fields of the kinds the variant
declares (payloads reading back as themselves), and no earlier variant with the same operator string -/
theorem fromSyntax_toSyntax (sig : Sig) (n : Node) (vr : Variant) (name : String)
    (hv : sig[n.v]? = some vr) (hn : vr.name = some name) (hk : Syntax.HasKinds n.fields vr.kinds)
    (hfirst : ∀ j, j < n.v → (sig[j]?.bind (·.name)) ≠ some name) :
    fromSyntax sig (Node.toSyntax sig n) = some n :=
  Syntax.fromSyntax_toSyntax_named sig n vr name hv hn hk hfirst

/-- … and for a payload variant whose printed payload is unambiguous (not an operator string, not accepted
by an earlier payload variant) -/
theorem fromSyntax_toSyntax_payload (sig : Sig) (n : Node) (vr : Variant) (ty v : String) (ks : List Kind)
    (hv : sig[n.v]? = some vr) (hn : vr.name = none) (hkinds : vr.kinds = .lit ty :: ks)
    (hf : n.fields = [.lit v]) (hparse : parseLit ty v = some v)
    (hnoop : ∀ j, j < sig.length → (sig[j]?.bind (·.name)) ≠ some v)
    (hearlier : ∀ j, j < n.v → ∀ vr', sig[j]? = some vr' → vr'.name = none →
      ∀ k ks', vr'.kinds = k :: ks' → Kind.fromSyntax k [.str v] = none) :
    fromSyntax sig (Node.toSyntax sig n) = some n :=
  Syntax.fromSyntax_toSyntax_payload sig n vr ty v ks hv hn hkinds hf hparse hnoop hearlier

/-- non-vacuity: `(let $x <body> <value>)` in a two-variant signature -/
def exSig : Sig := [⟨some "var", [.slot]⟩, ⟨some "let", [.bind .app, .app]⟩]
def exLet : Node := { v := 1, fields := [.bind 8 (.app { id := 1, m := [] }), .app { id := 2, m := [] }] }
example : fromSyntax exSig (Node.toSyntax exSig exLet) = some exLet := by
  apply fromSyntax_toSyntax exSig exLet ⟨some "let", [.bind .app, .app]⟩ "let" rfl rfl
  · exact .cons (.bind 8 (.app _)) (.cons (.app _) .nil)
  · intro j hj
    have : j = 0 := by simp [exLet] at hj; omega
    subst this; decide

end SV.Node.C16
