import SlotVerif.Props.C08
import SlotVerif.Props.C01
import SlotVerif.Proofs.LookupEquiv
import SlotVerif.Proofs.LookupFind
import SlotVerif.Proofs.Variants
import SlotVerif.Proofs.MinKey
import SlotVerif.Proofs.Add
import SlotVerif.Proofs.AddGroup
import SlotVerif.Proofs.AddSeq
import SlotVerif.Proofs.AddInv
import SlotVerif.Proofs.ShapeBij
import SlotVerif.Props.C16
/-!
# C09 — Insertion is canonical: known terms create nothing, lookup agrees with add

`add`'s new-class path is modelled since session 7 (`Model/Add.lean`: `Snap.addNew`, tied to the code by the `addnew`
query of the `snap` suite: the model applied to the dump before the insertion must give the dump after it); see the
last section of this file.  Modelled exactly as well: `lookup` / `shape` /
`find` on a dumped state (`Model/Snapshot.lean`); they are *pure functions of the dump* by
construction, which is the model-level content of "lookup never modifies the e-graph" (the only
mutation the Rust functions perform is union-find path compression; the harness dumps the state
before and after and compares).  Proved here: the facts about a consistent state that make the
lookup result well defined, the spec-side reading of "represented", and `lookup_equivariant` —
**renaming the node's slots renames the result in the same way**: for every state with a well-formed
union-find, every e-node and every injective renaming of its slot occurrences (free slots, binder
names, arguments of the children), `lookup` of the renamed node is the renamed `lookup`
(`Proofs/LookupEquiv.lean`: `find_enode`, group-compatible variants, choice of the minimal variant, weak
shape with its bijection and the hashcons lookup each commute with the renaming).
-/
namespace SV.C09
open SV SV.Snap SV.SlotMap

/-- the result of `lookup` carries only class slots as keys (redundant positions of the stored
e-node never reach the returned invocation) -/
theorem lookupShape_keys_subset (s : Snap) (sh : Node) (nbij : SlotMap) (a : AppId)
    (h : lookupShape s sh nbij = some a) :
    ∃ c ∈ s.classes, c.id = a.id ∧ ∀ p ∈ a.m, p.1 ∈ c.slots := by
  unfold lookupShape at h
  obtain ⟨c, hc, hf⟩ := List.exists_of_findSome?_eq_some h
  refine ⟨c, hc, ?_⟩
  split at hf
  · simp at hf
  · rename_i cn hn
    simp at hf
    subst hf
    refine ⟨rfl, ?_⟩
    intro p hp
    have := (List.mem_filter.mp hp).2
    simpa using this

theorem nodup_flatMap_index {α β} (f : α → List β) : ∀ (l : List α), (l.flatMap f).Nodup →
    ∀ (i j : Nat) (hi : i < l.length) (hj : j < l.length) (x : β), x ∈ f l[i] → x ∈ f l[j] → i = j
  | [], _, i, _, hi, _, _, _, _ => by simp at hi
  | a :: t, h, i, j, hi, hj, x, hxi, hxj => by
    simp only [List.flatMap_cons, List.nodup_append] at h
    obtain ⟨_, ht, hdis⟩ := h
    cases i with
    | zero =>
      cases j with
      | zero => rfl
      | succ j' =>
        exfalso
        simp at hxi hxj
        have hj' : j' < t.length := by simpa using hj
        have : x ∈ t.flatMap f := List.mem_flatMap.mpr ⟨t[j'], List.getElem_mem hj', hxj⟩
        exact hdis x hxi x this rfl
    | succ i' =>
      cases j with
      | zero =>
        exfalso
        simp at hxi hxj
        have hi' : i' < t.length := by simpa using hi
        have : x ∈ t.flatMap f := List.mem_flatMap.mpr ⟨t[i'], List.getElem_mem hi', hxi⟩
        exact hdis x hxj x this rfl
      | succ j' =>
        simp at hxi hxj
        have := nodup_flatMap_index f t ht i' j' (by simpa using hi) (by simpa using hj) x hxi hxj
        omega

/-- **no e-node belongs to two classes**: on a consistent state a stored shape determines the
position of its class, so `lookup` (a search for the shape) has at most one candidate -/
theorem lookup_class_unique {s : Snap} (h : checkInv s = true) (i j : Nat) (hi : i < s.classes.length)
    (hj : j < s.classes.length) (sh : Node)
    (h1 : sh ∈ s.classes[i].nodes.map (·.1)) (h2 : sh ∈ s.classes[j].nodes.map (·.1)) : i = j :=
  nodup_flatMap_index (fun c : SClass => c.nodes.map (·.1)) s.classes (SV.C08.inv_unique_class h) i j hi hj sh h1 h2

/-- canonicalisation used by `lookup` is idempotent on consistent states (re-export) -/
theorem find_idem_of_inv {s : Snap} (h : checkInv s = true) {a b : AppId} (hf : find s a = some b) :
    find s b = some b := SV.C08.inv_find_idem h hf

/-- spec-side reading of "represented": a term that the oracle finds in its universe with the label of
an inserted term is `Cong`-equal to it (so `lookup = Some ⇒ the term is equal to something inserted`) -/
theorem represented_sound {o : Orc} (h : Orc.Inv o) {t u : Term} {i j : Nat}
    (hi : o.lookup t = some i) (hj : o.lookup u = some j) (hc : o.find i = o.find j) : Cong o.E t u :=
  SV.C01.spec_equal_sound h hi hj hc

/-- **renaming the term's slots renames the result in the same way** (and an absent node stays absent) -/
theorem lookup_equivariant {s : Snap} (hok : ufOK s = true) {ρ : Nat → Nat} (hρ : ∀ x y, ρ x = ρ y → x = y) (n : Node) :
    lookup s (Node.rename ρ n) = (lookup s n).map (renApp ρ) :=
  lookup_rename (ufOK_sound hok).1 hρ n

/-- … in particular whether a node is already represented does not depend on its slot names -/
theorem lookup_isSome_equivariant {s : Snap} (hok : ufOK s = true) {ρ : Nat → Nat} (hρ : ∀ x y, ρ x = ρ y → x = y)
    (n : Node) : (lookup s (Node.rename ρ n)).isSome = (lookup s n).isSome := by
  rw [lookup_equivariant hok hρ]; cases lookup s n <;> rfl

/-- non-vacuity: on the two-class state of C08, `f($40, $44)` and its renaming by `+100` both hit class 1 -/
example : ufOK SV.C08.demo = true ∧
    lookup SV.C08.demo ⟨0, [.slot 40, .slot 44]⟩ = some ⟨1, [(9, 40)]⟩ ∧
    lookup SV.C08.demo (Node.rename (· + 100) ⟨0, [.slot 40, .slot 44]⟩) = some ⟨1, [(9, 140)]⟩ := by decide

/-- **stale handles do not matter**: an e-node built from any handles of its children (ids of classes merged away since,
invocations that still carry dropped arguments) is looked up exactly like the e-node built from the canonical handles —
`find_enode` is idempotent (`Proofs/LookupFind.lean`, from `find_idem`), for every state whose union-find passes `ufOK` -/
theorem lookup_ignores_stale_handles {s : Snap} (h : Snap.checkInv s = true) {n n' : Node}
    (hf : Snap.findNode s n = some n') : Snap.lookup s n' = Snap.lookup s n := by
  have hok : Snap.ufOK s = true := by
    unfold Snap.checkInv at h
    simp only [Bool.and_eq_true] at h
    exact h.1.1
  exact Snap.lookup_findNode hok hf

/-- **the set of group-compatible variants does not depend on the spelling**: replace every child invocation of an e-node by
any of its symmetric copies (one element of the child's class group each) — the set `get_group_compatible_variants` returns
for the result is the set it returns for the original.  From `allPerms` = the generated subgroup (C10) and closure of a group
under right multiplication; for every state, every node, every choice (`Proofs/Variants.lean`).  This is what makes "the
minimum over the variants" (the canonical shape) and "the matcher visits every orientation of a symmetric child" independent
of which symmetric spelling an e-node is given in. -/
theorem variants_closed {s : Snap} {n : Node} (hok : ∀ a ∈ Node.appOcc n, Snap.ChildOK s a) {ps0 : List Perm}
    (h0 : Snap.Pick ps0 ((Node.appOcc n).map (Snap.grpOf s))) (v : Node) :
    v ∈ Snap.variants s (Snap.withApps n (Snap.applyAll (Node.appOcc n) ps0)) ↔ v ∈ Snap.variants s n :=
  Snap.variants_of_variant hok h0 v

/-- in particular every variant of a node has the node among its own variants' set: a variant of a variant is a variant -/
theorem variant_of_variant_is_variant {s : Snap} {n : Node} (hok : ∀ a ∈ Node.appOcc n, Snap.ChildOK s a)
    {ps0 : List Perm} (h0 : Snap.Pick ps0 ((Node.appOcc n).map (Snap.grpOf s))) {v : Node}
    (hv : v ∈ Snap.variants s (Snap.withApps n (Snap.applyAll (Node.appOcc n) ps0))) : v ∈ Snap.variants s n :=
  (Snap.variants_of_variant hok h0 v).mp hv

/-- **the occurrence list of the canonical variant does not depend on the symmetric spelling**: `proven_proven_pre_shape`
minimises the slot-occurrence list of the weak shape over the group-compatible variants (`lexLt` is a strict total order,
the fold returns a minimal element: `Proofs/MinKey.lean`); an e-node with canonical children and the same e-node with every
child replaced by a symmetric copy have canonical variants with the same occurrence list.  (That equal occurrence lists of
two variants of one node mean equal weak shapes — the last step to `shape n' = shape n` — is not proved.) -/
theorem canonical_key_invariant {s : Snap} {n : Node} (hok : ∀ a ∈ Node.appOcc n, Snap.ChildOK s a) {ps0 : List Perm}
    (h0 : Snap.Pick ps0 ((Node.appOcc n).map (Snap.grpOf s))) (hcan : Snap.findNode s n = some n)
    (hcan' : Snap.findNode s (Snap.withApps n (Snap.applyAll (Node.appOcc n) ps0)) =
      some (Snap.withApps n (Snap.applyAll (Node.appOcc n) ps0)))
    {r r' : Node} (hr : Snap.preShape s n = some r)
    (hr' : Snap.preShape s (Snap.withApps n (Snap.applyAll (Node.appOcc n) ps0)) = some r') :
    Snap.shapeKey r = Snap.shapeKey r' :=
  Snap.preShape_key_of_variant hok h0 hcan hcan' hr hr'

/-! ### `add` (`Model/Add.lean`) -/

/-- "known terms create nothing": when `lookup` finds the node, `add` does not take the path that allocates a class -/
theorem known_node_creates_nothing {s : Snap} {n syn : Node} {f2o : SlotMap} {data : String} {x : AppId}
    (h : Snap.lookup s n = some x) : Snap.addNew s n f2o syn data = none :=
  Snap.add_hit_creates_nothing h

/-- an insertion that does allocate appends exactly one union-find entry and one class, whose id is the old table length,
and returns that class applied to a bijection -/
theorem insertion_allocates_one_class {s s' : Snap} {n syn : Node} {f2o : SlotMap} {data : String} {a : AppId}
    (h : Snap.addNew s n f2o syn data = some (s', a)) :
    s'.uf = s.uf ++ [{ id := s.uf.length, m := SlotMap.identity (SlotMap.keys f2o) }] ∧
    a = { id := s.uf.length, m := f2o } ∧ SlotMap.isBijection f2o = true ∧
    (∀ j, j ≠ s.uf.length → Snap.cls s' j = Snap.cls s j) := by
  obtain ⟨_, _, _, _, _, _, ha, _, hb, _⟩ := Snap.addNew_form h
  exact ⟨Snap.addNew_uf h, ha, hb, fun j hj => Snap.cls_survives_add h hj⟩

/-- **lookup agrees with add**: after an insertion that created a class, `lookup` of the same node finds that class — for every
state with a well-formed union-find in which no class id lies beyond the table (both checked per run by the `addnew` query).
`shape` of the node is the same in both states (`shape_ext`: the children resolve as before — `find_survives_add` — and their
classes are untouched), no old class stores the shape, the new class does. -/
theorem lookup_agrees_with_add {s s' : Snap} {n syn : Node} {f2o : SlotMap} {data : String} {a : AppId}
    (hok : Snap.ufOK s = true) (hids : ∀ c ∈ s.classes, c.id ≠ s.uf.length)
    (h : Snap.addNew s n f2o syn data = some (s', a)) : ∃ m, Snap.lookup s' n = some { id := a.id, m := m } :=
  Snap.lookup_after_add (Snap.ufOK_sound hok).1 hids h

/-- **known terms stay known**: a node that `lookup` found before an insertion is found afterwards, with the same result -/
theorem known_terms_stay_known {s s' : Snap} {n m syn : Node} {f2o : SlotMap} {data : String} {a x : AppId}
    (hok : Snap.AddOK s) (h : Snap.addNew s n f2o syn data = some (s', a)) (hl : Snap.lookup s m = some x) :
    Snap.lookup s' m = some x :=
  Snap.lookup_survives_add hok.1 (Snap.addOK_ids hok) h hl

/-- **the class an insertion creates is a well-formed class**: it is found under the returned id, its slot set is the domain of the
returned bijection, its stored generators are permutations of its slots (`addAll_generators`: they generate exactly the subgroup
generated by the node's self-symmetries), and therefore `eq` is an equivalence relation on its invocations -/
theorem inserted_class_is_well_formed {s s' : Snap} {n syn : Node} {f2o : SlotMap} {data : String} {a : AppId}
    (hok : Snap.AddOK s) (h : Snap.addNew s n f2o syn data = some (s', a)) :
    ∃ c, Snap.cls s' a.id = some c ∧ c.id = a.id ∧ c.slots = SlotMap.keys f2o ∧ Grp.Valid c.slots c.gens ∧
      (∀ x A, Snap.find s' x = some ⟨c.id, A⟩ → Snap.IsEmb c.slots A → Snap.eq s' x x = some true) ∧
      (∀ x y A B, Snap.find s' x = some ⟨c.id, A⟩ → Snap.find s' y = some ⟨c.id, B⟩ → Snap.IsEmb c.slots A →
        Snap.IsEmb c.slots B → Snap.eq s' x y = some true → Snap.eq s' y x = some true) ∧
      (∀ x y z A B D, Snap.find s' x = some ⟨c.id, A⟩ → Snap.find s' y = some ⟨c.id, B⟩ → Snap.find s' z = some ⟨c.id, D⟩ →
        Snap.IsEmb c.slots A → Snap.IsEmb c.slots B → Snap.IsEmb c.slots D →
        Snap.eq s' x y = some true → Snap.eq s' y z = some true → Snap.eq s' x z = some true) := by
  obtain ⟨c, hcls, hid, hslots, hv⟩ := Snap.add_new_class_valid (Snap.addOK_ids hok) h
  have hcls' : Snap.cls s' c.id = some c := by rw [hid]; exact hcls
  obtain ⟨h1, h2, h3⟩ := C08.eq_is_equivalence hcls' hv
  exact ⟨c, hcls, hid, hslots, hv, h1, h2, h3⟩

/-- **lookup agrees with add, known terms create nothing — for `add` as a whole** (`Snap.add`: hit or miss): whatever `add` returns,
`lookup` of the node afterwards names the same class, and adding the node again returns that class and leaves the state as it is -/
theorem add_then_lookup_and_readd {s s' : Snap} {n syn syn2 : Node} {f2o f2o2 : SlotMap} {data data2 : String} {a : AppId}
    (hok : Snap.AddOK s) (h : Snap.add s n f2o syn data = some (s', a)) :
    (∃ m, Snap.lookup s' n = some { id := a.id, m := m }) ∧
    (∃ m, Snap.add s' n f2o2 syn2 data2 = some (s', { id := a.id, m := m })) :=
  ⟨Snap.lookup_after_add_total hok h, Snap.add_twice hok h⟩

/-- **histories of `add` calls**: from every state satisfying `AddOK`, after any sequence of `add`s (hits and misses mixed), every
node added anywhere in the sequence is found by `lookup` at the end, in the class its `add` returned; and nothing old has changed
(handles resolve as before, `eq` answers as before, nodes that were represented are found with the same invocation) -/
theorem every_added_node_is_found {s s'' : Snap} {l : List (Node × AppId)} (hok : Snap.AddOK s) (h : Snap.Adds s l s'') :
    (∀ p ∈ l, ∃ m, Snap.lookup s'' p.1 = some { id := p.2.id, m := m }) ∧
    (∀ b r, Snap.find s b = some r → Snap.find s'' b = some r) ∧
    (∀ b c r, Snap.eq s b c = some r → Snap.eq s'' b c = some r) ∧
    (∀ m x, Snap.lookup s m = some x → Snap.lookup s'' m = some x) :=
  ⟨Snap.adds_lookup hok h, (Snap.adds_keep hok h).2⟩

/-- the hypothesis `AddOK` of the theorems about `add` is what the `addnew` query evaluates on the dump before every modelled insertion:
`ufOK` and "no class id at or beyond the table length" (`Driver/SnapDrv.lean: cmpAdd`) -/
theorem addOK_of_checks {s : Snap} (hok : Snap.ufOK s = true)
    (hids : (s.classes.any fun c => decide (c.id ≥ s.uf.length)) = false) : Snap.AddOK s := by
  refine ⟨(Snap.ufOK_sound hok).1, fun c hc => ?_⟩
  have := List.any_eq_false.mp hids c hc
  simpa using this

/-- the invocation an insertion returns is canonical (`find` leaves it as it is) and the leader entry of the new class is the
identity on its slots (the form of entry the C13 theorems about later merges and shrinks of that class start from) -/
theorem add_returns_canonical_handle {s s' : Snap} {n syn : Node} {f2o : SlotMap} {data : String} {a : AppId}
    (h : Snap.addNew s n f2o syn data = some (s', a)) :
    s'.uf[a.id]? = some { id := a.id, m := SlotMap.identity (SlotMap.keys f2o) } ∧ Snap.find s' a = some a :=
  Snap.add_returns_canonical h

/-- the union-find half of the snapshot invariant (`ufOK`: every entry a well-formed map, every leader entry a partial identity)
survives `add`, on the hit and on the miss, and therefore every sequence of modelled insertions; the class half of `checkInv`
for the new class is still decided per run on the dump -/
theorem insertion_keeps_union_find_consistent {s s' : Snap} {n syn : Node} {f2o : SlotMap} {data : String} {a : AppId}
    (hok : Snap.ufOK s = true) (h : Snap.add s n f2o syn data = some (s', a)) : Snap.ufOK s' = true :=
  Snap.add_whole_keeps_ufOK hok h

theorem insertions_keep_union_find_consistent {s s'' : Snap} (hok : Snap.ufOK s = true) (hi : Snap.Inserts s s'') :
    Snap.ufOK s'' = true :=
  Snap.inserts_keep_ufOK hok hi

/-- the leader and group halves of the snapshot invariant survive a modelled insertion: in the state after, every live class's
union-find entry has exactly the class slots as keys (dead classes hold no node), and every class stores generators that are
permutations of its slots — for the classes from before (unchanged) and for the new one -/
theorem insertion_keeps_leaders_and_groups {s s' : Snap} {n syn : Node} {f2o : SlotMap} {data : String} {a : AppId}
    (hok : Snap.AddOK s) (hl : ∀ c ∈ s.classes, Snap.leaderOK s c = true) (hg : ∀ c ∈ s.classes, Grp.Valid c.slots c.gens)
    (h : Snap.addNew s n f2o syn data = some (s', a)) :
    (∀ c ∈ s'.classes, Snap.leaderOK s' c = true) ∧ (∀ c ∈ s'.classes, Grp.Valid c.slots c.gens) ∧
    ∀ c ∈ s'.classes, c ∈ s.classes ∨ (c.id = s.uf.length ∧ c.slots = SlotMap.keys f2o) :=
  ⟨Snap.add_keeps_leaderOK hok hl h, Snap.add_keeps_groups_valid hok hg h, fun _ hc => Snap.add_classes hok h hc⟩

/-- what an insertion stores is a shape: every node entry of every class of the state after is an entry from before or `weakShape` of a
node — so its first component is a fixpoint of `weakShape` (the last conjunct of `nodeOK`) whenever that held before; and the slot list
of every class ascends strictly whenever it did before -/
theorem insertion_stores_a_shape {s s' : Snap} {n syn : Node} {f2o : SlotMap} {data : String} {a : AppId}
    (hok : Snap.AddOK s)
    (hfix : ∀ c ∈ s.classes, ∀ e ∈ c.nodes, (Node.weakShape e.1).1 = e.1)
    (hsorted : ∀ c ∈ s.classes, Snap.sortedStrict c.slots = true)
    (h : Snap.addNew s n f2o syn data = some (s', a)) :
    (∀ c ∈ s'.classes, ∀ e ∈ c.nodes, (Node.weakShape e.1).1 = e.1) ∧ ∀ c ∈ s'.classes, Snap.sortedStrict c.slots = true := by
  obtain ⟨n1, perms, hs, _⟩ := Snap.addNew_stored h
  obtain ⟨_, _, _, _, _, _, _, hwf, _, _, _, _, _⟩ := Snap.addNew_form h
  have key : ∀ c ∈ s'.classes, c ∈ s.classes ∨ (c.nodes = [Node.weakShape n1] ∧ c.slots = SlotMap.keys f2o) := by
    intro c hc
    rw [hs] at hc
    unfold Snap.setNew Snap.allocClass at hc
    simp only [List.mem_map, List.mem_append, List.mem_singleton] at hc
    obtain ⟨d, hd, rfl⟩ := hc
    rcases hd with hd | hd
    · left
      have hne : (d.id == s.uf.length) = false := by
        have := hok.2 d hd
        simp only [beq_eq_false_iff_ne, ne_eq]; omega
      simp only [hne]
      exact hd
    · right
      subst hd
      simp
  refine ⟨fun c hc e he => ?_, fun c hc => ?_⟩
  · rcases key c hc with hold | ⟨hn, _⟩
    · exact hfix c hold e he
    · rw [hn, List.mem_singleton] at he
      subst he
      exact SV.Node.C16.weakShape_idem n1
  · rcases key c hc with hold | ⟨_, hsl⟩
    · exact hsorted c hold
    · rw [hsl]; exact Snap.sortedStrict_keys _ hwf

/-- **the hashcons stays a function under insertion**: if no shape is stored twice (in one class or in two) before a modelled insertion,
none is afterwards — the shape the new class stores is one `lookupShape` has just missed, and a missed shape is stored nowhere.  The
hypothesis is what `checkInv` gives (`C08.inv_unique_class`). -/
theorem insertion_keeps_hashcons_functional {s s' : Snap} {n syn : Node} {f2o : SlotMap} {data : String} {a : AppId}
    (hok : Snap.AddOK s) (hu : (s.classes.flatMap fun c => c.nodes.map (·.1)).Nodup)
    (h : Snap.addNew s n f2o syn data = some (s', a)) :
    (s'.classes.flatMap fun c => c.nodes.map (·.1)).Nodup :=
  Snap.add_keeps_shapes_unique hok hu h

/-- the same in the form the checker evaluates: `shapesUnique` before gives `shapesUnique` after -/
theorem insertion_keeps_shapesUnique {s s' : Snap} {n syn : Node} {f2o : SlotMap} {data : String} {a : AppId}
    (hok : Snap.AddOK s) (hu : Snap.shapesUnique s = true) (h : Snap.addNew s n f2o syn data = some (s', a)) :
    Snap.shapesUnique s' = true :=
  Snap.add_keeps_shapesUnique hok hu h

/-- **a modelled insertion disturbs no class from before**: every class of the state before is a class of the state after and satisfies
there every per-class conjunct of `checkInv` it satisfied before (sorted slots, leader entry, generators, node entries, canonical
children).  With `insertion_keeps_union_find_consistent` and `insertion_keeps_hashcons_functional` what remains per run of `checkInv`
after an insertion is the new class's node entry and children. -/
theorem insertion_disturbs_no_old_class {s s' : Snap} {n syn : Node} {f2o : SlotMap} {data : String} {a : AppId}
    (hok : Snap.AddOK s) (h : Snap.addNew s n f2o syn data = some (s', a)) {c : SClass} (hc : c ∈ s.classes)
    (hinv : (Snap.sortedStrict c.slots && Snap.leaderOK s c && Snap.gensOK c && c.nodes.all (Snap.nodeOK c) &&
      Snap.childrenOK s c) = true) :
    c ∈ s'.classes ∧
    (Snap.sortedStrict c.slots && Snap.leaderOK s' c && Snap.gensOK c && c.nodes.all (Snap.nodeOK c) &&
      Snap.childrenOK s' c) = true :=
  Snap.add_keeps_old_class_inv hok h hc hinv

/-- **every stored bijection is a well-formed injective map after an insertion**, whenever that held before: the entry of the new class
is `weakShape` of a node, and the bijection `weak_shape` returns is well formed and injective for every node
(`Node.weakShape_bij_ok`) — the first two conjuncts of `nodeOK` -/
theorem insertion_stores_a_bijection {s s' : Snap} {n syn : Node} {f2o : SlotMap} {data : String} {a : AppId}
    (hok : Snap.AddOK s)
    (hb : ∀ c ∈ s.classes, ∀ e ∈ c.nodes, SlotMap.wfb e.2 = true ∧ SlotMap.isBijection e.2 = true)
    (h : Snap.addNew s n f2o syn data = some (s', a)) :
    ∀ c ∈ s'.classes, ∀ e ∈ c.nodes, SlotMap.wfb e.2 = true ∧ SlotMap.isBijection e.2 = true := by
  intro c hc e he
  rcases Snap.add_nodes hok h hc with hold | ⟨n1, hn, _⟩
  · exact hb c hold e he
  · rw [hn, List.mem_singleton] at he
    subst he
    exact Node.weakShape_bij_ok n1

/-- … and its keys are exactly the free slots of the stored shape (`C16.weakShape_bijection_keys`), whenever that held before -/
theorem insertion_stores_keys_of_shape {s s' : Snap} {n syn : Node} {f2o : SlotMap} {data : String} {a : AppId}
    (hok : Snap.AddOK s) (hb : ∀ c ∈ s.classes, ∀ e ∈ c.nodes, SlotMap.keys e.2 = Node.slots e.1)
    (h : Snap.addNew s n f2o syn data = some (s', a)) :
    ∀ c ∈ s'.classes, ∀ e ∈ c.nodes, SlotMap.keys e.2 = Node.slots e.1 := by
  intro c hc e he
  rcases Snap.add_nodes hok h hc with hold | ⟨n1, hn, _⟩
  · exact hb c hold e he
  · rw [hn, List.mem_singleton] at he
    subst he
    exact SV.Node.C16.weakShape_bijection_keys n1

/-- **for every sequence of modelled insertions**: the union-find half, the leader entries and groups of all classes and the uniqueness of
stored shapes hold at the end whenever they held at the start, and every class from the start is still a class at the end with its whole
per-class conjunct of `checkInv` -/
theorem insertions_keep_invariant_parts {s s'' : Snap} (hok : Snap.AddOK s) (hi : Snap.Inserts s s'')
    (huf : Snap.ufOK s = true)
    (hl : ∀ c ∈ s.classes, Snap.leaderOK s c = true) (hg : ∀ c ∈ s.classes, Grp.Valid c.slots c.gens)
    (hu : (s.classes.flatMap fun c => c.nodes.map (·.1)).Nodup) :
    Snap.ufOK s'' = true ∧
    (∀ c ∈ s''.classes, Snap.leaderOK s'' c = true) ∧ (∀ c ∈ s''.classes, Grp.Valid c.slots c.gens) ∧
    (s''.classes.flatMap fun c => c.nodes.map (·.1)).Nodup ∧
    ∀ c ∈ s.classes,
      (Snap.sortedStrict c.slots && Snap.leaderOK s c && Snap.gensOK c && c.nodes.all (Snap.nodeOK c) && Snap.childrenOK s c) = true →
      c ∈ s''.classes ∧
      (Snap.sortedStrict c.slots && Snap.leaderOK s'' c && Snap.gensOK c && c.nodes.all (Snap.nodeOK c) &&
        Snap.childrenOK s'' c) = true :=
  ⟨Snap.inserts_keep_ufOK huf hi, (Snap.inserts_keep_leaders_groups hok hi hl hg).1, (Snap.inserts_keep_leaders_groups hok hi hl hg).2,
   Snap.inserts_keep_shapes_unique hok hi hu, fun _ hc hinv => Snap.inserts_keep_old_class_inv hok hi hc hinv⟩

/-- non-vacuity: on the empty e-graph the node `f2($8, $12)` (variant 7, two slot fields) is a miss; with the fresh slots
`101, 105` handed in, the model allocates class 0 -/
example : ((Snap.addNew { uf := [], classes := [] } { v := 7, fields := [.slot 8, .slot 12] } [(101, 8), (105, 12)]
    { v := 7, fields := [.slot 101, .slot 105] } "-").map (·.2)) = some { id := 0, m := [(101, 8), (105, 12)] } := by
  decide

/-- non-vacuity of the preservation theorems: the state that insertion produces passes the whole of `checkInv` (kernel-evaluated), so it
meets every hypothesis the theorems above ask of a state before the next insertion -/
example : ((Snap.addNew { uf := [], classes := [] } { v := 7, fields := [.slot 8, .slot 12] } [(101, 8), (105, 12)]
    { v := 7, fields := [.slot 101, .slot 105] } "-").map (fun r => Snap.checkInv r.1 && Snap.ufOK r.1)) = some true := by
  decide
end SV.C09
