import SlotVerif.Props.C01
/-!
# C02 — Congruence closure is complete: every implied equality is reported

The statement "for all histories the implementation's relation ⊇ `Cong E`" is about the
unmodelled mutators and is not a theorem here.  What is proved: every pair the oracle reports
equal **is** in `Cong E` (`C01.oracle_sound`, re-exported), so `spec = equal ∧ impl = unequal`
right after a `union` returns is a certified violation — the replay can show the derivation.
Below: the derivation patterns the property names, as theorems about the spec.
-/
namespace SV.C02
open SV SV.Term

/-- the asserted pair itself -/
theorem cong_asserted {E : List (Term × Term)} {l r : Term} (h : (l, r) ∈ E) : Cong E l r := Cong.ax h

/-- any injectively renamed copy of an asserted pair -/
theorem cong_asserted_renamed {E : List (Term × Term)} {l r : Term} (h : (l, r) ∈ E) (σ : Nat → Nat)
    (hσ : NameMap σ) (hi : InjOn σ (freeOcc l ++ freeOcc r)) : Cong E (mapFree σ l) (mapFree σ r) :=
  Cong.ren σ hσ hi (Cong.ax h)

/-- the oracle's verdict "equal" is a derivation (the deciding theorem, restated) -/
theorem oracle_sound (E : List (Term × Term)) (pool : List Nat) (univ : Array Term)
    (index : Std.HashMap String Nat) (cands : List (Nat × Nat)) :
    let o := ({ E := E, pool := pool, univ := univ, cls := Array.range univ.size, index := index } : Orc).run cands
    ∀ a b t u, o.univ[a]? = some t → o.univ[b]? = some u → o.find a = o.find b → Cong E t u :=
  SV.C01.oracle_sound E pool univ index cands

theorem le_foldl_max (l : List Nat) (init x : Nat) (h : x ∈ l ∨ x ≤ init) : x ≤ l.foldl max init := by
  induction l generalizing init with
  | nil => simpa using h
  | cons a t ih =>
    simp only [List.foldl_cons]
    apply ih
    rcases h with h | h
    · simp at h; rcases h with h | h
      · right; subst h; exact Nat.le_max_right _ _
      · left; exact h
    · right; exact Nat.le_trans h (Nat.le_max_left _ _)

/-- a genuine name that occurs in none of the given lists always exists -/
def freshNat (l : List Nat) : Nat := 4 * (l.foldl max 0 + 1)

theorem freshNat_spec (l : List Nat) : isBvar (freshNat l) = false ∧ freshNat l ∉ l := by
  constructor
  · simp [freshNat, isBvar]
  · intro h
    have := le_foldl_max l 0 _ (Or.inl h)
    simp only [freshNat] at this; omega

/-- one step: from `t = u`, with `s` free in `t` but not in `u` and `c` occurring in neither: `t = t[s ↦ c]` -/
theorem eq_rename_of_eq_smaller {E : List (Term × Term)} {t u : Term} {s c : Nat}
    (h : Cong E t u) (hsu : s ∉ freeOcc u) (hc : isBvar c = false) (hct : c ∉ freeOcc t) (hcu : c ∉ freeOcc u) :
    Cong E t (mapFree (fun x => if x = s then c else x) t) := by
  let ρ : Nat → Nat := fun x => if x = s then c else x
  have hρ : NameMap ρ := by
    intro x hx; simp only [ρ]; split
    · exact hc
    · exact hx
  have hinj : InjOn ρ (freeOcc t ++ freeOcc u) := by
    intro x hx y hy he
    have hxc : x ≠ c := by
      intro h1; subst h1
      rcases List.mem_append.mp hx with h2 | h2
      · exact hct h2
      · exact hcu h2
    have hyc : y ≠ c := by
      intro h1; subst h1
      rcases List.mem_append.mp hy with h2 | h2
      · exact hct h2
      · exact hcu h2
    simp only [ρ] at he
    by_cases h1 : x = s <;> by_cases h2 : y = s
    · rw [h1, h2]
    · simp [h1, h2] at he; exact absurd he.symm hyc
    · simp [h1, h2] at he; exact absurd he hxc
    · simpa [h1, h2] using he
  have h2 := Cong.ren ρ hρ hinj h
  have eu : mapFree ρ u = u := by
    rw [mapFree_ext ρ (fun x => x) u (fun x hx => by
      simp only [ρ]; split
      · rename_i h1; subst h1; exact absurd hx hsu
      · rfl), mapFree_id]
  rw [eu] at h2
  exact Cong.trans h (Cong.symm h2)

/-- **an equality that follows only because a slot became redundant**: if `t = u` is derivable and
`s` is free in `t` but not in `u`, then `t` does not depend on `s` (the `xy = yz` test, for all terms). -/
theorem redundant_of_eq_smaller {E : List (Term × Term)} {t u : Term} {s : Nat}
    (h : Cong E t u) (hs : s ∈ freeOcc t) (hsu : s ∉ freeOcc u) : Redundant E t s := by
  obtain ⟨hc, hcn⟩ := freshNat_spec (freeOcc t ++ freeOcc u)
  have hct : freshNat (freeOcc t ++ freeOcc u) ∉ freeOcc t := fun h1 => hcn (by simp [h1])
  have hcu : freshNat (freeOcc t ++ freeOcc u) ∉ freeOcc u := fun h1 => hcn (by simp [h1])
  exact redundant_of_one_fresh hs hc hct (eq_rename_of_eq_smaller h hsu hc hct hcu)

/-- redundancy is equivariant: renaming the term renames its redundant slots -/
theorem redundant_map {E : List (Term × Term)} {t : Term} {π π' : Nat → Nat} {s : Nat}
    (hπ : NameMap π) (hπ' : NameMap π') (hinv : ∀ x, π' (π x) = x) (hinv2 : ∀ x, π (π' x) = x)
    (hr : Redundant E t s) : Redundant E (mapFree π t) (π s) := by
  obtain ⟨hs, hall⟩ := hr
  have hinjπ : ∀ x y, π x = π y → x = y := by
    intro x y he; have := congrArg π' he; rwa [hinv, hinv] at this
  refine ⟨by rw [freeOcc_mapFree π hπ]; exact List.mem_map.mpr ⟨s, hs, rfl⟩, ?_⟩
  intro s'' hs'' hfresh
  have hs'fresh : π' s'' ∉ freeOcc t := by
    intro hm
    apply hfresh
    rw [freeOcc_mapFree π hπ]
    exact List.mem_map.mpr ⟨π' s'', hm, hinv2 s''⟩
  have h1 := hall (π' s'') (hπ' s'' hs'') hs'fresh
  have h2 := Cong.ren π hπ (fun x _ y _ he => hinjπ x y he) h1
  have hsub : NameMap (fun x => if x = s then π' s'' else x) := by
    intro x hx; simp only; split
    · exact hπ' s'' hs''
    · exact hx
  have e : mapFree π (mapFree (fun x => if x = s then π' s'' else x) t) =
      mapFree (fun x => if x = π s then s'' else x) (mapFree π t) := by
    rw [mapFree_comp π _ hsub t, mapFree_comp _ π hπ t]
    apply mapFree_ext
    intro x _
    by_cases hx : x = s
    · subst hx; simp [hinv2]
    · have : π x ≠ π s := fun he => hx (hinjπ x s he)
      simp [hx, this]
  rwa [e] at h2

/-- **through a symmetry that exchanges a redundant with a non-redundant slot**: if `π` is a
symmetry of `t` and `s` is redundant in `t`, so is `π s` — the orbit of a redundant slot is
redundant (the fact behind fix F6). -/
theorem redundant_orbit {E : List (Term × Term)} {t : Term} {π π' : Nat → Nat} {s : Nat}
    (hπ : NameMap π) (hπ' : NameMap π') (hinv : ∀ x, π' (π x) = x) (hinv2 : ∀ x, π (π' x) = x)
    (hperm : ∀ x ∈ freeOcc t, π x ∈ freeOcc t)
    (hsym : Cong E t (mapFree π t)) (hr : Redundant E t s) : Redundant E t (π s) := by
  have hR := redundant_map hπ hπ' hinv hinv2 hr
  obtain ⟨hc, hcn⟩ := freshNat_spec (freeOcc t)
  have hcπ : freshNat (freeOcc t) ∉ freeOcc (mapFree π t) := by
    rw [freeOcc_mapFree π hπ]
    intro hm
    obtain ⟨y, hy, hyc⟩ := List.mem_map.mp hm
    exact hcn (hyc ▸ hperm y hy)
  apply redundant_of_one_fresh (hperm s hr.1) hc hcn
  -- t ~ πt ~ (πt)[πs ↦ c] ~ t[πs ↦ c]
  have hA := hR.2 (freshNat (freeOcc t)) hc hcπ
  let ρ : Nat → Nat := fun x => if x = π s then freshNat (freeOcc t) else x
  have hρ : NameMap ρ := by
    intro x hx; simp only [ρ]; split
    · exact hc
    · exact hx
  have hinj : InjOn ρ (freeOcc t ++ freeOcc (mapFree π t)) := by
    intro x hx y hy he
    have hxc : x ≠ freshNat (freeOcc t) := by
      intro h1; subst h1
      rcases List.mem_append.mp hx with h2 | h2
      · exact hcn h2
      · exact hcπ h2
    have hyc : y ≠ freshNat (freeOcc t) := by
      intro h1; subst h1
      rcases List.mem_append.mp hy with h2 | h2
      · exact hcn h2
      · exact hcπ h2
    simp only [ρ] at he
    by_cases h1 : x = π s <;> by_cases h2 : y = π s
    · rw [h1, h2]
    · simp [h1, h2] at he; exact absurd he.symm hyc
    · simp [h1, h2] at he; exact absurd he hxc
    · simpa [h1, h2] using he
  have hB := Cong.ren ρ hρ hinj hsym
  exact Cong.trans hsym (Cong.trans hA (Cong.symm hB))

end SV.C02
