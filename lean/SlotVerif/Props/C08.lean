import SlotVerif.Proofs.Snapshot
import SlotVerif.Proofs.UnionFind
import SlotVerif.Proofs.EqEquiv
import SlotVerif.Proofs.InvContract
/-!
# C08 — No operation sequence panics or leaves the e-graph inconsistent

Absence of panics in the mutators is **not** a theorem (they are not modelled, DESIGN §4); it is
checked per run under `catch_unwind` in the default and the `checks` build.  What is proved: the
snapshot checker `checkInv`, which every explored post-state must pass, implies the stated
consistency facts for *all* invocations and e-nodes of that state — in particular
"canonicalising an invocation twice equals canonicalising it once" follows from the slot-map
algebra of C19 (`compose_assoc`).  **Path compression** (`unionfind_get_impl`'s write-back, the one
place where a read-only public call mutates the state) is modelled (`Snap.ufGetW`, `Snap.findW`)
and proved invisible: `findW_spec` — on every table that passes `ufOK`, the compressing
`find_applied_id` returns what the read-only model returns, the table keeps its invariants, and
every invocation that could be canonicalised before is canonicalised to the same result after,
for any number of calls (`compress_preserves_find`).  The compressed table the implementation
ends with is compared with the model's on every run (query `compress`).
-/
namespace SV.C08
open SV SV.Snap SV.SlotMap

theorem checkInv_ufOK {s : Snap} (h : checkInv s = true) : ufOK s = true := by
  unfold checkInv at h; simp only [Bool.and_eq_true] at h; exact h.1.1

/-- **find is idempotent on every consistent state, for every invocation** -/
theorem inv_find_idem {s : Snap} (h : checkInv s = true) {a b : AppId} (hf : find s a = some b) :
    find s b = some b := find_idem (checkInv_ufOK h) hf

theorem checkInv_class {s : Snap} (h : checkInv s = true) {c : SClass} (hc : c ∈ s.classes) :
    sortedStrict c.slots = true ∧ leaderOK s c = true ∧ gensOK c = true ∧ c.nodes.all (nodeOK c) = true := by
  unfold checkInv at h
  simp only [Bool.and_eq_true, List.all_eq_true] at h
  have := h.2 c hc
  simp only [Bool.and_eq_true, List.all_eq_true] at this ⊢
  exact ⟨this.1.1.1.1, this.1.1.1.2, this.1.1.2, this.1.2⟩

/-- **every class's e-nodes mention all of the class's slots**: each class slot is the image,
under the stored bijection, of a public slot of the stored shape -/
theorem inv_slots_subset {s : Snap} (h : checkInv s = true) {c : SClass} (hc : c ∈ s.classes)
    {e : Node × SlotMap} (he : e ∈ c.nodes) :
    ∀ x ∈ c.slots, ∃ y ∈ Node.slots e.1, get e.2 y = some x := by
  have hn := (checkInv_class h hc).2.2.2
  have := List.all_eq_true.mp hn e he
  unfold nodeOK at this
  simp only [Bool.and_eq_true] at this
  obtain ⟨⟨⟨⟨hwf, _⟩, hkeys⟩, hsub⟩, _⟩ := this
  intro x hx
  have hxv : x ∈ valuesVec e.2 := by
    have := List.all_eq_true.mp hsub x hx
    simpa using this
  obtain ⟨p, hp, hpx⟩ := List.mem_map.mp hxv
  have hw := wf_of_wfb _ hwf
  refine ⟨p.1, ?_, ?_⟩
  · have hk : p.1 ∈ keys e.2 := List.mem_map.mpr ⟨p, hp, rfl⟩
    have : keys e.2 = Node.slots e.1 := by simpa using hkeys
    rw [← this]; exact hk
  · rw [← hpx]; exact (get_eq_some_iff hw p.1 p.2).mpr hp

theorem nodup_aux : ∀ (l : List Node), shapesUnique.nodup l = true → l.Nodup
  | [], _ => List.nodup_nil
  | a :: t, h => by
    simp only [shapesUnique.nodup, Bool.and_eq_true, Bool.not_eq_true'] at h
    rw [List.nodup_cons]
    exact ⟨by simpa using h.1, nodup_aux t h.2⟩

/-- **no e-node belongs to two classes** (nor twice to one): the stored shapes are pairwise distinct -/
theorem inv_unique_class {s : Snap} (h : checkInv s = true) :
    (s.classes.flatMap fun c => c.nodes.map (·.1)).Nodup := by
  unfold checkInv at h
  simp only [Bool.and_eq_true] at h
  exact nodup_aux _ h.1.2

/-- a live class's canonical invocation is the identity on exactly its slots -/
theorem inv_leader_identity {s : Snap} (h : checkInv s = true) {c : SClass} (hc : c ∈ s.classes)
    (ha : isAlive s c.id = true) : ∃ e, s.uf[c.id]? = some e ∧ keys e.m = c.slots := by
  have hl := (checkInv_class h hc).2.1
  unfold leaderOK at hl
  rw [if_pos ha] at hl
  cases hu : s.uf[c.id]? with
  | none => rw [hu] at hl; simp at hl
  | some e => rw [hu] at hl; exact ⟨e, rfl, by simpa using hl⟩

/-- **path compression must preserve the composed slot map**: the compressing `find_applied_id` agrees with the
read-only one, keeps the table well formed, and changes the canonical form of no invocation -/
theorem findW_spec {s : Snap} (hok : ufOK s = true) {a b : AppId} {s' : Snap} (h : findW s a = some (b, s')) :
    find s a = some b ∧ UfWF s' ∧ LeaderId s' ∧ s'.uf.length = s.uf.length ∧ s'.classes = s.classes ∧
      ∀ (c d : AppId), find s c = some d → find s' c = some d := by
  obtain ⟨hw, hl⟩ := ufOK_sound hok
  unfold findW at h
  cases hr : ufGetW s.uf (s.uf.length + 1) a.id with
  | none => rw [hr] at h; simp at h
  | some pr =>
    obtain ⟨l, u'⟩ := pr
    rw [hr] at h
    simp only [Option.map_some, Option.some.injEq, Prod.mk.injEq] at h
    obtain ⟨hb, hs'⟩ := h
    obtain ⟨h1, hw', hl', hlen, hp⟩ := ufGetW_spec _ _ s.uf l u' hw hl hr
    subst hs'
    refine ⟨?_, hw', hl', hlen, rfl, ?_⟩
    · unfold find; rw [ufGet_eq_L, h1]; simp [hb]
    · intro c d hc
      unfold find at hc ⊢
      rw [ufGet_eq_L] at hc ⊢
      simp only at hc ⊢
      cases hq : ufGetL s.uf (s.uf.length + 1) c.id with
      | none => rw [hq] at hc; simp at hc
      | some q =>
        rw [hq] at hc
        rw [hlen, hp _ _ _ hq]; exact hc

/-- any sequence of compressing calls leaves every resolvable id resolved to the same leader invocation -/
theorem compress_preserves_find {s : Snap} (hok : ufOK s = true) {ids : List Nat} {uf' : List AppId}
    (h : compressAll s.uf ids = some uf') {c d : AppId} (hc : find s c = some d) :
    find { s with uf := uf' } c = some d := by
  obtain ⟨hw, hl⟩ := ufOK_sound hok
  obtain ⟨_, _, hlen, hp⟩ := compressAll_spec ids s.uf uf' hw hl h
  unfold find at hc ⊢
  rw [ufGet_eq_L] at hc ⊢
  simp only at hc ⊢
  cases hq : ufGetL s.uf (s.uf.length + 1) c.id with
  | none => rw [hq] at hc; simp at hc
  | some q =>
    rw [hq] at hc
    rw [hlen, hp _ _ _ hq]; exact hc

/-- after a compressing call the queried id points directly at its leader -/
theorem findW_flat {s : Snap} (hok : ufOK s = true) {i : Nat} {r : AppId} {u' : List AppId}
    (h : ufGetW s.uf (s.uf.length + 1) i = some (r, u')) : ufGetL u' 2 i = some r :=
  ufGetW_compressed (ufOK_sound hok).1 (ufOK_sound hok).2 h


/-- non-vacuity: a two-class state (one class merged into the other, one slot dropped) passes the
checker, so the hypotheses above are satisfiable by a non-trivial state -/
def demo : Snap :=
  { uf := [⟨1, [(9, 5)]⟩, ⟨1, [(9, 9)]⟩],
    classes := [
      { id := 0, slots := [5, 13], nodes := [], gens := [], syn := ⟨0, [.slot 0, .slot 4]⟩, data := "-" },
      { id := 1, slots := [9], nodes := [(⟨0, [.slot 0, .slot 4]⟩, [(0, 9), (4, 17)])], gens := [],
        syn := ⟨0, [.slot 0]⟩, data := "-" }] }
example : checkInv demo = true ∧ find demo ⟨0, [(5, 40), (13, 44)]⟩ = some ⟨1, [(9, 40)]⟩ := by decide

/-- non-vacuity of the compression theorems: a chain 0 → 1 → 2 (with a dropped slot on the way) is flattened -/
def chain : Snap :=
  { uf := [⟨1, [(9, 5)]⟩, ⟨2, [(17, 9)]⟩, ⟨2, [(17, 17)]⟩], classes := [] }
example : ufOK chain = true ∧
    (findW chain ⟨0, [(5, 40), (13, 44)]⟩).map (fun p => (p.1, p.2.uf)) =
      some (⟨2, [(17, 40)]⟩, [⟨2, [(17, 5)]⟩, ⟨2, [(17, 9)]⟩, ⟨2, [(17, 17)]⟩]) := by decide

/-! ### `EGraph::eq` is an equivalence relation (session 6, `Proofs/EqEquiv.lean`) -/

/-- **on every class whose stored generators are permutations of its slots, `eq` is reflexive, symmetric and transitive**
on the invocations whose canonical form embeds the class slots injectively (every invocation with pairwise distinct
arguments): the answer is "same argument names and `A ∘ B⁻¹` in the generated subgroup" (`eq_true_iff`, from the
stabilizer-chain theorem of C10), and the subgroup is closed under identity, inverse and product.  For every state, every
number of slots, every generator list. -/
theorem eq_is_equivalence {s : Snap} {c : SClass} (hcls : Snap.cls s c.id = some c)
    (hv : Grp.Valid c.slots c.gens) :
    (∀ a A, Snap.find s a = some ⟨c.id, A⟩ → Snap.IsEmb c.slots A → Snap.eq s a a = some true) ∧
    (∀ a b A B, Snap.find s a = some ⟨c.id, A⟩ → Snap.find s b = some ⟨c.id, B⟩ → Snap.IsEmb c.slots A →
      Snap.IsEmb c.slots B → Snap.eq s a b = some true → Snap.eq s b a = some true) ∧
    (∀ a b d A B D, Snap.find s a = some ⟨c.id, A⟩ → Snap.find s b = some ⟨c.id, B⟩ → Snap.find s d = some ⟨c.id, D⟩ →
      Snap.IsEmb c.slots A → Snap.IsEmb c.slots B → Snap.IsEmb c.slots D →
      Snap.eq s a b = some true → Snap.eq s b d = some true → Snap.eq s a d = some true) :=
  ⟨fun _ _ ha hA => Snap.eq_refl hcls hv ha hA,
   fun _ _ _ _ ha hb hA hB h => Snap.eq_symm hcls hv ha hb hA hB h,
   fun _ _ _ _ _ _ ha hb hd hA hB hD h1 h2 => Snap.eq_trans hcls hv ha hb hd hA hB hD h1 h2⟩

/-- **on every state that passes `checkInv`, `eq` is an equivalence relation on every class**: the invariant supplies the
hypothesis of `eq_is_equivalence` (stored generators are permutations of the class slots, `gensOK_valid`) -/
theorem eq_equivalence_of_inv {s : Snap} (h : checkInv s = true) {c : SClass} (hc : c ∈ s.classes)
    (hcls : Snap.cls s c.id = some c) :
    (∀ a A, Snap.find s a = some ⟨c.id, A⟩ → Snap.IsEmb c.slots A → Snap.eq s a a = some true) ∧
    (∀ a b A B, Snap.find s a = some ⟨c.id, A⟩ → Snap.find s b = some ⟨c.id, B⟩ → Snap.IsEmb c.slots A →
      Snap.IsEmb c.slots B → Snap.eq s a b = some true → Snap.eq s b a = some true) ∧
    (∀ a b d A B D, Snap.find s a = some ⟨c.id, A⟩ → Snap.find s b = some ⟨c.id, B⟩ → Snap.find s d = some ⟨c.id, D⟩ →
      Snap.IsEmb c.slots A → Snap.IsEmb c.slots B → Snap.IsEmb c.slots D →
      Snap.eq s a b = some true → Snap.eq s b d = some true → Snap.eq s a d = some true) :=
  eq_is_equivalence hcls (Snap.gensOK_valid (checkInv_class h hc).2.2.1)

/-- … and the leader entry of every live class is the identity on the class slots (the hypothesis `hold` of the C13
theorems about shrink and merge) -/
theorem leader_entry_of_inv {s : Snap} (h : checkInv s = true) {c : SClass} (hc : c ∈ s.classes)
    (ha : Snap.isAlive s c.id = true) : s.uf[c.id]? = some ⟨c.id, SlotMap.identity c.slots⟩ :=
  Snap.leader_entry_identity (checkInv_ufOK h) (checkInv_class h hc).2.1 ha

/-- invocations that canonicalise to different leaders never compare equal -/
theorem eq_false_of_different_leaders {s : Snap} {a b a' b' : AppId} (ha : Snap.find s a = some a')
    (hb : Snap.find s b = some b') (hne : a'.id ≠ b'.id) : Snap.eq s a b = some false :=
  Snap.eq_false_of_leader_ne ha hb hne

/-- non-vacuity: the map `{5 ↦ 40, 9 ↦ 44}` embeds the slot list `[5, 9]` -/
example : Snap.IsEmb [5, 9] [(5, 40), (9, 44)] where
  wf := by simp [SlotMap.WF]
  tot := by intro x hx; simp at hx; rcases hx with rfl | rfl <;> simp [SlotMap.get]
  dom := by
    intro x y h
    have := (SlotMap.get_eq_some_iff (by simp [SlotMap.WF]) x y).mp h
    simp at this
    rcases this with ⟨rfl, _⟩ | ⟨rfl, _⟩ <;> simp
  inj := by
    intro x x' y h h'
    have h1 := (SlotMap.get_eq_some_iff (by simp [SlotMap.WF]) x y).mp h
    have h2 := (SlotMap.get_eq_some_iff (by simp [SlotMap.WF]) x' y).mp h'
    simp at h1 h2
    omega

end SV.C08
