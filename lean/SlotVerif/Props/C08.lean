import SlotVerif.Proofs.Snapshot
/-!
# C08 — No operation sequence panics or leaves the e-graph inconsistent

Absence of panics in the mutators is **not** a theorem (they are not modelled, DESIGN §4); it is
checked per run under `catch_unwind` in the default and the `checks` build.  What is proved: the
snapshot checker `checkInv`, which every explored post-state must pass, implies the stated
consistency facts for *all* invocations and e-nodes of that state — in particular
"canonicalising an invocation twice equals canonicalising it once" follows from the slot-map
algebra of C19 (`compose_assoc`).
-/
namespace SV.C08
open SV SV.Snap SV.SlotMap

theorem checkInv_ufOK {s : Snap} (h : checkInv s = true) : ufOK s = true := by
  unfold checkInv at h; simp only [Bool.and_eq_true] at h; exact h.1.1

/-- **find is idempotent on every consistent state, for every invocation** -/
theorem inv_find_idem {s : Snap} (h : checkInv s = true) {a b : AppId} (hf : find s a = some b) :
    find s b = some b := find_idem (checkInv_ufOK h) hf

theorem checkInv_class {s : Snap} (h : checkInv s = true) {c : SClass} (hc : c ∈ s.classes) :
    sortedStrict c.slots = true ∧ leaderOK s c = true ∧ gensOK c = true ∧ c.nodes.all (nodeOK c) = true := by
  unfold checkInv at h
  simp only [Bool.and_eq_true, List.all_eq_true] at h
  have := h.2 c hc
  simp only [Bool.and_eq_true, List.all_eq_true] at this ⊢
  exact ⟨this.1.1.1.1, this.1.1.1.2, this.1.1.2, this.1.2⟩

/-- **every class's e-nodes mention all of the class's slots**: each class slot is the image,
under the stored bijection, of a public slot of the stored shape -/
theorem inv_slots_subset {s : Snap} (h : checkInv s = true) {c : SClass} (hc : c ∈ s.classes)
    {e : Node × SlotMap} (he : e ∈ c.nodes) :
    ∀ x ∈ c.slots, ∃ y ∈ Node.slots e.1, get e.2 y = some x := by
  have hn := (checkInv_class h hc).2.2.2
  have := List.all_eq_true.mp hn e he
  unfold nodeOK at this
  simp only [Bool.and_eq_true] at this
  obtain ⟨⟨⟨⟨hwf, _⟩, hkeys⟩, hsub⟩, _⟩ := this
  intro x hx
  have hxv : x ∈ valuesVec e.2 := by
    have := List.all_eq_true.mp hsub x hx
    simpa using this
  obtain ⟨p, hp, hpx⟩ := List.mem_map.mp hxv
  have hw := wf_of_wfb _ hwf
  refine ⟨p.1, ?_, ?_⟩
  · have hk : p.1 ∈ keys e.2 := List.mem_map.mpr ⟨p, hp, rfl⟩
    have : keys e.2 = Node.slots e.1 := by simpa using hkeys
    rw [← this]; exact hk
  · rw [← hpx]; exact (get_eq_some_iff hw p.1 p.2).mpr hp

theorem nodup_aux : ∀ (l : List Node), shapesUnique.nodup l = true → l.Nodup
  | [], _ => List.nodup_nil
  | a :: t, h => by
    simp only [shapesUnique.nodup, Bool.and_eq_true, Bool.not_eq_true'] at h
    rw [List.nodup_cons]
    exact ⟨by simpa using h.1, nodup_aux t h.2⟩

/-- **no e-node belongs to two classes** (nor twice to one): the stored shapes are pairwise distinct -/
theorem inv_unique_class {s : Snap} (h : checkInv s = true) :
    (s.classes.flatMap fun c => c.nodes.map (·.1)).Nodup := by
  unfold checkInv at h
  simp only [Bool.and_eq_true] at h
  exact nodup_aux _ h.1.2

/-- a live class's canonical invocation is the identity on exactly its slots -/
theorem inv_leader_identity {s : Snap} (h : checkInv s = true) {c : SClass} (hc : c ∈ s.classes)
    (ha : isAlive s c.id = true) : ∃ e, s.uf[c.id]? = some e ∧ keys e.m = c.slots := by
  have hl := (checkInv_class h hc).2.1
  unfold leaderOK at hl
  rw [if_pos ha] at hl
  cases hu : s.uf[c.id]? with
  | none => rw [hu] at hl; simp at hl
  | some e => rw [hu] at hl; exact ⟨e, rfl, by simpa using hl⟩

/-- non-vacuity: a two-class state (one class merged into the other, one slot dropped) passes the
checker, so the hypotheses above are satisfiable by a non-trivial state -/
def demo : Snap :=
  { uf := [⟨1, [(9, 5)]⟩, ⟨1, [(9, 9)]⟩],
    classes := [
      { id := 0, slots := [5, 13], nodes := [], gens := [], syn := ⟨0, [.slot 0, .slot 4]⟩, data := "-" },
      { id := 1, slots := [9], nodes := [(⟨0, [.slot 0, .slot 4]⟩, [(0, 9), (4, 17)])], gens := [],
        syn := ⟨0, [.slot 0]⟩, data := "-" }] }
example : checkInv demo = true ∧ find demo ⟨0, [(5, 40), (13, 44)]⟩ = some ⟨1, [(9, 40)]⟩ := by decide

end SV.C08
