import SlotVerif.Proofs.Spec
/-!
# C12 — The result does not depend on the order of insertions and unions

The specification is order- and orientation-independent *by theorem*: every observable defined
on `Cong E` (equality of tracked terms, redundant slots, symmetries, classes up to renaming) is a
function of the **set of unoriented equations**.  Insertions do not enter `E` at all, so their
order cannot matter either.  The implementation is compared run-by-run: the same history under
several permutations/orientation flips must give identical observables (harness predicate), and
C01/C02 tie each single order to the spec.
-/
namespace SV.C12
open SV

/-- the derivable equalities depend only on the set of asserted equations -/
theorem cong_set (E E' : List (Term × Term)) (h : ∀ e, e ∈ E ↔ e ∈ E') (t u : Term) :
    Cong E t u ↔ Cong E' t u := cong_set_eq h t u

/-- permuting the union steps changes nothing -/
theorem cong_perm (E E' : List (Term × Term)) (h : E.Perm E') (t u : Term) :
    Cong E t u ↔ Cong E' t u := cong_perm_eqs h t u

/-- flipping the orientation of any one union changes nothing -/
theorem cong_flip_head (E : List (Term × Term)) (l r t u : Term) :
    Cong ((l, r) :: E) t u ↔ Cong ((r, l) :: E) t u := cong_flip E l r t u

/-- flipping the orientation of *any subset* of the unions changes nothing -/
theorem cong_flip_any (E : List (Term × Term)) (flip : List Bool) (t u : Term) :
    Cong E t u ↔ Cong ((E.zip (flip ++ List.replicate E.length false)).map
      fun p => if p.2 then (p.1.2, p.1.1) else p.1) t u := by
  constructor
  · apply cong_lift
    intro l r hm
    -- the pair survives either as itself or flipped
    obtain ⟨i, hi, hget⟩ := List.getElem_of_mem hm
    let F := flip ++ List.replicate E.length false
    have hlen : i < (E.zip F).length := by simp [F, List.length_zip]; omega
    have hz : (E.zip F)[i] = ((l, r), F[i]'(by simp [F]; omega)) := by
      simp [List.getElem_zip, hget]
    have hmem : (if F[i]'(by simp [F]; omega) then (r, l) else (l, r)) ∈
        (E.zip F).map fun p => if p.2 then (p.1.2, p.1.1) else p.1 := by
      apply List.mem_map.mpr
      exact ⟨(E.zip F)[i], List.getElem_mem hlen, by rw [hz]⟩
    by_cases hb : F[i]'(by simp [F]; omega) = true
    · rw [if_pos hb] at hmem; exact Cong.symm (Cong.ax hmem)
    · rw [if_neg hb] at hmem; exact Cong.ax hmem
  · apply cong_lift
    intro l r hm
    obtain ⟨p, hp, hpe⟩ := List.mem_map.mp hm
    have hpE : p.1 ∈ E := (List.of_mem_zip hp).1
    by_cases hb : p.2 = true
    · rw [if_pos hb] at hpe
      have : (r, l) = p.1 := by cases p with | mk a b => cases a; simp at hpe ⊢; exact ⟨hpe.2.symm, hpe.1.symm⟩
      exact Cong.symm (Cong.ax (this ▸ hpE))
    · rw [if_neg hb] at hpe
      exact Cong.ax (hpe ▸ hpE)

/-- redundancy and symmetry of a term are order-independent too -/
theorem redundant_perm (E E' : List (Term × Term)) (h : E.Perm E') (t : Term) (s : Nat) :
    Redundant E t s ↔ Redundant E' t s :=
  ⟨redundant_mono (fun _ he => h.mem_iff.mp he), redundant_mono (fun _ he => h.mem_iff.mpr he)⟩

theorem isSym_perm (E E' : List (Term × Term)) (h : E.Perm E') (t : Term) (π : Nat → Nat) :
    IsSym E t π ↔ IsSym E' t π :=
  ⟨isSym_mono (fun _ he => h.mem_iff.mp he), isSym_mono (fun _ he => h.mem_iff.mpr he)⟩

end SV.C12
