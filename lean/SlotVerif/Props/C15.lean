import SlotVerif.Model.Runner
import SlotVerif.Props.C13
/-!
# C15 — Saturation and stop reasons are reported truthfully

Control part (proof): the loop model stops within `iter_limit + 2` iterations, and every stop
reason is true of the iteration that produced it.  Measure part: `apply_rewrites` returns
`prog != eg.progress()`; by C13 (`unchanged_iff_no_event`) an unchanged measure is equivalent to
"no alloc / merge / shrink / addsym event happened".  That the *e-graph* then has no observable
change, and that a saturated e-graph has nothing left to apply, is validated per run with an
independent fingerprint.
-/
namespace SV.C15
open SV SV.Runner

/-- a stop in iteration `k` is justified by that iteration's observation -/
theorem runOne_truthful {lim : Limits} {k : Nat} {o : Obs} {s : Stop} (h : runOne lim k o = some s) :
    match s with
    | .other hk => o.hookErr = some hk
    | .iterLimit => o.hookErr = none ∧ k > lim.iterLimit
    | .nodeLimit => o.hookErr = none ∧ o.nodes > lim.nodeLimit
    | .timeLimit => o.hookErr = none ∧ o.overTime = true
    | .saturated => o.hookErr = none ∧ o.progress = false ∧ k ≤ lim.iterLimit ∧ o.nodes ≤ lim.nodeLimit ∧ o.overTime = false := by
  unfold runOne at h
  cases hh : o.hookErr with
  | some x => rw [hh] at h; simp at h; subst h; simp
  | none =>
    rw [hh] at h
    simp only at h
    split at h
    · simp at h; subst h; simp; assumption
    · split at h
      · simp at h; subst h; simp; assumption
      · split at h
        · simp at h; subst h; simp; assumption
        · split at h
          · rename_i h1 h2 h3 h4
            simp at h; subst h
            simp
            refine ⟨by simpa using h4, by omega, by omega, by simpa using h3⟩
          · simp at h

/-- **the loop ends within the configured iteration bound plus a fixed constant** -/
theorem run_bound (lim : Limits) : ∀ (k : Nat) (obs : List Obs) (s : Stop) (n : Nat),
    run lim k obs = some (s, n) → k ≤ lim.iterLimit + 1 → n ≤ lim.iterLimit + 2
  | _, [], _, _, h, _ => by simp [run] at h
  | k, o :: rest, s, n, h, hk => by
    simp only [run] at h
    cases hr : runOne lim k o with
    | some s' => rw [hr] at h; simp at h; omega
    | none =>
      rw [hr] at h
      simp only at h
      -- no stop in iteration k means k ≤ iterLimit
      have hle : k ≤ lim.iterLimit := by
        unfold runOne at hr
        cases hh : o.hookErr with
        | some x => rw [hh] at hr; simp at hr
        | none =>
          rw [hh] at hr; simp only at hr
          split at hr
          · simp at hr
          · omega
      exact run_bound lim (k + 1) rest s n h (by omega)

/-- the reported stop reason is true of the final iteration, and every earlier iteration made progress
within all limits -/
theorem run_truthful (lim : Limits) : ∀ (k : Nat) (obs : List Obs) (s : Stop) (n : Nat),
    run lim k obs = some (s, n) →
    ∃ o, obs[n - 1 - k]? = some o ∧ runOne lim (n - 1) o = some s ∧ k < n
  | _, [], _, _, h => by simp [run] at h
  | k, o :: rest, s, n, h => by
    simp only [run] at h
    cases hr : runOne lim k o with
    | some s' =>
      rw [hr] at h; simp at h
      obtain ⟨h1, h2⟩ := h
      subst h1; subst h2
      exact ⟨o, by simp, by simpa using hr, by omega⟩
    | none =>
      rw [hr] at h; simp only at h
      obtain ⟨o', ho', hs', hlt⟩ := run_truthful lim (k + 1) rest s n h
      refine ⟨o', ?_, hs', by omega⟩
      have : n - 1 - k = (n - 1 - (k + 1)) + 1 := by omega
      rw [this]; simpa using ho'

/-- `run_eqsat`: the counter never exceeds the iteration limit -/
theorem runEqsat_bound (L : Nat) : ∀ (k : Nat) (obs : List Obs) (s : Stop) (n : Nat),
    runEqsat L k obs = some (s, n) → k ≤ L → n ≤ L
  | _, [], _, _, h, _ => by simp [runEqsat] at h
  | k, o :: rest, s, n, h, hk => by
    simp only [runEqsat] at h
    cases hh : o.hookErr with
    | some x => rw [hh] at h; simp at h; omega
    | none =>
      rw [hh] at h; simp only at h
      split at h
      · simp at h; omega
      · split at h
        · simp at h; omega
        · split at h
          · simp at h; omega
          · exact runEqsat_bound L (k + 1) rest s n h (by omega)

/-- `apply_rewrites = false` ⇔ the measure did not move ⇔ no event (C13) -/
theorem false_iff_no_event {evs : List Ev} {a b : Measure} (h : Measure.stepOK evs a b = true) :
    a = b ↔ evs = [] := SV.C13.unchanged_iff_no_event h

/-- non-vacuity: three iterations with progress, then none: saturated after 4 iterations; with
iter_limit 1 the same stream stops with IterationLimit after 1 + 2 iterations -/
example : run ⟨30, 10000⟩ 0 [⟨true, none, 10, false⟩, ⟨true, none, 20, false⟩, ⟨true, none, 30, false⟩, ⟨false, none, 30, false⟩]
    = some (.saturated, 4) := by decide
example : run ⟨1, 10000⟩ 0 [⟨true, none, 10, false⟩, ⟨true, none, 20, false⟩, ⟨true, none, 30, false⟩, ⟨false, none, 30, false⟩]
    = some (.iterLimit, 3) := by decide

end SV.C15
