import SlotVerif.Model.Match
/-!
# C05 — Reported matches denote terms that are really in the e-graph

The matcher (`ematch_*`, `multi_ematch`) is not modelled.  Proved: the **match checker** — if
`checkMatch` accepts a substitution on a dumped state, then every pattern variable is bound and the
instantiated pattern looks up (read-only, in the snapshot model) to a class invocation; the check
cannot succeed vacuously.  Per run every substitution the implementation returns is judged by it.
-/
namespace SV.C05
open SV SV.MPat

mutual
theorem bound_of_lookup (s : Snap) (σ : Subst) : ∀ (p : MPat) (a : AppId), lookupPat s σ p = some a →
    ∀ v ∈ pvars p, ∃ b, σ.get v = some b
  | .pvar w, a, h => by
    intro v hv
    simp only [pvars, List.mem_singleton] at hv
    subst hv
    exact ⟨a, by simpa [lookupPat] using h⟩
  | .node n cs, a, h => by
    simp only [lookupPat] at h
    cases hl : lookupPats s σ cs with
    | none => rw [hl] at h; simp at h
    | some apps =>
      intro v hv
      exact bound_of_lookups s σ cs apps hl v (by simpa [pvars] using hv)
theorem bound_of_lookups (s : Snap) (σ : Subst) : ∀ (ps : List MPat) (as : List AppId), lookupPats s σ ps = some as →
    ∀ v ∈ pvarsL ps, ∃ b, σ.get v = some b
  | [], _, _ => by intro v hv; simp [pvarsL] at hv
  | p :: ps, as, h => by
    simp only [lookupPats] at h
    cases hp : lookupPat s σ p with
    | none => rw [hp] at h; simp at h
    | some a =>
      cases hps : lookupPats s σ ps with
      | none => rw [hp, hps] at h; simp at h
      | some as' =>
        intro v hv
        simp only [pvarsL, List.mem_append] at hv
        rcases hv with hv | hv
        · exact bound_of_lookup s σ p a hp v hv
        · exact bound_of_lookups s σ ps as' hps v hv
end

/-- **soundness of the match checker**: acceptance means every pattern variable is bound and the
instance is represented (looked up without inserting anything) -/
theorem checkMatch_sound (s : Snap) (p : MPat) (σ : Subst) (h : checkMatch s p σ = true) :
    (∀ v ∈ pvars p, ∃ b, σ.get v = some b) ∧ ∃ a, lookupPat s σ p = some a := by
  unfold checkMatch at h
  obtain ⟨a, ha⟩ := Option.isSome_iff_exists.mp h
  exact ⟨bound_of_lookup s σ p a ha, a, ha⟩

/-- an accepted multi-pattern equation relates two bound classes that the state's `eq` identifies -/
theorem checkEquation_sound (s : Snap) (σ : Subst) (v : String) (n : Node) (cs : List String)
    (h : checkEquation s σ v n cs = true) :
    ∃ a apps b, σ.get v = some a ∧ cs.mapM σ.get = some apps ∧
      s.lookup (Snap.withApps n apps) = some b ∧ s.eq a b = some true := by
  unfold checkEquation at h
  cases ha : σ.get v with
  | none => rw [ha] at h; simp at h
  | some a =>
    cases hc : cs.mapM σ.get with
    | none => rw [ha, hc] at h; simp at h
    | some apps =>
      rw [ha, hc] at h
      simp only at h
      cases hb : s.lookup (Snap.withApps n apps) with
      | none => rw [hb] at h; simp at h
      | some b =>
        rw [hb] at h
        exact ⟨a, apps, b, rfl, rfl, hb, by simpa using h⟩

end SV.C05
