import SlotVerif.Model.Match
import SlotVerif.Proofs.EMatch
import SlotVerif.Proofs.MultiMatch
/-!
# C05 — Reported matches denote terms that are really in the e-graph

The single-pattern matcher `ematch_all` / `ematch_impl` / `ematch_node` / `final_subst` with `enodes_applied` **is
modelled** (`Model/EMatch.lean`) and tied to the code per run: the whole list of matches of every queried pattern is
compared with the model's, as sets modulo the names of fresh slots and the symmetries of the bound classes (query
`ematch`).  Proved about the model, for every dumped state, every well-formed pattern and every start state
(`Proofs/EMatch.lean`): `ematch_binds_all` — **every returned substitution binds every pattern variable**;
`matcher_state_invariant` — every state the matcher reaches extends the one it started from and **its map e-graph slot ↦
pattern slot stays a well-formed injection while descending**.  The multi-pattern matcher `multi_ematch` (slot union-find
with disequality constraints, `src/rewrite/multipat.rs`) is modelled as well (`Model/MultiMatch.lean`, query `mmatch`, same
comparison); `multi_ematch_binds_all`: every substitution it returns binds the variable and all child variables of every
equation (`Proofs/MultiMatch.lean`).  Also proved: the
**match checker** — if
`checkMatch` accepts a substitution on a dumped state, then every pattern variable is bound and the
instantiated pattern looks up (read-only, in the snapshot model) to a class invocation; the check
cannot succeed vacuously.  Per run every substitution the implementation returns is judged by it.
-/
namespace SV.C05
open SV SV.MPat

mutual
theorem bound_of_lookup (s : Snap) (σ : Subst) : ∀ (p : MPat) (a : AppId), lookupPat s σ p = some a →
    ∀ v ∈ pvars p, ∃ b, σ.get v = some b
  | .pvar w, a, h => by
    intro v hv
    simp only [pvars, List.mem_singleton] at hv
    subst hv
    exact ⟨a, by simpa [lookupPat] using h⟩
  | .node n cs, a, h => by
    simp only [lookupPat] at h
    cases hl : lookupPats s σ cs with
    | none => rw [hl] at h; simp at h
    | some apps =>
      intro v hv
      exact bound_of_lookups s σ cs apps hl v (by simpa [pvars] using hv)
theorem bound_of_lookups (s : Snap) (σ : Subst) : ∀ (ps : List MPat) (as : List AppId), lookupPats s σ ps = some as →
    ∀ v ∈ pvarsL ps, ∃ b, σ.get v = some b
  | [], _, _ => by intro v hv; simp [pvarsL] at hv
  | p :: ps, as, h => by
    simp only [lookupPats] at h
    cases hp : lookupPat s σ p with
    | none => rw [hp] at h; simp at h
    | some a =>
      cases hps : lookupPats s σ ps with
      | none => rw [hp, hps] at h; simp at h
      | some as' =>
        intro v hv
        simp only [pvarsL, List.mem_append] at hv
        rcases hv with hv | hv
        · exact bound_of_lookup s σ p a hp v hv
        · exact bound_of_lookups s σ ps as' hps v hv
end

/-- **soundness of the match checker**: acceptance means every pattern variable is bound and the
instance is represented (looked up without inserting anything) -/
theorem checkMatch_sound (s : Snap) (p : MPat) (σ : Subst) (h : checkMatch s p σ = true) :
    (∀ v ∈ pvars p, ∃ b, σ.get v = some b) ∧ ∃ a, lookupPat s σ p = some a := by
  unfold checkMatch at h
  obtain ⟨a, ha⟩ := Option.isSome_iff_exists.mp h
  exact ⟨bound_of_lookup s σ p a ha, a, ha⟩

/-- an accepted multi-pattern equation relates two bound classes that the state's `eq` identifies -/
theorem checkEquation_sound (s : Snap) (σ : Subst) (v : String) (n : Node) (cs : List String)
    (h : checkEquation s σ v n cs = true) :
    ∃ a apps b, σ.get v = some a ∧ cs.mapM σ.get = some apps ∧
      s.lookup (Snap.withApps n apps) = some b ∧ s.eq a b = some true := by
  unfold checkEquation at h
  cases ha : σ.get v with
  | none => rw [ha] at h; simp at h
  | some a =>
    cases hc : cs.mapM σ.get with
    | none => rw [ha, hc] at h; simp at h
    | some apps =>
      rw [ha, hc] at h
      simp only at h
      cases hb : s.lookup (Snap.withApps n apps) with
      | none => rw [hb] at h; simp at h
      | some b =>
        rw [hb] at h
        exact ⟨a, apps, b, rfl, rfl, hb, by simpa using h⟩

/-- **every substitution `ematch_all` returns binds every variable of the pattern**, on every state -/
theorem ematch_binds_all (s : Snap) (p : MPat) (hp : EMatch.wfPat p) (k : Nat) :
    ∀ σ ∈ (EMatch.ematchAll s p k).1, ∀ v ∈ pvars p, ∃ b, Subst.get σ v = some b := by
  intro σ hσ v hv
  have hm := EMatch.ematchAll_binds s p hp k σ hσ v hv
  obtain ⟨b, hb, hbv⟩ := List.mem_map.mp hm
  unfold Subst.get
  cases hf : σ.find? (·.1 == v) with
  | some x => exact ⟨x.2, rfl⟩
  | none =>
    have := List.find?_eq_none.mp hf b hb
    simp [hbv] at this

/-- **the partial slot map stays a bijection while descending**: every state reached from a state whose slot map is a
well-formed injection extends it and has a well-formed injective slot map again; all variables of the pattern are bound -/
theorem matcher_state_invariant (s : Snap) (fuel : Nat) (p : MPat) (st : EMatch.MState) (i : AppId) (k : Nat)
    (hp : EMatch.wfPat p) (hw : SlotMap.WF st.smap) (hi : SlotMap.Inj st.smap) :
    ∀ st' ∈ (EMatch.ematchImpl s fuel p st i k).1,
      (∃ ext, st'.subst = st.subst ++ ext) ∧ SlotMap.WF st'.smap ∧ SlotMap.Inj st'.smap ∧
      (∀ a b, SlotMap.get st.smap a = some b → SlotMap.get st'.smap a = some b) ∧
      ∀ v ∈ pvars p, v ∈ st'.subst.map (·.1) := by
  intro st' h
  obtain ⟨e, b⟩ := EMatch.ematchImpl_spec s fuel p st i k hp ⟨hw, hi⟩ st' h
  exact ⟨e.pre, e.good.wf, e.good.inj, e.keep, b⟩

/-- non-vacuity: on a two-class state (`a`, `h(a)`) the pattern `(h ?x)` is well formed and has exactly one match -/
def demo : Snap :=
  { uf := [⟨0, []⟩, ⟨1, []⟩],
    classes := [
      { id := 0, slots := [], nodes := [(⟨16, [.lit "a"]⟩, [])], gens := [], syn := ⟨16, [.lit "a"]⟩, data := "-" },
      { id := 1, slots := [], nodes := [(⟨13, [.app ⟨0, []⟩]⟩, [])], gens := [], syn := ⟨13, [.app ⟨0, []⟩]⟩, data := "-" }] }
def demoPat : MPat := .node ⟨13, [.app ⟨0, []⟩]⟩ [.pvar "x"]
example : EMatch.wfPat demoPat := ⟨rfl, trivial, trivial⟩
#guard ((EMatch.ematchAll demo demoPat 100).1.map fun σ => σ.map fun b => (b.1, b.2.id)) == [[("x", 0)]]

/-- **every substitution `multi_ematch` returns binds every variable of the multi-pattern** (`?v` and all `?ci` of every
equation `?v == node(?c1 .. ?ck)`), on every state, for equations whose node has a child position for each `?ci` -/
theorem multi_ematch_binds_all (s : Snap) (pats : List (String × Node × List String))
    (hwf : ∀ pat ∈ pats, pat.2.2.length ≤ (Node.appOcc pat.2.1).length) (k : Nat) :
    ∀ σ ∈ (MultiMatch.multiEmatch s pats k).1, ∀ pat ∈ pats,
      pat.1 ∈ σ.map (·.1) ∧ ∀ c ∈ pat.2.2, c ∈ σ.map (·.1) :=
  MultiMatch.multiEmatch_binds s pats hwf k

#guard ((MultiMatch.multiEmatch demo [("o", ⟨13, [.app ⟨0, []⟩]⟩, ["x"])] 100).1.map fun σ => σ.map fun b => (b.1, b.2.id)) == [[("o", 1), ("x", 0)]]

end SV.C05
