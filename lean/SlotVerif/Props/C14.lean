import SlotVerif.Model.Analysis
/-!
# C14 — Analysis data is the fixpoint of make/merge over each class

Model: `Model/Analysis.lean` (the three analyses of the runs as `make`/`merge`, the join-fixpoint
predicate on a dumped state).  Proved: the merges are semilattice joins (the hypothesis of the
property), the join over a class's e-nodes does not depend on their order, and it is a lower bound
of every e-node's `make`.  That the implementation's data *is* this join after every public
operation is validated per run on the dumped state (every class, not a sample).
-/
namespace SV.C14
open SV SV.Analysis

/-- `min-size` and `min-depth`: merge is commutative, associative, idempotent -/
theorem merge_comm_min (a b : Data) : merge .minSize a b = merge .minSize b a := by
  cases a <;> cases b <;> simp [merge, Nat.min_comm]
theorem merge_assoc_min (a b c : Data) :
    merge .minSize (merge .minSize a b) c = merge .minSize a (merge .minSize b c) := by
  cases a <;> cases b <;> cases c <;> simp [merge, Nat.min_assoc]
theorem merge_idem_min (a : Data) : merge .minSize a a = a := by
  cases a <;> simp [merge]
theorem merge_comm_depth (a b : Data) : merge .minDepth a b = merge .minDepth b a := by
  cases a <;> cases b <;> simp [merge, Nat.min_comm]
theorem merge_assoc_depth (a b c : Data) :
    merge .minDepth (merge .minDepth a b) c = merge .minDepth a (merge .minDepth b c) := by
  cases a <;> cases b <;> cases c <;> simp [merge, Nat.min_assoc]
theorem merge_idem_depth (a : Data) : merge .minDepth a a = a := by
  cases a <;> simp [merge]

/-- constant folding: associative and idempotent always; commutative on compatible data
(two known constants must be the same constant — which is what validity of the rules guarantees) -/
theorem merge_assoc_const (a b c : Data) :
    merge .const (merge .const a b) c = merge .const a (merge .const b c) := by
  cases a <;> cases b <;> cases c <;> simp [merge]
theorem merge_idem_const (a : Data) : merge .const a a = a := by
  cases a <;> simp [merge]
theorem merge_comm_const (a b : Data) (h : ∀ x y, a = some x → b = some y → x = y) :
    merge .const a b = merge .const b a := by
  cases a with
  | none => cases b <;> simp [merge]
  | some x => cases b with
    | none => simp [merge]
    | some y => have := h x y rfl rfl; subst this; simp [merge]

/-- the join over a list of data, as computed per class -/
def joinL (k : Analysis.Kind) (l : List Data) : Data := l.foldl (merge k) none

theorem foldl_merge_min_init (l : List Data) (init : Data) :
    l.foldl (merge .minSize) init = merge .minSize init (l.foldl (merge .minSize) none) := by
  induction l generalizing init with
  | nil => cases init <;> simp [merge]
  | cons a t ih =>
    simp only [List.foldl_cons]
    rw [ih (merge .minSize init a), ih (merge .minSize none a), merge_assoc_min]
    cases a <;> simp [merge]

/-- **the join does not depend on the order in which the e-nodes of a class are visited** -/
theorem joinL_perm_min {l₁ l₂ : List Data} (h : l₁.Perm l₂) : joinL .minSize l₁ = joinL .minSize l₂ := by
  unfold joinL
  induction h with
  | nil => rfl
  | cons a _ ih =>
    simp only [List.foldl_cons]
    rw [foldl_merge_min_init _ (merge .minSize none a), foldl_merge_min_init (l := _) (init := merge .minSize none a), ih]
  | swap a b l =>
    simp only [List.foldl_cons]
    congr 1
    rw [merge_assoc_min, merge_assoc_min, merge_comm_min a b]
  | trans _ _ ih1 ih2 => rw [ih1, ih2]

/-- **the datum is a lower bound of every e-node's `make`**: no member of the class is smaller than the
class's min-size datum says -/
theorem joinL_le_each (l : List Data) (x : Nat) (hx : some x ∈ l) :
    ∃ d, joinL .minSize l = some d ∧ d ≤ x := by
  unfold joinL
  induction l with
  | nil => simp at hx
  | cons a t ih =>
    simp only [List.foldl_cons]
    rw [foldl_merge_min_init]
    simp at hx
    rcases hx with hx | hx
    · subst hx
      cases ht : t.foldl (merge .minSize) none with
      | none => exact ⟨x, by simp [merge], Nat.le_refl _⟩
      | some y => exact ⟨min x y, by simp [merge], Nat.min_le_left _ _⟩
    · obtain ⟨d, hd, hle⟩ := ih hx
      rw [hd]
      cases a with
      | none => exact ⟨d, by simp [merge], hle⟩
      | some y => exact ⟨min y d, by simp [merge], Nat.le_trans (Nat.min_le_right _ _) hle⟩

/-- non-vacuity: `make`/`merge` on concrete data -/
example : make .minSize ⟨4, [.app ⟨0, []⟩, .app ⟨1, []⟩]⟩ [some 3, some 5] = some 9 ∧
    make .const ⟨5, [.app ⟨0, []⟩, .app ⟨1, []⟩]⟩ [some 3, some 5] = some 1 ∧
    merge .minSize (some 9) (some 4) = some 4 ∧ merge .const none (some 2) = some 2 := by decide

end SV.C14
