import SlotVerif.Model.Analysis
import SlotVerif.Props.C06
import SlotVerif.Model.SnapInv
import SlotVerif.Model.Eval
/-!
# C14 — Analysis data is the fixpoint of make/merge over each class

Model: `Model/Analysis.lean` (the three analyses of the runs as `make`/`merge`, the join-fixpoint
predicate on a dumped state).  Proved: the merges are semilattice joins (the hypothesis of the
property), the join over a class's e-nodes does not depend on their order, and it is a lower bound
of every e-node's `make`.  That the implementation's data *is* this join after every public
operation is validated per run on the dumped state (every class, not a sample).
`minsize_datum_is_min`: **on every state whose min-size data pass the join-fixpoint predicate, the datum of each
live class is the size of a smallest term the class represents** — it is attained by an extraction tree and no
extraction tree of the class is smaller (through the verified cost-table checker of C06: the data of a fixpoint
state *are* a table that `checkTable` accepts, `fixpoint_checks`).  So the per-run comparison "datum = extractor's
best cost" compares two values that are both proved to be the minimum.  `constFold_sound`: the constant-folding
`make` computes the node's value in the model algebra of C03 from correct children data, and
`const_datum_from_node`: a class's constant datum is the `make` of one of its e-nodes.
-/
namespace SV.C14
open SV SV.Analysis

/-- `min-size` and `min-depth`: merge is commutative, associative, idempotent -/
theorem merge_comm_min (a b : Data) : merge .minSize a b = merge .minSize b a := by
  cases a <;> cases b <;> simp [merge, Nat.min_comm]
theorem merge_assoc_min (a b c : Data) :
    merge .minSize (merge .minSize a b) c = merge .minSize a (merge .minSize b c) := by
  cases a <;> cases b <;> cases c <;> simp [merge, Nat.min_assoc]
theorem merge_idem_min (a : Data) : merge .minSize a a = a := by
  cases a <;> simp [merge]
theorem merge_comm_depth (a b : Data) : merge .minDepth a b = merge .minDepth b a := by
  cases a <;> cases b <;> simp [merge, Nat.min_comm]
theorem merge_assoc_depth (a b c : Data) :
    merge .minDepth (merge .minDepth a b) c = merge .minDepth a (merge .minDepth b c) := by
  cases a <;> cases b <;> cases c <;> simp [merge, Nat.min_assoc]
theorem merge_idem_depth (a : Data) : merge .minDepth a a = a := by
  cases a <;> simp [merge]

/-- constant folding: associative and idempotent always; commutative on compatible data
(two known constants must be the same constant — which is what validity of the rules guarantees) -/
theorem merge_assoc_const (a b c : Data) :
    merge .const (merge .const a b) c = merge .const a (merge .const b c) := by
  cases a <;> cases b <;> cases c <;> simp [merge]
theorem merge_idem_const (a : Data) : merge .const a a = a := by
  cases a <;> simp [merge]
theorem merge_comm_const (a b : Data) (h : ∀ x y, a = some x → b = some y → x = y) :
    merge .const a b = merge .const b a := by
  cases a with
  | none => cases b <;> simp [merge]
  | some x => cases b with
    | none => simp [merge]
    | some y => have := h x y rfl rfl; subst this; simp [merge]

/-- the join over a list of data, as computed per class -/
def joinL (k : Analysis.Kind) (l : List Data) : Data := l.foldl (merge k) none

theorem foldl_merge_min_init (l : List Data) (init : Data) :
    l.foldl (merge .minSize) init = merge .minSize init (l.foldl (merge .minSize) none) := by
  induction l generalizing init with
  | nil => cases init <;> simp [merge]
  | cons a t ih =>
    simp only [List.foldl_cons]
    rw [ih (merge .minSize init a), ih (merge .minSize none a), merge_assoc_min]
    cases a <;> simp [merge]

/-- **the join does not depend on the order in which the e-nodes of a class are visited** -/
theorem joinL_perm_min {l₁ l₂ : List Data} (h : l₁.Perm l₂) : joinL .minSize l₁ = joinL .minSize l₂ := by
  unfold joinL
  induction h with
  | nil => rfl
  | cons a _ ih =>
    simp only [List.foldl_cons]
    rw [foldl_merge_min_init _ (merge .minSize none a), foldl_merge_min_init (l := _) (init := merge .minSize none a), ih]
  | swap a b l =>
    simp only [List.foldl_cons]
    congr 1
    rw [merge_assoc_min, merge_assoc_min, merge_comm_min a b]
  | trans _ _ ih1 ih2 => rw [ih1, ih2]

/-- **the datum is a lower bound of every e-node's `make`**: no member of the class is smaller than the
class's min-size datum says -/
theorem joinL_le_each (l : List Data) (x : Nat) (hx : some x ∈ l) :
    ∃ d, joinL .minSize l = some d ∧ d ≤ x := by
  unfold joinL
  induction l with
  | nil => simp at hx
  | cons a t ih =>
    simp only [List.foldl_cons]
    rw [foldl_merge_min_init]
    simp at hx
    rcases hx with hx | hx
    · subst hx
      cases ht : t.foldl (merge .minSize) none with
      | none => exact ⟨x, by simp [merge], Nat.le_refl _⟩
      | some y => exact ⟨min x y, by simp [merge], Nat.min_le_left _ _⟩
    · obtain ⟨d, hd, hle⟩ := ih hx
      rw [hd]
      cases a with
      | none => exact ⟨d, by simp [merge], hle⟩
      | some y => exact ⟨min y d, by simp [merge], Nat.le_trans (Nat.min_le_right _ _) hle⟩

/-! ### the min-size fixpoint is the minimum AST size -/

open Extract in
/-- the data of the live classes as a cost table -/
def dataTable (s : Snap) : Extract.Table :=
  s.classes.filterMap fun c =>
    if s.isAlive c.id then (parseData .minSize c.data).map fun d => (c.id, d) else none

/-- structural facts about the dumped state that `Snap.checkInv` establishes when nothing is pending: class ids are
unique and the children of live classes' nodes are live -/
structure Tidy (s : Snap) : Prop where
  ids : (s.classes.map (·.id)).Nodup
  kids : ∀ c ∈ s.classes, s.isAlive c.id = true → ∀ e ∈ c.nodes, ∀ a ∈ Node.appOcc e.1, s.isAlive a.id = true

theorem find_of_nodup : ∀ (l : List SClass), (l.map (·.id)).Nodup → ∀ c ∈ l, l.find? (·.id == c.id) = some c
  | [], _, c, hc => by simp at hc
  | a :: t, hn, c, hc => by
    simp only [List.map_cons, List.nodup_cons] at hn
    simp only [List.mem_cons] at hc
    rw [List.find?_cons]
    rcases hc with hc | hc
    · subst hc; simp
    · have : a.id ≠ c.id := fun he => hn.1 (he ▸ List.mem_map.mpr ⟨c, hc, rfl⟩)
      have hb : (a.id == c.id) = false := by simpa using this
      rw [hb]; exact find_of_nodup t hn.2 c hc

theorem cls_of_mem {s : Snap} (h : Tidy s) {c : SClass} (hc : c ∈ s.classes) : s.cls c.id = some c :=
  find_of_nodup s.classes h.ids c hc

theorem table_get_aux (F : SClass → Option (Nat × Nat)) (hF : ∀ c p, F c = some p → p.1 = c.id) (i : Nat) :
    ∀ (l : List SClass), (l.map (·.id)).Nodup →
      ((l.filterMap F).find? (·.1 == i)).map (·.2) = ((l.find? (·.id == i)).bind F).map (·.2)
  | [], _ => rfl
  | a :: t, hn => by
    simp only [List.map_cons, List.nodup_cons] at hn
    rw [List.filterMap_cons, List.find?_cons]
    by_cases hai : a.id = i
    · have hb : (a.id == i) = true := by simpa using hai
      rw [hb]
      simp only [Option.bind_some]
      cases hFa : F a with
      | some p =>
        simp only
        rw [List.find?_cons]
        have : (p.1 == i) = true := by rw [hF a p hFa]; exact hb
        rw [this]
      | none =>
        simp only [Option.map_none]
        have : (t.filterMap F).find? (·.1 == i) = none := by
          rw [List.find?_eq_none]
          intro p hp hpi
          obtain ⟨c, hc, hFc⟩ := List.mem_filterMap.mp hp
          have : c.id = i := by rw [← hF c p hFc]; simpa using hpi
          exact hn.1 (by rw [hai, ← this]; exact List.mem_map.mpr ⟨c, hc, rfl⟩)
        rw [this]; rfl
    · have hb : (a.id == i) = false := by simpa using hai
      rw [hb]
      cases hFa : F a with
      | some p =>
        simp only
        rw [List.find?_cons]
        have : (p.1 == i) = false := by rw [hF a p hFa]; exact hb
        rw [this]; exact table_get_aux F hF i t hn.2
      | none => simp only; exact table_get_aux F hF i t hn.2

/-- the table holds, for a live class, exactly its datum -/
theorem dataTable_get {s : Snap} (h : Tidy s) (i : Nat) (ha : s.isAlive i = true) :
    Extract.Table.get (dataTable s) i = dataOf .minSize s i := by
  unfold Extract.Table.get dataTable dataOf Snap.cls
  rw [table_get_aux _ _ i s.classes h.ids]
  · cases hf : s.classes.find? (·.id == i) with
    | none => rfl
    | some c =>
      have hci : c.id = i := by simpa using List.find?_some hf
      simp only [Option.bind_some, hci, ha, if_true]
      cases parseData .minSize c.data <;> rfl
  · intro c p hp
    split at hp
    · cases hd : parseData .minSize c.data with
      | none => rw [hd] at hp; simp at hp
      | some d => rw [hd] at hp; simp at hp; rw [← hp]
    · simp at hp

theorem dataTable_alive {s : Snap} {p : Nat × Nat} (hp : p ∈ dataTable s) :
    ∃ c ∈ s.classes, c.id = p.1 ∧ s.isAlive c.id = true ∧ parseData .minSize c.data = some p.2 := by
  unfold dataTable at hp
  obtain ⟨c, hc, hF⟩ := List.mem_filterMap.mp hp
  split at hF
  · rename_i ha
    cases hd : parseData .minSize c.data with
    | none => rw [hd] at hF; simp at hF
    | some d => rw [hd] at hF; simp at hF; exact ⟨c, hc, by rw [← hF], ha, by rw [← hF]; exact hd⟩
  · simp at hF

theorem mapM_map_id {α} (f : α → Option Nat) : ∀ (l : List α), (l.map f).mapM id = l.mapM f
  | [] => rfl
  | a :: t => by simp only [List.map_cons, List.mapM_cons, mapM_map_id f t]; rfl

/-- `make` of a node of a live class is the AST cost of the node over the table -/
theorem make_eq_cost {s : Snap} (h : Tidy s) {c : SClass} (hc : c ∈ s.classes) (ha : s.isAlive c.id = true)
    {e : Node × SlotMap} (he : e ∈ c.nodes) :
    make .minSize e.1 ((Node.appOcc e.1).map fun a => dataOf .minSize s a.id) =
      (Extract.kidCosts (dataTable s) e.1).map (Extract.nodeCost .ast e.1.v) := by
  unfold make Extract.kidCosts
  simp only
  rw [mapM_map_id]
  have : (Node.appOcc e.1).mapM (fun a => dataOf .minSize s a.id) =
      (Node.appOcc e.1).mapM (fun a => Extract.Table.get (dataTable s) a.id) := by
    have hk := h.kids c hc ha e he
    generalize Node.appOcc e.1 = l at hk
    induction l with
    | nil => rfl
    | cons a t ih =>
      simp only [List.mapM_cons]
      rw [dataTable_get h a.id (hk a (by simp)), ih (fun b hb => hk b (by simp [hb]))]
  rw [this]
  rfl

theorem joinL_cons (a : Data) (t : List Data) : joinL .minSize (a :: t) = merge .minSize a (joinL .minSize t) := by
  unfold joinL
  simp only [List.foldl_cons]
  rw [foldl_merge_min_init]
  cases a <;> simp [merge]

/-- the join is attained by one of the joined data -/
theorem joinL_attained : ∀ (l : List Data) (k : Nat), joinL .minSize l = some k → some k ∈ l
  | [], k, h => by simp [joinL] at h
  | a :: t, k, h => by
    rw [joinL_cons] at h
    cases a with
    | none =>
      have : joinL .minSize t = some k := by simpa [merge] using h
      exact List.mem_cons_of_mem _ (joinL_attained t k this)
    | some x =>
      cases ht : joinL .minSize t with
      | none => rw [ht] at h; simp [merge] at h; simp [h]
      | some y =>
        rw [ht] at h
        simp only [merge, Option.some.injEq] at h
        by_cases hxy : x ≤ y
        · have : x = k := by rw [← h]; exact (Nat.min_eq_left hxy).symm
          simp [this]
        · have : y = k := by rw [← h]; exact (Nat.min_eq_right (by omega)).symm
          exact List.mem_cons_of_mem _ (joinL_attained t k (by rw [ht, this]))

theorem joinOfClass_eq (s : Snap) (c : SClass) :
    joinOfClass .minSize s c =
      joinL .minSize (c.nodes.map fun e => make .minSize e.1 ((Node.appOcc e.1).map fun a => dataOf .minSize s a.id)) := by
  unfold joinOfClass joinL
  rw [List.foldl_map]

/-- **the data of a min-size fixpoint state are a cost table that the verified checker of C06 accepts** -/
theorem fixpoint_checks {s : Snap} (h : Tidy s) (hfix : isFixpoint .minSize s = true) :
    Extract.checkTable .ast s (dataTable s) = true := by
  unfold isFixpoint at hfix
  simp only [List.all_eq_true, Bool.or_eq_true, Bool.not_eq_true', beq_iff_eq] at hfix
  unfold Extract.checkTable
  simp only [Bool.and_eq_true, List.all_eq_true, Bool.or_eq_true, Bool.not_eq_true']
  constructor
  · intro c hc
    by_cases ha : s.isAlive c.id = true
    · right
      intro e he
      have hmk := make_eq_cost h hc ha he
      cases hk : Extract.kidCosts (dataTable s) e.1 with
      | none => rfl
      | some ks =>
        simp only
        rw [hk] at hmk
        simp only [Option.map_some] at hmk
        have hd : parseData .minSize c.data = joinOfClass .minSize s c := by
          rcases hfix c hc with h' | h'
          · rw [h'] at ha; simp at ha
          · exact h'
        rw [joinOfClass_eq] at hd
        obtain ⟨d, hdj, hle⟩ := joinL_le_each
          (c.nodes.map fun e => make .minSize e.1 ((Node.appOcc e.1).map fun a => dataOf .minSize s a.id))
          (Extract.nodeCost .ast e.1.v ks) (List.mem_map.mpr ⟨e, he, hmk⟩)
        rw [dataTable_get h c.id ha]
        unfold dataOf
        rw [cls_of_mem h hc]
        simp only [Option.bind_some]
        rw [hd, hdj]
        simpa using hle
    · left; simpa using ha
  · intro p hp
    obtain ⟨c, hc, hid, ha, hd⟩ := dataTable_alive hp
    rw [← hid, ha, cls_of_mem h hc]
    simp only [List.any_eq_true]
    refine ⟨by decide, ?_⟩
    have hj : joinOfClass .minSize s c = some p.2 := by
      rcases hfix c hc with h' | h'
      · rw [h'] at ha; simp at ha
      · rw [← h']; exact hd
    rw [joinOfClass_eq] at hj
    obtain ⟨e, he, hme⟩ := List.mem_map.mp (joinL_attained _ _ hj)
    rw [make_eq_cost h hc ha he] at hme
    refine ⟨e, he, ?_⟩
    cases hk : Extract.kidCosts (dataTable s) e.1 with
    | none => rw [hk] at hme; simp at hme
    | some ks => rw [hk] at hme; simpa using hme

/-- **the min-size datum is the size of a smallest represented term**: attained by an extraction tree of the class,
and a lower bound for all of them -/
theorem minsize_datum_is_min {s : Snap} (h : Tidy s) (hfix : isFixpoint .minSize s = true) {i k : Nat}
    (ha : s.isAlive i = true) (hd : dataOf .minSize s i = some k) :
    (∃ T, C06.wfTree s T = true ∧ T.root = i ∧ C06.treeCost .ast s T = k) ∧
    (∀ T, C06.wfTree s T = true → T.root = i → k ≤ C06.treeCost .ast s T) :=
  C06.table_is_min (fixpoint_checks h hfix) (by rw [dataTable_get h i ha]; exact hd)

/-- `Tidy` follows from the snapshot invariant of C08 when nothing is pending (class ids come from a map keyed by id) -/
theorem tidy_of_inv {s : Snap} (h : Snap.checkInv s = true) (hp : s.pending = [])
    (hn : (s.classes.map (·.id)).Nodup) : Tidy s where
  ids := hn
  kids := fun c hc _ e he a ha => by
    unfold Snap.checkInv at h
    simp only [Bool.and_eq_true, List.all_eq_true] at h
    have hcO := (h.2 c hc).2
    rw [hp] at hcO
    simp only [List.isEmpty_nil, forall_const, decide_eq_true_eq] at hcO
    unfold Snap.childrenOK at hcO
    simp only [List.all_eq_true, Bool.and_eq_true] at hcO
    exact ((hcO e he a ha).1).1

/-- non-vacuity: a two-class state with min-size data 1 and 2 is tidy and a fixpoint; its data are the minimum sizes -/
def demo : Snap :=
  { uf := [⟨0, []⟩, ⟨1, []⟩],
    classes := [
      { id := 0, slots := [], nodes := [(⟨16, [.lit "a"]⟩, [])], gens := [], syn := ⟨16, [.lit "a"]⟩, data := "1" },
      { id := 1, slots := [], nodes := [(⟨13, [.app ⟨0, []⟩]⟩, []), (⟨4, [.app ⟨1, []⟩, .app ⟨0, []⟩]⟩, [])], gens := [],
        syn := ⟨13, [.app ⟨0, []⟩]⟩, data := "2" }] }
-- evaluated, not kernel-reduced (`String.toNat?` on the data strings does not reduce in the kernel): a test of the premises
#guard isFixpoint .minSize demo && Snap.checkInv demo && dataOf .minSize demo 1 == some 2 &&
  Extract.checkTable .ast demo (dataTable demo)
example : (demo.classes.map (·.id)).Nodup ∧ demo.pending = [] := by decide

/-! ### constant folding is sound for the model algebra -/

theorem ofNat_add (a b : Nat) : (Fin.ofNat 7 a : Eval.F) + Fin.ofNat 7 b = Fin.ofNat 7 ((a + b) % 7) := by
  apply Fin.ext; simp [Fin.ofNat, Fin.add_def, Nat.add_mod]

theorem ofNat_mul (a b : Nat) : (Fin.ofNat 7 a : Eval.F) * Fin.ofNat 7 b = Fin.ofNat 7 ((a * b) % 7) := by
  apply Fin.ext; simp [Fin.ofNat, Fin.mul_def, Nat.mul_mod]

/-- **`make` of the constant-folding analysis computes the node's value in the model algebra of C03**: if the data of
the children are their values, the datum made for the node is its value -/
theorem constFold_sound (n : Node) (kids : List Data) (vals : List Eval.F) (kid : Nat → List Eval.F → Eval.F)
    (hk : ∀ i a, kids[i]? = some (some a) → kid i [] = Fin.ofNat 7 a) {v : Nat}
    (h : make .const n kids = some v) : Eval.evalNode n vals kid = Fin.ofNat 7 v := by
  unfold make at h
  simp only at h
  split at h
  · -- number
    rename_i hv
    unfold Eval.evalNode
    rw [hv]
    simp only
    unfold litNat at h
    unfold Eval.nodeLit Eval.litVal
    split at h
    · rename_i s hf
      rw [hf]
      simp only
      cases hs : s.toNat? with
      | none => rw [hs] at h; simp at h
      | some k =>
        rw [hs] at h
        simp only [Option.map_some, Option.some.injEq] at h
        rw [← h]
        apply Fin.ext; simp [Fin.ofNat]
    · simp at h
  · rename_i a b hv
    simp only [Option.some.injEq] at h
    unfold Eval.evalNode
    rw [hv]
    simp only
    rw [hk 0 a (by simp), hk 1 b (by simp), ofNat_add, h]
  · rename_i a b hv
    simp only [Option.some.injEq] at h
    unfold Eval.evalNode
    rw [hv]
    simp only
    rw [hk 0 a (by simp), hk 1 b (by simp), ofNat_mul, h]
  · simp at h

/-- the constant datum of a class is made by one of its e-nodes (the join of the constant analysis keeps the first
known constant) -/
theorem const_join_attained : ∀ (l : List Data) (init : Data) (k : Nat), l.foldl (merge .const) init = some k →
    init = some k ∨ some k ∈ l
  | [], init, k, h => Or.inl h
  | a :: t, init, k, h => by
    simp only [List.foldl_cons] at h
    rcases const_join_attained t _ k h with h' | h'
    · cases init with
      | some x => simp only [merge] at h'; exact Or.inl h'
      | none => simp only [merge] at h'; exact Or.inr (by simp [h'])
    · exact Or.inr (List.mem_cons_of_mem _ h')

theorem const_datum_from_node (s : Snap) (c : SClass) (k : Nat) (h : joinOfClass .const s c = some k) :
    ∃ e ∈ c.nodes, make .const e.1 ((Node.appOcc e.1).map fun a => dataOf .const s a.id) = some k := by
  unfold joinOfClass at h
  have : c.nodes.foldl (fun acc e => merge .const acc (make .const e.1 ((Node.appOcc e.1).map fun a => dataOf .const s a.id))) none =
      (c.nodes.map fun e => make .const e.1 ((Node.appOcc e.1).map fun a => dataOf .const s a.id)).foldl (merge .const) none := by
    rw [List.foldl_map]
  rw [this] at h
  rcases const_join_attained _ none k h with h' | h'
  · simp at h'
  · obtain ⟨e, he, hm⟩ := List.mem_map.mp h'
    exact ⟨e, he, hm⟩

/-- non-vacuity: `make`/`merge` on concrete data -/
example : make .minSize ⟨4, [.app ⟨0, []⟩, .app ⟨1, []⟩]⟩ [some 3, some 5] = some 9 ∧
    make .const ⟨5, [.app ⟨0, []⟩, .app ⟨1, []⟩]⟩ [some 3, some 5] = some 1 ∧
    merge .minSize (some 9) (some 4) = some 4 ∧ merge .const none (some 2) = some 2 := by decide

end SV.C14
