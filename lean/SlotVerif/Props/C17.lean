import SlotVerif.Proofs.Slot
/-!
# C17 — Fresh slots are globally new and slot names are injective

Model: `Model/Slot.lean` (`src/slot.rs` after fix F4).  A thread's history is a list of `Op`s;
the ghost state `issued` holds every slot code any operation returned so far, `log` every
`(name, slot)` a `named` call returned.  All theorems hold for histories of any length.
-/
namespace SV.Slot.C17

inductive Op where
  | fresh
  | numeric (u : Nat)
  | named (s : List Char)

structure St where
  tab : Tab := {}
  issued : List Nat := []
  log : List (List Char × Nat) := []

def step (st : St) : Op → St × Res Nat
  | .fresh =>
    match fresh st.tab with
    | (.ok c, t) => ({ st with tab := t, issued := c :: st.issued }, .ok c)
    | (.panic, t) => ({ st with tab := t }, .panic)
  | .numeric u =>
    match numeric u with
    | .ok c => ({ st with issued := c :: st.issued }, .ok c)
    | .panic => (st, .panic)
  | .named s =>
    match named st.tab s with
    | (.ok c, t) => ({ tab := t, issued := c :: st.issued, log := (s, c) :: st.log }, .ok c)
    | (.panic, t) => ({ st with tab := t }, .panic)

def run (st : St) (ops : List Op) : St := ops.foldl (fun s o => (step s o).1) st

/-- names in the table are exactly the texts that are neither numeric nor `f<n>` forms, no duplicates -/
def NamesOK (t : Tab) : Prop := t.names.Nodup ∧ ∀ s ∈ t.names, classify s = .name

structure Inv (st : St) : Prop where
  fmod : st.tab.freshIdx % 4 = 1
  fresh_lt : ∀ c ∈ st.issued, c % 4 = 1 → c < st.tab.freshIdx
  name_lt : ∀ c ∈ st.issued, c % 4 = 2 → (c - 2) / 4 < st.tab.names.length
  kind : ∀ c ∈ st.issued, c % 4 ≠ 3
  num_lt : ∀ c ∈ st.issued, c % 4 = 0 → c / 4 < numBound
  fresh_bd : ∀ c ∈ st.issued, c % 4 = 1 → (c - 1) / 4 < freshBound
  names : NamesOK st.tab
  log_ok : ∀ p ∈ st.log, named st.tab p.1 = (.ok p.2, st.tab)

theorem inv_init : Inv {} :=
  ⟨rfl, by simp, by simp, by simp, by simp, by simp, ⟨by simp, by simp⟩, by simp⟩

theorem ext_step (st : St) (o : Op) : Ext st.tab (step st o).1.tab := by
  cases o with
  | fresh =>
    have := fresh_ext st.tab
    simp only [step]; split <;> rename_i h <;> simp only <;> rw [h] at this <;> exact this
  | numeric u => simp only [step]; split <;> exact Ext.refl _
  | named s =>
    have := named_ext st.tab s
    simp only [step]; split <;> rename_i h <;> simp only <;> rw [h] at this <;> exact this

theorem namesOK_named {t : Tab} (h : NamesOK t) (s : List Char) : NamesOK (named t s).2 := by
  unfold named
  cases hc : classify s with
  | num x => exact h
  | fr x => simp only; split <;> exact h
  | name =>
    simp only
    unfold internName
    split
    · exact h
    · rename_i hm
      refine ⟨?_, ?_⟩
      · simp only
        rw [List.nodup_append]
        refine ⟨h.1, by simp, ?_⟩
        intro a ha b hb; simp at hb; subst hb
        intro he; subst he; exact hm ha
      · intro s' hs'; simp at hs'
        rcases hs' with hs' | hs'
        · exact h.2 s' hs'
        · subst hs'; exact hc

/-- the invariant is preserved by every operation -/
theorem inv_step {st : St} (h : Inv st) (o : Op) : Inv (step st o).1 := by
  have hext := ext_step st o
  have hlog : ∀ p ∈ st.log, named (step st o).1.tab p.1 = (.ok p.2, (step st o).1.tab) :=
    fun p hp => named_stable (h.log_ok p hp) hext
  cases o with
  | fresh =>
    simp only [step] at hlog ⊢
    unfold fresh at hlog ⊢
    by_cases hf : st.tab.freshIdx + 4 < U32
    · simp only [hf, if_true] at hlog ⊢
      refine ⟨by simp; have := h.fmod; omega, ?_, ?_, ?_, ?_, ?_, h.names, hlog⟩
      · intro c hc hm; simp at hc ⊢
        rcases hc with hc | hc
        · omega
        · have := h.fresh_lt c hc hm; omega
      · intro c hc hm; simp at hc ⊢
        rcases hc with hc | hc
        · have := h.fmod; omega
        · exact h.name_lt c hc hm
      · intro c hc; simp at hc
        rcases hc with hc | hc
        · have := h.fmod; omega
        · exact h.kind c hc
      · intro c hc hm; simp at hc
        rcases hc with hc | hc
        · have := h.fmod; omega
        · exact h.num_lt c hc hm
      · intro c hc hm; simp at hc
        rcases hc with hc | hc
        · subst hc; simp [U32] at hf; simp [freshBound]; omega
        · exact h.fresh_bd c hc hm
    · simp only [hf, if_false] at hlog ⊢
      exact ⟨h.fmod, h.fresh_lt, h.name_lt, h.kind, h.num_lt, h.fresh_bd, h.names, hlog⟩
  | numeric u =>
    simp only [step] at hlog ⊢
    unfold numeric at hlog ⊢
    by_cases hu : u * 4 < U32
    · simp only [hu, if_true] at hlog ⊢
      refine ⟨h.fmod, ?_, ?_, ?_, ?_, ?_, h.names, hlog⟩
      · intro c hc hm; simp at hc; rcases hc with hc | hc
        · omega
        · exact h.fresh_lt c hc hm
      · intro c hc hm; simp at hc; rcases hc with hc | hc
        · omega
        · exact h.name_lt c hc hm
      · intro c hc; simp at hc; rcases hc with hc | hc
        · omega
        · exact h.kind c hc
      · intro c hc hm; simp at hc; rcases hc with hc | hc
        · subst hc; simp [numBound, U32] at hu ⊢; omega
        · exact h.num_lt c hc hm
      · intro c hc hm; simp at hc; rcases hc with hc | hc
        · omega
        · exact h.fresh_bd c hc hm
    · simp only [hu, if_false] at hlog ⊢
      exact ⟨h.fmod, h.fresh_lt, h.name_lt, h.kind, h.num_lt, h.fresh_bd, h.names, hlog⟩
  | named s =>
    have hnames := namesOK_named h.names s
    have hidem := named_idem st.tab s
    have hext' := named_ext st.tab s
    simp only [step] at hlog ⊢
    cases hn : named st.tab s with
    | mk r t =>
      rw [hn] at hnames hidem hext'
      simp only at hnames hidem hext'
      cases r with
      | panic =>
        obtain ⟨c, hc⟩ := named_fst_ok st.tab s
        rw [hn] at hc; simp at hc
      | ok c =>
        simp only [hn] at hlog ⊢
        -- facts about the returned slot
        have hfacts : t.freshIdx % 4 = 1 ∧ (c % 4 = 1 → c < t.freshIdx) ∧
            (c % 4 = 2 → (c - 2) / 4 < t.names.length) ∧ c % 4 ≠ 3 ∧ (c % 4 = 0 → c / 4 < numBound) ∧
            (c % 4 = 1 → (c - 1) / 4 < freshBound) := by
          unfold named at hn
          cases hc : classify s with
          | num x =>
            simp only [hc] at hn
            have h1 := (Prod.mk.inj hn).1; have h2 := (Prod.mk.inj hn).2
            simp at h1; subst h2
            have := (classify_num hc).1
            refine ⟨h.fmod, by omega, by omega, by omega, by omega, by omega⟩
          | fr x =>
            simp only [hc] at hn
            have h1 := (Prod.mk.inj hn).1; have h2 := (Prod.mk.inj hn).2
            simp at h1
            have hfm := h.fmod
            have hxb := (classify_fr hc).1
            by_cases hle : st.tab.freshIdx ≤ x * 4 + 1
            · rw [if_pos hle] at h2; subst h2
              refine ⟨by simp <;> omega, by simp <;> omega, by omega, by omega, by omega, by omega⟩
            · rw [if_neg hle] at h2; subst h2
              refine ⟨hfm, by omega, by omega, by omega, by omega, by omega⟩
          | name =>
            simp only [hc] at hn
            unfold internName at hn
            by_cases hm : s ∈ st.tab.names
            · simp only [hm, if_true] at hn
              have h1 := (Prod.mk.inj hn).1; have h2 := (Prod.mk.inj hn).2
              simp at h1; subst h2
              have := List.idxOf_lt_length_of_mem hm
              refine ⟨h.fmod, by omega, by omega, by omega, by omega, by omega⟩
            · simp only [hm, if_false] at hn
              have h1 := (Prod.mk.inj hn).1; have h2 := (Prod.mk.inj hn).2
              simp at h1; subst h2
              refine ⟨h.fmod, by omega, by simp; omega, by omega, by omega, by omega⟩
        obtain ⟨hf1, hf2, hf3, hf4, hf5, hf6⟩ := hfacts
        refine ⟨hf1, ?_, ?_, ?_, ?_, ?_, hnames, ?_⟩
        · intro c' hc' hm; simp at hc'; rcases hc' with hc' | hc'
          · subst hc'; exact hf2 hm
          · have h1 := h.fresh_lt c' hc' hm; have h2 := hext'.1
            show c' < t.freshIdx
            omega
        · intro c' hc' hm; simp at hc'; rcases hc' with hc' | hc'
          · subst hc'; exact hf3 hm
          · have := h.name_lt c' hc' hm
            obtain ⟨_, l, hl⟩ := hext'
            rw [hl]; simp; omega
        · intro c' hc'; simp at hc'; rcases hc' with hc' | hc'
          · subst hc'; exact hf4
          · exact h.kind c' hc'
        · intro c' hc' hm; simp at hc'; rcases hc' with hc' | hc'
          · subst hc'; exact hf5 hm
          · exact h.num_lt c' hc' hm
        · intro c' hc' hm; simp at hc'; rcases hc' with hc' | hc'
          · subst hc'; exact hf6 hm
          · exact h.fresh_bd c' hc' hm
        · intro p hp; simp at hp; rcases hp with hp | hp
          · subst hp; exact hidem
          · exact hlog p hp

/-- every state reachable from the empty table satisfies the invariant -/
theorem reachable_inv (ops : List Op) : Inv (run {} ops) := by
  suffices ∀ st, Inv st → Inv (run st ops) from this {} inv_init
  induction ops with
  | nil => intro st h; exact h
  | cons o t ih => intro st h; exact ih _ (inv_step h o)

/-- **Fresh slots are new**: after any history, `Slot::fresh` returns a slot that no earlier
operation of the thread returned — whether that was `fresh`, `numeric` or a parsed name
(including names of the form `f<n>`). -/
theorem fresh_not_issued (ops : List Op) (c : Nat) (t : Tab)
    (h : fresh (run {} ops).tab = (.ok c, t)) : c ∉ (run {} ops).issued := by
  have inv := reachable_inv ops
  unfold fresh at h
  split at h
  · have hc : (run {} ops).tab.freshIdx = c := by have := (Prod.mk.inj h).1; simpa using this
    intro hm
    have h1 := inv.fmod
    have := inv.fresh_lt c hm (by omega)
    omega
  · simp at h

/-- the three kinds of slot never collide -/
theorem kinds_disjoint (n m i : Nat) : n * 4 ≠ m * 4 + 1 ∧ n * 4 ≠ 4 * i + 2 ∧ m * 4 + 1 ≠ 4 * i + 2 := by
  omega

/-- **Names are injective**: in any history, two `named` calls that returned the same slot were
given the same text (no aliasing such as `$01`/`$1`, `$f01`/`$f1`). -/
theorem named_injective (ops : List Op) (s₁ s₂ : List Char) (c : Nat)
    (h1 : (s₁, c) ∈ (run {} ops).log) (h2 : (s₂, c) ∈ (run {} ops).log) : s₁ = s₂ := by
  have inv := reachable_inv ops
  exact named_inj (inv.log_ok _ h1) (inv.log_ok _ h2)

/-- a slot obtained from a name is returned again for the same name at any later time -/
theorem named_stable_history (ops more : List Op) (s : List Char) (c : Nat)
    (h : (s, c) ∈ (run {} ops).log) :
    named (run (run {} ops) more).tab s = (.ok c, (run (run {} ops) more).tab) := by
  have inv := reachable_inv ops
  have hext : Ext (run {} ops).tab (run (run {} ops) more).tab := by
    generalize run {} ops = st
    induction more generalizing st with
    | nil => exact Ext.refl _
    | cons o t ih => exact Ext.trans (ext_step st o) (ih _)
  exact named_stable (inv.log_ok _ h) hext

/-- **Print then parse is the identity**: for every slot issued so far, parsing its printed
name returns the same slot and does not change the table. -/
theorem display_named (ops : List Op) (c : Nat) (txt : List Char)
    (hc : c ∈ (run {} ops).issued) (hd : display (run {} ops).tab c = some txt) :
    named (run {} ops).tab txt = (.ok c, (run {} ops).tab) := by
  have inv := reachable_inv ops
  generalize run {} ops = st at *
  unfold display at hd
  have hk := inv.kind c hc
  split at hd
  · rename_i h0
    simp at hd; subst hd
    have hlt := inv.num_lt c hc h0
    unfold named; rw [classify_showNat hlt]
    simp; omega
  · rename_i h1
    simp at hd; subst hd
    have hlt := inv.fresh_lt c hc h1
    have hfm := inv.fmod
    have hb : (c - 1) / 4 < freshBound := inv.fresh_bd c hc h1
    unfold named; rw [classify_f_showNat hb]
    simp
    constructor
    · omega
    · intro hle; omega
  · rename_i h2
    have hlt := inv.name_lt c hc h2
    have hget : st.tab.names[(c - 2) / 4]? = some txt := hd
    have hmem : txt ∈ st.tab.names := List.mem_of_getElem? hget
    unfold named; rw [inv.names.2 txt hmem]
    simp only
    unfold internName; simp only [hmem, if_true]
    have hidx : st.tab.names.idxOf txt = (c - 2) / 4 := by
      have hnd := inv.names.1
      have hlt' := hlt
      have hg : st.tab.names[(c - 2) / 4] = txt := by
        rw [List.getElem?_eq_getElem hlt] at hget; simpa using hget
      rw [← hg]; exact idxOf_getElem_nodup hnd _ hlt
    rw [hidx]
    simp; omega
  · simp at hd

end SV.Slot.C17
