import SlotVerif.Model.Progress
import SlotVerif.Proofs.Spec
import SlotVerif.Props.C08
import SlotVerif.Proofs.UfWrite
import SlotVerif.Proofs.UfTotal
import SlotVerif.Proofs.EqShrink
import SlotVerif.Proofs.EqMerge
import SlotVerif.Proofs.Add
import SlotVerif.Proofs.GroupWrite
/-!
# C13 — Equalities are never lost and old handles stay valid

Spec side: `Cong`, redundancy and symmetry are monotone in the set of asserted equations.
Measure side: every operation whose logged events satisfy `stepOK` moves the progress measure in
its documented (lexicographic) direction, strictly unless nothing was logged; hence a run of any
length is monotone, and "unchanged measure" is equivalent to "no event at all" — the fact
`apply_rewrites` relies on (C15).  Union-find side (`unionfind_get_impl`, the mechanism that keeps old handles
usable): `handle_survives_compression` — whatever compressing lookups are performed in between, an invocation
that could be canonicalised before is canonicalised to the same leader invocation afterwards
(`Proofs/UnionFind.lean`); that a *union* keeps old ids resolvable is judged per run (every handle ever returned is
re-canonicalised, compared and extracted from after every later operation).
-/
namespace SV.C13
open SV SV.Measure

/-- equal stays equal when equations are added -/
theorem cong_mono' {E E' : List (Term × Term)} (h : ∀ e ∈ E, e ∈ E') {t u : Term} (c : Cong E t u) :
    Cong E' t u := cong_mono h c

/-- in particular along a history: after more unions, nothing is lost -/
theorem cong_append (E more : List (Term × Term)) {t u : Term} (c : Cong E t u) : Cong (more ++ E) t u :=
  cong_mono (fun e he => by simp [he]) c

/-- slot sets only shrink: a redundant slot stays redundant -/
theorem redundant_append (E more : List (Term × Term)) {t : Term} {s : Nat} (h : Redundant E t s) :
    Redundant (more ++ E) t s := redundant_mono (fun e he => by simp [he]) h

/-- symmetries only grow -/
theorem isSym_append (E more : List (Term × Term)) {t : Term} {π : Nat → Nat} (h : IsSym E t π) :
    IsSym (more ++ E) t π := isSym_mono (fun e he => by simp [he]) h

theorem lt_irrefl (a : Measure) : ¬ lt a a := by
  unfold lt; omega

theorem lt_trans {a b c : Measure} (h1 : lt a b) (h2 : lt b c) : lt a c := by
  unfold lt at *; omega

/-- **one operation**: if its events are consistent with the observed measures, the measure moved
strictly in the documented direction, or no event happened and it did not move at all -/
theorem step_strict {evs : List Ev} {a b : Measure} (h : stepOK evs a b = true) :
    (evs.contains .alloc = false ∧ evs.contains .merge = false ∧ evs.contains .shrink = false ∧
      evs.contains .addsym = false ∧ a = b) ∨ lt a b := by
  unfold stepOK at h
  split at h
  · right; unfold lt; simp at h; omega
  · split at h
    · right; unfold lt; simp at h; omega
    · split at h
      · right; unfold lt; simp at h; omega
      · split at h
        · right; unfold lt; simp at h; omega
        · left; simp at h; simp_all

/-- every event kind is one of the four, so "no kind present" means "no event" -/
theorem no_kind_iff_nil (evs : List Ev) :
    (evs.contains .alloc = false ∧ evs.contains .merge = false ∧ evs.contains .shrink = false ∧
      evs.contains .addsym = false) ↔ evs = [] := by
  constructor
  · intro h
    cases evs with
    | nil => rfl
    | cons e t => cases e <;> simp at h
  · intro h; subst h; simp

/-- **a whole run is monotone**: chaining consistent operations never moves against the documented order -/
theorem run_monotone (ms : List Measure) (evss : List (List Ev)) (m0 : Measure)
    (h : ∀ i (hi : i < ms.length) (hj : i < evss.length),
      stepOK evss[i] (if i = 0 then m0 else ms[i - 1]'(by omega)) ms[i] = true) (hl : evss.length = ms.length) :
    ∀ i (hi : i < ms.length), le m0 ms[i] := by
  intro i
  induction i with
  | zero =>
    intro hi
    have := h 0 hi (by omega)
    simp at this
    rcases step_strict this with h1 | h1
    · left; exact h1.2.2.2.2
    · right; exact h1
  | succ k ih =>
    intro hi
    have hk := ih (by omega)
    have := h (k + 1) hi (by omega)
    simp at this
    rcases step_strict this with h1 | h1
    · rw [← h1.2.2.2.2]; exact hk
    · rcases hk with hk | hk
      · right; rw [hk]; exact h1
      · right; exact lt_trans hk h1

/-- **unchanged measure ⇔ nothing happened** (for an operation whose events are consistent) -/
theorem unchanged_iff_no_event {evs : List Ev} {a b : Measure} (h : stepOK evs a b = true) :
    a = b ↔ evs = [] := by
  constructor
  · intro hab
    rcases step_strict h with h1 | h1
    · exact (no_kind_iff_nil evs).mp ⟨h1.1, h1.2.1, h1.2.2.1, h1.2.2.2.1⟩
    · subst hab; exact absurd h1 (lt_irrefl a)
  · intro he; subst he
    simpa [stepOK] using h

/-- non-vacuity: the four event kinds on concrete measures -/
example : stepOK [.alloc] ⟨3, 3, 4, 3⟩ ⟨4, 4, 6, 4⟩ = true ∧ stepOK [.merge, .addsym] ⟨4, 4, 6, 4⟩ ⟨4, 3, 4, 7⟩ = true ∧
    stepOK [.shrink] ⟨4, 3, 4, 7⟩ ⟨4, 3, 3, 2⟩ = true ∧ stepOK [.addsym] ⟨4, 3, 3, 2⟩ ⟨4, 3, 3, 6⟩ = true ∧
    stepOK [] ⟨4, 3, 3, 6⟩ ⟨4, 3, 3, 6⟩ = true ∧ stepOK [.addsym] ⟨4, 3, 3, 6⟩ ⟨4, 3, 3, 6⟩ = false := by decide

/-- **old handles stay valid across path compression**: any number of compressing `find`s changes the canonical form
of no invocation -/
theorem handle_survives_compression {s : Snap} (hok : Snap.ufOK s = true) {ids : List Nat} {uf' : List AppId}
    (h : Snap.compressAll s.uf ids = some uf') {a b : AppId} (ha : Snap.find s a = some b) :
    Snap.find { s with uf := uf' } a = some b :=
  SV.C08.compress_preserves_find hok h ha

/-! ### writes to the union-find (session 6): `unionfind_set` as made by `alloc_eclass`, `move_to`,
`record_redundancy_witness` — model `Snap.ufSet` / `Snap.validWrite`, tied to the code by the write log of every
operation (hook `verif::uf_write`, protocol `ufw`) -/

/-- one valid write: every id that resolved to `r` still resolves; to the same leader unless that leader is the one
overwritten, then to the written entry's leader; an untouched resolution is literally unchanged; the retained arguments
only shrink -/
theorem handle_survives_write {uf : List AppId} (hw : Snap.UfWF' uf) (hl : Snap.LeaderId' uf) {i : Nat} {e : AppId}
    (hv : Snap.validWrite uf i e = true) {f j : Nat} {r : AppId} (h : Snap.ufGetL uf f j = some r) :
    ∃ r', Snap.ufGetL (Snap.ufSet uf i e) (f + 1) j = some r' ∧
      (r'.id = if r.id = i then e.id else r.id) ∧ (r.id ≠ i → r' = r) ∧
      (∀ v ∈ SlotMap.valuesVec r'.m, v ∈ SlotMap.valuesVec r.m) :=
  Snap.write_redirect hw hl hv h

/-- **for every sequence of valid writes** (any number of allocations, merges and shrinks in any order): the table
invariants are kept, every handle that could be canonicalised can still be canonicalised and keeps a subset of its
arguments ("a class's slot set only shrinks"), and two ids in one class stay in one class ("equalities are never
lost", at the level of the union-find) -/
theorem handles_survive_all_writes (ws : List (Nat × AppId)) (uf uf' : List AppId) (hw : Snap.UfWF' uf)
    (hl : Snap.LeaderId' uf) (h : Snap.applyWrites uf ws = some uf') :
    (Snap.UfWF' uf' ∧ Snap.LeaderId' uf') ∧
    (∀ j r, Snap.Resolves uf j r → ∃ r', Snap.Resolves uf' j r' ∧
      ∀ v ∈ SlotMap.valuesVec r'.m, v ∈ SlotMap.valuesVec r.m) ∧
    (∀ j k r q, Snap.Resolves uf j r → Snap.Resolves uf k q → r.id = q.id →
      ∃ r' q', Snap.Resolves uf' j r' ∧ Snap.Resolves uf' k q' ∧ r'.id = q'.id) :=
  Snap.writes_monotone ws uf uf' hw hl h

/-- whatever resolves with some amount of fuel resolves with the fuel `find` uses (the ids on a resolving chain are pairwise
distinct; pigeonhole) -/
theorem fixed_fuel_suffices {uf : List AppId} {f j : Nat} {r : AppId} (h : Snap.ufGetL uf f j = some r) :
    Snap.ufGetL uf uf.length j = some r := Snap.get_fixed_fuel h

/-- **`find` terminates on every id ever allocated, in every reachable table**: start from the empty union-find, perform any
sequence of valid writes (allocations, merges, shrinks in any order and number); then `find_applied_id` — with its fixed fuel
— returns for every invocation of every id below the table's length -/
theorem find_total_after_writes (ws : List (Nat × AppId)) (uf' : List AppId)
    (h : Snap.applyWrites [] ws = some uf') (classes : List SClass) (a : AppId) (ha : a.id < uf'.length) :
    (Snap.find { uf := uf', classes := classes } a).isSome = true := by
  have ht := Snap.writes_total ws [] uf' Snap.ufWF_nil Snap.leaderId_nil Snap.total_nil h
  obtain ⟨r, hr⟩ := ht a.id ha
  unfold Snap.find
  rw [Snap.ufGet_eq_L]
  simp [hr]

/-- **once equal, equal after a shrink**: `shrink_slots` gives a class the slot set `cap`, makes its leader entry the identity
on `cap` and rebuilds its group from the generators restricted to `cap` (all of which preserve `cap`); two invocations of the
class whose canonical forms embed the slots and that compared equal before compare equal afterwards.  From the redirect
theorem for the union-find write, the restriction theorem for the group (C10) and the characterisation of `eq`
(`Proofs/EqShrink.lean`); for every class, every `cap`, every number of slots. -/
theorem equalities_survive_shrink {s s' : Snap} {c c' : SClass} {cap : List Nat} (hok : Snap.ufOK s = true)
    (hcls : Snap.cls s c.id = some c) (hv : Grp.Valid c.slots c.gens)
    (hold : s.uf[c.id]? = some ⟨c.id, SlotMap.identity c.slots⟩)
    (hsub : ∀ x ∈ cap, x ∈ c.slots) (hg : ∀ g ∈ c.gens, Grp.Pres cap g)
    (huf : s'.uf = s.uf.set c.id ⟨c.id, SlotMap.identity cap⟩)
    (hcls' : Snap.cls s' c.id = some c') (hid : c'.id = c.id) (hslots : c'.slots = cap)
    (hgens : c'.gens = c.gens.map (Grp.restrict cap))
    {a b : AppId} {A B : SlotMap} (ha : Snap.find s a = some ⟨c.id, A⟩) (hb : Snap.find s b = some ⟨c.id, B⟩)
    (hA : Snap.IsEmb c.slots A) (hB : Snap.IsEmb c.slots B) (h : Snap.eq s a b = some true) :
    Snap.eq s' a b = some true :=
  Snap.eq_survives_shrink hok hcls hv hold hsub hg huf hcls' hid hslots hgens ha hb hA hB h

/-- **once equal, equal after a merge**: `move_to` overwrites the leader entry of the absorbed class `cf` by `⟨ct.id, N⟩`
(`N` a bijection from the survivor's slots onto `cf`'s) and re-asserts `cf`'s generators on the survivor as `N ; g ; N⁻¹`;
two invocations of `cf` that compared equal before compare equal afterwards — conjugation by `N` is a group homomorphism
(`Snap.conj_one / conj_comp / conj_inverse`), so the whole old group arrives (`Snap.gen_conj`), and the permutation between
the new canonical forms is the conjugate of the old one (`Snap.comp_inv_conj`).  `Proofs/EqMerge.lean`. -/
theorem equalities_survive_merge {s s' : Snap} {cf ct ct' : SClass} {N : SlotMap} (hok : Snap.ufOK s = true)
    (hclsf : Snap.cls s cf.id = some cf) (hvf : Grp.Valid cf.slots cf.gens)
    (holdf : s.uf[cf.id]? = some ⟨cf.id, SlotMap.identity cf.slots⟩)
    (holdt : s.uf[ct.id]? = some ⟨ct.id, SlotMap.identity ct.slots⟩) (hne : ct.id ≠ cf.id)
    (hN : Snap.IsBij ct.slots cf.slots N)
    (huf : s'.uf = s.uf.set cf.id ⟨ct.id, N⟩)
    (hcls' : Snap.cls s' ct.id = some ct') (hid : ct'.id = ct.id) (hslots : ct'.slots = ct.slots)
    (hvt' : Grp.Valid ct'.slots ct'.gens)
    (hgens : ∀ g ∈ cf.gens, Grp.Gen ct'.slots ct'.gens (Snap.conj N g))
    {a b : AppId} {A B : SlotMap} (ha : Snap.find s a = some ⟨cf.id, A⟩) (hb : Snap.find s b = some ⟨cf.id, B⟩)
    (hA : Snap.IsEmb cf.slots A) (hB : Snap.IsEmb cf.slots B) (h : Snap.eq s a b = some true) :
    Snap.eq s' a b = some true :=
  Snap.eq_survives_merge hok hclsf hvf holdf holdt hne hN huf hcls' hid hslots hvt' hgens ha hb hA hB h

/-- the other half of "once equal, equal after a merge": two invocations of the SURVIVING class keep comparing equal — its
canonical forms are untouched by the write (`set_unchanged`) and its group only grows (`gen_mono`) -/
theorem equalities_of_survivor_survive_merge {s s' : Snap} {ct ct' : SClass} {i : Nat} {old e : AppId}
    (hclst : Snap.cls s ct.id = some ct) (hvt : Grp.Valid ct.slots ct.gens)
    (hold : s.uf[i]? = some old) (hlead : old.id = i) (hne : ct.id ≠ i)
    (huf : s'.uf = s.uf.set i e)
    (hcls' : Snap.cls s' ct.id = some ct') (hid : ct'.id = ct.id) (hslots : ct'.slots = ct.slots)
    (hvt' : Grp.Valid ct'.slots ct'.gens) (hgens : ∀ g ∈ ct.gens, Grp.Gen ct'.slots ct'.gens g)
    {a b : AppId} {A B : SlotMap} (ha : Snap.find s a = some ⟨ct.id, A⟩) (hb : Snap.find s b = some ⟨ct.id, B⟩)
    (hA : Snap.IsEmb ct.slots A) (hB : Snap.IsEmb ct.slots B) (h : Snap.eq s a b = some true) :
    Snap.eq s' a b = some true :=
  Snap.eq_survives_merge_target hclst hvt hold hlead hne huf hcls' hid hslots hvt' hgens ha hb hA hB h

/-! ### insertions (`EGraph::add` on a miss, `Model/Add.lean`; tied to the code by the `addnew` query of the `snap` suite) -/

/-- an insertion that creates a class leaves every old handle resolvable, to the same invocation -/
theorem handle_survives_insertion {s s' : Snap} {n syn : Node} {f2o : SlotMap} {data : String} {a b r : AppId}
    (h : Snap.addNew s n f2o syn data = some (s', a)) (hf : Snap.find s b = some r) : Snap.find s' b = some r :=
  Snap.find_survives_add h hf

/-- an insertion neither loses nor adds an equality between old handles: `eq` answers as before -/
theorem equalities_survive_insertion {s s' : Snap} {n syn : Node} {f2o : SlotMap} {data : String} {a b c : AppId} {r : Bool}
    (hok : Snap.ufOK s = true) (h : Snap.addNew s n f2o syn data = some (s', a)) (he : Snap.eq s b c = some r) :
    Snap.eq s' b c = some r :=
  Snap.eq_survives_add (Snap.ufOK_sound hok).1 h he

/-- the class an insertion creates is new (its id was not alive before) and alive afterwards -/
theorem inserted_class_is_new {s s' : Snap} {n syn : Node} {f2o : SlotMap} {data : String} {a : AppId}
    (h : Snap.addNew s n f2o syn data = some (s', a)) :
    a.id = s.uf.length ∧ Snap.isAlive s' a.id = true ∧ Snap.isAlive s a.id = false :=
  Snap.add_new_alive h


/-- **histories of insertions**: for every state with a well-formed table and no class id beyond it (`AddOK`, checked per run by the
`addnew` query) and every sequence of modelled insertions, the invariant is kept and nothing old changes — every handle resolves to
the same invocation, `eq` on old handles answers as before (no equality lost, none invented), every represented node stays
represented by the same invocation -/
theorem insertions_change_nothing_old {s s'' : Snap} (hok : Snap.AddOK s) (hi : Snap.Inserts s s'') :
    Snap.AddOK s'' ∧ (∀ b r, Snap.find s b = some r → Snap.find s'' b = some r) ∧
    (∀ b c r, Snap.eq s b c = some r → Snap.eq s'' b c = some r) ∧
    (∀ m x, Snap.lookup s m = some x → Snap.lookup s'' m = some x) :=
  Snap.inserts_preserve hok hi

/-- non-vacuity: the empty e-graph satisfies `AddOK` -/
example : Snap.AddOK { uf := [], classes := [] } := ⟨fun e he => by simp at he, fun c hc => by simp at hc⟩

/-- an insertion's change of the union-find is one `alloc` write that passes the guard of the write model, so everything proved of
valid writes (`handle_survives_write`, `handles_survive_all_writes`, `find_total_after_writes`) covers insertions too: the model of
`add` (`Model/Add.lean`) and the model of the writes (`Model/UfWrite.lean`) describe the same table -/
theorem insertion_is_valid_write {s s' : Snap} {n syn : Node} {f2o : SlotMap} {data : String} {a : AppId}
    (h : Snap.addNew s n f2o syn data = some (s', a)) :
    Snap.validWrite s.uf s.uf.length { id := s.uf.length, m := SlotMap.identity (SlotMap.keys f2o) } = true ∧
    s'.uf = Snap.ufSet s.uf s.uf.length { id := s.uf.length, m := SlotMap.identity (SlotMap.keys f2o) } :=
  Snap.addNew_is_valid_write h

/-! ### the group half of the contract of `move_to` / `shrink_slots`, checked on every logged merge and shrink (protocol `grpw`) -/

/-- a merge entry accepted by `Grpw.mergeOK` supplies the group hypotheses of `equalities_survive_merge` (`hvt'`, `hgens`) and of
`equalities_of_survivor_survive_merge` (`hgens`), and nothing was invented: every new generator lies in the subgroup generated
by the survivor's old generators and the transported generators of the absorbed class -/
theorem merge_contract_checked {Ωt : List Nat} {N : SlotMap} {fg tb ta : List Perm} (h : Grpw.mergeOK Ωt N fg tb ta = true) :
    Grp.Valid Ωt ta ∧ (∀ g ∈ fg, Grp.Gen Ωt ta (Snap.conj N g)) ∧ (∀ g ∈ tb, Grp.Gen Ωt ta g) ∧
    (∀ g ∈ ta, Grp.Gen Ωt (tb ++ fg.map (Snap.conj N)) g) :=
  Grpw.mergeOK_spec h

/-- a shrink entry accepted by `Grpw.shrinkOK`: the new group is the group generated by the restrictions of the old generators
that respect the retained slot set — the hypothesis of `equalities_survive_shrink` -/
theorem shrink_contract_checked {cap : List Nat} {before after : List Perm} (h : Grpw.shrinkOK cap before after = true) :
    Grp.Valid cap after ∧
    ∀ q, Grp.Gen cap after q ↔ Grp.Gen cap ((before.filter (Grp.preservesCap cap)).map (Grp.restrict cap)) q :=
  Grpw.shrinkOK_spec h

/-- **end to end for a merge whose log entry was accepted**: the group hypotheses of `equalities_survive_merge` are discharged by the
accepted `grpw` entry (`Grpw.mergeOK` evaluated on the logged generators), so for such a merge two invocations of the absorbed class that
compared equal before compare equal afterwards — what remains assumed is the union-find half, which `Snap.validWrite` checks on the same run
(`IsBij`, the written entry) -/
theorem equalities_survive_checked_merge {s s' : Snap} {cf ct ct' : SClass} {N : SlotMap} {tb : List Perm} (hok : Snap.ufOK s = true)
    (hclsf : Snap.cls s cf.id = some cf) (hvf : Grp.Valid cf.slots cf.gens)
    (holdf : s.uf[cf.id]? = some ⟨cf.id, SlotMap.identity cf.slots⟩)
    (holdt : s.uf[ct.id]? = some ⟨ct.id, SlotMap.identity ct.slots⟩) (hne : ct.id ≠ cf.id)
    (hN : Snap.IsBij ct.slots cf.slots N)
    (huf : s'.uf = s.uf.set cf.id ⟨ct.id, N⟩)
    (hcls' : Snap.cls s' ct.id = some ct') (hid : ct'.id = ct.id) (hslots : ct'.slots = ct.slots)
    (hchk : Grpw.mergeOK ct'.slots N cf.gens tb ct'.gens = true)
    {a b : AppId} {A B : SlotMap} (ha : Snap.find s a = some ⟨cf.id, A⟩) (hb : Snap.find s b = some ⟨cf.id, B⟩)
    (hA : Snap.IsEmb cf.slots A) (hB : Snap.IsEmb cf.slots B) (h : Snap.eq s a b = some true) :
    Snap.eq s' a b = some true := by
  obtain ⟨hv, hg, _, _⟩ := merge_contract_checked hchk
  exact equalities_survive_merge hok hclsf hvf holdf holdt hne hN huf hcls' hid hslots hv hg ha hb hA hB h

/-- a `Group::add` entry accepted by `Grpw.addOK` (self-unions in `union_leaders`, `determine_self_symmetries`): the class keeps every
symmetry it had, gains the asserted one, and gains nothing that those do not generate -/
theorem add_contract_checked {Ω : List Nat} {before after : List Perm} {p : Perm} (h : Grpw.addOK Ω before p after = true) :
    Grp.Valid Ω after ∧ Grp.IsPerm Ω p ∧ ∀ q, Grp.Gen Ω after q ↔ Grp.Gen Ω (before ++ [p]) q :=
  Grpw.addOK_spec h

/-- non-vacuity: the class merged away has the swap of its two slots 0, 4 as generator, `N` maps the survivor's slots 8, 12 onto
them, the survivor had no symmetry and has the transported swap afterwards -/
example : Grpw.mergeOK [8, 12] [(8, 0), (12, 4)] [[(0, 4), (4, 0)]] [] [[(8, 12), (12, 8)]] = true := by decide

/-- non-vacuity of the shrink contract: a class on the slots 8, 12 with the swap as its only generator shrinks to the slot 8; the swap
does not respect the retained set, so no generator is kept and the new group is trivial -/
example : Grpw.shrinkOK [8] [[(8, 12), (12, 8)]] [] = true := by decide

/-- non-vacuity of the add contract: the swap is added to the trivial group on the slots 8, 12 -/
example : Grpw.addOK [8, 12] [] [(8, 12), (12, 8)] [[(8, 12), (12, 8)]] = true := by decide

/-- non-vacuity: two classes are allocated, class 1 (slots 0, 4) is merged into class 0 (slots 8, 12) with the arguments
exchanged, then class 0 loses slot 12; all four writes pass the guards -/
example : (Snap.applyWrites [] [(0, ⟨0, [(8, 8), (12, 12)]⟩), (1, ⟨1, [(0, 0), (4, 4)]⟩),
    (1, ⟨0, [(8, 4), (12, 0)]⟩), (0, ⟨0, [(8, 8)]⟩)]).isSome = true := by decide

end SV.C13
