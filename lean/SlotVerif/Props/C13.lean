import SlotVerif.Model.Progress
import SlotVerif.Proofs.Spec
import SlotVerif.Props.C08
/-!
# C13 — Equalities are never lost and old handles stay valid

Spec side: `Cong`, redundancy and symmetry are monotone in the set of asserted equations.
Measure side: every operation whose logged events satisfy `stepOK` moves the progress measure in
its documented (lexicographic) direction, strictly unless nothing was logged; hence a run of any
length is monotone, and "unchanged measure" is equivalent to "no event at all" — the fact
`apply_rewrites` relies on (C15).  Union-find side (`unionfind_get_impl`, the mechanism that keeps old handles
usable): `handle_survives_compression` — whatever compressing lookups are performed in between, an invocation
that could be canonicalised before is canonicalised to the same leader invocation afterwards
(`Proofs/UnionFind.lean`); that a *union* keeps old ids resolvable is judged per run (every handle ever returned is
re-canonicalised, compared and extracted from after every later operation).
-/
namespace SV.C13
open SV SV.Measure

/-- equal stays equal when equations are added -/
theorem cong_mono' {E E' : List (Term × Term)} (h : ∀ e ∈ E, e ∈ E') {t u : Term} (c : Cong E t u) :
    Cong E' t u := cong_mono h c

/-- in particular along a history: after more unions, nothing is lost -/
theorem cong_append (E more : List (Term × Term)) {t u : Term} (c : Cong E t u) : Cong (more ++ E) t u :=
  cong_mono (fun e he => by simp [he]) c

/-- slot sets only shrink: a redundant slot stays redundant -/
theorem redundant_append (E more : List (Term × Term)) {t : Term} {s : Nat} (h : Redundant E t s) :
    Redundant (more ++ E) t s := redundant_mono (fun e he => by simp [he]) h

/-- symmetries only grow -/
theorem isSym_append (E more : List (Term × Term)) {t : Term} {π : Nat → Nat} (h : IsSym E t π) :
    IsSym (more ++ E) t π := isSym_mono (fun e he => by simp [he]) h

theorem lt_irrefl (a : Measure) : ¬ lt a a := by
  unfold lt; omega

theorem lt_trans {a b c : Measure} (h1 : lt a b) (h2 : lt b c) : lt a c := by
  unfold lt at *; omega

/-- **one operation**: if its events are consistent with the observed measures, the measure moved
strictly in the documented direction, or no event happened and it did not move at all -/
theorem step_strict {evs : List Ev} {a b : Measure} (h : stepOK evs a b = true) :
    (evs.contains .alloc = false ∧ evs.contains .merge = false ∧ evs.contains .shrink = false ∧
      evs.contains .addsym = false ∧ a = b) ∨ lt a b := by
  unfold stepOK at h
  split at h
  · right; unfold lt; simp at h; omega
  · split at h
    · right; unfold lt; simp at h; omega
    · split at h
      · right; unfold lt; simp at h; omega
      · split at h
        · right; unfold lt; simp at h; omega
        · left; simp at h; simp_all

/-- every event kind is one of the four, so "no kind present" means "no event" -/
theorem no_kind_iff_nil (evs : List Ev) :
    (evs.contains .alloc = false ∧ evs.contains .merge = false ∧ evs.contains .shrink = false ∧
      evs.contains .addsym = false) ↔ evs = [] := by
  constructor
  · intro h
    cases evs with
    | nil => rfl
    | cons e t => cases e <;> simp at h
  · intro h; subst h; simp

/-- **a whole run is monotone**: chaining consistent operations never moves against the documented order -/
theorem run_monotone (ms : List Measure) (evss : List (List Ev)) (m0 : Measure)
    (h : ∀ i (hi : i < ms.length) (hj : i < evss.length),
      stepOK evss[i] (if i = 0 then m0 else ms[i - 1]'(by omega)) ms[i] = true) (hl : evss.length = ms.length) :
    ∀ i (hi : i < ms.length), le m0 ms[i] := by
  intro i
  induction i with
  | zero =>
    intro hi
    have := h 0 hi (by omega)
    simp at this
    rcases step_strict this with h1 | h1
    · left; exact h1.2.2.2.2
    · right; exact h1
  | succ k ih =>
    intro hi
    have hk := ih (by omega)
    have := h (k + 1) hi (by omega)
    simp at this
    rcases step_strict this with h1 | h1
    · rw [← h1.2.2.2.2]; exact hk
    · rcases hk with hk | hk
      · right; rw [hk]; exact h1
      · right; exact lt_trans hk h1

/-- **unchanged measure ⇔ nothing happened** (for an operation whose events are consistent) -/
theorem unchanged_iff_no_event {evs : List Ev} {a b : Measure} (h : stepOK evs a b = true) :
    a = b ↔ evs = [] := by
  constructor
  · intro hab
    rcases step_strict h with h1 | h1
    · exact (no_kind_iff_nil evs).mp ⟨h1.1, h1.2.1, h1.2.2.1, h1.2.2.2.1⟩
    · subst hab; exact absurd h1 (lt_irrefl a)
  · intro he; subst he
    simpa [stepOK] using h

/-- non-vacuity: the four event kinds on concrete measures -/
example : stepOK [.alloc] ⟨3, 3, 4, 3⟩ ⟨4, 4, 6, 4⟩ = true ∧ stepOK [.merge, .addsym] ⟨4, 4, 6, 4⟩ ⟨4, 3, 4, 7⟩ = true ∧
    stepOK [.shrink] ⟨4, 3, 4, 7⟩ ⟨4, 3, 3, 2⟩ = true ∧ stepOK [.addsym] ⟨4, 3, 3, 2⟩ ⟨4, 3, 3, 6⟩ = true ∧
    stepOK [] ⟨4, 3, 3, 6⟩ ⟨4, 3, 3, 6⟩ = true ∧ stepOK [.addsym] ⟨4, 3, 3, 6⟩ ⟨4, 3, 3, 6⟩ = false := by decide

/-- **old handles stay valid across path compression**: any number of compressing `find`s changes the canonical form
of no invocation -/
theorem handle_survives_compression {s : Snap} (hok : Snap.ufOK s = true) {ids : List Nat} {uf' : List AppId}
    (h : Snap.compressAll s.uf ids = some uf') {a b : AppId} (ha : Snap.find s a = some b) :
    Snap.find { s with uf := uf' } a = some b :=
  SV.C08.compress_preserves_find hok h ha

end SV.C13
