import SlotVerif.Model.Group
/-!
# C10 — Class symmetries are exactly the generated permutation group

Model: `Model/Group.lean` (`src/group/mod.rs`).  Proved so far: the reported size is the number
of enumerated elements for every chain.  Pending (listed in the evidence): `contains_sound`
(membership ⇒ in the generated subgroup), `contains_complete` (Schreier's lemma),
`allPerms_nodup`, `addSet_true_iff`.  Until then "exactly the generated group" rests on the
exhaustive correspondence (all generator sets of ≤ 3 permutations on ≤ 4 slots) and on the
brute-force subgroup closure computed by the harness.
-/
namespace SV.Grp.C10
open SV SV.Grp

theorem length_flatMap_const {α β} (l : List α) (f : α → List β) (n : Nat)
    (h : ∀ a ∈ l, (f a).length = n) : (l.flatMap f).length = l.length * n := by
  induction l with
  | nil => simp
  | cons a t ih =>
    simp only [List.flatMap_cons, List.length_append, List.length_cons]
    rw [h a (by simp), ih (fun b hb => h b (by simp [hb]))]
    rw [Nat.add_mul, Nat.one_mul, Nat.add_comm]

/-- **`count` is the number of elements `all_perms` enumerates**, for every stabilizer chain
(this is the internal assertion `out.len() == self.count()` of the `checks` build, for all inputs). -/
theorem count_eq_length_allPerms (g : G) : count g = (allPerms g).length := by
  induction g with
  | triv i => simp [count, allPerms]
  | next i stab ot g ih =>
    simp only [count, allPerms]
    rw [length_flatMap_const ot _ (allPerms g).length (by intro a _; simp), ih]

/-- non-vacuity / sanity (kernel-checked): the 3-cycle on three slots generates a group of size 3
that contains the cycle's inverse but not a transposition; adding the transposition grows it to 6. -/
def om3 : Perm := SlotMap.identity [4, 8, 12]
def cyc3 : Perm := [(4, 8), (8, 12), (12, 4)]
def swp : Perm := [(4, 8), (8, 4), (12, 12)]
example : count (mk om3 [cyc3]) = 3 ∧ contains (mk om3 [cyc3]) (SlotMap.inverse cyc3) = some true ∧
    contains (mk om3 [cyc3]) swp = some false := by decide
example : (addSet (mk om3 [cyc3]) [swp]).2 = true ∧ count (addSet (mk om3 [cyc3]) [swp]).1 = 6 ∧
    (addSet (mk om3 [cyc3]) [cyc3]).2 = false := by decide

end SV.Grp.C10
