import SlotVerif.Proofs.Rules
import SlotVerif.Proofs.Eval
import SlotVerif.Proofs.Inst
import SlotVerif.Proofs.Coding
/-!
# C03 — Rewriting with valid rules preserves meaning, including under binders

Model algebra: `Model/Eval.lean` (𝔽₇ with `sum` and `let` binders).  Rule semantics:
`Model/Rules.lean`.  Proved here: **every rule of the pool handed to `apply_rewrites` / `Runner`
in the C03 runs is valid in the model** (for every interpretation of its pattern variables as
functions of the environment, under its explicit side conditions and the scoping facts the matcher
guarantees), and the deliberately wrong rules are invalid.  The rule texts are compared with the
strings given to `Rewrite::new` on every run.  `cong_eval`: **the model algebra
respects the specification** — if every asserted equation holds in the model (under every binder
stack and environment), so does every equation derivable from them in `Cong` (renaming,
congruence under the `sum`/`let` binders included; `Proofs/Eval.lean`).  Hence a class of the
e-graph in which two members evaluate differently is a *certified* unsoundness
(`not_cong_of_eval_ne`), and a slot the specification calls redundant cannot influence the value
(`redundant_eval`).  That the *e-graph* keeps every class single-valued is validated per run by
evaluating every e-node of every class in Lean.  The link between the two semantics is the
**instantiation lemma** (`Proofs/Inst.lean`): the instance of a pattern under any assignment of
named terms to its variables evaluates to the pattern's `evalP` value — the substitution form
`b[(var $x) := e]` included, as the replacement of the `(var $x)` subterms whenever that is hygienic
(`Eval.substOK`: `x` is read only through `var`, no binder of `b` rebinds `x` or captures a slot of
`e`; `evalN_subst`) — so every instance of a valid rule *holds* as an equation between terms
(`rule_instance_holds`, all 35 pool rules), and
`saturation_sound` chains it with `cong_eval`: whatever is derivable from instances of pool rules
and from user equations that hold evaluates equal.  The locally nameless conversion `Term.close`
used by the driver is proved meaning-preserving (`close_preserves_meaning`), so it is not trusted.
-/
namespace SV.C03
open SV SV.Rules

/-- every rule of the pool is valid in the model -/
theorem pool_valid : ∀ r ∈ pool, r.Valid := Rules.pool_valid

/-- ring laws -/
theorem add_comm_valid : (pool[0]'(by decide)).Valid := valid_add_comm
theorem distrib_valid : (pool[4]'(by decide)).Valid := valid_distrib
/-- summation: linearity, constant factor (conditional), constant sum (conditional), exchange, unrolling
(the last one through the substitution forms `b[(var $x) := 0]`, `… := 1]`, `… := 2]`; the binder ranges over {0,1,2}) -/
theorem sum_add_valid : (pool[9]'(by decide)).Valid := valid_sum_add
theorem sum_add_rev_valid : (pool[10]'(by decide)).Valid := valid_sum_add_rev
theorem sum_factor_valid : (pool[11]'(by decide)).Valid := valid_sum_factor
theorem sum_const_valid : (pool[12]'(by decide)).Valid := valid_sum_const
theorem sum_swap_valid : (pool[13]'(by decide)).Valid := valid_sum_swap
theorem sum_unroll_valid : (pool[14]'(by decide)).Valid := valid_sum_unroll
/-- a conditional rule across two nested binders (condition on the outer one) -/
theorem sum2_factor_valid : (pool[24]'(by decide)).Valid := valid_sum2_factor
/-- let: β through the substitution form, unused binding (conditional), variable, distribution over
add / mul / h, and moving a let under a summation binder (no side condition: capture avoidance comes
from the scoping of slots) -/
theorem let_subst_valid : (pool[15]'(by decide)).Valid := valid_let_subst
theorem let_unused_valid : (pool[16]'(by decide)).Valid := valid_let_unused
theorem let_sum_valid : (pool[20]'(by decide)).Valid := valid_let_sum

/-- the check can fail: a rule of the "bad" pool is provably invalid -/
theorem bad_rule_invalid : ¬ (badPool[1]'(by decide)).Valid := bad_sum_const_invalid

/-- without its side condition `sum-factor` is invalid too (witness: `?c`, `?a` := the indicator of `x = 1`) -/
theorem sum_factor_needs_condition : ¬ (badPool[0]'(by decide)).Valid := by
  intro h
  have := h (fun _ env => if env "x" = 1 then 1 else 0) (by intro c hc; simp [badPool] at hc) (fun _ => 0)
  simp only [badPool, List.getElem_cons_zero, evalP, Eval.sum7, Env.set] at this
  revert this; decide


/-- **the model respects the specification**: equations that hold in the model only derive equations that hold in
the model — through renaming and through congruence under the summation and let binders -/
theorem cong_eval {E : List (Term × Term)} (hE : Eval.Holds E) {t u : Term} (h : Cong E t u)
    (benv : List Eval.F) (env : Nat → Eval.F) : Eval.eval benv env t = Eval.eval benv env u :=
  Eval.cong_evalT hE h benv env

/-- a differing value certifies that an equality is not implied by equations that hold in the model -/
theorem not_cong_of_eval_ne {E : List (Term × Term)} (hE : Eval.Holds E) {t u : Term} (benv : List Eval.F)
    (env : Nat → Eval.F) (hne : Eval.eval benv env t ≠ Eval.eval benv env u) : ¬ Cong E t u :=
  fun h => hne (cong_eval hE h benv env)

/-- a redundant slot does not influence the value -/
theorem redundant_eval {E : List (Term × Term)} (hE : Eval.Holds E) {t : Term} {s : Nat}
    (hr : Redundant E t s) (s' : Nat) (hs' : Term.isBvar s' = false) (hfresh : s' ∉ Term.freeOcc t)
    (benv : List Eval.F) (env : Nat → Eval.F) (v : Eval.F) :
    Eval.eval benv (Eval.upd env s v) t = Eval.eval benv env t := by
  -- t = t[s := s'] in the spec, for the fresh s'
  have hc := hr.2 s' hs' hfresh
  have hnm : NameMap (fun x => if x = s then s' else x) := by
    intro x hx; by_cases h : x = s <;> simp [h, hs', hx]
  -- evaluate both sides of t = t[s := s'] in two environments that agree off s, s'
  have e1 := cong_eval hE hc benv (Eval.upd (Eval.upd env s v) s' (env s))
  have e2 := cong_eval hE hc benv (Eval.upd env s' (env s))
  unfold Eval.eval at e1 e2 ⊢
  rw [Eval.evalT_mapFree _ hnm] at e1 e2
  -- the renamed sides coincide: s is read at s', which holds `env s` in both
  have hsame : Eval.evalT t benv (fun x => Eval.upd (Eval.upd env s v) s' (env s) (if x = s then s' else x)) =
      Eval.evalT t benv (fun x => Eval.upd env s' (env s) (if x = s then s' else x)) := by
    apply Eval.evalT_ext
    intro x hx
    by_cases h : x = s
    · simp [h, Eval.upd]
    · have hx' : x ≠ s' := fun he => hfresh (he ▸ hx)
      simp [h, Eval.upd, hx']
  -- and the original sides are evaluated in environments that differ from the wanted ones only at the fresh s'
  have hl : Eval.evalT t benv (Eval.upd (Eval.upd env s v) s' (env s)) = Eval.evalT t benv (Eval.upd env s v) := by
    apply Eval.evalT_ext
    intro x hx
    have hx' : x ≠ s' := fun he => hfresh (he ▸ hx)
    simp [Eval.upd, hx']
  have hr2 : Eval.evalT t benv (Eval.upd env s' (env s)) = Eval.evalT t benv env := by
    apply Eval.evalT_ext
    intro x hx
    have hx' : x ≠ s' := fun he => hfresh (he ▸ hx)
    simp [Eval.upd, hx']
  rw [← hl, e1, hsame, ← e2, hr2]

/-- the driver's conversion of named terms to locally nameless form preserves meaning -/
theorem close_preserves_meaning (t : Term) (hok : ∀ x ∈ Eval.occN t, Term.isBvar x = false) (benv : List Eval.F)
    (env : Nat → Eval.F) : Eval.eval benv env (Term.close t) = Eval.evalN t env :=
  Eval.eval_close t hok benv env

/-- **every instance of a valid rule holds in the model**, under every binder stack and environment -/
theorem rule_instance_holds {code : String → Nat} {dec : Nat → Option String} (hc : Coding code dec) (r : Rule)
    (hv : r.Valid) (σ : String → Term) (hσ : ∀ a, ∀ x ∈ Eval.occN (σ a), Term.isBvar x = false)
    (hcond : ∀ c ∈ r.conds ++ r.implicit, code c.1 ∉ Eval.occN (σ c.2))
    {l rt : Term} (hl : instN code σ r.lhs = some l) (hr : instN code σ r.rhs = some rt) :
    Eval.Holds [(Term.close l, Term.close rt)] :=
  instance_holds hc r hv σ hσ hcond hl hr

/-- an equation that is the closed form of an instance of a pool rule whose side conditions are met -/
def IsPoolInstance (e : Term × Term) : Prop :=
  ∃ (code : String → Nat) (dec : Nat → Option String) (r : Rule) (σ : String → Term) (l rt : Term),
    Coding code dec ∧ r ∈ pool ∧ (∀ a, ∀ x ∈ Eval.occN (σ a), Term.isBvar x = false) ∧
    (∀ c ∈ r.conds ++ r.implicit, code c.1 ∉ Eval.occN (σ c.2)) ∧
    instN code σ r.lhs = some l ∧ instN code σ r.rhs = some rt ∧ e = (Term.close l, Term.close rt)

/-- **equality saturation with the pool is sound in the model**: from user equations that hold and any instances
of pool rules, only equations that hold are derivable — through renaming and congruence under binders -/
theorem saturation_sound {E : List (Term × Term)}
    (hE : ∀ e ∈ E, IsPoolInstance e ∨ (∀ benv env, Eval.evalT e.1 benv env = Eval.evalT e.2 benv env))
    {t u : Term} (h : Cong E t u) (benv : List Eval.F) (env : Nat → Eval.F) :
    Eval.eval benv env t = Eval.eval benv env u := by
  apply cong_eval _ h
  intro e he
  rcases hE e he with ⟨code, dec, r, σ, l, rt, hc, hr, hσ, hcond, hl, hrt, rfl⟩ | hh
  · exact rule_instance_holds hc r (pool_valid r hr) σ hσ hcond hl hrt _ (List.mem_singleton.mpr rfl)
  · exact hh

/-- the `Coding` hypothesis is satisfiable (all slot names at once) -/
theorem coding_exists : ∃ code dec, Coding code dec := ⟨stdCode, stdDec, stdCoding⟩

/-- non-vacuity: `sum-factor` instantiated with `?c := (var $y)`, `?a := (var $x)` is a pool instance
(coding: `$x ↦ 4`, `$y ↦ 8`, every other name ↦ 0) -/
def exCode : String → Nat := fun s => if s = "x" then 4 else if s = "y" then 8 else 0
def exDec : Nat → Option String := fun c => if c = 4 then some "x" else if c = 8 then some "y" else none
def exσ : String → Term := fun a =>
  if a = "c" then .mk { v := 2, fields := [.slot 8] } [] else .mk { v := 2, fields := [.slot 4] } []
/-- … and `let-subst` (right side `?b[(var $x) := ?e]`) with `?b := (add (var $x) (var $x))`, `?e := (var $y)` -/
def exσ2 : String → Term := fun a =>
  if a = "b" then .mk { v := 4, fields := [.app ph, .app ph] } [.mk { v := 2, fields := [.slot 4] } [], .mk { v := 2, fields := [.slot 4] } []]
  else .mk { v := 2, fields := [.slot 8] } []
example : (instN exCode exσ2 (pool[15]'(by decide)).rhs).map Eval.occN = some [8, 8] ∧
    (instN exCode exσ2 (pool[15]'(by decide)).lhs).isSome := by decide
example : (instN exCode exσ (pool[11]'(by decide)).lhs).isSome ∧ (instN exCode exσ (pool[11]'(by decide)).rhs).isSome ∧
    exCode "x" ∉ Eval.occN (exσ "c") := by decide

end SV.C03
