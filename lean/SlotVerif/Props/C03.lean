import SlotVerif.Proofs.Rules
/-!
# C03 — Rewriting with valid rules preserves meaning, including under binders

Model algebra: `Model/Eval.lean` (𝔽₇ with `sum` and `let` binders).  Rule semantics:
`Model/Rules.lean`.  Proved here: **every rule of the pool handed to `apply_rewrites` / `Runner`
in the C03 runs is valid in the model** (for every interpretation of its pattern variables as
functions of the environment, under its explicit side conditions and the scoping facts the matcher
guarantees), and the deliberately wrong rules are invalid.  The rule texts are compared with the
strings given to `Rewrite::new` on every run.  That the *e-graph* then keeps every class
single-valued is validated per run by evaluating every e-node of every class in Lean; the theorem
connecting rule validity to `Cong` (`cong_eval`) is pending.
-/
namespace SV.C03
open SV SV.Rules

/-- every rule of the pool is valid in the model -/
theorem pool_valid : ∀ r ∈ pool, r.Valid := Rules.pool_valid

/-- ring laws -/
theorem add_comm_valid : (pool[0]'(by decide)).Valid := valid_add_comm
theorem distrib_valid : (pool[4]'(by decide)).Valid := valid_distrib
/-- summation: linearity, constant factor (conditional), constant sum (conditional), exchange, unrolling
(the last one through the substitution forms `b[(var $x) := 0]`, `… := 1]`, `… := 2]`; the binder ranges over {0,1,2}) -/
theorem sum_add_valid : (pool[9]'(by decide)).Valid := valid_sum_add
theorem sum_add_rev_valid : (pool[10]'(by decide)).Valid := valid_sum_add_rev
theorem sum_factor_valid : (pool[11]'(by decide)).Valid := valid_sum_factor
theorem sum_const_valid : (pool[12]'(by decide)).Valid := valid_sum_const
theorem sum_swap_valid : (pool[13]'(by decide)).Valid := valid_sum_swap
theorem sum_unroll_valid : (pool[14]'(by decide)).Valid := valid_sum_unroll
/-- a conditional rule across two nested binders (condition on the outer one) -/
theorem sum2_factor_valid : (pool[24]'(by decide)).Valid := valid_sum2_factor
/-- let: β through the substitution form, unused binding (conditional), variable, distribution over
add / mul / h, and moving a let under a summation binder (no side condition: capture avoidance comes
from the scoping of slots) -/
theorem let_subst_valid : (pool[15]'(by decide)).Valid := valid_let_subst
theorem let_unused_valid : (pool[16]'(by decide)).Valid := valid_let_unused
theorem let_sum_valid : (pool[20]'(by decide)).Valid := valid_let_sum

/-- the check can fail: a rule of the "bad" pool is provably invalid -/
theorem bad_rule_invalid : ¬ (badPool[1]'(by decide)).Valid := bad_sum_const_invalid

/-- without its side condition `sum-factor` is invalid too (witness: `?c`, `?a` := the indicator of `x = 1`) -/
theorem sum_factor_needs_condition : ¬ (badPool[0]'(by decide)).Valid := by
  intro h
  have := h (fun _ env => if env "x" = 1 then 1 else 0) (by intro c hc; simp [badPool] at hc) (fun _ => 0)
  simp only [badPool, List.getElem_cons_zero, evalP, Eval.sum7, Env.set] at this
  revert this; decide

end SV.C03
