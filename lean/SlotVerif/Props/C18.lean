import SlotVerif.Model.Parse
import SlotVerif.Proofs.ParseRT
import SlotVerif.Proofs.TokenizeRT
import SlotVerif.Proofs.MultiRT
import SlotVerif.Props.C17
/-!
# C18 — Printing and parsing round-trip; parsing never panics

Model: `Model/Parse.lean` (`src/parse.rs` after fix F1, generic over the language signature).
The model's parser is total by construction (every token access is a `match`), which mirrors the
checked accesses of the fixed code; that the *code* does not panic is established per run by the
correspondence check (outcome classes `ok|err:<variant>|panic` must agree).  Proved here, for
every signature, every input text and every slot table: **whatever the parser accepts is well
formed** — each node has exactly as many children as its operator takes — and **the parser inverts
the printer at the token level** (`parse_printed_tokens`, `parsePat_printed`): for every well-formed
pattern `p` (`RT.WFP`: substitution patterns nested arbitrarily, operators with slots, binders and
children, payload leaves that print unambiguously; excluded: named variants with payload fields —
open finding F10), parsing the token sequence of its printed form returns exactly `p`, with the
fuel the implementation's recursion depth corresponds to never running out.  **The character level**
(`Proofs/TokenizeRT.lean`): the text `Display` prints tokenizes to exactly that token sequence
(`tokenize_print`) whenever what is printed is tokenizable as intended (`RT.CharOK`: operator names,
payloads and pattern-variable names are non-empty identifier texts not starting with `?`, `$` or `:=`;
every slot is known to the table and its printed name reads back as the same slot — C17
`display_named`; a node printed without parentheses is a bare operator/payload), so
`print_parse_roundtrip`: **`Pattern::parse(p.to_string()) = Ok(p)`**, slot table unchanged.
**`RecExpr`** (`recexpr_roundtrip`, `recexpr_rejects_pattern`) and **`MultiPattern`** (`multipattern_roundtrip`; the
splitting of the text at `,` and `==`, the trimming and the two `Pattern::parse` calls per equation are modelled in
`Model/Parse.lean` — `parseMulti` — and are what the driver runs against `MultiPattern::parse`): the printed text of
any list of equations `?v == (op ?c1 .. ?ck)` parses back to that list, provided no printed side contains a comma or
two consecutive `=` (`MEqOK`; `Proofs/MultiRT.lean` has the character-level lemmas).
-/
namespace SV.Parse.C18
open SV SV.Parse

mutual
/-- every node has exactly as many children as it has `AppliedId` positions -/
def wf : Pat → Bool
  | .enode n cs => (Node.appOcc n).length == cs.length && wfList cs
  | .pvar _ => true
  | .subst b x t => wf b && wf x && wf t
def wfList : List Pat → Bool
  | [] => true
  | p :: ps => wf p && wfList ps
end

theorem wfList_patsOf_cons_pat (p : Pat) (l : List NElem) :
    wfList (patsOf (.pat p :: l)) = (wf p && wfList (patsOf l)) := by
  simp [patsOf, wfList]

theorem wfList_patsOf_cons_slot (c : Nat) (l : List NElem) :
    wfList (patsOf (.slot c :: l)) = wfList (patsOf l) := by
  simp [patsOf]

theorem wfList_patsOf_cons_str (s : String) (l : List NElem) :
    wfList (patsOf (.str s :: l)) = wfList (patsOf l) := by
  simp [patsOf]

/-- joint invariant of the four mutually recursive parser functions, by induction on the fuel -/
theorem parser_wf (sig : Sig) : ∀ fuel : Nat,
    (∀ tok p r, parsePattern sig fuel tok = .ok (p, r) → wf p = true) ∧
    (∀ p0 tok p r, wf p0 = true → substLoop sig fuel p0 tok = .ok (p, r) → wf p = true) ∧
    (∀ tok p r, parsePatternNosubst sig fuel tok = .ok (p, r) → wf p = true) ∧
    (∀ tok l r, parseArgs sig fuel tok = .ok (l, r) → wfList (patsOf l) = true) := by
  intro fuel
  induction fuel with
  | zero =>
    refine ⟨?_, ?_, ?_, ?_⟩ <;> intros <;> simp_all [parsePattern, substLoop, parsePatternNosubst, parseArgs]
  | succ n ih =>
    obtain ⟨ih1, ih2, ih3, ih4⟩ := ih
    refine ⟨?_, ?_, ?_, ?_⟩
    · intro tok p r h
      simp only [parsePattern] at h
      split at h
      · simp at h
      · rename_i p1 tok1 h1
        exact ih2 p1 tok1 p r (ih3 _ _ _ h1) h
    · intro p0 tok p r hp0 h
      simp only [substLoop] at h
      split at h
      · rename_i tok'
        split at h
        · simp at h
        · rename_i l tok2 hl
          split at h
          · rename_i tok3
            split at h
            · simp at h
            · rename_i rr tok4 hr
              split at h
              · rename_i tok5
                apply ih2 (.subst p0 l rr) tok5 p r _ h
                simp [wf, hp0, ih1 _ _ _ hl, ih1 _ _ _ hr]
              · simp at h
          · simp at h
      · simp at h; obtain ⟨h1, _⟩ := h; subst h1; exact hp0
    · intro tok p r h
      simp only [parsePatternNosubst] at h
      split at h
      · simp at h; obtain ⟨h1, _⟩ := h; subst h1; simp [wf]
      · rename_i op rest
        split at h
        · simp at h
        · rename_i args rest2 ha
          split at h
          · simp at h
          · rename_i node hn
            split at h
            · simp at h
            · rename_i hlen
              simp at h; obtain ⟨h1, _⟩ := h; subst h1
              have := ih4 _ _ _ ha
              simp only [wf, Bool.and_eq_true, beq_iff_eq]
              refine ⟨by simpa using hlen, ?_⟩
              rw [wfList_patsOf_cons_str]; exact this
      · simp at h
      · split at h
        · simp at h
        · split at h
          · simp at h
          · rename_i hlen
            simp at h; obtain ⟨h1, _⟩ := h; subst h1
            simp only [wf, wfList, Bool.and_true, beq_iff_eq]
            simpa using hlen
      · simp at h
    · intro tok l r h
      simp only [parseArgs] at h
      split at h
      · simp at h
      · simp at h; obtain ⟨h1, _⟩ := h; subst h1; simp [patsOf, wfList]
      · split at h
        · simp at h
        · rename_i l' rest' hl'
          simp at h; obtain ⟨h1, _⟩ := h; subst h1
          rw [wfList_patsOf_cons_slot]; exact ih4 _ _ _ hl'
      · split at h
        · simp at h
        · rename_i p' rest' hp'
          split at h
          · simp at h
          · rename_i l' rest'' hl'
            simp at h; obtain ⟨h1, _⟩ := h; subst h1
            rw [wfList_patsOf_cons_pat]
            simp [ih1 _ _ _ hp', ih4 _ _ _ hl']

/-- **Parsing returns an error or a well-formed value** (`Pattern::parse`, any text, any table). -/
theorem parse_wf (sig : Sig) (s : List Char) (t t' : Slot.Tab) (p : Pat)
    (h : parsePat sig s t = .ok (p, t')) : wf p = true := by
  unfold parsePat at h
  split at h
  · simp at h
  · rename_i toks t1 _
    split at h
    · simp at h
    · rename_i p1 hp
      simp at h; obtain ⟨h1, _⟩ := h; subst h1
      exact (parser_wf sig _).1 _ _ _ hp
    · simp at h

/-- non-vacuity (token level, kernel-checked): `(app ?a ?b)[?c := ?d]` is accepted and well formed,
so the hypothesis of `parser_wf` is satisfiable … -/
def appSig : Sig := [⟨some "app", [.app, .app]⟩, ⟨some "var", [.slot]⟩]
example : (match parsePattern appSig 40 [.lparen, .ident "app", .pvar "a", .pvar "b", .rparen,
      .lbracket, .pvar "c", .colonEq, .pvar "d", .rbracket] with
    | .ok (p, []) => wf p | _ => false) = true := by decide
/-- … surplus arguments are rejected rather than kept as extra children … -/
example : (match parsePattern appSig 40 [.lparen, .ident "var", .slot 4, .pvar "a", .rparen] with
    | .error .fromSyntaxFailed => true | _ => false) = true := by decide
/-- … and truncated input is an error, not a panic. -/
example : (match parsePattern appSig 40 [.lparen, .ident "app", .pvar "a"] with
    | .error .parseState => true | _ => false) = true := by decide

/-! whole-text tests (compiled evaluation, *tests* not theorems: string literals do not reduce in the kernel) -/
#guard (match parsePat appSig "(app (var $x) ?f)[?a := ?b]".toList {} with | .ok (p, _) => wf p | .error _ => false)
#guard (match parsePat appSig "(app ?a".toList {} with | .error .parseState => true | _ => false)
#guard (match parsePat appSig "".toList {} with | .error .parseState => true | _ => false)


/-- **the parser inverts the printer on tokens**: the tokens of the printed form of a well-formed pattern parse
back to the pattern, with nothing left over -/
theorem parse_printed_tokens (sig : Sig) (p : Pat) (h : RT.WFP sig p) :
    parsePattern sig (4 * (RT.toksOf sig p).length + 4) (RT.toksOf sig p) = .ok (p, []) := by
  have := RT.parsesBack_gen h [] [] (4 * (RT.toksOf sig p).length + 4) (by simp [RT.NoLB]) (by simp)
    (by simp only [RT.brToks, List.length_nil]; omega)
  simpa [RT.brToks, RT.rebuild] using this

/-- `Pattern::parse` on a text that tokenizes to the printed tokens of `p` returns `p` -/
theorem parsePat_printed (sig : Sig) (p : Pat) (h : RT.WFP sig p) (s : List Char) (t t' : Slot.Tab)
    (htok : tokenize (s.length + 1) s t = .ok (RT.toksOf sig p, t')) : parsePat sig s t = .ok (p, t') := by
  unfold parsePat
  rw [htok]
  simp only
  rw [parse_printed_tokens sig p h]

/-- non-vacuity: `(app ?f (var $x))[?a := ?b]` over a two-operator signature is well formed, so the hypothesis
of the round-trip theorem is satisfiable (binary operator, slot argument, substitution bracket) -/
example : RT.WFP appSig
    (.subst (.enode ⟨0, [.app RT.nullApp, .app RT.nullApp]⟩ [.pvar "f", .enode ⟨1, [.slot 4]⟩ []]) (.pvar "a") (.pvar "b")) := by
  refine .subst (.named (vr := ⟨some "app", [.app, .app]⟩) (name := "app") rfl rfl ?_ ?_ ?_ ?_ rfl ?_) (.pvar _) (.pvar _)
  · exact .cons (.app _) (.cons (.app _) .nil)
  · intro j hj; simp at hj
  · intro k hk; simp at hk; rcases hk with rfl | rfl <;> rfl
  · intro a ha; simp [Node.appOcc, Field.appOcc] at ha; rcases ha with rfl | rfl <;> rfl
  · refine .cons (.pvar _) (.cons (.named (vr := ⟨some "var", [.slot]⟩) (name := "var") rfl rfl ?_ ?_ ?_ ?_ rfl .nil) .nil)
    · exact .cons (.slot _) .nil
    · intro j hj
      have : j = 0 := by simp at hj; omega
      subst this; decide
    · intro k hk; simp at hk; subst hk; rfl
    · intro a ha; simp [Node.appOcc, Field.appOcc] at ha

/-- **printing a pattern and parsing the text back yields the pattern** (characters → tokens → pattern), for every
signature and every slot table under which the pattern prints unambiguously -/
theorem print_parse_roundtrip (sig : Sig) (t : Slot.Tab) (p : Pat) (hw : RT.WFP sig p) (hc : RT.CharOK sig t p) :
    parsePat sig (printPat sig t p).toList t = .ok (p, t) :=
  parsePat_printed sig p hw _ t t (RT.tokenize_print sig t p hc)

/-- the tokenizer inverts the printer (characters → tokens) -/
theorem tokenize_printed (sig : Sig) (t : Slot.Tab) (p : Pat) (hc : RT.CharOK sig t p) :
    tokenize ((printPat sig t p).toList.length + 1) (printPat sig t p).toList t = .ok (RT.toksOf sig p, t) :=
  RT.tokenize_print sig t p hc

/-- non-vacuity of the character-level hypotheses: identifier texts, a pattern variable, a numeric slot of the
empty table -/
example : RT.IdentOK "app" := by
  have h : "app".toList = ['a', 'p', 'p'] := rfl
  exact ⟨by decide, by decide, by intro r; rw [h]; simp, by intro r; rw [h]; simp, by intro r; rw [h]; simp⟩
example : RT.PvarOK "f" := ⟨by decide, by decide⟩
example : RT.SlotOK {} 4 := by
  refine ⟨⟨['1'], by decide, ?_, by decide, by decide⟩⟩
  have : Slot.classify ['1'] = .num 1 := by decide
  simp [Slot.named, this]

/-- the slot hypothesis of the round trip holds for **every slot issued so far in any history** of the slot table
(C17 `display_named`), as soon as its printed name is one identifier for the tokenizer -/
theorem slotOK_of_issued (ops : List Slot.C17.Op) (c : Nat) (txt : List Char)
    (hc : c ∈ (Slot.C17.run {} ops).issued) (hd : Slot.display (Slot.C17.run {} ops).tab c = some txt)
    (hne : txt ≠ []) (hid : ∀ x ∈ txt, identChar x = true) : RT.SlotOK (Slot.C17.run {} ops).tab c :=
  ⟨⟨txt, hd, Slot.C17.display_named ops c txt hc hd, hne, hid⟩⟩

/-- the pattern of the token-level example, with the numeric slot `$1` -/
def exPat : Pat :=
  .subst (.enode ⟨0, [.app RT.nullApp, .app RT.nullApp]⟩ [.pvar "f", .enode ⟨1, [.slot 4]⟩ []]) (.pvar "a") (.pvar "b")

theorem identOK_of_toList {s : String} {c : Char} {r : List Char} (h : s.toList = c :: r)
    (hall : ∀ x ∈ c :: r, identChar x = true) (h1 : c ≠ '?') (h2 : c ≠ '$') (h3 : c ≠ ':') : RT.IdentOK s :=
  ⟨by rw [h]; simp, by rw [h]; exact hall, by intro r'; rw [h]; simp [h1], by intro r'; rw [h]; simp [h2],
   by intro r'; rw [h]; simp [h3]⟩

/-- … it meets the character-level hypotheses under the empty slot table -/
example : RT.CharOK appSig {} exPat := by
  have happ : RT.IdentOK "app" := identOK_of_toList (c := 'a') (r := ['p', 'p']) rfl (by decide) (by decide) (by decide) (by decide)
  have hvar : RT.IdentOK "var" := identOK_of_toList (c := 'v') (r := ['a', 'r']) rfl (by decide) (by decide) (by decide) (by decide)
  have hslot : RT.SlotOK {} 4 := by
    refine ⟨⟨['1'], by decide, ?_, by decide, by decide⟩⟩
    have : Slot.classify ['1'] = .num 1 := by decide
    simp [Slot.named, this]
  have s0 : Node.toSyntax appSig ⟨0, [.app RT.nullApp, .app RT.nullApp]⟩ = [.str "app", .app RT.nullApp, .app RT.nullApp] := rfl
  have s1 : Node.toSyntax appSig ⟨1, [.slot 4]⟩ = [.str "var", .slot 4] := rfl
  refine ⟨⟨?_, ?_, ?_, ?_, ⟨⟨by decide, by decide⟩, ⟨?_, ?_, ?_, ?_, trivial⟩, trivial⟩⟩, ⟨by decide, by decide⟩, ⟨by decide, by decide⟩⟩
  · intro s hs; rw [s0] at hs; simp at hs; subst hs; exact happ
  · intro c hc; rw [s0] at hc; simp at hc
  · intro h; rw [s0] at h; simp at h
  · rw [s0]; rfl
  · intro s hs; rw [s1] at hs; simp at hs; subst hs; exact hvar
  · intro c hc; rw [s1] at hc; simp at hc; subst hc; exact hslot
  · intro h; rw [s1] at h; simp at h
  · rw [s1]; rfl

-- whole-text test of the same round trip (compiled evaluation)
#guard (match parsePat appSig (printPat appSig {} exPat).toList {} with | .ok (p, _) => printPat appSig {} p == printPat appSig {} exPat | .error _ => false)
#guard printPat appSig {} exPat == "(app ?f (var $1))[?a := ?b]"

/-! ## `RecExpr` and `MultiPattern` -/

/-- **`RecExpr::parse(re.to_string()) = Ok(re)`**: a term is a pattern without variables and substitutions, printed by the
same `Display` and parsed by `Pattern::parse` followed by `pattern_to_re` -/
theorem recexpr_roundtrip (sig : Sig) (t : Slot.Tab) (p : Pat) (ht : isTerm p = true) (hw : RT.WFP sig p)
    (hc : RT.CharOK sig t p) : parseRe sig (printPat sig t p).toList t = .ok (p, t) := by
  unfold parseRe
  rw [print_parse_roundtrip sig t p hw hc]
  simp [ht]

/-- a pattern with a variable is refused by `RecExpr::parse` even when it is a fine pattern -/
theorem recexpr_rejects_pattern (sig : Sig) (t : Slot.Tab) (p : Pat) (ht : isTerm p = false) (hw : RT.WFP sig p)
    (hc : RT.CharOK sig t p) : parseRe sig (printPat sig t p).toList t = .error .parseState := by
  unfold parseRe
  rw [print_parse_roundtrip sig t p hw hc]
  simp [ht]

/-- what makes one equation `?v == (op ?c1 .. ?ck)` print unambiguously: the two sides are fine patterns, and neither
contains a comma or two consecutive `=` (the multi-pattern parser splits the *text* there) -/
structure MEqOK (sig : Sig) (t : Slot.Tab) (e : MEq) : Prop where
  pv : RT.PvarOK e.1
  wfp : RT.WFP sig (.enode e.2.1 (e.2.2.map .pvar))
  chars : RT.CharOK sig t (.enode e.2.1 (e.2.2.map .pvar))
  free1 : RT.sepFree ('?' :: e.1.toList) = true
  free2 : RT.sepFree (RT.printC sig t (.enode e.2.1 (e.2.2.map .pvar))) = true

/-- the loop body of `MultiPattern::parse` on one printed equation -/
theorem parseMEq_printed (sig : Sig) (t : Slot.Tab) (e : MEq) (h : MEqOK sig t e) :
    parseMEq sig (RT.eqC sig t e) t = .ok (e, t) := by
  obtain ⟨v, n, vars⟩ := e
  unfold parseMEq RT.eqC
  simp only
  rw [RT.splitEqEq_eq _ _ h.free1 h.free2]
  simp only
  have hl : parsePat sig (('?' :: v.toList) ++ [' ']) t = .ok (.pvar v, t) := by
    apply parsePat_printed sig (.pvar v) (.pvar _)
    have hk : RT.Toks ('?' :: v.toList ++ [' ']) t [Tok.pvar v] t :=
      RT.toks_pvar h.pv (RT.delim_cons (by decide) []) (.done rfl)
    exact RT.tokenize_of_toks hk _ (Nat.le_refl _)
  have hr : parsePat sig (' ' :: RT.printC sig t (.enode n (vars.map .pvar))) t = .ok (.enode n (vars.map .pvar), t) := by
    apply parsePat_printed sig _ h.wfp
    have hk := RT.toks_print sig t _ h.chars [] [] RT.delim_nil (.done rfl)
    simp only [List.append_nil] at hk
    exact RT.tokenize_of_toks (RT.toks_ws.mpr hk) _ (Nat.le_refl _)
  rw [hl]
  simp only
  rw [hr]
  simp only [RT.allPvars_map]

theorem parseMEqs_printed (sig : Sig) (t : Slot.Tab) : ∀ (mp : List MEq), (∀ e ∈ mp, MEqOK sig t e) →
    parseMEqs sig (mp.map (RT.eqC sig t)) t = .ok (mp, t)
  | [], _ => rfl
  | e :: mp, h => by
    simp only [List.map_cons, parseMEqs]
    rw [parseMEq_printed sig t e (h e (by simp))]
    simp only
    rw [parseMEqs_printed sig t mp (fun x hx => h x (by simp; right; exact hx))]

/-- **`MultiPattern::parse(mp.to_string()) = Ok(mp)`**, slot table unchanged, for every list of equations that print
unambiguously (`MEqOK`) — including the empty multi-pattern, whose text is empty -/
theorem multipattern_roundtrip (sig : Sig) (t : Slot.Tab) (mp : List MEq) (h : ∀ e ∈ mp, MEqOK sig t e) :
    parseMulti sig (printMulti sig t mp).toList t = .ok (mp, t) := by
  unfold parseMulti
  rw [RT.printMulti_toList, RT.pieces_joinCS]
  · exact parseMEqs_printed sig t mp h
  · intro x hx
    obtain ⟨e, he, rfl⟩ := List.mem_map.mp hx
    have hk := h e he
    unfold RT.eqC
    refine RT.commaFree_append (RT.commaFree_of_sepFree hk.free1) ?_
    refine RT.commaFree_cons (by decide) (RT.commaFree_cons (by decide) (RT.commaFree_cons (by decide)
      (RT.commaFree_cons (by decide) (RT.commaFree_of_sepFree hk.free2))))
  · intro x hx
    obtain ⟨e, he, rfl⟩ := List.mem_map.mp hx
    have hk := h e he
    obtain ⟨l, r, hr, hl⟩ := RT.printC_enode_last sig t _ _ hk.chars
    refine ⟨⟨'?', _, rfl, by decide⟩, ⟨l, r ++ (' ' :: '=' :: '=' :: ' ' :: ('?' :: e.1.toList).reverse), ?_, hl⟩⟩
    unfold RT.eqC
    rw [List.reverse_append, List.reverse_cons, List.reverse_cons, List.reverse_cons, List.reverse_cons, hr]
    simp

/-- non-vacuity: the equation `?v == (app ?a ?b)` meets `MEqOK` under the empty slot table … -/
def exEq : MEq := ("v", ⟨0, [.app RT.nullApp, .app RT.nullApp]⟩, ["a", "b"])

theorem MEqOK.mk' {sig : Sig} {t : Slot.Tab} {v : String} {n : Node} {cs : List String} (pv : RT.PvarOK v)
    (wfp : RT.WFP sig (.enode n (cs.map .pvar))) (chars : RT.CharOK sig t (.enode n (cs.map .pvar)))
    (free1 : RT.sepFree ('?' :: v.toList) = true) (free2 : RT.sepFree (RT.printC sig t (.enode n (cs.map .pvar))) = true) :
    MEqOK sig t (v, n, cs) := ⟨pv, wfp, chars, free1, free2⟩

example : MEqOK appSig {} exEq := by
  unfold exEq
  have happ : RT.IdentOK "app" := identOK_of_toList (c := 'a') (r := ['p', 'p']) rfl (by decide) (by decide) (by decide) (by decide)
  have s0 : Node.toSyntax appSig ⟨0, [.app RT.nullApp, .app RT.nullApp]⟩ = [.str "app", .app RT.nullApp, .app RT.nullApp] := rfl
  refine MEqOK.mk' ⟨by decide, by decide⟩ ?_ ?_ (by decide) ?_
  · refine .named (vr := ⟨some "app", [.app, .app]⟩) (name := "app") rfl rfl ?_ ?_ ?_ ?_ rfl ?_
    · exact .cons (.app _) (.cons (.app _) .nil)
    · intro j hj; simp at hj
    · intro k hk; simp at hk; rcases hk with rfl | rfl <;> rfl
    · intro a ha; simp [Node.appOcc, Field.appOcc] at ha; rcases ha with rfl | rfl <;> rfl
    · exact .cons (.pvar _) (.cons (.pvar _) .nil)
  · refine ⟨?_, ?_, ?_, ?_, ⟨⟨by decide, by decide⟩, ⟨by decide, by decide⟩, trivial⟩⟩
    · intro s hs; rw [s0] at hs; simp at hs; subst hs; exact happ
    · intro c hc; rw [s0] at hc; simp at hc
    · intro h; rw [s0] at h; simp at h
    · rw [s0]; rfl
  · decide

-- … and the whole-text tests of the same round trip (compiled evaluation)
#guard printMulti appSig {} [exEq, exEq] == "?v == (app ?a ?b), ?v == (app ?a ?b)"
#guard (match parseMulti appSig (printMulti appSig {} [exEq, exEq]).toList {} with | .ok (mp, _) => mp.length == 2 | .error _ => false)
#guard (match parseMulti appSig "?v == (app ?a ?b),, ".toList {} with | .ok (mp, _) => mp.length == 1 | .error _ => false)
#guard (match parseMulti appSig "?v == (app ?a ?b) == ?c".toList {} with | .error .tokenState => true | _ => false)
#guard (match parseMulti appSig "(app ?a ?b) == ?v".toList {} with | .error .parseState => true | _ => false)

end SV.Parse.C18
