import SlotVerif.Model.Parse
import SlotVerif.Proofs.ParseRT
/-!
# C18 — Printing and parsing round-trip; parsing never panics

Model: `Model/Parse.lean` (`src/parse.rs` after fix F1, generic over the language signature).
The model's parser is total by construction (every token access is a `match`), which mirrors the
checked accesses of the fixed code; that the *code* does not panic is established per run by the
correspondence check (outcome classes `ok|err:<variant>|panic` must agree).  Proved here, for
every signature, every input text and every slot table: **whatever the parser accepts is well
formed** — each node has exactly as many children as its operator takes — and **the parser inverts
the printer at the token level** (`parse_printed_tokens`, `parsePat_printed`): for every well-formed
pattern `p` (`RT.WFP`: substitution patterns nested arbitrarily, operators with slots, binders and
children, payload leaves that print unambiguously; excluded: named variants with payload fields —
open finding F10), parsing the token sequence of its printed form returns exactly `p`, with the
fuel the implementation's recursion depth corresponds to never running out.  That the *characters*
printed by `Display` tokenize to that sequence (`$`-names through the C17 table, identifier
characters) is established per run by the correspondence check.
-/
namespace SV.Parse.C18
open SV SV.Parse

mutual
/-- every node has exactly as many children as it has `AppliedId` positions -/
def wf : Pat → Bool
  | .enode n cs => (Node.appOcc n).length == cs.length && wfList cs
  | .pvar _ => true
  | .subst b x t => wf b && wf x && wf t
def wfList : List Pat → Bool
  | [] => true
  | p :: ps => wf p && wfList ps
end

theorem wfList_patsOf_cons_pat (p : Pat) (l : List NElem) :
    wfList (patsOf (.pat p :: l)) = (wf p && wfList (patsOf l)) := by
  simp [patsOf, wfList]

theorem wfList_patsOf_cons_slot (c : Nat) (l : List NElem) :
    wfList (patsOf (.slot c :: l)) = wfList (patsOf l) := by
  simp [patsOf]

theorem wfList_patsOf_cons_str (s : String) (l : List NElem) :
    wfList (patsOf (.str s :: l)) = wfList (patsOf l) := by
  simp [patsOf]

/-- joint invariant of the four mutually recursive parser functions, by induction on the fuel -/
theorem parser_wf (sig : Sig) : ∀ fuel : Nat,
    (∀ tok p r, parsePattern sig fuel tok = .ok (p, r) → wf p = true) ∧
    (∀ p0 tok p r, wf p0 = true → substLoop sig fuel p0 tok = .ok (p, r) → wf p = true) ∧
    (∀ tok p r, parsePatternNosubst sig fuel tok = .ok (p, r) → wf p = true) ∧
    (∀ tok l r, parseArgs sig fuel tok = .ok (l, r) → wfList (patsOf l) = true) := by
  intro fuel
  induction fuel with
  | zero =>
    refine ⟨?_, ?_, ?_, ?_⟩ <;> intros <;> simp_all [parsePattern, substLoop, parsePatternNosubst, parseArgs]
  | succ n ih =>
    obtain ⟨ih1, ih2, ih3, ih4⟩ := ih
    refine ⟨?_, ?_, ?_, ?_⟩
    · intro tok p r h
      simp only [parsePattern] at h
      split at h
      · simp at h
      · rename_i p1 tok1 h1
        exact ih2 p1 tok1 p r (ih3 _ _ _ h1) h
    · intro p0 tok p r hp0 h
      simp only [substLoop] at h
      split at h
      · rename_i tok'
        split at h
        · simp at h
        · rename_i l tok2 hl
          split at h
          · rename_i tok3
            split at h
            · simp at h
            · rename_i rr tok4 hr
              split at h
              · rename_i tok5
                apply ih2 (.subst p0 l rr) tok5 p r _ h
                simp [wf, hp0, ih1 _ _ _ hl, ih1 _ _ _ hr]
              · simp at h
          · simp at h
      · simp at h; obtain ⟨h1, _⟩ := h; subst h1; exact hp0
    · intro tok p r h
      simp only [parsePatternNosubst] at h
      split at h
      · simp at h; obtain ⟨h1, _⟩ := h; subst h1; simp [wf]
      · rename_i op rest
        split at h
        · simp at h
        · rename_i args rest2 ha
          split at h
          · simp at h
          · rename_i node hn
            split at h
            · simp at h
            · rename_i hlen
              simp at h; obtain ⟨h1, _⟩ := h; subst h1
              have := ih4 _ _ _ ha
              simp only [wf, Bool.and_eq_true, beq_iff_eq]
              refine ⟨by simpa using hlen, ?_⟩
              rw [wfList_patsOf_cons_str]; exact this
      · simp at h
      · split at h
        · simp at h
        · split at h
          · simp at h
          · rename_i hlen
            simp at h; obtain ⟨h1, _⟩ := h; subst h1
            simp only [wf, wfList, Bool.and_true, beq_iff_eq]
            simpa using hlen
      · simp at h
    · intro tok l r h
      simp only [parseArgs] at h
      split at h
      · simp at h
      · simp at h; obtain ⟨h1, _⟩ := h; subst h1; simp [patsOf, wfList]
      · split at h
        · simp at h
        · rename_i l' rest' hl'
          simp at h; obtain ⟨h1, _⟩ := h; subst h1
          rw [wfList_patsOf_cons_slot]; exact ih4 _ _ _ hl'
      · split at h
        · simp at h
        · rename_i p' rest' hp'
          split at h
          · simp at h
          · rename_i l' rest'' hl'
            simp at h; obtain ⟨h1, _⟩ := h; subst h1
            rw [wfList_patsOf_cons_pat]
            simp [ih1 _ _ _ hp', ih4 _ _ _ hl']

/-- **Parsing returns an error or a well-formed value** (`Pattern::parse`, any text, any table). -/
theorem parse_wf (sig : Sig) (s : List Char) (t t' : Slot.Tab) (p : Pat)
    (h : parsePat sig s t = .ok (p, t')) : wf p = true := by
  unfold parsePat at h
  split at h
  · simp at h
  · rename_i toks t1 _
    split at h
    · simp at h
    · rename_i p1 hp
      simp at h; obtain ⟨h1, _⟩ := h; subst h1
      exact (parser_wf sig _).1 _ _ _ hp
    · simp at h

/-- non-vacuity (token level, kernel-checked): `(app ?a ?b)[?c := ?d]` is accepted and well formed,
so the hypothesis of `parser_wf` is satisfiable … -/
def appSig : Sig := [⟨some "app", [.app, .app]⟩, ⟨some "var", [.slot]⟩]
example : (match parsePattern appSig 40 [.lparen, .ident "app", .pvar "a", .pvar "b", .rparen,
      .lbracket, .pvar "c", .colonEq, .pvar "d", .rbracket] with
    | .ok (p, []) => wf p | _ => false) = true := by decide
/-- … surplus arguments are rejected rather than kept as extra children … -/
example : (match parsePattern appSig 40 [.lparen, .ident "var", .slot 4, .pvar "a", .rparen] with
    | .error .fromSyntaxFailed => true | _ => false) = true := by decide
/-- … and truncated input is an error, not a panic. -/
example : (match parsePattern appSig 40 [.lparen, .ident "app", .pvar "a"] with
    | .error .parseState => true | _ => false) = true := by decide

/-! whole-text tests (compiled evaluation, *tests* not theorems: string literals do not reduce in the kernel) -/
#guard (match parsePat appSig "(app (var $x) ?f)[?a := ?b]".toList {} with | .ok (p, _) => wf p | .error _ => false)
#guard (match parsePat appSig "(app ?a".toList {} with | .error .parseState => true | _ => false)
#guard (match parsePat appSig "".toList {} with | .error .parseState => true | _ => false)


/-- **the parser inverts the printer on tokens**: the tokens of the printed form of a well-formed pattern parse
back to the pattern, with nothing left over -/
theorem parse_printed_tokens (sig : Sig) (p : Pat) (h : RT.WFP sig p) :
    parsePattern sig (4 * (RT.toksOf sig p).length + 4) (RT.toksOf sig p) = .ok (p, []) := by
  have := RT.parsesBack_gen h [] [] (4 * (RT.toksOf sig p).length + 4) (by simp [RT.NoLB]) (by simp)
    (by simp only [RT.brToks, List.length_nil]; omega)
  simpa [RT.brToks, RT.rebuild] using this

/-- `Pattern::parse` on a text that tokenizes to the printed tokens of `p` returns `p` -/
theorem parsePat_printed (sig : Sig) (p : Pat) (h : RT.WFP sig p) (s : List Char) (t t' : Slot.Tab)
    (htok : tokenize (s.length + 1) s t = .ok (RT.toksOf sig p, t')) : parsePat sig s t = .ok (p, t') := by
  unfold parsePat
  rw [htok]
  simp only
  rw [parse_printed_tokens sig p h]

/-- non-vacuity: `(app ?f (var $x))[?a := ?b]` over a two-operator signature is well formed, so the hypothesis
of the round-trip theorem is satisfiable (binary operator, slot argument, substitution bracket) -/
example : RT.WFP appSig
    (.subst (.enode ⟨0, [.app RT.nullApp, .app RT.nullApp]⟩ [.pvar "f", .enode ⟨1, [.slot 4]⟩ []]) (.pvar "a") (.pvar "b")) := by
  refine .subst (.named (vr := ⟨some "app", [.app, .app]⟩) (name := "app") rfl rfl ?_ ?_ ?_ ?_ rfl ?_) (.pvar _) (.pvar _)
  · exact .cons (.app _) (.cons (.app _) .nil)
  · intro j hj; simp at hj
  · intro k hk; simp at hk; rcases hk with rfl | rfl <;> rfl
  · intro a ha; simp [Node.appOcc, Field.appOcc] at ha; rcases ha with rfl | rfl <;> rfl
  · refine .cons (.pvar _) (.cons (.named (vr := ⟨some "var", [.slot]⟩) (name := "var") rfl rfl ?_ ?_ ?_ ?_ rfl .nil) .nil)
    · exact .cons (.slot _) .nil
    · intro j hj
      have : j = 0 := by simp at hj; omega
      subst this; decide
    · intro k hk; simp at hk; subst hk; rfl
    · intro a ha; simp [Node.appOcc, Field.appOcc] at ha

end SV.Parse.C18
