import SlotVerif.Proofs.Term
import SlotVerif.Proofs.SnapEquiv
import SlotVerif.Proofs.LookupEquiv
/-!
# C11 — Slot names do not matter: behaviour is equivariant under renaming

On the specification, renaming all names by an invertible map is an automorphism: derivability,
redundancy and symmetry are preserved in both directions, so every observable defined on the spec
is invariant.  The implementation is compared run-by-run under renamings that reverse the
internal slot order (numeric ↔ named, reversed numeric order, `f<n>` names above the fresh counter).
On the modelled read-only functions of the implementation (`Model/Snapshot.lean`, tied to the code by the
correspondence check): `find_equivariant` — canonicalisation commutes with *any* renaming of an invocation's
arguments ("returned invocations are the originals renamed"), and `eq_equivariant` — the answer of an equality
query does not change when the arguments of both invocations are renamed by a map injective on them
(`Proofs/SnapEquiv.lean`); `lookup_equivariant` — looking up an e-node whose slot occurrences were all renamed
injectively returns the renamed invocation (`Proofs/LookupEquiv.lean`).
-/
namespace SV.C11
open SV SV.Term

def renEq (σ : Nat → Nat) (e : Term × Term) : Term × Term := (mapFree σ e.1, mapFree σ e.2)

/-- **equivariance**: derivable before renaming ⇒ derivable after -/
theorem cong_rename {E : List (Term × Term)} (σ σ' : Nat → Nat) (hσ : NameMap σ) (hσ' : NameMap σ')
    (h1 : ∀ x, σ' (σ x) = x) (h2 : ∀ x, σ (σ' x) = x) {t u : Term} (c : Cong E t u) :
    Cong (E.map (renEq σ)) (mapFree σ t) (mapFree σ u) :=
  cong_equivariant σ σ' hσ hσ' h1 h2 c

/-- … and conversely: nothing new becomes derivable by renaming -/
theorem cong_rename_iff {E : List (Term × Term)} (σ σ' : Nat → Nat) (hσ : NameMap σ) (hσ' : NameMap σ')
    (h1 : ∀ x, σ' (σ x) = x) (h2 : ∀ x, σ (σ' x) = x) (t u : Term) :
    Cong E t u ↔ Cong (E.map (renEq σ)) (mapFree σ t) (mapFree σ u) := by
  constructor
  · exact cong_rename σ σ' hσ hσ' h1 h2
  · intro c
    have := cong_equivariant σ' σ hσ' hσ h2 h1 c
    rw [mapFree_cancel σ σ' hσ h1, mapFree_cancel σ σ' hσ h1] at this
    have hE : (E.map (renEq σ)).map (fun e => (mapFree σ' e.1, mapFree σ' e.2)) = E := by
      rw [List.map_map]
      conv => rhs; rw [← List.map_id E]
      apply List.map_congr_left
      intro e _
      simp [renEq, mapFree_cancel σ σ' hσ h1]
    rwa [hE] at this

/-- **returned invocations are the originals renamed**: `find_applied_id` commutes with renaming the arguments -/
theorem find_equivariant {s : Snap} (hok : Snap.ufOK s = true) (ρ : Nat → Nat) (a : AppId) :
    Snap.find s (Snap.renApp ρ a) = (Snap.find s a).map (Snap.renApp ρ) :=
  Snap.find_renApp (Snap.ufOK_sound hok).1 ρ a

/-- **every equality query has the same answer after renaming**, for a renaming injective on the arguments that
survive canonicalisation -/
theorem eq_equivariant {s : Snap} (hok : Snap.ufOK s = true) {ρ : Nat → Nat} {a b a' b' : AppId}
    (ha : Snap.find s a = some a') (hb : Snap.find s b = some b') (hiB : SlotMap.Inj b'.m)
    (hρ : ∀ x ∈ SlotMap.valuesVec a'.m ++ SlotMap.valuesVec b'.m,
      ∀ y ∈ SlotMap.valuesVec a'.m ++ SlotMap.valuesVec b'.m, ρ x = ρ y → x = y) :
    Snap.eq s (Snap.renApp ρ a) (Snap.renApp ρ b) = Snap.eq s a b :=
  Snap.eq_renApp hok ha hb hiB hρ

/-- **`lookup` commutes with an injective renaming of the queried node's slots** -/
theorem lookup_equivariant {s : Snap} (hok : Snap.ufOK s = true) {ρ : Nat → Nat} (hρ : ∀ x y, ρ x = ρ y → x = y)
    (n : Node) : Snap.lookup s (Node.rename ρ n) = (Snap.lookup s n).map (Snap.renApp ρ) :=
  Snap.lookup_rename (Snap.ufOK_sound hok).1 hρ n

/-- non-vacuity: on a two-class state, the permuted invocation and its renaming -/
def demo : Snap :=
  { uf := [⟨1, [(9, 5)]⟩, ⟨1, [(9, 9)]⟩],
    classes := [
      { id := 1, slots := [9], nodes := [], gens := [], syn := ⟨0, [.slot 0]⟩, data := "-" }] }
example : Snap.ufOK demo = true ∧ Snap.find demo ⟨0, [(5, 40), (13, 44)]⟩ = some ⟨1, [(9, 40)]⟩ ∧
    Snap.eq demo (Snap.renApp (· + 100) ⟨0, [(5, 40), (13, 44)]⟩) (Snap.renApp (· + 100) ⟨1, [(9, 40)]⟩) = some true := by
  decide

end SV.C11
