import SlotVerif.Proofs.Term
/-!
# C11 — Slot names do not matter: behaviour is equivariant under renaming

On the specification, renaming all names by an invertible map is an automorphism: derivability,
redundancy and symmetry are preserved in both directions, so every observable defined on the spec
is invariant.  The implementation is compared run-by-run under renamings that reverse the
internal slot order (numeric ↔ named, reversed numeric order, `f<n>` names above the fresh counter).
-/
namespace SV.C11
open SV SV.Term

def renEq (σ : Nat → Nat) (e : Term × Term) : Term × Term := (mapFree σ e.1, mapFree σ e.2)

/-- **equivariance**: derivable before renaming ⇒ derivable after -/
theorem cong_rename {E : List (Term × Term)} (σ σ' : Nat → Nat) (hσ : NameMap σ) (hσ' : NameMap σ')
    (h1 : ∀ x, σ' (σ x) = x) (h2 : ∀ x, σ (σ' x) = x) {t u : Term} (c : Cong E t u) :
    Cong (E.map (renEq σ)) (mapFree σ t) (mapFree σ u) :=
  cong_equivariant σ σ' hσ hσ' h1 h2 c

/-- … and conversely: nothing new becomes derivable by renaming -/
theorem cong_rename_iff {E : List (Term × Term)} (σ σ' : Nat → Nat) (hσ : NameMap σ) (hσ' : NameMap σ')
    (h1 : ∀ x, σ' (σ x) = x) (h2 : ∀ x, σ (σ' x) = x) (t u : Term) :
    Cong E t u ↔ Cong (E.map (renEq σ)) (mapFree σ t) (mapFree σ u) := by
  constructor
  · exact cong_rename σ σ' hσ hσ' h1 h2
  · intro c
    have := cong_equivariant σ' σ hσ' hσ h2 h1 c
    rw [mapFree_cancel σ σ' hσ h1, mapFree_cancel σ σ' hσ h1] at this
    have hE : (E.map (renEq σ)).map (fun e => (mapFree σ' e.1, mapFree σ' e.2)) = E := by
      rw [List.map_map]
      conv => rhs; rw [← List.map_id E]
      apply List.map_congr_left
      intro e _
      simp [renEq, mapFree_cancel σ σ' hσ h1]
    rwa [hE] at this

end SV.C11
