import SlotVerif.Proofs.Inst
import Mathlib.Logic.Encodable.Basic
import Mathlib.Logic.Equiv.List
/-! A concrete coding of slot names by slot codes exists (non-vacuity of the `Coding` hypothesis of the
instantiation lemma): names ↦ 4 · (Gödel number of the character codes), decoded by the inverse. -/
namespace SV.Rules
open SV SV.Term

def stdCode (s : String) : Nat := 4 * Encodable.encode (s.toList.map Char.toNat)
def stdDec (c : Nat) : Option String :=
  (Encodable.decode (α := List Nat) (c / 4)).bind fun l =>
    let s := String.ofList (l.map Char.ofNat)
    if stdCode s = c then some s else none

theorem stdCoding : Coding stdCode stdDec where
  cd := fun x => by
    have h1 : stdCode x / 4 = Encodable.encode (x.toList.map Char.toNat) := by unfold stdCode; omega
    unfold stdDec
    rw [h1, Encodable.encodek]
    have : String.ofList ((x.toList.map Char.toNat).map Char.ofNat) = x := by
      rw [List.map_map]
      have : (Char.ofNat ∘ Char.toNat) = id := by funext c; simp
      rw [this, List.map_id]; simp
    simp only [Option.bind_some]
    rw [this]; simp
  dc := fun c y h => by
    unfold stdDec at h
    cases hd : Encodable.decode (α := List Nat) (c / 4) with
    | none => rw [hd] at h; simp at h
    | some l =>
      rw [hd] at h
      simp only [Option.bind_some] at h
      split at h
      · rename_i hh; simp at h; rw [← h]; exact hh
      · simp at h
  nb := fun x => by unfold stdCode isBvar; simp

end SV.Rules
