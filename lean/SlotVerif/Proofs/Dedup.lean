import SlotVerif.Model.Node
/-! `dedupSorted` (the model of a slot *set*) is canonical: it depends only on the members. -/
namespace SV.Dedup
open SV

def Sorted (l : List Nat) : Prop := l.Pairwise (· < ·)

theorem mem_ins (x y : Nat) (l : List Nat) : y ∈ Node.dedupSorted.ins x l ↔ y = x ∨ y ∈ l := by
  induction l with
  | nil => simp [Node.dedupSorted.ins]
  | cons a t ih =>
    simp only [Node.dedupSorted.ins]
    split
    · simp
    · split
      · rename_i h; subst h; simp
      · simp [ih]; constructor
        · rintro (h | h | h) <;> simp [h]
        · rintro (h | h | h) <;> simp [h]

theorem sorted_ins (x : Nat) : ∀ (l : List Nat), Sorted l → Sorted (Node.dedupSorted.ins x l)
  | [], _ => by simp [Node.dedupSorted.ins, Sorted]
  | a :: t, h => by
    unfold Sorted at h ⊢
    rw [List.pairwise_cons] at h
    simp only [Node.dedupSorted.ins]
    split
    · rename_i hxa
      rw [List.pairwise_cons]
      refine ⟨?_, List.pairwise_cons.mpr h⟩
      intro b hb
      simp only [List.mem_cons] at hb
      rcases hb with hb | hb
      · omega
      · have := h.1 b hb; omega
    · split
      · exact List.pairwise_cons.mpr h
      · rename_i h1 h2
        rw [List.pairwise_cons]
        refine ⟨?_, sorted_ins x t h.2⟩
        intro b hb
        rcases (mem_ins x b t).mp hb with hb | hb
        · omega
        · exact h.1 b hb

theorem foldl_spec (l : List Nat) : ∀ (acc : List Nat), Sorted acc →
    Sorted (l.foldl (fun acc x => Node.dedupSorted.ins x acc) acc) ∧
    ∀ y, y ∈ l.foldl (fun acc x => Node.dedupSorted.ins x acc) acc ↔ y ∈ acc ∨ y ∈ l := by
  induction l with
  | nil => intro acc h; exact ⟨h, by simp⟩
  | cons a t ih =>
    intro acc h
    simp only [List.foldl_cons]
    obtain ⟨h1, h2⟩ := ih _ (sorted_ins a acc h)
    refine ⟨h1, ?_⟩
    intro y
    rw [h2, mem_ins]
    simp only [List.mem_cons]
    constructor
    · rintro ((h | h) | h) <;> simp [h]
    · rintro (h | h | h) <;> simp [h]

theorem sorted_dedup (l : List Nat) : Sorted (Node.dedupSorted l) :=
  (foldl_spec l [] List.Pairwise.nil).1

theorem mem_dedup (l : List Nat) (y : Nat) : y ∈ Node.dedupSorted l ↔ y ∈ l := by
  have := (foldl_spec l [] List.Pairwise.nil).2 y
  simpa [Node.dedupSorted] using this

/-- two strictly increasing lists with the same members are equal -/
theorem sorted_ext : ∀ (a b : List Nat), Sorted a → Sorted b → (∀ x, x ∈ a ↔ x ∈ b) → a = b
  | [], [], _, _, _ => rfl
  | [], y :: t, _, _, h => by have := (h y).mpr (by simp); simp at this
  | x :: t, [], _, _, h => by have := (h x).mp (by simp); simp at this
  | x :: s, y :: t, ha, hb, h => by
    unfold Sorted at ha hb
    rw [List.pairwise_cons] at ha hb
    have hxy : x = y := by
      have h1 := (h x).mp (by simp)
      have h2 := (h y).mpr (by simp)
      simp only [List.mem_cons] at h1 h2
      rcases h1 with h1 | h1
      · exact h1
      · rcases h2 with h2 | h2
        · exact h2.symm
        · have := hb.1 x h1; have := ha.1 y h2; omega
    subst hxy
    congr 1
    apply sorted_ext s t ha.2 hb.2
    intro z
    constructor
    · intro hz
      have := (h z).mp (by simp [hz])
      simp only [List.mem_cons] at this
      rcases this with h' | h'
      · have := ha.1 z hz; omega
      · exact h'
    · intro hz
      have := (h z).mpr (by simp [hz])
      simp only [List.mem_cons] at this
      rcases this with h' | h'
      · have := hb.1 z hz; omega
      · exact h'

/-- **`dedupSorted` depends only on the set of members** -/
theorem dedup_eq_iff (l l' : List Nat) : Node.dedupSorted l = Node.dedupSorted l' ↔ ∀ x, x ∈ l ↔ x ∈ l' := by
  constructor
  · intro h x; rw [← mem_dedup l, ← mem_dedup l', h]
  · intro h
    apply sorted_ext _ _ (sorted_dedup l) (sorted_dedup l')
    intro x; rw [mem_dedup, mem_dedup]; exact h x

end SV.Dedup
