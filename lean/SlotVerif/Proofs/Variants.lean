import SlotVerif.Proofs.EqEquiv
/-!
# The set of group-compatible variants does not depend on the spelling

`get_group_compatible_variants` (`Snap.variants`) applies to every child invocation of an e-node every element of the
child's class group.  Here: replacing the children of `n` by *any* such choice `n'` (a variant of `n`) leaves the **set** of
variants unchanged — right multiplication by a group element permutes the group (`allPerms` lists exactly the generated
subgroup).  This is the group-theoretic core of "the canonical shape of an e-node does not depend on which of its symmetric
spellings it is given in" and of "the matcher visits every orientation of a symmetric child".
-/
namespace SV.Snap
open SV SV.SlotMap SV.Grp

/-! ### replacing the child invocations of a node -/

/-- `replaceApps` over a list of fields -/
def replaceAll : List Field → List AppId → List Field × List AppId
  | [], as => ([], as)
  | f :: fs, as =>
    let (f', rest) := replaceApps f as
    let (fs', rest') := replaceAll fs rest
    (f' :: fs', rest')

theorem foldl_replace (fs : List Field) : ∀ (acc : List Field) (as : List AppId),
    fs.foldl (fun (acc : List Field × List AppId) f =>
      let (f', rest) := replaceApps f acc.2; (acc.1 ++ [f'], rest)) (acc, as) =
    (acc ++ (replaceAll fs as).1, (replaceAll fs as).2) := by
  induction fs with
  | nil => intro acc as; simp [replaceAll]
  | cons f fs ih =>
    intro acc as
    simp only [List.foldl_cons, replaceAll]
    rw [ih]
    simp

theorem withApps_eq (n : Node) (as : List AppId) : withApps n as = { n with fields := (replaceAll n.fields as).1 } := by
  unfold withApps
  rw [foldl_replace]
  simp

/-- number of child invocations of a field -/
def Field.napps : Field → Nat
  | .slot _ => 0
  | .app _ => 1
  | .bind _ f => Field.napps f
  | .lit _ => 0

theorem Field.appOcc_length (f : Field) : (Field.appOcc f).length = Field.napps f := by
  induction f with
  | slot _ => rfl
  | app _ => rfl
  | bind _ f ih => simpa [Field.appOcc, Field.napps] using ih
  | lit _ => rfl

/-- with enough replacements, a field's children become the first `napps` of them and the rest is handed on -/
theorem replaceApps_spec : ∀ (f : Field) (as : List AppId), Field.napps f ≤ as.length →
    Field.appOcc (replaceApps f as).1 = as.take (Field.napps f) ∧ (replaceApps f as).2 = as.drop (Field.napps f) ∧
    Field.napps (replaceApps f as).1 = Field.napps f
  | .slot _, as, _ => by simp [replaceApps, Field.appOcc, Field.napps]
  | .lit _, as, _ => by simp [replaceApps, Field.appOcc, Field.napps]
  | .app a, as, h => by
    cases as with
    | nil => simp [Field.napps] at h
    | cons b rest => simp [replaceApps, Field.appOcc, Field.napps]
  | .bind x f, as, h => by
    have ih := replaceApps_spec f as (by simpa [Field.napps] using h)
    simp only [replaceApps, Field.appOcc, Field.napps]
    exact ih

/-- replacing twice = replacing once (the second replacement sees the same structure) -/
theorem replaceApps_twice : ∀ (f : Field) (as bs : List AppId), Field.napps f ≤ as.length → Field.napps f ≤ bs.length →
    (replaceApps (replaceApps f as).1 bs) = (replaceApps f bs)
  | .slot _, _, _, _, _ => by simp [replaceApps]
  | .lit _, _, _, _, _ => by simp [replaceApps]
  | .app a, as, bs, h, hb => by
    cases as with
    | nil => simp [Field.napps] at h
    | cons b rest =>
      cases bs with
      | nil => simp [Field.napps] at hb
      | cons c rest' => simp [replaceApps]
  | .bind x f, as, bs, h, hb => by
    have ih := replaceApps_twice f as bs (by simpa [Field.napps] using h) (by simpa [Field.napps] using hb)
    simp only [replaceApps]
    rw [ih]

def napps (fs : List Field) : Nat := (fs.map Field.napps).sum

theorem replaceAll_spec : ∀ (fs : List Field) (as : List AppId), napps fs ≤ as.length →
    ((replaceAll fs as).1.flatMap Field.appOcc) = as.take (napps fs) ∧ (replaceAll fs as).2 = as.drop (napps fs) ∧
    napps (replaceAll fs as).1 = napps fs
  | [], as, _ => by simp [replaceAll, napps]
  | f :: fs, as, h => by
    have hf : Field.napps f ≤ as.length := by simp [napps] at h; omega
    obtain ⟨h1, h2, h3⟩ := replaceApps_spec f as hf
    have hrest : napps fs ≤ (replaceApps f as).2.length := by
      rw [h2]; simp [napps] at h ⊢; omega
    obtain ⟨g1, g2, g3⟩ := replaceAll_spec fs (replaceApps f as).2 hrest
    simp only [replaceAll, List.flatMap_cons]
    refine ⟨?_, ?_, ?_⟩
    · rw [h1, g1, h2]
      simp only [napps, List.map_cons, List.sum_cons]
      rw [List.take_add]
    · rw [g2, h2, List.drop_drop]; simp only [napps, List.map_cons, List.sum_cons]
    · simp only [napps, List.map_cons, List.sum_cons] at g3 ⊢
      rw [h3, g3]

theorem replaceAll_twice : ∀ (fs : List Field) (as bs : List AppId), napps fs ≤ as.length → napps fs ≤ bs.length →
    (replaceAll (replaceAll fs as).1 bs) = (replaceAll fs bs)
  | [], _, _, _, _ => by simp [replaceAll]
  | f :: fs, as, bs, h, hb => by
    have hf : Field.napps f ≤ as.length := by simp [napps] at h; omega
    have hfb : Field.napps f ≤ bs.length := by simp [napps] at hb; omega
    obtain ⟨_, h2, _⟩ := replaceApps_spec f as hf
    obtain ⟨_, h2b, _⟩ := replaceApps_spec f bs hfb
    have hrest : napps fs ≤ (replaceApps f as).2.length := by
      rw [h2]; simp [napps] at h ⊢; omega
    have hrestb : napps fs ≤ (replaceApps f bs).2.length := by
      rw [h2b]; simp [napps] at hb ⊢; omega
    simp only [replaceAll]
    rw [replaceApps_twice f as bs hf hfb, replaceAll_twice fs (replaceApps f as).2 _ hrest hrestb]

theorem napps_eq_appOcc (n : Node) : napps n.fields = (Node.appOcc n).length := by
  unfold napps Node.appOcc
  induction n.fields with
  | nil => rfl
  | cons f fs ih =>
    simp only [List.map_cons, List.sum_cons, List.flatMap_cons, List.length_append, Field.appOcc_length]
    rw [ih]

/-- the children of `withApps n as` are `as` -/
theorem appOcc_withApps (n : Node) (as : List AppId) (h : as.length = (Node.appOcc n).length) :
    Node.appOcc (withApps n as) = as := by
  rw [withApps_eq]
  unfold Node.appOcc
  simp only
  have := (replaceAll_spec n.fields as (by rw [napps_eq_appOcc]; omega)).1
  rw [this, napps_eq_appOcc, ← h, List.take_length]

/-- replacing the children twice = replacing them once -/
theorem withApps_withApps (n : Node) (as bs : List AppId) (h : as.length = (Node.appOcc n).length)
    (hb : bs.length = (Node.appOcc n).length) : withApps (withApps n as) bs = withApps n bs := by
  rw [withApps_eq, withApps_eq, withApps_eq]
  simp only
  rw [replaceAll_twice n.fields as bs (by rw [napps_eq_appOcc]; omega) (by rw [napps_eq_appOcc]; omega)]

/-! ### choices of one group element per child -/

/-- `ps` picks one element from each list of `ls` -/
inductive Pick : List Perm → List (List Perm) → Prop
  | nil : Pick [] []
  | cons {p : Perm} {l : List Perm} {ps : List Perm} {ls : List (List Perm)} : p ∈ l → Pick ps ls → Pick (p :: ps) (l :: ls)

theorem Pick.length {ps : List Perm} {ls : List (List Perm)} (h : Pick ps ls) : ps.length = ls.length := by
  induction h with
  | nil => rfl
  | cons _ _ ih => simp [ih]

theorem mem_cartesian : ∀ (ls : List (List Perm)) (ps : List Perm), ps ∈ cartesian ls ↔ Pick ps ls
  | [], ps => by
    simp only [cartesian, List.mem_singleton]
    constructor
    · rintro rfl; exact .nil
    · intro h; cases h; rfl
  | l :: ls, ps => by
    simp only [cartesian, List.mem_flatMap, List.mem_map]
    constructor
    · rintro ⟨rest, hrest, x, hx, rfl⟩
      exact .cons hx ((mem_cartesian ls rest).mp hrest)
    · intro h
      cases h with
      | cons hx hrest => exact ⟨_, (mem_cartesian ls _).mpr hrest, _, hx, rfl⟩

/-- the elements `get_group_compatible_variants` offers for a child -/
def grpOf (s : Snap) (a : AppId) : List Perm :=
  match cls s a.id with
  | some c => Grp.allPerms (group c)
  | none => [[]]

/-- the children with one chosen symmetry applied to each -/
def applyAll : List AppId → List Perm → List AppId
  | a :: as, p :: ps => applyPerm p a :: applyAll as ps
  | _, _ => []

theorem applyAll_eq_zip : ∀ (as : List AppId) (ps : List Perm),
    (as.zip ps).map (fun (x : AppId × Perm) => applyPerm x.2 x.1) = applyAll as ps
  | [], _ => by simp [applyAll]
  | _ :: _, [] => by simp [applyAll]
  | a :: as, p :: ps => by simp [applyAll, applyAll_eq_zip as ps]

theorem applyAll_length : ∀ (as : List AppId) (ps : List Perm), as.length = ps.length → (applyAll as ps).length = as.length
  | [], [], _ => rfl
  | a :: as, p :: ps, h => by simp [applyAll, applyAll_length as ps (by simpa using h)]
  | [], _ :: _, h => by simp at h
  | _ :: _, [], h => by simp at h

theorem grpOf_applyPerm (s : Snap) (p : Perm) (a : AppId) : grpOf s (applyPerm p a) = grpOf s a := rfl

theorem map_grpOf_applyAll (s : Snap) : ∀ (as : List AppId) (ps : List Perm), as.length = ps.length →
    (applyAll as ps).map (grpOf s) = as.map (grpOf s)
  | [], [], _ => rfl
  | a :: as, p :: ps, h => by
    simp only [applyAll, List.map_cons, grpOf_applyPerm, map_grpOf_applyAll s as ps (by simpa using h)]
  | [], _ :: _, h => by simp at h
  | _ :: _, [], h => by simp at h

/-- what is known about a child: its class exists, its generators are permutations of the class slots, and the invocation
is defined on class slots only -/
structure ChildOK (s : Snap) (a : AppId) : Prop where
  ex : ∃ c, cls s a.id = some c ∧ Valid c.slots c.gens ∧ WF a.m ∧ ∀ k v, get a.m k = some v → k ∈ c.slots

theorem mem_grpOf {s : Snap} {a : AppId} {c : SClass} (hc : cls s a.id = some c) (hv : Valid c.slots c.gens) (p : Perm) :
    p ∈ grpOf s a ↔ Gen c.slots c.gens p := by
  unfold grpOf; rw [hc]
  have hfuel : (moved c.slots c.gens).length < (identity c.slots).length + 1 := by
    have h1 : (moved c.slots c.gens).length ≤ (keys (identity c.slots)).length := List.length_filter_le _ _
    have h2 : (keys (identity c.slots)).length = (identity c.slots).length := by simp [keys]
    omega
  exact (allPerms_new ((identity c.slots).length + 1) c.gens hv hfuel).1 p

theorem applyPerm_applyPerm {p q : Perm} (hp : WF p) (hq : WF q) (a : AppId) :
    applyPerm p (applyPerm q a) = applyPerm (comp p q) a := by
  unfold applyPerm comp
  simp only
  rw [compose_assoc hp hq]

/-- applying a second choice after a first one = applying the componentwise products, which are again a choice -/
theorem applyAll_applyAll {s : Snap} : ∀ (as : List AppId) (ps0 ps : List Perm), (∀ a ∈ as, ChildOK s a) →
    Pick ps0 (as.map (grpOf s)) → Pick ps (as.map (grpOf s)) →
    ∃ qs, Pick qs (as.map (grpOf s)) ∧ applyAll (applyAll as ps0) ps = applyAll as qs
  | [], _, _, _, h0, h => by
    cases h0; cases h
    exact ⟨[], .nil, rfl⟩
  | a :: as, ps0, ps, hok, h0, h => by
    cases h0 with
    | cons hp0 hrest0 =>
      cases h with
      | cons hp hrest =>
        rename_i p0 ps0' p ps'
        obtain ⟨c, hc, hv, _, _⟩ := (hok a (by simp)).ex
        have g0 := (mem_grpOf hc hv p0).mp hp0
        have g := (mem_grpOf hc hv p).mp hp
        obtain ⟨qs, hqs, heq⟩ := applyAll_applyAll as ps0' ps' (fun x hx => hok x (by simp [hx])) hrest0 hrest
        refine ⟨comp p p0 :: qs, .cons ((mem_grpOf hc hv _).mpr (.mul g g0)) hqs, ?_⟩
        simp only [applyAll]
        rw [applyPerm_applyPerm (g.isPerm hv).wf (g0.isPerm hv).wf, heq]

/-- every choice is reached: `qs = ps · ps0` for a choice `ps` -/
theorem applyAll_surj {s : Snap} : ∀ (as : List AppId) (ps0 qs : List Perm), (∀ a ∈ as, ChildOK s a) →
    Pick ps0 (as.map (grpOf s)) → Pick qs (as.map (grpOf s)) →
    ∃ ps, Pick ps (as.map (grpOf s)) ∧ applyAll (applyAll as ps0) ps = applyAll as qs
  | [], _, _, _, h0, h => by
    cases h0; cases h
    exact ⟨[], .nil, rfl⟩
  | a :: as, ps0, qs, hok, h0, h => by
    cases h0 with
    | cons hp0 hrest0 =>
      cases h with
      | cons hq hrest =>
        rename_i p0 ps0' q qs'
        obtain ⟨c, hc, hv, _, _⟩ := (hok a (by simp)).ex
        have g0 := (mem_grpOf hc hv p0).mp hp0
        have gq := (mem_grpOf hc hv q).mp hq
        obtain ⟨ps, hps, heq⟩ := applyAll_surj as ps0' qs' (fun x hx => hok x (by simp [hx])) hrest0 hrest
        have gp : Gen c.slots c.gens (comp q (inverse p0)) := .mul gq (.inv g0)
        refine ⟨comp q (inverse p0) :: ps, .cons ((mem_grpOf hc hv _).mpr gp) hps, ?_⟩
        simp only [applyAll]
        rw [applyPerm_applyPerm (gp.isPerm hv).wf (g0.isPerm hv).wf, heq]
        have hq' := gq.isPerm hv
        have h0' := g0.isPerm hv
        rw [comp_assoc hq' (isPerm_inverse h0'), inv_comp_self h0', comp_id_right hq']

/-! ### replacing the children by themselves -/

theorem replaceApps_self : ∀ (f : Field) (rest : List AppId), replaceApps f (Field.appOcc f ++ rest) = (f, rest)
  | .slot _, _ => by simp [replaceApps, Field.appOcc]
  | .lit _, _ => by simp [replaceApps, Field.appOcc]
  | .app a, _ => by simp [replaceApps, Field.appOcc]
  | .bind x f, rest => by simp [replaceApps, Field.appOcc, replaceApps_self f rest]

theorem replaceAll_self : ∀ (fs : List Field) (rest : List AppId),
    replaceAll fs (fs.flatMap Field.appOcc ++ rest) = (fs, rest)
  | [], _ => by simp [replaceAll]
  | f :: fs, rest => by
    simp only [replaceAll, List.flatMap_cons, List.append_assoc, replaceApps_self, replaceAll_self fs rest]

theorem withApps_self (n : Node) : withApps n (Node.appOcc n) = n := by
  rw [withApps_eq]
  have := replaceAll_self n.fields []
  simp only [List.append_nil] at this
  unfold Node.appOcc
  rw [this]

theorem applyPerm_identity {Ω : List Nat} {a : AppId} (hw : WF a.m) (hk : ∀ k v, get a.m k = some v → k ∈ Ω) :
    applyPerm (identity Ω) a = a := by
  unfold applyPerm
  have : composePartial (identity Ω) a.m = a.m := by
    apply ext (wf_composePartial _ _) hw
    intro k
    rw [get_composePartial (wf_identity Ω), get_identity]
    by_cases hkΩ : k ∈ Ω
    · simp [hkΩ]
    · simp only [hkΩ, if_false, Option.bind_none]
      cases hg : get a.m k with
      | none => rfl
      | some v => exact absurd (hk k v hg) hkΩ
  rw [this]

/-- if every child's group is trivial, every choice leaves the children as they are -/
theorem applyAll_trivial {s : Snap} : ∀ (as : List AppId) (ps0 : List Perm), (∀ a ∈ as, ChildOK s a) →
    (as.map (grpOf s)).all (fun g => decide (g.length ≤ 1)) = true → Pick ps0 (as.map (grpOf s)) → applyAll as ps0 = as
  | [], _, _, _, h0 => by cases h0; rfl
  | a :: as, ps0, hok, htriv, h0 => by
    cases h0 with
    | cons hp0 hrest0 =>
      rename_i p0 ps0'
      simp only [List.map_cons, List.all_cons, Bool.and_eq_true, decide_eq_true_eq] at htriv
      obtain ⟨c, hc, hv, hw, hk⟩ := (hok a (by simp)).ex
      have hone : identity c.slots ∈ grpOf s a := (mem_grpOf hc hv _).mpr .one
      have hp : p0 = identity c.slots := by
        generalize grpOf s a = g at *
        match g, htriv.1, hone, hp0 with
        | [x], _, h1, h2 => simp at h1 h2; rw [h2, h1]
      simp only [applyAll]
      rw [hp, applyPerm_identity hw hk, applyAll_trivial as ps0' (fun x hx => hok x (by simp [hx])) htriv.2 hrest0]


theorem variants_eq (s : Snap) (n : Node) : variants s n =
    if ((Node.appOcc n).map (grpOf s)).all (fun g => decide (g.length ≤ 1)) = true then [n]
    else (cartesian ((Node.appOcc n).map (grpOf s))).map (fun ps => withApps n (applyAll (Node.appOcc n) ps)) := by
  have : variants s n =
      if ((Node.appOcc n).map (grpOf s)).all (fun g => decide (g.length ≤ 1)) = true then [n]
      else (cartesian ((Node.appOcc n).map (grpOf s))).map
        (fun ps => withApps n (((Node.appOcc n).zip ps).map (fun (x : AppId × Perm) => applyPerm x.2 x.1))) := rfl
  rw [this]
  simp only [applyAll_eq_zip]

/-- **the set of group-compatible variants of a variant is the set of group-compatible variants** -/
theorem variants_of_variant {s : Snap} {n : Node} (hok : ∀ a ∈ Node.appOcc n, ChildOK s a) {ps0 : List Perm}
    (h0 : Pick ps0 ((Node.appOcc n).map (grpOf s))) (v : Node) :
    v ∈ variants s (withApps n (applyAll (Node.appOcc n) ps0)) ↔ v ∈ variants s n := by
  have hlen0 : (Node.appOcc n).length = ps0.length := by have := h0.length; simp at this; omega
  have hlenA : (applyAll (Node.appOcc n) ps0).length = (Node.appOcc n).length := applyAll_length _ _ hlen0
  have happs : Node.appOcc (withApps n (applyAll (Node.appOcc n) ps0)) = applyAll (Node.appOcc n) ps0 :=
    appOcc_withApps n _ hlenA
  have hgroups : (applyAll (Node.appOcc n) ps0).map (grpOf s) = (Node.appOcc n).map (grpOf s) :=
    map_grpOf_applyAll s _ _ hlen0
  rw [variants_eq, variants_eq, happs, hgroups]
  by_cases htriv : ((Node.appOcc n).map (grpOf s)).all (fun g => decide (g.length ≤ 1)) = true
  · simp only [htriv, if_true]
    rw [applyAll_trivial _ _ hok htriv h0, withApps_self]
  · simp only [htriv, if_false, Bool.false_eq_true]
    simp only [List.mem_map]
    constructor
    · rintro ⟨ps, hps, rfl⟩
      have hpick := (mem_cartesian _ _).mp hps
      obtain ⟨qs, hqs, heq⟩ := applyAll_applyAll _ ps0 ps hok h0 hpick
      refine ⟨qs, (mem_cartesian _ _).mpr hqs, ?_⟩
      have hlq : (applyAll (Node.appOcc n) qs).length = (Node.appOcc n).length :=
        applyAll_length _ _ (by have := hqs.length; simp at this; omega)
      rw [← heq] at hlq ⊢
      exact (withApps_withApps n _ _ hlenA hlq).symm
    · rintro ⟨qs, hqs, rfl⟩
      have hpick := (mem_cartesian _ _).mp hqs
      obtain ⟨ps, hps, heq⟩ := applyAll_surj _ ps0 qs hok h0 hpick
      refine ⟨ps, (mem_cartesian _ _).mpr hps, ?_⟩
      have hlq : (applyAll (Node.appOcc n) qs).length = (Node.appOcc n).length :=
        applyAll_length _ _ (by have := hpick.length; simp at this; omega)
      rw [← heq] at hlq ⊢
      exact withApps_withApps n _ _ hlenA hlq

end SV.Snap
