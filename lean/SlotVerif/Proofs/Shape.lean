import SlotVerif.Model.Node
import SlotVerif.Proofs.SlotMap
/-! `weak_shape` is invariant under injective renaming of *all* slot occurrences (free and bound):
the simulation argument behind C16's "canonical modulo renaming". -/
namespace SV.Shape
open SV SV.SlotMap SV.Field

/-- the weak-shape states of a node and of its renamed copy are in step -/
structure Rel (ρ : Nat → Nat) (A : List Nat) (st st' : WS) : Prop where
  cnt : st'.2 = st.2
  wf : WF st.1
  wf' : WF st'.1
  get : ∀ s ∈ A, SlotMap.get st'.1 (ρ s) = SlotMap.get st.1 s

def InjOn (ρ : Nat → Nat) (A : List Nat) : Prop := ∀ a ∈ A, ∀ b ∈ A, ρ a = ρ b → a = b

theorem rel_insert {ρ : Nat → Nat} {A : List Nat} (hρ : InjOn ρ A) {st st' : WS} (h : Rel ρ A st st')
    {s : Nat} (hs : s ∈ A) (v : Nat) (c : Nat) :
    Rel ρ A (SlotMap.insert st.1 s v, c) (SlotMap.insert st'.1 (ρ s) v, c) where
  cnt := rfl
  wf := wf_insert h.wf _ _
  wf' := wf_insert h.wf' _ _
  get := fun t ht => by
    simp only
    rw [get_insert h.wf', get_insert h.wf]
    by_cases hts : t = s
    · subst hts; simp
    · have : ρ t ≠ ρ s := fun he => hts (hρ t ht s hs he)
      simp [hts, this, h.get t ht]

theorem rel_remove {ρ : Nat → Nat} {A : List Nat} (hρ : InjOn ρ A) {st st' : WS} (h : Rel ρ A st st')
    {s : Nat} (hs : s ∈ A) (c : Nat) :
    Rel ρ A (SlotMap.remove st.1 s, c) (SlotMap.remove st'.1 (ρ s), c) where
  cnt := rfl
  wf := wf_remove h.wf _
  wf' := wf_remove h.wf' _
  get := fun t ht => by
    simp only
    rw [get_remove h.wf', get_remove h.wf]
    by_cases hts : t = s
    · subst hts; simp
    · have : ρ t ≠ ρ s := fun he => hts (hρ t ht s hs he)
      simp [hts, this, h.get t ht]

theorem addSlot_rel {ρ : Nat → Nat} {A : List Nat} (hρ : InjOn ρ A) {st st' : WS} (h : Rel ρ A st st')
    {s : Nat} (hs : s ∈ A) :
    (addSlot (ρ s) st').1 = (addSlot s st).1 ∧ Rel ρ A (addSlot s st).2 (addSlot (ρ s) st').2 := by
  simp only [addSlot, h.cnt]
  exact ⟨trivial, rel_insert hρ h hs _ _⟩

theorem onSeeSlot_rel {ρ : Nat → Nat} {A : List Nat} (hρ : InjOn ρ A) {st st' : WS} (h : Rel ρ A st st')
    {s : Nat} (hs : s ∈ A) :
    (onSeeSlot (ρ s) st').1 = (onSeeSlot s st).1 ∧ Rel ρ A (onSeeSlot s st).2 (onSeeSlot (ρ s) st').2 := by
  unfold onSeeSlot
  rw [h.get s hs]
  cases SlotMap.get st.1 s with
  | some s2 => exact ⟨rfl, h⟩
  | none => exact addSlot_rel hρ h hs

theorem wsValues_rel {ρ : Nat → Nat} {A : List Nat} (hρ : InjOn ρ A) :
    ∀ (l : List (Nat × Nat)) {st st' : WS}, Rel ρ A st st' → (∀ p ∈ l, p.2 ∈ A) →
      (wsValues (l.map fun p => (p.1, ρ p.2)) st').1 = (wsValues l st).1 ∧
      Rel ρ A (wsValues l st).2 (wsValues (l.map fun p => (p.1, ρ p.2)) st').2 := by
  intro l
  induction l with
  | nil => intro st st' h _; exact ⟨rfl, h⟩
  | cons p t ih =>
    intro st st' h hA
    obtain ⟨k, v⟩ := p
    simp only [List.map_cons, wsValues]
    obtain ⟨h1, h2⟩ := onSeeSlot_rel hρ h (hA (k, v) (by simp))
    obtain ⟨h3, h4⟩ := ih h2 (fun q hq => hA q (by simp [hq]))
    simp only at h1 h3 h4 ⊢
    rw [h1, h3]
    exact ⟨rfl, h4⟩

theorem weakShape_rel {ρ : Nat → Nat} {A : List Nat} (hρ : InjOn ρ A) :
    ∀ (f : Field) {st st' : WS}, Rel ρ A st st' → (∀ x ∈ Field.allOcc f, x ∈ A) →
      (Field.weakShape (Field.rename ρ f) st').1 = (Field.weakShape f st).1 ∧
      Rel ρ A (Field.weakShape f st).2 (Field.weakShape (Field.rename ρ f) st').2 := by
  intro f
  induction f with
  | slot s =>
    intro st st' h hA
    simp only [Field.rename, Field.weakShape]
    obtain ⟨h1, h2⟩ := onSeeSlot_rel hρ h (hA s (by simp [Field.allOcc]))
    rw [h1]; exact ⟨rfl, h2⟩
  | app a =>
    intro st st' h hA
    simp only [Field.rename, Field.weakShape]
    have hv : ∀ p ∈ a.m, p.2 ∈ A := by
      intro p hp; apply hA; simp only [Field.allOcc, valuesVec]; exact List.mem_map.mpr ⟨p, hp, rfl⟩
    obtain ⟨h1, h2⟩ := wsValues_rel hρ a.m h hv
    rw [h1]; exact ⟨rfl, h2⟩
  | lit v => intro st st' h _; exact ⟨rfl, h⟩
  | bind s f ih =>
    intro st st' h hA
    have hs : s ∈ A := hA s (by simp [Field.allOcc])
    simp only [Field.rename, Field.weakShape]
    obtain ⟨a1, a2⟩ := addSlot_rel hρ h hs
    obtain ⟨b1, b2⟩ := ih a2 (fun x hx => hA x (by simp [Field.allOcc, hx]))
    rw [h.get s hs, a1, b1]
    refine ⟨rfl, ?_⟩
    cases SlotMap.get st.1 s with
    | some old => simp only; rw [b2.cnt]; exact rel_insert hρ b2 hs _ _
    | none => simp only; rw [b2.cnt]; exact rel_remove hρ b2 hs _

theorem weakShapeFields_rel {ρ : Nat → Nat} {A : List Nat} (hρ : InjOn ρ A) :
    ∀ (fs : List Field) {st st' : WS}, Rel ρ A st st' → (∀ f ∈ fs, ∀ x ∈ Field.allOcc f, x ∈ A) →
      (Node.weakShapeFields (fs.map (Field.rename ρ)) st').1 = (Node.weakShapeFields fs st).1 ∧
      Rel ρ A (Node.weakShapeFields fs st).2 (Node.weakShapeFields (fs.map (Field.rename ρ)) st').2 := by
  intro fs
  induction fs with
  | nil => intro st st' h _; exact ⟨rfl, h⟩
  | cons f t ih =>
    intro st st' h hA
    simp only [List.map_cons, Node.weakShapeFields]
    obtain ⟨h1, h2⟩ := weakShape_rel hρ f h (hA f (by simp))
    obtain ⟨h3, h4⟩ := ih h2 (fun g hg => hA g (by simp [hg]))
    rw [h1, h3]
    exact ⟨rfl, h4⟩

end SV.Shape
