import SlotVerif.Model.Group
import SlotVerif.Proofs.SlotMap
/-! Permutations of a slot set as slot maps: the group laws of `comp` / `inverse` / identity,
derived from the pointwise lemmas of `Proofs/SlotMap.lean` (used by the C10 proofs). -/
namespace SV.Grp
open SV SV.SlotMap

/-- `p` is a permutation of the slot set `Ω` -/
structure IsPerm (Ω : List Nat) (p : Perm) : Prop where
  wf : WF p
  tot : ∀ x ∈ Ω, ∃ y ∈ Ω, get p x = some y
  dom : ∀ x y, get p x = some y → x ∈ Ω
  inj : ∀ x x' y, get p x = some y → get p x' = some y → x = x'
  surj : ∀ y ∈ Ω, ∃ x, get p x = some y

theorem IsPerm.Inj {Ω : List Nat} {p : Perm} (h : IsPerm Ω p) : SlotMap.Inj p := by
  unfold SlotMap.Inj valuesVec
  apply nodup_map_on
  · intro a ha b hb he
    have h1 := (get_eq_some_iff h.wf a.1 a.2).mpr ha
    have h2 := (get_eq_some_iff h.wf b.1 b.2).mpr hb
    rw [he] at h1
    have := h.inj _ _ _ h1 h2
    exact Prod.ext this he
  · exact nodup_of_map (fun (q : Nat × Nat) => q.1) (wf_nodup h.wf)

theorem IsPerm.ext {Ω : List Nat} {p q : Perm} (hp : IsPerm Ω p) (hq : IsPerm Ω q)
    (h : ∀ x ∈ Ω, get p x = get q x) : p = q := by
  apply SlotMap.ext hp.wf hq.wf
  intro k
  by_cases hk : k ∈ Ω
  · exact h k hk
  · have h1 : get p k = none := by
      cases hg : get p k with
      | none => rfl
      | some y => exact absurd (hp.dom _ _ hg) hk
    have h2 : get q k = none := by
      cases hg : get q k with
      | none => rfl
      | some y => exact absurd (hq.dom _ _ hg) hk
    rw [h1, h2]

theorem get_comp {p : Perm} (hp : WF p) (q : Perm) (x : Nat) : get (comp p q) x = (get p x).bind (get q) :=
  get_composePartial hp q x

theorem isPerm_identity (Ω : List Nat) : IsPerm Ω (identity Ω) where
  wf := wf_identity Ω
  tot := fun x hx => ⟨x, hx, by rw [get_identity]; simp [hx]⟩
  dom := fun x y h => by
    rw [get_identity] at h
    by_cases hx : x ∈ Ω
    · exact hx
    · simp [hx] at h
  inj := fun x x' y h h' => by
    rw [get_identity] at h h'
    by_cases hx : x ∈ Ω <;> by_cases hx' : x' ∈ Ω <;> simp_all
  surj := fun y hy => ⟨y, by rw [get_identity]; simp [hy]⟩

theorem get_identity_of_mem {Ω : List Nat} {x : Nat} (hx : x ∈ Ω) : get (identity Ω) x = some x := by
  rw [get_identity]; simp [hx]

theorem isPerm_comp {Ω : List Nat} {p q : Perm} (hp : IsPerm Ω p) (hq : IsPerm Ω q) : IsPerm Ω (comp p q) where
  wf := wf_composePartial _ _
  tot := fun x hx => by
    obtain ⟨y, hy, h1⟩ := hp.tot x hx
    obtain ⟨z, hz, h2⟩ := hq.tot y hy
    exact ⟨z, hz, by rw [get_comp hp.wf, h1]; exact h2⟩
  dom := fun x y h => by
    rw [get_comp hp.wf] at h
    cases hg : get p x with
    | none => rw [hg] at h; simp at h
    | some z => exact hp.dom _ _ hg
  inj := fun x x' y h h' => by
    rw [get_comp hp.wf] at h h'
    cases hg : get p x with
    | none => rw [hg] at h; simp at h
    | some z =>
      cases hg' : get p x' with
      | none => rw [hg'] at h'; simp at h'
      | some z' =>
        rw [hg] at h; rw [hg'] at h'
        have := hq.inj _ _ _ h h'
        subst this
        exact hp.inj _ _ _ hg hg'
  surj := fun y hy => by
    obtain ⟨z, hz⟩ := hq.surj y hy
    obtain ⟨x, hx⟩ := hp.surj z (hq.dom _ _ hz)
    exact ⟨x, by rw [get_comp hp.wf, hx]; exact hz⟩

theorem get_inv {Ω : List Nat} {p : Perm} (hp : IsPerm Ω p) (x y : Nat) :
    get (inverse p) y = some x ↔ get p x = some y := get_inverse hp.wf hp.Inj x y

theorem isPerm_inverse {Ω : List Nat} {p : Perm} (hp : IsPerm Ω p) : IsPerm Ω (inverse p) where
  wf := wf_inverse p
  tot := fun y hy => by
    obtain ⟨x, hx⟩ := hp.surj y hy
    exact ⟨x, hp.dom _ _ hx, (get_inv hp x y).mpr hx⟩
  dom := fun y x h => by
    have := (get_inv hp x y).mp h
    obtain ⟨z, hz, h2⟩ := hp.tot x (hp.dom _ _ this)
    rw [this] at h2; simp at h2; subst h2; exact hz
  inj := fun y y' x h h' => by
    have h1 := (get_inv hp x y).mp h
    have h2 := (get_inv hp x y').mp h'
    rw [h1] at h2; simpa using h2
  surj := fun x hx => by
    obtain ⟨y, _, h⟩ := hp.tot x hx
    exact ⟨y, (get_inv hp x y).mpr h⟩

theorem comp_assoc {Ω : List Nat} {a b : Perm} (ha : IsPerm Ω a) (hb : IsPerm Ω b) (c : Perm) :
    comp (comp a b) c = comp a (comp b c) := compose_assoc ha.wf hb.wf c

theorem comp_id_right {Ω : List Nat} {p : Perm} (hp : IsPerm Ω p) : comp p (identity Ω) = p := by
  apply IsPerm.ext (isPerm_comp hp (isPerm_identity Ω)) hp
  intro x hx
  obtain ⟨y, hy, h⟩ := hp.tot x hx
  rw [get_comp hp.wf, h]
  simp [get_identity_of_mem hy]

theorem comp_id_left {Ω : List Nat} {p : Perm} (hp : IsPerm Ω p) : comp (identity Ω) p = p := by
  apply IsPerm.ext (isPerm_comp (isPerm_identity Ω) hp) hp
  intro x hx
  rw [get_comp (wf_identity Ω), get_identity_of_mem hx]
  rfl

theorem comp_inv_self {Ω : List Nat} {p : Perm} (hp : IsPerm Ω p) : comp p (inverse p) = identity Ω := by
  apply IsPerm.ext (isPerm_comp hp (isPerm_inverse hp)) (isPerm_identity Ω)
  intro x hx
  obtain ⟨y, _, h⟩ := hp.tot x hx
  rw [get_comp hp.wf, h, get_identity_of_mem hx]
  exact (get_inv hp x y).mpr h

theorem inv_comp_self {Ω : List Nat} {p : Perm} (hp : IsPerm Ω p) : comp (inverse p) p = identity Ω := by
  apply IsPerm.ext (isPerm_comp (isPerm_inverse hp) hp) (isPerm_identity Ω)
  intro y hy
  obtain ⟨x, hx⟩ := hp.surj y hy
  rw [get_comp (wf_inverse p), (get_inv hp x y).mpr hx, get_identity_of_mem hy]
  exact hx

theorem inv_inv {Ω : List Nat} {p : Perm} (hp : IsPerm Ω p) : inverse (inverse p) = p :=
  inverse_inverse hp.wf hp.Inj

theorem inv_identity (Ω : List Nat) : inverse (identity Ω) = identity Ω := by
  apply IsPerm.ext (isPerm_inverse (isPerm_identity Ω)) (isPerm_identity Ω)
  intro x hx
  rw [get_identity_of_mem hx]
  exact (get_inv (isPerm_identity Ω) x x).mpr (get_identity_of_mem hx)

/-- `(p ; q)⁻¹ = q⁻¹ ; p⁻¹` -/
theorem inv_comp {Ω : List Nat} {p q : Perm} (hp : IsPerm Ω p) (hq : IsPerm Ω q) :
    inverse (comp p q) = comp (inverse q) (inverse p) := by
  apply IsPerm.ext (isPerm_inverse (isPerm_comp hp hq)) (isPerm_comp (isPerm_inverse hq) (isPerm_inverse hp))
  intro z hz
  obtain ⟨y, hy⟩ := hq.surj z hz
  obtain ⟨x, hx⟩ := hp.surj y (hq.dom _ _ hy)
  have h1 : get (inverse (comp p q)) z = some x :=
    (get_inv (isPerm_comp hp hq) x z).mpr (by rw [get_comp hp.wf, hx]; exact hy)
  rw [h1, get_comp (wf_inverse q), (get_inv hq y z).mpr hy]
  exact ((get_inv hp x y).mpr hx).symm

/-- a permutation that fixes every point is the identity -/
theorem eq_identity_of_fix {Ω : List Nat} {p : Perm} (hp : IsPerm Ω p) (h : ∀ x ∈ Ω, get p x = some x) :
    p = identity Ω :=
  IsPerm.ext hp (isPerm_identity Ω) fun x hx => by rw [h x hx, get_identity_of_mem hx]


/-- `IsPerm` from conditions that are bounded (hence decidable on concrete data) -/
theorem IsPerm.of_bounded {Ω : List Nat} {p : Perm} (hw : WF p) (hk : ∀ q ∈ p, q.1 ∈ Ω)
    (ht : ∀ x ∈ Ω, ∃ y ∈ Ω, get p x = some y)
    (hi : ∀ q ∈ p, ∀ q' ∈ p, q.2 = q'.2 → q.1 = q'.1)
    (hs : ∀ y ∈ Ω, ∃ q ∈ p, q.2 = y) : IsPerm Ω p where
  wf := hw
  tot := ht
  dom := fun x y h => hk (x, y) ((get_eq_some_iff hw x y).mp h)
  inj := fun x x' y h h' => hi (x, y) ((get_eq_some_iff hw x y).mp h) (x', y) ((get_eq_some_iff hw x' y).mp h') rfl
  surj := fun y hy => by
    obtain ⟨q, hq, rfl⟩ := hs y hy
    exact ⟨q.1, (get_eq_some_iff hw q.1 q.2).mpr hq⟩

end SV.Grp
