import SlotVerif.Proofs.Snapshot
/-!
# Stale handles do not matter to `lookup`

`lookup` (and `shape`) canonicalise the children of the e-node first (`find_enode`); canonicalising is idempotent
(`find_idem`), so an e-node built from *any* handles of its children — old ids of classes merged away since, invocations
that still carry arguments their class has dropped — is looked up exactly like the e-node built from the canonical handles.
-/
namespace SV
namespace Snap
open SlotMap

theorem findNode_go_idem {s : Snap} (hok : ufOK s = true) : ∀ (f f' : Field), findNode.go s f = some f' →
    findNode.go s f' = some f'
  | .slot x, f', h => by simp only [findNode.go, Option.some.injEq] at h; subst h; rfl
  | .lit v, f', h => by simp only [findNode.go, Option.some.injEq] at h; subst h; rfl
  | .app a, f', h => by
    simp only [findNode.go, Option.map_eq_some_iff] at h
    obtain ⟨b, hb, rfl⟩ := h
    simp only [findNode.go, find_idem hok hb, Option.map_some]
  | .bind x f, f', h => by
    simp only [findNode.go, Option.map_eq_some_iff] at h
    obtain ⟨g, hg, rfl⟩ := h
    simp only [findNode.go, findNode_go_idem hok f g hg, Option.map_some]

theorem mapM_go_idem {s : Snap} (hok : ufOK s = true) : ∀ (fs gs : List Field), fs.mapM (findNode.go s) = some gs →
    gs.mapM (findNode.go s) = some gs
  | [], gs, h => by simp at h; subst h; rfl
  | f :: fs, gs, h => by
    simp only [List.mapM_cons, Option.bind_eq_bind, Option.bind_eq_some_iff, Option.pure_def, Option.some.injEq] at h
    obtain ⟨g, hg, gs', hgs', rfl⟩ := h
    simp [List.mapM_cons, findNode_go_idem hok f g hg, mapM_go_idem hok fs gs' hgs']

/-- `find_enode` is idempotent -/
theorem findNode_idem {s : Snap} (hok : ufOK s = true) {n n' : Node} (h : findNode s n = some n') :
    findNode s n' = some n' := by
  unfold findNode at h ⊢
  simp only [Option.map_eq_some_iff] at h
  obtain ⟨fs, hfs, rfl⟩ := h
  simp only [mapM_go_idem hok _ _ hfs, Option.map_some]

/-- the canonical variant of an e-node is the canonical variant of its canonicalised form -/
theorem preShape_findNode {s : Snap} (hok : ufOK s = true) {n n' : Node} (h : findNode s n = some n') :
    preShape s n' = preShape s n := by
  unfold preShape; rw [h, findNode_idem hok h]

/-- **`lookup` of an e-node built from stale handles = `lookup` of the e-node built from the canonical ones** -/
theorem lookup_findNode {s : Snap} (hok : ufOK s = true) {n n' : Node} (h : findNode s n = some n') :
    lookup s n' = lookup s n := by
  unfold lookup shape; rw [preShape_findNode hok h]

end Snap
end SV
