import SlotVerif.Model.Rules
import Mathlib.Data.ZMod.Defs
import Mathlib.Tactic.Ring
import Mathlib.Tactic.IntervalCases
/-! Every rule of the pool is valid in the model algebra (𝔽₇ = `Fin 7` with its commutative-ring structure). -/
namespace SV
namespace Rules
open Eval P
open Fin.CommRing

theorem set_set (env : Env) (x : String) (v w : F) : (env.set x v).set x w = env.set x w := by
  funext y; simp only [Env.set]; split <;> rfl

theorem set_comm (env : Env) {x y : String} (h : x ≠ y) (v w : F) :
    (env.set x v).set y w = (env.set y w).set x v := by
  funext z; simp only [Env.set]
  by_cases h1 : z = y <;> by_cases h2 : z = x
  · subst h1; subst h2; exact absurd rfl h
  · subst h1; simp [h2]
  · subst h2; simp [h1]
  · simp [h1, h2]

theorem set_self (env : Env) (x : String) : env.set x (env x) = env := by
  funext y; simp only [Env.set]; split
  · rename_i h; rw [h]
  · rfl

theorem sum7_const (c : F) : sum7 (fun _ => c) = 3 * c := by
  simp only [sum7]; ring

theorem ofNat0 : (Fin.ofNat 7 0 : F) = 0 := by decide
theorem ofNat1 : (Fin.ofNat 7 1 : F) = 1 := by decide
theorem ofNat2 : (Fin.ofNat 7 2 : F) = 2 := by decide
theorem ofNat3 : (Fin.ofNat 7 3 : F) = 3 := by decide

/-- helper: membership facts about the condition list as usable hypotheses -/
theorem free_of {ρ : String → Env → F} {l : List (String × String)} (h : ∀ c ∈ l, FreeIn ρ c.1 c.2)
    {x a : String} (hm : (x, a) ∈ l) : FreeIn ρ x a := h (x, a) hm

theorem valid_add_comm : (pool[0]'(by decide)).Valid := by
  intro ρ _ env; simp only [pool, List.getElem_cons_zero, evalP]; ring
theorem valid_add_assoc : (pool[1]'(by decide)).Valid := by
  intro ρ _ env; simp only [pool, List.getElem_cons_succ, List.getElem_cons_zero, evalP]; ring
theorem valid_mul_comm : (pool[2]'(by decide)).Valid := by
  intro ρ _ env; simp only [pool, List.getElem_cons_succ, List.getElem_cons_zero, evalP]; ring
theorem valid_mul_assoc : (pool[3]'(by decide)).Valid := by
  intro ρ _ env; simp only [pool, List.getElem_cons_succ, List.getElem_cons_zero, evalP]; ring
theorem valid_distrib : (pool[4]'(by decide)).Valid := by
  intro ρ _ env; simp only [pool, List.getElem_cons_succ, List.getElem_cons_zero, evalP]; ring
theorem valid_factor : (pool[5]'(by decide)).Valid := by
  intro ρ _ env; simp only [pool, List.getElem_cons_succ, List.getElem_cons_zero, evalP]; ring
theorem valid_add_zero : (pool[6]'(by decide)).Valid := by
  intro ρ _ env; simp only [pool, List.getElem_cons_succ, List.getElem_cons_zero, evalP, ofNat0]; ring
theorem valid_mul_one : (pool[7]'(by decide)).Valid := by
  intro ρ _ env; simp only [pool, List.getElem_cons_succ, List.getElem_cons_zero, evalP, ofNat1]; ring
theorem valid_mul_zero : (pool[8]'(by decide)).Valid := by
  intro ρ _ env; simp only [pool, List.getElem_cons_succ, List.getElem_cons_zero, evalP, ofNat0]; ring
theorem valid_sum_add : (pool[9]'(by decide)).Valid := by
  intro ρ _ env; simp only [pool, List.getElem_cons_succ, List.getElem_cons_zero, evalP, sum7]; ring

theorem valid_sum_add_rev : (pool[10]'(by decide)).Valid := by
  intro ρ h env
  simp only [pool, List.getElem_cons_succ, List.getElem_cons_zero] at h ⊢
  have hza : FreeIn ρ "z" "a" := h ("z", "a") (by simp)
  have hzb : FreeIn ρ "z" "b" := h ("z", "b") (by simp)
  simp only [evalP]
  have ha : ∀ v, ρ "a" (((env.set "z" v).set "x" ((env.set "z" v) "z"))) = ρ "a" (env.set "x" v) := by
    intro v
    have : (env.set "z" v) "z" = v := by simp [Env.set]
    rw [this, ← set_comm env (by decide : "x" ≠ "z"), hza]
  have hb : ∀ v, ρ "b" (((env.set "z" v).set "y" ((env.set "z" v) "z"))) = ρ "b" (env.set "y" v) := by
    intro v
    have : (env.set "z" v) "z" = v := by simp [Env.set]
    rw [this, ← set_comm env (by decide : "y" ≠ "z"), hzb]
  simp only [ha, hb, sum7]; ring

theorem valid_sum_factor : (pool[11]'(by decide)).Valid := by
  intro ρ h env
  simp only [pool, List.getElem_cons_succ, List.getElem_cons_zero] at h ⊢
  have hc : FreeIn ρ "x" "c" := h ("x", "c") (by simp)
  simp only [evalP, hc env, sum7]; ring

theorem valid_sum_const : (pool[12]'(by decide)).Valid := by
  intro ρ h env
  simp only [pool, List.getElem_cons_succ, List.getElem_cons_zero] at h ⊢
  have hc : FreeIn ρ "x" "c" := h ("x", "c") (by simp)
  simp only [evalP, hc env, ofNat3]
  exact sum7_const _

theorem valid_sum_swap : (pool[13]'(by decide)).Valid := by
  intro ρ _ env
  simp only [pool, List.getElem_cons_succ, List.getElem_cons_zero, evalP]
  have : ∀ v w, ρ "a" ((env.set "y" w).set "x" v) = ρ "a" ((env.set "x" v).set "y" w) := by
    intro v w; rw [set_comm env (by decide : "x" ≠ "y")]
  simp only [this, sum7]; ring

theorem valid_sum_unroll : (pool[14]'(by decide)).Valid := by
  intro ρ _ env
  simp only [pool, List.getElem_cons_succ, List.getElem_cons_zero, evalP, ofNat0, ofNat1, ofNat2, sum7]

theorem valid_let_subst : (pool[15]'(by decide)).Valid := by
  intro ρ _ env; simp only [pool, List.getElem_cons_succ, List.getElem_cons_zero, evalP]

theorem valid_let_unused : (pool[16]'(by decide)).Valid := by
  intro ρ h env
  simp only [pool, List.getElem_cons_succ, List.getElem_cons_zero] at h ⊢
  have hb : FreeIn ρ "x" "b" := h ("x", "b") (by simp)
  simp only [evalP, hb env]

theorem valid_let_var : (pool[17]'(by decide)).Valid := by
  intro ρ _ env; simp [pool, evalP, Env.set]

theorem valid_let_add : (pool[18]'(by decide)).Valid := by
  intro ρ _ env; simp only [pool, List.getElem_cons_succ, List.getElem_cons_zero, evalP]
theorem valid_let_mul : (pool[19]'(by decide)).Valid := by
  intro ρ _ env; simp only [pool, List.getElem_cons_succ, List.getElem_cons_zero, evalP]

theorem valid_let_sum : (pool[20]'(by decide)).Valid := by
  intro ρ h env
  simp only [pool, List.getElem_cons_succ, List.getElem_cons_zero] at h ⊢
  have he : FreeIn ρ "y" "e" := h ("y", "e") (by simp)
  simp only [evalP, he env]
  have : ∀ v, ρ "b" ((env.set "x" (ρ "e" env)).set "y" v) = ρ "b" ((env.set "y" v).set "x" (ρ "e" env)) := by
    intro v; rw [set_comm env (by decide : "x" ≠ "y")]
  simp only [this]

theorem valid_let_h : (pool[21]'(by decide)).Valid := by
  intro ρ _ env; simp only [pool, List.getElem_cons_succ, List.getElem_cons_zero, evalP]
theorem valid_k_def : (pool[22]'(by decide)).Valid := by
  intro ρ _ env; simp only [pool, List.getElem_cons_succ, List.getElem_cons_zero, evalP, ofNat2]
theorem valid_h_def : (pool[23]'(by decide)).Valid := by
  intro ρ _ env; simp only [pool, List.getElem_cons_succ, List.getElem_cons_zero, evalP, ofNat2, ofNat3]

theorem valid_sum2_factor : (pool[24]'(by decide)).Valid := by
  intro ρ h env
  simp only [pool, List.getElem_cons_succ, List.getElem_cons_zero] at h ⊢
  have hc : FreeIn ρ "o" "c" := h ("o", "c") (by simp)
  simp only [evalP]
  have h1 : ∀ v w, ρ "c" ((env.set "o" v).set "i" w) = ρ "c" (env.set "i" w) := by
    intro v w; rw [set_comm env (by decide : "o" ≠ "i"), hc]
  have h2 : ∀ v w, ρ "a" ((env.set "i" w).set "o" v) = ρ "a" ((env.set "o" v).set "i" w) := by
    intro v w; rw [set_comm env (by decide : "o" ≠ "i")]
  simp only [h1, h2, sum7]; ring

theorem valid_sum2_factor_b : (pool[25]'(by decide)).Valid := by
  intro ρ h env
  simp only [pool, List.getElem_cons_succ, List.getElem_cons_zero] at h ⊢
  have hc : FreeIn ρ "i" "c" := h ("i", "c") (by simp)
  simp only [evalP]
  have h1 : ∀ v w, ρ "c" ((env.set "i" v).set "o" w) = ρ "c" (env.set "o" w) := by
    intro v w; rw [set_comm env (by decide : "i" ≠ "o"), hc]
  have h2 : ∀ v w, ρ "a" ((env.set "o" w).set "i" v) = ρ "a" ((env.set "i" v).set "o" w) := by
    intro v w; rw [set_comm env (by decide : "i" ≠ "o")]
  simp only [h1, h2, sum7]; ring

/-- **every rule of the pool is valid** -/
theorem valid_sum_infactor : (pool[26]'(by decide)).Valid := by
  intro ρ h env
  simp only [pool, List.getElem_cons_succ, List.getElem_cons_zero] at h ⊢
  have hc : FreeIn ρ "x" "c" := h ("x", "c") (by simp)
  simp only [evalP, hc env, sum7]; ring

theorem valid_sum_infactor_f2 : (pool[27]'(by decide)).Valid := by
  intro ρ h env
  simp only [pool, List.getElem_cons_succ, List.getElem_cons_zero] at h ⊢
  have hc : FreeIn ρ "f2" "c" := h ("f2", "c") (by simp)
  simp only [evalP, hc env, sum7]; ring

theorem valid_sum_infactor_f3 : (pool[28]'(by decide)).Valid := by
  intro ρ h env
  simp only [pool, List.getElem_cons_succ, List.getElem_cons_zero] at h ⊢
  have hc : FreeIn ρ "f3" "c" := h ("f3", "c") (by simp)
  simp only [evalP, hc env, sum7]; ring

theorem valid_sum_infactor_f4 : (pool[29]'(by decide)).Valid := by
  intro ρ h env
  simp only [pool, List.getElem_cons_succ, List.getElem_cons_zero] at h ⊢
  have hc : FreeIn ρ "f4" "c" := h ("f4", "c") (by simp)
  simp only [evalP, hc env, sum7]; ring

theorem valid_var_factor : (pool[30]'(by decide)).Valid := by
  intro ρ _ env
  simp only [pool, List.getElem_cons_succ, List.getElem_cons_zero, evalP]
  have h1 : (Fin.ofNat 7 1 : F) = 1 := rfl
  rw [h1]; ring

theorem valid_sum_infactor_var : (pool[31]'(by decide)).Valid := by
  intro ρ h env
  simp only [pool, List.getElem_cons_succ, List.getElem_cons_zero] at h ⊢
  have hc : FreeIn ρ "i" "a" := h ("i", "a") (by simp)
  simp only [evalP, hc env, sum7]; ring

theorem valid_let_intro : (pool[32]'(by decide)).Valid := by
  intro ρ h env
  simp only [pool, List.getElem_cons_succ, List.getElem_cons_zero] at h ⊢
  have ha : FreeIn ρ "x" "a" := h ("x", "a") (by simp)
  have hb : FreeIn ρ "x" "b" := h ("x", "b") (by simp)
  simp only [evalP, ha env, hb env, Env.set, ofNat1]
  simp

theorem valid_let_let_subst : (pool[33]'(by decide)).Valid := by
  intro ρ _ env; simp only [pool, List.getElem_cons_succ, List.getElem_cons_zero, evalP]

theorem valid_sum2_const : (pool[34]'(by decide)).Valid := by
  intro ρ h env
  simp only [pool, List.getElem_cons_succ, List.getElem_cons_zero] at h ⊢
  have hx : FreeIn ρ "x" "c" := h ("x", "c") (by simp)
  have hy : FreeIn ρ "y" "c" := h ("y", "c") (by simp)
  have hc : ∀ v w, ρ "c" ((env.set "x" v).set "y" w) = ρ "c" env := fun v w => by rw [hy (env.set "x" v) w, hx env v]
  simp only [evalP, hc, ofNat3]
  rw [sum7_const, sum7_const]

theorem pool_valid : ∀ r ∈ pool, r.Valid := by
  intro r hr
  have hlen : pool.length = 35 := by decide
  obtain ⟨i, hi, rfl⟩ := List.getElem_of_mem hr
  rw [hlen] at hi
  interval_cases i
  · exact valid_add_comm
  · exact valid_add_assoc
  · exact valid_mul_comm
  · exact valid_mul_assoc
  · exact valid_distrib
  · exact valid_factor
  · exact valid_add_zero
  · exact valid_mul_one
  · exact valid_mul_zero
  · exact valid_sum_add
  · exact valid_sum_add_rev
  · exact valid_sum_factor
  · exact valid_sum_const
  · exact valid_sum_swap
  · exact valid_sum_unroll
  · exact valid_let_subst
  · exact valid_let_unused
  · exact valid_let_var
  · exact valid_let_add
  · exact valid_let_mul
  · exact valid_let_sum
  · exact valid_let_h
  · exact valid_k_def
  · exact valid_h_def
  · exact valid_sum2_factor
  · exact valid_sum2_factor_b
  · exact valid_sum_infactor
  · exact valid_sum_infactor_f2
  · exact valid_sum_infactor_f3
  · exact valid_sum_infactor_f4
  · exact valid_var_factor
  · exact valid_sum_infactor_var
  · exact valid_let_intro
  · exact valid_let_let_subst
  · exact valid_sum2_const

/-- the deliberately invalid rules are indeed invalid (witness: constant interpretations) -/
theorem bad_sum_const_invalid : ¬ (badPool[1]'(by decide)).Valid := by
  intro h
  have := h (fun _ _ => 1) (by intro c _ env v; rfl) (fun _ => 0)
  simp only [badPool, List.getElem_cons_succ, List.getElem_cons_zero, evalP] at this
  rw [sum7_const] at this
  exact absurd this (by decide)

end Rules
end SV
