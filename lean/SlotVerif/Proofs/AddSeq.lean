import SlotVerif.Proofs.Add
/-!
# Histories of `add` calls (`Snap.add`: hit or miss)

`Adds s l s''`: starting in `s`, the nodes of `l` are added one after the other (each with the invocation `add` returned),
ending in `s''`.  For every such history from a state satisfying `AddOK`:
* `adds_keep` — nothing old changes (handles, `eq`, `lookup` of nodes that were represented);
* `adds_lookup` — **every node added anywhere in the history is found at the end, in the class its `add` returned**
  (lookup agrees with add, at the level of histories).
-/
namespace SV
namespace Snap

inductive Adds : Snap → List (Node × AppId) → Snap → Prop
  | nil (s : Snap) : Adds s [] s
  | cons {s s' s'' : Snap} {n syn : Node} {f2o : SlotMap} {data : String} {a : AppId} {l : List (Node × AppId)}
      (h : add s n f2o syn data = some (s', a)) (rest : Adds s' l s'') : Adds s ((n, a) :: l) s''

theorem adds_keep {s s'' : Snap} {l : List (Node × AppId)} (hok : AddOK s) (h : Adds s l s'') :
    AddOK s'' ∧ (∀ b r, find s b = some r → find s'' b = some r) ∧
    (∀ b c r, eq s b c = some r → eq s'' b c = some r) ∧ (∀ m x, lookup s m = some x → lookup s'' m = some x) := by
  induction h with
  | nil s => exact ⟨hok, fun _ _ h => h, fun _ _ _ h => h, fun _ _ h => h⟩
  | cons h _ ih =>
    obtain ⟨hok', hf, he, hl⟩ := add_preserves hok h
    obtain ⟨hok'', hf', he', hl'⟩ := ih hok'
    exact ⟨hok'', fun b r hb => hf' b r (hf b r hb), fun b c r hb => he' b c r (he b c r hb),
      fun m x hm => hl' m x (hl m x hm)⟩

theorem adds_lookup {s s'' : Snap} {l : List (Node × AppId)} (hok : AddOK s) (h : Adds s l s'') :
    ∀ p ∈ l, ∃ m, lookup s'' p.1 = some { id := p.2.id, m := m } := by
  induction h with
  | nil s => intro p hp; simp at hp
  | cons h rest ih =>
    intro p hp
    obtain ⟨hok', _, _, _⟩ := add_preserves hok h
    rcases List.mem_cons.mp hp with h1 | h1
    · subst h1
      obtain ⟨m, hm⟩ := lookup_after_add_total hok h
      exact ⟨m, (adds_keep hok' rest).2.2.2 _ _ hm⟩
    · exact ih hok' p h1

end Snap
end SV
