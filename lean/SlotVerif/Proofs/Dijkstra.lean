import SlotVerif.Model.Extract
/-!
# The heap loop of `Extractor::new` computes an accepted cost table

`Extract.loop` / `Extract.dijkstra` (the model of the cost-ordered work list of `src/extract/mod.rs`) are proved
correct outright: for **every** snapshot with pairwise distinct class ids and each of the three cost functions, the
table the loop ends with is accepted by `checkTable` (`dijkstra_accepted`) — hence, by `Props/C06.lean`, it is the
minimum cost over all represented terms of every class, and exactly the classes with a finite term get an entry.
The argument is the usual one for Dijkstra's algorithm with a *superior* cost function (a node costs strictly more
than each child, `gt_child`): the invariant `Inv` below, preserved by every turn of the loop.
-/
namespace SV.Extract
open SV SV.Snap

theorem Table.mem_of_get {t : Table} {c k : Nat} (h : t.get c = some k) : (c, k) ∈ t := by
  simp only [Table.get, Option.map_eq_some_iff] at h
  obtain ⟨p, hp, rfl⟩ := h
  have h1 := List.find?_some hp
  have h2 := List.mem_of_find?_eq_some hp
  have : p.1 = c := by simpa using h1
  rw [← this]; exact h2

/-- a node costs strictly more than each of its children (all three cost functions) -/
theorem gt_child (cf : CF) (v : Nat) (ks : List Nat) (k : Nat) (hk : k ∈ ks) : k < nodeCost cf v ks := by
  have hpos : 0 < opWeight v := by unfold opWeight; split <;> omega
  have key1 : ∀ (l : List Nat) (x : Nat), k ∈ l → x + k ≤ l.foldl (· + ·) x := by
    intro l
    induction l with
    | nil => intro x h; simp at h
    | cons a t ih =>
      intro x h
      simp at h
      rcases h with h | h
      · subst h
        have : ∀ (l : List Nat) (y : Nat), y ≤ l.foldl (· + ·) y := by
          intro l; induction l with
          | nil => intro y; exact Nat.le_refl _
          | cons b u ihu => intro y; exact Nat.le_trans (by omega) (ihu (y + b))
        exact this t (x + k)
      · exact Nat.le_trans (by omega) (ih (x + a) h)
  have key2 : ∀ (l : List Nat) (x : Nat), k ∈ l → x + k ≤ l.foldl (fun a c => a + 2 * c) x := by
    intro l
    induction l with
    | nil => intro x h; simp at h
    | cons a t ih =>
      intro x h
      simp at h
      rcases h with h | h
      · subst h
        have : ∀ (l : List Nat) (y : Nat), y ≤ l.foldl (fun a c => a + 2 * c) y := by
          intro l; induction l with
          | nil => intro y; exact Nat.le_refl _
          | cons b u ihu => intro y; exact Nat.le_trans (by omega) (ihu (y + 2 * b))
        exact Nat.le_trans (by omega) (this t (x + 2 * k))
      · exact Nat.le_trans (by omega) (ih (x + 2 * a) h)
  cases cf with
  | ast => simp only [nodeCost]; have := key1 ks 0 hk; omega
  | depth => simp only [nodeCost]; have := key2 ks 0 hk; omega
  | op => simp only [nodeCost]; have := key1 ks 0 hk; omega

/-! ### the queue -/

theorem minEntry_le : ∀ (e : QEntry) (q : List QEntry), ∀ x ∈ e :: q, (minEntry e q).2 ≤ x.2
  | e, [], x, hx => by simp at hx; subst hx; simp [minEntry]
  | e, f :: q, x, hx => by
    unfold minEntry
    split
    · rename_i hlt
      have ih := minEntry_le f q
      rcases List.mem_cons.mp hx with rfl | hx'
      · have := ih f (by simp); omega
      · exact ih x hx'
    · rename_i hge
      have ih := minEntry_le e q
      rcases List.mem_cons.mp hx with rfl | hx'
      · exact ih _ (by simp)
      · rcases List.mem_cons.mp hx' with rfl | hx''
        · have := ih e (by simp); omega
        · exact ih x (List.mem_cons_of_mem _ hx'')

/-! ### how the children's costs react to one more table entry -/

theorem get_cons_of_ne {c k i : Nat} {t : Table} (h : c ≠ i) : Table.get ((c, k) :: t) i = Table.get t i := by
  rw [Table.get_cons]; simp [h]

theorem get_cons_self {c k : Nat} {t : Table} : Table.get ((c, k) :: t) c = some k := by
  rw [Table.get_cons]; simp

theorem get_cons_mono {c k i x : Nat} {t : Table} (hc : t.get c = none) (h : t.get i = some x) :
    Table.get ((c, k) :: t) i = some x := by
  by_cases hci : c = i
  · subst hci; rw [hc] at h; cases h
  · rw [get_cons_of_ne hci]; exact h

theorem mapM_get_mono {c k : Nat} {t : Table} (hc : t.get c = none) : ∀ (as : List AppId) (ks : List Nat),
    (as.mapM fun a => t.get a.id) = some ks → (as.mapM fun a => Table.get ((c, k) :: t) a.id) = some ks
  | [], ks, h => by simpa using h
  | a :: as, ks, h => by
    simp only [List.mapM_cons, Option.bind_eq_bind, Option.bind_eq_some_iff, Option.pure_def, Option.some.injEq] at h ⊢
    obtain ⟨k0, hk0, ks0, hks0, rfl⟩ := h
    exact ⟨k0, get_cons_mono hc hk0, ks0, mapM_get_mono hc as ks0 hks0, rfl⟩

theorem kidCosts_mono {c k : Nat} {t : Table} (hc : t.get c = none) {n : Node} {ks : List Nat}
    (h : kidCosts t n = some ks) : kidCosts ((c, k) :: t) n = some ks :=
  mapM_get_mono hc _ _ h

/-- a node that does not mention the new class keeps its children's costs -/
theorem mapM_get_cons_of_not_mem {c k : Nat} {t : Table} : ∀ (as : List AppId), as.any (·.id == c) = false →
    (as.mapM fun a => Table.get ((c, k) :: t) a.id) = (as.mapM fun a => t.get a.id)
  | [], _ => rfl
  | a :: as, h => by
    simp only [List.any_cons, Bool.or_eq_false_iff] at h
    have hne : c ≠ a.id := by intro he; have := h.1; simp [he] at this
    simp only [List.mapM_cons, get_cons_of_ne hne, mapM_get_cons_of_not_mem as h.2]

/-- a node that mentions the new class has the new cost among its children's costs -/
theorem mem_of_mapM_get_cons {c k : Nat} {t : Table} : ∀ (as : List AppId) (ks : List Nat), as.any (·.id == c) = true →
    (as.mapM fun a => Table.get ((c, k) :: t) a.id) = some ks → k ∈ ks
  | [], _, h, _ => by simp at h
  | a :: as, ks, h, hm => by
    simp only [List.mapM_cons, Option.bind_eq_bind, Option.bind_eq_some_iff, Option.pure_def, Option.some.injEq] at hm
    obtain ⟨k0, hk0, ks0, hks0, rfl⟩ := hm
    by_cases hac : a.id = c
    · rw [hac, get_cons_self] at hk0
      have : k = k0 := by simpa using hk0
      simp [this]
    · simp only [List.any_cons, Bool.or_eq_true] at h
      rcases h with h | h
      · simp at h; exact absurd h hac
      · exact List.mem_cons_of_mem _ (mem_of_mapM_get_cons as ks0 h hks0)

/-- all children have entries ⇒ each child has one -/
theorem get_isSome_of_mapM {t : Table} : ∀ (as : List AppId) (ks : List Nat), (as.mapM fun a => t.get a.id) = some ks →
    ∀ a ∈ as, (t.get a.id).isSome = true
  | [], _, _, a, ha => by simp at ha
  | b :: bs, ks, h, a, ha => by
    simp only [List.mapM_cons, Option.bind_eq_bind, Option.bind_eq_some_iff, Option.pure_def, Option.some.injEq] at h
    obtain ⟨k0, hk0, ks0, hks0, rfl⟩ := h
    rcases List.mem_cons.mp ha with rfl | hb
    · simp [hk0]
    · exact get_isSome_of_mapM bs ks0 hks0 a hb

/-! ### the invariant -/

/-- pairwise distinct class ids (every dump lists a class once) -/
def DistinctIds (s : Snap) : Prop := s.classes.Pairwise fun a b => a.id ≠ b.id

theorem cls_of_mem {s : Snap} (hd : DistinctIds s) {cl : SClass} (h : cl ∈ s.classes) : s.cls cl.id = some cl := by
  unfold Snap.cls DistinctIds at *
  generalize s.classes = l at *
  induction l with
  | nil => simp at h
  | cons a l ih =>
    rw [List.pairwise_cons] at hd
    rcases List.mem_cons.mp h with rfl | hl
    · simp
    · have hne : a.id ≠ cl.id := hd.1 cl hl
      simp only [List.find?_cons]
      have : (a.id == cl.id) = false := by simpa using hne
      rw [this]
      exact ih hd.2 hl

/-- an entry is the cost of some e-node of its (live) class over the children's entries -/
def Attained (cf : CF) (s : Snap) (t : Table) (c k : Nat) : Prop :=
  s.isAlive c = true ∧ ∃ cl e ks, cl ∈ s.classes ∧ cl.id = c ∧ e ∈ cl.nodes ∧ kidCosts t e.1 = some ks ∧
    nodeCost cf e.1.v ks = k

structure Inv (cf : CF) (s : Snap) (t : Table) (q : List QEntry) : Prop where
  /-- keys of the table are unique -/
  tget : ∀ c k, (c, k) ∈ t → t.get c = some k
  /-- table entries are attained -/
  tatt : ∀ c k, (c, k) ∈ t → Attained cf s t c k
  /-- queue entries are attained -/
  qatt : ∀ c k, (c, k) ∈ q → Attained cf s t c k
  /-- every e-node whose children all have entries is accounted for: its class has an entry that is not larger, or
  it waits in the queue -/
  closed : ∀ cl ∈ s.classes, s.isAlive cl.id = true → ∀ e ∈ cl.nodes, ∀ ks, kidCosts t e.1 = some ks →
    (∃ k, t.get cl.id = some k ∧ k ≤ nodeCost cf e.1.v ks) ∨
    (t.get cl.id = none ∧ (cl.id, nodeCost cf e.1.v ks) ∈ q)
  /-- recorded costs never exceed waiting ones (the pops are monotone) -/
  mono : ∀ c k, (c, k) ∈ t → ∀ c' k', (c', k') ∈ q → k ≤ k'

theorem attained_mono {cf : CF} {s : Snap} {t : Table} {c k c0 k0 : Nat} (hc : t.get c = none)
    (h : Attained cf s t c0 k0) : Attained cf s ((c, k) :: t) c0 k0 := by
  obtain ⟨ha, cl, e, ks, h1, h2, h3, h4, h5⟩ := h
  exact ⟨ha, cl, e, ks, h1, h2, h3, kidCosts_mono hc h4, h5⟩

theorem mem_cands {cf : CF} {s : Snap} {t : Table} {p : Node → Bool} {x : QEntry} :
    x ∈ cands cf s t p ↔ ∃ cl ∈ s.classes, s.isAlive cl.id = true ∧ t.get cl.id = none ∧
      ∃ e ∈ cl.nodes, p e.1 = true ∧ ∃ ks, kidCosts t e.1 = some ks ∧ x = (cl.id, nodeCost cf e.1.v ks) := by
  unfold cands
  simp only [List.mem_flatMap]
  constructor
  · rintro ⟨cl, hcl, hx⟩
    split at hx
    · simp at hx
    · rename_i hcond
      simp only [Bool.or_eq_true, Bool.not_eq_true', not_or, Bool.not_eq_false, Bool.not_eq_true,
        Option.isSome_eq_false_iff, Option.isNone_iff_eq_none] at hcond
      simp only [List.mem_filterMap] at hx
      obtain ⟨e, he, hx⟩ := hx
      split at hx
      · rename_i hp
        simp only [Option.map_eq_some_iff] at hx
        obtain ⟨ks, hks, rfl⟩ := hx
        exact ⟨cl, hcl, hcond.1, hcond.2, e, he, hp, ks, hks, rfl⟩
      · simp at hx
  · rintro ⟨cl, hcl, ha, hn, e, he, hp, ks, hks, rfl⟩
    refine ⟨cl, hcl, ?_⟩
    simp only [ha, hn, Bool.not_true, Option.isSome_none, Bool.or_self, Bool.false_eq_true, ↓reduceIte,
      List.mem_filterMap]
    exact ⟨e, he, by simp [hp, hks]⟩

/-- the invariant holds at the start: empty table, all leaves queued -/
theorem inv_init (cf : CF) (s : Snap) : Inv cf s [] (cands cf s [] (fun n => (Node.appOcc n).isEmpty)) where
  tget := by intro c k h; simp at h
  tatt := by intro c k h; simp at h
  qatt := by
    intro c k h
    obtain ⟨cl, hcl, ha, _, e, he, _, ks, hks, hx⟩ := mem_cands.mp h
    simp only [Prod.mk.injEq] at hx
    obtain ⟨rfl, rfl⟩ := hx
    exact ⟨ha, cl, e, ks, hcl, rfl, he, hks, rfl⟩
  closed := by
    intro cl hcl ha e he ks hks
    right
    refine ⟨by simp [Table.get], mem_cands.mpr ⟨cl, hcl, ha, by simp [Table.get], e, he, ?_, ks, hks, rfl⟩⟩
    -- all children have entries in the empty table ⇒ there are no children
    unfold kidCosts at hks
    cases hocc : Node.appOcc e.1 with
    | nil => simp
    | cons a as => rw [hocc] at hks; simp [List.mapM_cons, Table.get] at hks
  mono := by intro c k h; simp at h

/-- dropping the cheapest entry when its class has an entry already -/
theorem inv_skip {cf : CF} {s : Snap} {t : Table} {q : List QEntry} {m : QEntry} (h : Inv cf s t q)
    (hs : (t.get m.1).isSome = true) : Inv cf s t (q.erase m) where
  tget := h.tget
  tatt := h.tatt
  qatt := fun c k hm => h.qatt c k (List.mem_of_mem_erase hm)
  closed := by
    intro cl hcl ha e he ks hks
    rcases h.closed cl hcl ha e he ks hks with h1 | ⟨h2, h3⟩
    · exact .inl h1
    · right
      refine ⟨h2, ?_⟩
      have hne : (cl.id, nodeCost cf e.1.v ks) ≠ m := by
        intro heq; rw [← heq] at hs; simp [h2] at hs
      exact (List.mem_erase_of_ne hne).mpr h3
  mono := fun c k hm c' k' hq => h.mono c k hm c' k' (List.mem_of_mem_erase hq)

/-- recording the cheapest entry and pushing the parents it completes -/
theorem inv_record {cf : CF} {s : Snap} {t : Table} {q : List QEntry} {m : QEntry} (h : Inv cf s t q)
    (hmq : m ∈ q) (hmin : ∀ x ∈ q, m.2 ≤ x.2) (hn : t.get m.1 = none) :
    Inv cf s ((m.1, m.2) :: t)
      (q.erase m ++ cands cf s ((m.1, m.2) :: t) (fun n => (Node.appOcc n).any (·.id == m.1))) where
  tget := by
    intro c k hm
    rcases List.mem_cons.mp hm with heq | hmem
    · simp only [Prod.mk.injEq] at heq; obtain ⟨rfl, rfl⟩ := heq; exact get_cons_self
    · exact get_cons_mono hn (h.tget c k hmem)
  tatt := by
    intro c k hm
    rcases List.mem_cons.mp hm with heq | hmem
    · simp only [Prod.mk.injEq] at heq; obtain ⟨rfl, rfl⟩ := heq
      exact attained_mono hn (h.qatt m.1 m.2 hmq)
    · exact attained_mono hn (h.tatt c k hmem)
  qatt := by
    intro c k hm
    rcases List.mem_append.mp hm with hm | hm
    · exact attained_mono hn (h.qatt c k (List.mem_of_mem_erase hm))
    · obtain ⟨cl, hcl, ha, _, e, he, _, ks, hks, hx⟩ := mem_cands.mp hm
      simp only [Prod.mk.injEq] at hx
      obtain ⟨rfl, rfl⟩ := hx
      exact ⟨ha, cl, e, ks, hcl, rfl, he, hks, rfl⟩
  closed := by
    intro cl hcl ha e he ks hks
    cases hany : (Node.appOcc e.1).any (·.id == m.1) with
    | false =>
      -- the node does not mention the new class: its children's costs are the old ones
      have hold : kidCosts t e.1 = some ks := by
        unfold kidCosts at hks ⊢; rw [mapM_get_cons_of_not_mem _ hany] at hks; exact hks
      rcases h.closed cl hcl ha e he ks hold with ⟨k, hk1, hk2⟩ | ⟨h2, h3⟩
      · exact .inl ⟨k, get_cons_mono hn hk1, hk2⟩
      · by_cases hid : m.1 = cl.id
        · -- its class is the one recorded now: the recorded cost was the cheapest in the queue
          left
          refine ⟨m.2, by rw [← hid]; exact get_cons_self, ?_⟩
          exact hmin _ h3
        · right
          refine ⟨by rw [get_cons_of_ne hid]; exact h2, List.mem_append_left _ ?_⟩
          have hne : (cl.id, nodeCost cf e.1.v ks) ≠ m := by
            intro heq; apply hid; rw [← heq]
          exact (List.mem_erase_of_ne hne).mpr h3
    | true =>
      -- the node mentions the new class: it costs more than the recorded entry, which bounds every recorded entry
      have hk : m.2 ∈ ks := by unfold kidCosts at hks; exact mem_of_mapM_get_cons _ ks hany hks
      have hgt : m.2 < nodeCost cf e.1.v ks := gt_child cf e.1.v ks m.2 hk
      cases hg : Table.get ((m.1, m.2) :: t) cl.id with
      | some k0 =>
        left
        refine ⟨k0, rfl, ?_⟩
        by_cases hid : m.1 = cl.id
        · rw [← hid, get_cons_self] at hg
          have : m.2 = k0 := by simpa using hg
          omega
        · rw [get_cons_of_ne hid] at hg
          have := h.mono cl.id k0 (Table.mem_of_get hg) m.1 m.2 hmq
          omega
      | none =>
        right
        exact ⟨rfl, List.mem_append_right _ (mem_cands.mpr ⟨cl, hcl, ha, hg, e, he, hany, ks, hks, rfl⟩)⟩
  mono := by
    intro c k hm c' k' hq
    have hle : k ≤ m.2 := by
      rcases List.mem_cons.mp hm with heq | hmem
      · simp only [Prod.mk.injEq] at heq; omega
      · exact h.mono c k hmem m.1 m.2 hmq
    rcases List.mem_append.mp hq with hq | hq
    · have := hmin (c', k') (List.mem_of_mem_erase hq); simp at this; omega
    · obtain ⟨cl, _, _, _, e, _, hany, ks, hks, hx⟩ := mem_cands.mp hq
      simp only [Prod.mk.injEq] at hx
      obtain ⟨rfl, rfl⟩ := hx
      have hk : m.2 ∈ ks := by unfold kidCosts at hks; exact mem_of_mapM_get_cons _ ks hany hks
      have := gt_child cf e.1.v ks m.2 hk
      omega

/-- what the invariant says when the queue is empty: the checker accepts -/
theorem accepted_of_inv {cf : CF} {s : Snap} {t : Table} (hd : DistinctIds s) (h : Inv cf s t []) :
    checkTable cf s t = true := by
  unfold checkTable
  simp only [Bool.and_eq_true, List.all_eq_true]
  constructor
  · intro cl hcl
    cases ha : s.isAlive cl.id with
    | false => simp
    | true =>
      simp only [Bool.not_true, Bool.false_or, List.all_eq_true]
      intro e he
      cases hk : kidCosts t e.1 with
      | none => rfl
      | some ks =>
        rcases h.closed cl hcl ha e he ks hk with ⟨k, hk1, hk2⟩ | ⟨_, h3⟩
        · simp [hk1, hk2]
        · simp at h3
  · intro p hp
    obtain ⟨ha, cl, e, ks, hcl, hid, he, hks, hcost⟩ := h.tatt p.1 p.2 hp
    have hcls : s.cls p.1 = some cl := by rw [← hid]; exact cls_of_mem hd hcl
    refine ⟨ha, ?_⟩
    simp only [hcls, List.any_eq_true]
    exact ⟨e, he, by simp [hks, hcost]⟩

/-- a selection rule of the heap: it returns an entry of the queue that is not more expensive than any other -/
structure IsMinPick (pick : QEntry → List QEntry → QEntry) : Prop where
  mem : ∀ e q, pick e q ∈ e :: q
  le : ∀ e q, ∀ x ∈ e :: q, (pick e q).2 ≤ x.2

theorem minEntry_isMinPick : IsMinPick minEntry := ⟨minEntry_mem, minEntry_le⟩

/-- **the loop ends with an accepted table**, from every state that satisfies the invariant — for EVERY selection rule that
returns a cheapest entry (whichever among equals) -/
theorem loopP_accepted {pick : QEntry → List QEntry → QEntry} (hp : IsMinPick pick) (cf : CF) (s : Snap)
    (hd : DistinctIds s) (t : Table) (q : List QEntry) (h : Inv cf s t q) :
    checkTable cf s (loopP pick cf s t q) = true := by
  fun_induction loopP pick cf s t q with
  | case1 t => exact accepted_of_inv hd h
  | case2 t e q' m rest hs ih =>
    exact ih (inv_skip h hs)
  | case3 t e q' m rest hs hc ih =>
    exfalso
    have hm : m ∈ e :: q' := guardPick_mem _ _ _
    obtain ⟨_, cl, _, _, hcl, hid, _⟩ := h.qatt m.1 m.2 hm
    have := cls_of_mem hd hcl
    rw [hid, hc] at this
    cases this
  | case4 t e q' m rest hs cl hc t' ih =>
    apply ih
    have hn : t.get m.1 = none := by cases hg : t.get m.1 <;> simp_all
    have hmem : pick e q' ∈ e :: q' := hp.mem e q'
    have hmm : m = pick e q' := by simp only [m, guardPick, hmem, if_true]
    have hmin : ∀ x ∈ e :: q', m.2 ≤ x.2 := by rw [hmm]; exact hp.le e q'
    exact inv_record h (guardPick_mem _ _ _) hmin hn

/-- **`Extractor::new` is correct for every tie-breaking rule of its heap** -/
theorem dijkstraP_accepted {pick : QEntry → List QEntry → QEntry} (hp : IsMinPick pick) (cf : CF) (s : Snap)
    (hd : DistinctIds s) : checkTable cf s (dijkstraP pick cf s) = true :=
  loopP_accepted hp cf s hd _ _ (inv_init cf s)

theorem loop_accepted (cf : CF) (s : Snap) (hd : DistinctIds s) (t : Table) (q : List QEntry) (h : Inv cf s t q) :
    checkTable cf s (loop cf s t q) = true := loopP_accepted minEntry_isMinPick cf s hd t q h

/-- **`Extractor::new` is correct**: on every state with distinct class ids the table computed by the cost-ordered
work list is accepted by `checkTable`, for each of the three cost functions -/
theorem dijkstra_accepted (cf : CF) (s : Snap) (hd : DistinctIds s) : checkTable cf s (dijkstra cf s) = true :=
  dijkstraP_accepted minEntry_isMinPick cf s hd

end SV.Extract
