import SlotVerif.Proofs.ShapeApply
/-
Where the values of the renaming of a `weak_shape` run come from: every value present after a field is processed was present before
or is a public occurrence of the output field — so at the end (start: empty renaming) every value is a public occurrence of the shape,
i.e. every key of the returned bijection is a free slot of the shape.
-/
namespace SV.ShapeKeys
open SV SV.SlotMap SV.Field SV.ShapeDecode SV.ShapeIdem SV.ShapeApply

/-- the values of `st'` come from `st` or from the list `P` -/
def From (st st' : WS) (P : List Nat) : Prop :=
  ∀ t v, SlotMap.get st'.1 t = some v → (∃ t0, SlotMap.get st.1 t0 = some v) ∨ v ∈ P

theorem from_onSeeSlot {st : WS} (h : WF st.1) (s : Nat) : From st (onSeeSlot s st).2 [(onSeeSlot s st).1] := by
  intro t v ht
  unfold onSeeSlot at ht ⊢
  cases hg : SlotMap.get st.1 s with
  | some s2 =>
    rw [hg] at ht
    exact Or.inl ⟨t, ht⟩
  | none =>
    rw [hg] at ht
    simp only [addSlot] at ht ⊢
    rw [get_insert h] at ht
    split at ht
    · right; simp only [Option.some.injEq] at ht; simp [ht]
    · exact Or.inl ⟨t, ht⟩

theorem from_wsValues : ∀ (l : List (Nat × Nat)) {st : WS}, WF st.1 →
    From st (wsValues l st).2 (SlotMap.valuesVec (wsValues l st).1)
  | [], st, _ => by
    intro t v ht
    exact Or.inl ⟨t, by simpa [wsValues] using ht⟩
  | (k, x) :: r, st, h => by
    intro t v ht
    simp only [wsValues] at ht ⊢
    have h1 := frame_onSeeSlot h x
    rcases from_wsValues r h1.wf t v ht with ⟨t0, h0⟩ | hin
    · rcases from_onSeeSlot h x t0 v h0 with hl | hr
      · exact Or.inl hl
      · right
        simp only [List.mem_singleton] at hr
        simp [SlotMap.valuesVec, hr]
    · right
      simp only [SlotMap.valuesVec, List.map_cons, List.mem_cons]
      exact Or.inr hin

theorem from_weakShape : ∀ (f : Field) {st : WS} {names : List Nat}, ShapeDecode.Inv st names →
    From st (Field.weakShape f st).2 (Field.publicOcc (Field.weakShape f st).1)
  | .slot s, st, names, h => by
    simp only [Field.weakShape, Field.publicOcc]
    exact from_onSeeSlot h.wf s
  | .app a, st, names, h => by
    simp only [Field.weakShape, Field.publicOcc]
    exact from_wsValues a.m h.wf
  | .lit _, st, names, h => by
    intro t v ht
    exact Or.inl ⟨t, by simpa [Field.weakShape] using ht⟩
  | .bind s f, st, names, h => by
    intro t v ht
    obtain ⟨i1, _, _⟩ := inv_addSlot h s
    obtain ⟨i2, _, _, _⟩ := inv_weakShape f i1
    have hfr := frame_weakShape f i1.wf
    have hinj := inj_of_inv i2
    have hs2 : SlotMap.get (Field.weakShape f (addSlot s st).2).2.1 s = some (4 * st.2) := by
      apply hfr.keep
      simp only [addSlot]
      rw [get_insert h.wf]; simp
    -- a key other than `s` does not carry the binder's number
    have hne : ∀ t', t' ≠ s → SlotMap.get (Field.weakShape f (addSlot s st).2).2.1 t' = some v → v ≠ 4 * st.2 := by
      intro t' hts hg hv
      rw [hv] at hg
      have p1 := (get_eq_some_iff i2.wf _ _).mp hg
      have p2 := (get_eq_some_iff i2.wf _ _).mp hs2
      have := inj_unique hinj p1 p2 rfl
      simp at this
      exact hts this
    have inner : ∀ t', t' ≠ s → SlotMap.get (Field.weakShape f (addSlot s st).2).2.1 t' = some v →
        (∃ t0, SlotMap.get st.1 t0 = some v) ∨ v ∈ Field.publicOcc (Field.weakShape (.bind s f) st).1 := by
      intro t' hts hg
      have hv := hne t' hts hg
      rcases from_weakShape f i1 t' v hg with ⟨t0, h0⟩ | hin
      · simp only [addSlot] at h0
        rw [get_insert h.wf] at h0
        split at h0
        · simp only [Option.some.injEq] at h0; exact absurd h0.symm hv
        · exact Or.inl ⟨t0, h0⟩
      · right
        simp only [Field.weakShape, Field.publicOcc, addSlot, List.mem_filter]
        exact ⟨hin, by simpa using hv⟩
    simp only [Field.weakShape] at ht
    cases hsh : SlotMap.get st.1 s with
    | some old =>
      rw [hsh] at ht
      simp only at ht
      rw [get_insert i2.wf] at ht
      split at ht
      · simp only [Option.some.injEq] at ht
        exact Or.inl ⟨s, by rw [hsh, ht]⟩
      · rename_i hts; exact inner t hts ht
    | none =>
      rw [hsh] at ht
      simp only at ht
      rw [get_remove i2.wf] at ht
      split at ht
      · cases ht
      · rename_i hts; exact inner t hts ht

theorem from_fields : ∀ (fs : List Field) {st : WS} {names : List Nat}, ShapeDecode.Inv st names →
    From st (Node.weakShapeFields fs st).2 ((Node.weakShapeFields fs st).1.flatMap Field.publicOcc)
  | [], st, names, _ => by
    intro t v ht
    exact Or.inl ⟨t, by simpa [Node.weakShapeFields] using ht⟩
  | f :: r, st, names, h => by
    intro t v ht
    simp only [Node.weakShapeFields] at ht ⊢
    obtain ⟨i1, _, _, _⟩ := inv_weakShape f h
    rcases from_fields r i1 t v ht with ⟨t0, h0⟩ | hin
    · rcases from_weakShape f h t0 v h0 with hl | hr
      · exact Or.inl hl
      · right; simp only [List.flatMap_cons, List.mem_append]; exact Or.inl hr
    · right; simp only [List.flatMap_cons, List.mem_append]; exact Or.inr hin

/-- **every key of the bijection `weak_shape` returns is a public occurrence of the shape** -/
theorem keys_public (n : Node) : ∀ x ∈ SlotMap.keys (Node.weakShape n).2, x ∈ Node.publicOcc (Node.weakShape n).1 := by
  intro x hx
  have hinv := final_inv n
  have hi := inj_of_inv hinv
  obtain ⟨p, hp, rfl⟩ := List.mem_map.mp hx
  have hw : WF (Node.weakShape n).2 := wf_inverse _
  have hg := (get_eq_some_iff hw p.1 p.2).mpr hp
  have hg' : SlotMap.get (Node.weakShapeFields n.fields ([], 0)).2.1 p.2 = some p.1 :=
    (get_inverse hinv.wf hi _ _).mp hg
  rcases from_fields n.fields inv_init p.2 p.1 hg' with ⟨t0, h0⟩ | hin
  · simp [SlotMap.get] at h0
  · simpa [Node.publicOcc, Node.weakShape] using hin

end SV.ShapeKeys
