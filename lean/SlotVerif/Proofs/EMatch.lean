import SlotVerif.Model.EMatch
import SlotVerif.Proofs.SlotMap
/-!
Invariants of the modelled single-pattern matcher (`Model/EMatch.lean`, tied to
`/repo/src/rewrite/ematch.rs` by the `ematch` correspondence): every state the matcher returns
extends the state it was started with, its map e-graph slot ↦ pattern slot is well formed and
injective (the "partial slot map must stay a bijection while descending" of C05), and every pattern
variable of the matched pattern is bound.
-/
namespace SV.EMatch
open SV SV.SlotMap SV.MPat

def bound (st : MState) : List String := st.subst.map (·.1)

structure Good (st : MState) : Prop where
  wf : WF st.smap
  inj : Inj st.smap

/-- `st'` is a descendant of `st` -/
structure Ext (st st' : MState) : Prop where
  pre : ∃ ext, st'.subst = st.subst ++ ext
  good : Good st'
  keep : ∀ k v, get st.smap k = some v → get st'.smap k = some v

theorem Ext.refl {st : MState} (h : Good st) : Ext st st := ⟨⟨[], by simp⟩, h, fun _ _ h => h⟩

theorem Ext.trans {a b c : MState} (h1 : Ext a b) (h2 : Ext b c) : Ext a c where
  pre := by
    obtain ⟨e1, h1'⟩ := h1.pre
    obtain ⟨e2, h2'⟩ := h2.pre
    exact ⟨e1 ++ e2, by rw [h2', h1', List.append_assoc]⟩
  good := h2.good
  keep := fun k v h => h2.keep k v (h1.keep k v h)

theorem Ext.bound_mono {a b : MState} (h : Ext a b) : ∀ v ∈ bound a, v ∈ bound b := by
  intro v hv
  obtain ⟨e, he⟩ := h.pre
  unfold bound at *
  rw [he, List.map_append]
  exact List.mem_append_left _ hv

mutual
/-- the pattern is well formed: as many sub-patterns as the node has children -/
def wfPat : MPat → Prop
  | .pvar _ => True
  | .node n cs => cs.length = (Node.appOcc n).length ∧ wfPatL cs
def wfPatL : List MPat → Prop
  | [] => True
  | p :: ps => wfPat p ∧ wfPatL ps
end

/-- what a correct recursive call does -/
def RecSpec (rec : Rec) : Prop :=
  ∀ (p : MPat) (st : MState) (i : AppId) (k : Nat), wfPat p → Good st →
    ∀ st' ∈ (rec p st i k).1, Ext st st' ∧ ∀ v ∈ pvars p, v ∈ bound st'

theorem tryInsertBij_spec {k v : Nat} {m m' : SlotMap} (hw : WF m) (h : tryInsertBij k v m = some m') :
    WF m' ∧ Inj m' ∧ ∀ a b, get m a = some b → get m' a = some b := by
  unfold tryInsertBij at h
  have key : ∀ (hok : get m k = none ∨ get m k = some v) (hb : isBijection (insert m k v) = true),
      WF (insert m k v) ∧ Inj (insert m k v) ∧ ∀ a b, get m a = some b → get (insert m k v) a = some b := by
    intro hok hb
    refine ⟨wf_insert hw _ _, (isBijection_iff _).mp hb, ?_⟩
    intro a b hab
    rw [get_insert hw]
    by_cases hak : a = k
    · subst hak
      rcases hok with h0 | h0
      · rw [h0] at hab; simp at hab
      · rw [h0] at hab; simp only [if_true]; exact hab
    · simp [hak, hab]
  cases hg : get m k with
  | none =>
    rw [hg] at h
    simp only at h
    split at h
    · rename_i hb
      simp only [Option.some.injEq] at h; subst h
      exact key (Or.inl hg) hb
    · simp at h
  | some old =>
    rw [hg] at h
    simp only at h
    split at h
    · simp at h
    · rename_i hne
      have hov : old = v := by simpa using hne
      split at h
      · rename_i hb
        simp only [Option.some.injEq] at h; subst h
        exact key (Or.inr (by rw [hg, hov])) hb
      · simp at h

theorem insertAll_spec : ∀ (l : List (Nat × Nat)) {m m' : SlotMap}, WF m → insertAll l m = some m' →
    WF m' ∧ (l ≠ [] → Inj m') ∧ ∀ a b, get m a = some b → get m' a = some b
  | [], m, m', hw, h => by
    simp only [insertAll, Option.some.injEq] at h; subst h
    exact ⟨hw, fun hne => absurd rfl hne, fun _ _ h => h⟩
  | (k, v) :: t, m, m', hw, h => by
    simp only [insertAll] at h
    cases h1 : tryInsertBij k v m with
    | none => rw [h1] at h; simp at h
    | some m1 =>
      rw [h1] at h
      simp only [Option.bind_some] at h
      obtain ⟨w1, i1, k1⟩ := tryInsertBij_spec hw h1
      obtain ⟨w2, i2, k2⟩ := insertAll_spec t w1 h
      refine ⟨w2, fun _ => ?_, fun a b hab => k2 a b (k1 a b hab)⟩
      cases t with
      | nil => simp only [insertAll, Option.some.injEq] at h; subst h; exact i1
      | cons _ _ => exact i2 (by simp)

theorem states_spec {rec : Rec} (hr : RecSpec rec) (p : MPat) (hp : wfPat p) (a : AppId) : ∀ (sts : List MState) (k : Nat),
    (∀ st ∈ sts, Good st) → ∀ st' ∈ (ematchStates rec p a sts k).1,
      (∃ st ∈ sts, Ext st st') ∧ ∀ v ∈ pvars p, v ∈ bound st'
  | [], k, _, st', h => by simp [ematchStates] at h
  | st :: rest, k, hg, st', h => by
    simp only [ematchStates, List.mem_append] at h
    rcases h with h | h
    · obtain ⟨e, b⟩ := hr p st a k hp (hg st (by simp)) st' h
      exact ⟨⟨st, by simp, e⟩, b⟩
    · obtain ⟨⟨st0, hs0, e⟩, b⟩ := states_spec hr p hp a rest _ (fun s hs => hg s (by simp [hs])) st' h
      exact ⟨⟨st0, by simp [hs0], e⟩, b⟩

theorem kids_spec {rec : Rec} (hr : RecSpec rec) : ∀ (ps : List MPat) (as : List AppId) (sts : List MState) (k : Nat),
    wfPatL ps → ps.length ≤ as.length → (∀ st ∈ sts, Good st) → ∀ st' ∈ (ematchKids rec ps as sts k).1,
      (∃ st ∈ sts, Ext st st') ∧ ∀ v ∈ pvarsL ps, v ∈ bound st'
  | [], as, sts, k, _, _, hg, st', h => by
    have : ematchKids rec [] as sts k = (sts, k) := by cases as <;> rfl
    rw [this] at h
    exact ⟨⟨st', h, Ext.refl (hg st' h)⟩, by intro v hv; simp [pvarsL] at hv⟩
  | p :: ps, [], sts, k, _, hl, _, _, _ => by simp at hl
  | p :: ps, a :: as, sts, k, hwf, hl, hg, st', h => by
    simp only [ematchKids] at h
    obtain ⟨hwp, hwps⟩ := hwf
    have h1 := states_spec hr p hwp a sts k hg
    have hg1 : ∀ st ∈ (ematchStates rec p a sts k).1, Good st := by
      intro st hst
      obtain ⟨⟨_, _, e⟩, _⟩ := h1 st hst
      exact e.good
    obtain ⟨⟨st1, hs1, e1⟩, b1⟩ := kids_spec hr ps as _ _ hwps (by simpa using hl) hg1 st' h
    obtain ⟨⟨st0, hs0, e0⟩, b0⟩ := h1 st1 hs1
    refine ⟨⟨st0, hs0, e0.trans e1⟩, ?_⟩
    intro v hv
    simp only [pvarsL, List.mem_append] at hv
    rcases hv with hv | hv
    · exact e1.bound_mono v (b0 v hv)
    · exact b1 v hv

theorem appOcc_weakShape_field : ∀ (f : Field) (st : Field.WS),
    (Field.appOcc (Field.weakShape f st).1).length = (Field.appOcc f).length
  | .slot _, _ => rfl
  | .lit _, _ => rfl
  | .app _, _ => rfl
  | .bind x f, st => by
    simp only [Field.weakShape, Field.appOcc]
    exact appOcc_weakShape_field f _

theorem appOcc_weakShapeFields : ∀ (fs : List Field) (st : Field.WS),
    ((Node.weakShapeFields fs st).1.flatMap Field.appOcc).length = (fs.flatMap Field.appOcc).length
  | [], _ => rfl
  | f :: t, st => by
    simp only [Node.weakShapeFields, List.flatMap_cons, List.length_append]
    rw [appOcc_weakShape_field f st, appOcc_weakShapeFields t _]

theorem appOcc_weakShape (n : Node) : (Node.appOcc (Node.weakShape n).1).length = (Node.appOcc n).length := by
  unfold Node.weakShape Node.appOcc
  exact appOcc_weakShapeFields n.fields _

theorem appOcc_mapApps_field (g : AppId → AppId) : ∀ (f : Field), (Field.appOcc (Field.mapApps g f)).length = (Field.appOcc f).length
  | .slot _ => rfl
  | .lit _ => rfl
  | .app _ => rfl
  | .bind x f => by simp only [Field.mapApps, Field.appOcc]; exact appOcc_mapApps_field g f

theorem appOcc_nullify (n : Node) : (Node.appOcc (nullify n)).length = (Node.appOcc n).length := by
  unfold nullify Node.mapApps Node.appOcc
  simp only
  induction n.fields with
  | nil => rfl
  | cons f t ih => simp only [List.map_cons, List.flatMap_cons, List.length_append, appOcc_mapApps_field, ih]

theorem variants_spec {rec : Rec} (hr : RecSpec rec) (n : Node) (cs : List MPat) (st : MState) (hg : Good st)
    (hwf : cs.length ≤ (Node.appOcc n).length) (hkw : wfPatL cs) :
    ∀ (vs : List Node) (k : Nat),
      ∀ st' ∈ (ematchVariants rec n cs st vs k).1, Ext st st' ∧ ∀ v ∈ pvarsL cs, v ∈ bound st'
  | [], k, st', h => by simp [ematchVariants] at h
  | n2 :: rest, k, st', h => by
    simp only [ematchVariants] at h
    have hrest : ∀ k', st' ∈ (ematchVariants rec n cs st rest k').1 →
        Ext st st' ∧ ∀ v ∈ pvarsL cs, v ∈ bound st' :=
      fun k' h' => variants_spec hr n cs st hg hwf hkw rest k' st' h'
    by_cases hc : ((Node.weakShape n).1 != (Node.weakShape (nullify n2)).1) = true
    · simp only [hc, if_true, List.nil_append] at h
      exact hrest _ h
    · simp only [hc, Bool.false_eq_true, if_false] at h
      cases hm : insertAll ((Node.allOcc (nullify n2)).zip (Node.allOcc n)) st.smap with
      | none =>
        rw [hm] at h
        simp only [List.nil_append] at h
        exact hrest _ h
      | some m =>
        rw [hm] at h
        simp only [List.mem_append] at h
        rcases h with h | h
        · obtain ⟨w, _, kp⟩ := insertAll_spec _ hg.wf hm
          have hinj : Inj m := by
            by_cases hne : (Node.allOcc (nullify n2)).zip (Node.allOcc n) = []
            · rw [hne] at hm
              simp only [insertAll, Option.some.injEq] at hm
              rw [← hm]; exact hg.inj
            · exact (insertAll_spec _ hg.wf hm).2.1 hne
          have hg0 : Good { st with smap := m } := ⟨w, hinj⟩
          have e0 : Ext st { st with smap := m } := ⟨⟨[], by simp⟩, hg0, kp⟩
          have harity : cs.length ≤ (Node.appOcc n2).length := by
            have hsh : (Node.weakShape n).1 = (Node.weakShape (nullify n2)).1 := by simpa using hc
            have := appOcc_weakShape n
            rw [hsh, appOcc_weakShape, appOcc_nullify] at this
            omega
          have hk := kids_spec hr cs (Node.appOcc n2) [{ st with smap := m }] k hkw harity
            (by intro s hs; simp at hs; subst hs; exact hg0)
          obtain ⟨⟨s0, hs0, e1⟩, b⟩ := hk st' h
          simp at hs0; subst hs0
          exact ⟨e0.trans e1, b⟩
        · exact hrest _ h

theorem nodes_spec (s : Snap) {rec : Rec} (hr : RecSpec rec) (n : Node) (cs : List MPat) (st : MState) (hg : Good st)
    (hwf : cs.length ≤ (Node.appOcc n).length) (hkw : wfPatL cs) :
    ∀ (nodes : List Node) (k : Nat), ∀ st' ∈ (ematchNodes s rec n cs st nodes k).1,
      Ext st st' ∧ ∀ v ∈ pvarsL cs, v ∈ bound st'
  | [], k, st', h => by simp [ematchNodes] at h
  | nn :: rest, k, st', h => by
    simp only [ematchNodes] at h
    split at h
    · exact nodes_spec s hr n cs st hg hwf hkw rest k st' h
    · simp only [List.mem_append] at h
      rcases h with h | h
      · exact variants_spec hr n cs st hg hwf hkw _ k st' h
      · exact nodes_spec s hr n cs st hg hwf hkw rest _ st' h

/-- **the matcher's states**: every returned state extends the start state, keeps its slot map a well-formed injection,
and binds every variable of the pattern -/
theorem ematchImpl_spec (s : Snap) : ∀ (fuel : Nat) (p : MPat) (st : MState) (i : AppId) (k : Nat), wfPat p → Good st →
    ∀ st' ∈ (ematchImpl s fuel p st i k).1, Ext st st' ∧ ∀ v ∈ pvars p, v ∈ bound st'
  | 0, _, _, _, _, _, _, st', h => by simp [ematchImpl] at h
  | fuel + 1, .pvar v, st, i, k, _, hg, st', h => by
    simp only [ematchImpl] at h
    cases hf : st.subst.find? (·.1 == v) with
    | some b =>
      rw [hf] at h
      simp only [Option.map_some] at h
      split at h
      · simp only [List.mem_singleton] at h; subst h
        refine ⟨Ext.refl hg, ?_⟩
        intro w hw
        simp only [pvars, List.mem_singleton] at hw; subst hw
        have h1 := List.find?_some hf
        have h2 := List.mem_of_find?_eq_some hf
        have : b.1 = w := by simpa using h1
        unfold bound; rw [← this]
        exact List.mem_map.mpr ⟨b, h2, rfl⟩
      · simp at h
    | none =>
      rw [hf] at h
      simp only [Option.map_none, List.mem_singleton] at h; subst h
      refine ⟨⟨⟨[(v, i)], rfl⟩, ⟨hg.wf, hg.inj⟩, fun _ _ h => h⟩, ?_⟩
      intro w hw
      simp only [pvars, List.mem_singleton] at hw; subst hw
      simp [bound]
  | fuel + 1, .node n cs, st, i, k, hw, hg, st', h => by
    simp only [ematchImpl] at h
    obtain ⟨hlen, hkids⟩ := hw
    have hr : RecSpec (ematchImpl s fuel) := ematchImpl_spec s fuel
    have := nodes_spec s hr n cs st hg (by omega) hkids _ _ st' h
    exact ⟨this.1, by simpa [pvars] using this.2⟩

theorem bound_finalSubst (st : MState) (k : Nat) : (finalSubst st k).1.map (·.1) = bound st := by
  unfold finalSubst bound
  simp [List.map_map, Function.comp_def]

/-- **every substitution `ematch_all` returns binds every variable of the pattern** -/
theorem ematchAll_binds (s : Snap) (p : MPat) (hp : wfPat p) (k : Nat) :
    ∀ σ ∈ (ematchAll s p k).1, ∀ v ∈ pvars p, v ∈ σ.map (·.1) := by
  unfold ematchAll
  -- invariant of the outer fold over the live classes
  suffices h : ∀ (ids : List Nat) (acc : List (List (String × AppId)) × Nat),
      (∀ σ ∈ acc.1, ∀ v ∈ pvars p, v ∈ σ.map (·.1)) →
      ∀ σ ∈ (ids.foldl (fun (acc : List (List (String × AppId)) × Nat) i =>
        let slots := match s.cls i with | some c => c.slots | none => []
        let (sts, k1) := ematchImpl s (depth p + 1) p {} { id := i, m := identity slots } acc.2
        sts.foldl (fun (a : List (List (String × AppId)) × Nat) st =>
          let (σ, k2) := finalSubst st a.2; (a.1 ++ [σ], k2)) (acc.1, k1)) acc).1,
        ∀ v ∈ pvars p, v ∈ σ.map (·.1) from
    h s.ids ([], k) (by intro σ hσ; simp at hσ)
  intro ids
  induction ids with
  | nil => intro acc h; exact h
  | cons i rest ih =>
    intro acc h
    simp only [List.foldl_cons]
    apply ih
    -- the inner fold adds the final substitutions of states that bind every variable
    have hst : ∀ st' ∈ (ematchImpl s (depth p + 1) p {} { id := i, m := identity (match s.cls i with | some c => c.slots | none => []) } acc.2).1,
        ∀ v ∈ pvars p, v ∈ bound st' := by
      intro st' hs'
      exact (ematchImpl_spec s _ p {} _ _ hp ⟨wf_nil, by unfold Inj valuesVec; simp⟩ st' hs').2
    generalize (ematchImpl s (depth p + 1) p {} { id := i, m := identity (match s.cls i with | some c => c.slots | none => []) } acc.2) = r at hst
    obtain ⟨sts, k1⟩ := r
    simp only at hst ⊢
    suffices h2 : ∀ (l : List MState) (a : List (List (String × AppId)) × Nat), (∀ st' ∈ l, ∀ v ∈ pvars p, v ∈ bound st') →
        (∀ σ ∈ a.1, ∀ v ∈ pvars p, v ∈ σ.map (·.1)) →
        ∀ σ ∈ (l.foldl (fun (a : List (List (String × AppId)) × Nat) st =>
          let (σ, k2) := finalSubst st a.2; (a.1 ++ [σ], k2)) a).1, ∀ v ∈ pvars p, v ∈ σ.map (·.1) from
      h2 sts (acc.1, k1) hst h
    intro l
    induction l with
    | nil => intro a _ ha; exact ha
    | cons st0 t iht =>
      intro a hl ha
      simp only [List.foldl_cons]
      apply iht _ (fun st' hs' => hl st' (by simp [hs']))
      intro σ hσ
      simp only [List.mem_append, List.mem_singleton] at hσ
      rcases hσ with hσ | hσ
      · exact ha σ hσ
      · subst hσ
        intro v hv
        rw [bound_finalSubst]
        exact hl st0 (by simp) v hv

end SV.EMatch
