import SlotVerif.Model.Slot
/-! Helper lemmas for `Model/Slot.lean`. -/
namespace SV.Slot

theorem digit_ne_plus {c : Char} (h : c.isDigit = true) : c ≠ '+' := by
  intro he; subst he; simp [Char.isDigit] at h

theorem showNat_ne_nil (n : Nat) : showNat n ≠ [] := Nat.toDigits_ne_nil

theorem showNat_all_digit (n : Nat) : (showNat n).all Char.isDigit = true := by
  rw [List.all_eq_true]
  intro c hc
  exact Nat.isDigit_of_mem_toDigits (by decide) (by decide) hc

theorem stripPlus_of_digit {c : Char} {t : List Char} (h : c.isDigit = true) :
    stripPlus (c :: t) = c :: t := by
  unfold stripPlus
  split
  · rename_i heq; simp at heq; exact absurd heq.1 (digit_ne_plus h)
  · rfl

theorem parseU32_showNat {n : Nat} (h : n < U32) : parseU32 (showNat n) = some n := by
  unfold parseU32
  have hne := showNat_ne_nil n
  have hall := showNat_all_digit n
  have hval : Nat.ofDigitChars 10 (showNat n) 0 = n := Nat.ofDigitChars_ten_toDigits
  cases hs : showNat n with
  | nil => exact absurd hs hne
  | cons c t =>
    have hc : c.isDigit = true := by
      rw [hs] at hall; simp at hall; exact hall.1
    rw [stripPlus_of_digit hc, ← hs]
    unfold parseDigits
    rw [hval]
    simp [hs, h]
    rw [hs] at hall; simpa using hall

theorem canonNum_showNat {b n : Nat} (hb : b ≤ U32) (h : n < b) : canonNum b (showNat n) = some n := by
  unfold canonNum
  rw [parseU32_showNat (by omega)]
  simp [h]

theorem canonNum_some {b : Nat} {s : List Char} {x : Nat} (h : canonNum b s = some x) :
    x < b ∧ s = showNat x := by
  unfold canonNum at h
  split at h
  · rename_i y hy
    split at h
    · rename_i hc; simp at h; subst h; exact hc
    · simp at h
  · simp at h

theorem parseU32_f (r : List Char) : parseU32 ('f' :: r) = none := by
  unfold parseU32
  have : stripPlus ('f' :: r) = 'f' :: r := by
    unfold stripPlus
    split
    · rename_i heq; simp at heq
    · rfl
  rw [this]
  simp [parseDigits, Char.isDigit]

theorem canonNum_f (b : Nat) (r : List Char) : canonNum b ('f' :: r) = none := by
  unfold canonNum; rw [parseU32_f]

theorem showNat_inj {a b : Nat} (h : showNat a = showNat b) : a = b := by
  have h1 : Nat.ofDigitChars 10 (showNat a) 0 = a := Nat.ofDigitChars_ten_toDigits
  have h2 : Nat.ofDigitChars 10 (showNat b) 0 = b := Nat.ofDigitChars_ten_toDigits
  rw [h] at h1; omega

end SV.Slot

namespace SV.Slot

theorem classify_num {s : List Char} {x : Nat} (h : classify s = .num x) :
    x < numBound ∧ s = showNat x := by
  unfold classify at h
  split at h
  · rename_i y hy; simp at h; subst h; exact canonNum_some hy
  · split at h
    · split at h <;> simp at h
    · simp at h

theorem classify_fr {s : List Char} {x : Nat} (h : classify s = .fr x) :
    x < freshBound ∧ s = 'f' :: showNat x := by
  unfold classify at h
  split at h
  · simp at h
  · split at h
    · split at h
      · rename_i r _ y hy; simp at h; subst h
        obtain ⟨h1, h2⟩ := canonNum_some hy
        exact ⟨h1, by rw [h2]⟩
      · simp at h
    · simp at h

theorem classify_showNat {x : Nat} (h : x < numBound) : classify (showNat x) = .num x := by
  unfold classify
  rw [canonNum_showNat (by decide) h]

theorem classify_f_showNat {x : Nat} (h : x < freshBound) : classify ('f' :: showNat x) = .fr x := by
  unfold classify
  rw [canonNum_f]
  simp only
  rw [canonNum_showNat (by decide) h]

/-- tables only grow: the fresh counter increases, names are appended. -/
def Ext (t t' : Tab) : Prop := t.freshIdx ≤ t'.freshIdx ∧ ∃ l, t'.names = t.names ++ l

theorem Ext.refl (t : Tab) : Ext t t := ⟨Nat.le_refl _, [], by simp⟩
theorem Ext.trans {a b c : Tab} (h1 : Ext a b) (h2 : Ext b c) : Ext a c := by
  obtain ⟨h1a, l1, h1b⟩ := h1
  obtain ⟨h2a, l2, h2b⟩ := h2
  exact ⟨Nat.le_trans h1a h2a, l1 ++ l2, by rw [h2b, h1b, List.append_assoc]⟩

theorem internName_ext (t : Tab) (s : List Char) : Ext t (internName t s).2 := by
  unfold internName
  split
  · exact Ext.refl t
  · exact ⟨Nat.le_refl _, [s], rfl⟩

theorem named_ext (t : Tab) (s : List Char) : Ext t (named t s).2 := by
  unfold named
  split
  · exact Ext.refl t
  · simp only
    split
    · exact ⟨by simp; omega, [], by simp⟩
    · exact Ext.refl t
  · exact internName_ext t s

theorem fresh_ext (t : Tab) : Ext t (fresh t).2 := by
  unfold fresh
  split
  · exact ⟨by simp, [], by simp⟩
  · exact Ext.refl t

theorem idxOf_cons_eq (a s : List Char) (t : List (List Char)) :
    (a :: t).idxOf s = if a = s then 0 else t.idxOf s + 1 := by
  rw [List.idxOf_cons]
  by_cases h : a = s
  · simp [h]
  · have : (a == s) = false := by simp [h]
    simp [this, h]

theorem idxOf_append_of_mem {s : List Char} {l l' : List (List Char)} (h : s ∈ l) :
    (l ++ l').idxOf s = l.idxOf s := by
  induction l with
  | nil => simp at h
  | cons a t ih =>
    simp only [List.cons_append, idxOf_cons_eq]
    by_cases he : a = s
    · simp [he]
    · have : s ∈ t := by simp at h; rcases h with h | h; exact absurd h.symm he; exact h
      rw [if_neg he, if_neg he, ih this]

theorem idxOf_append_self {s : List Char} {l : List (List Char)} (h : s ∉ l) :
    (l ++ [s]).idxOf s = l.length := by
  induction l with
  | nil => simp [idxOf_cons_eq]
  | cons a t ih =>
    simp only [List.cons_append, idxOf_cons_eq, List.length_cons]
    have hne : ¬ a = s := by intro he; apply h; simp [he]
    have : s ∉ t := by intro hm; apply h; simp [hm]
    rw [if_neg hne, ih this]

theorem internName_stable {t t' : Tab} {s : List Char} {c : Nat}
    (h : internName t s = (.ok c, t)) (he : Ext t t') : internName t' s = (.ok c, t') := by
  unfold internName at h ⊢
  obtain ⟨_, l, hl⟩ := he
  by_cases hm : s ∈ t.names
  · simp only [hm, if_true] at h
    have hm' : s ∈ t'.names := by rw [hl]; simp [hm]
    simp only [hm', if_true]
    rw [hl, idxOf_append_of_mem hm]
    simp at h ⊢; exact h
  · simp only [hm, if_false] at h
    have := congrArg (fun p => p.2.names.length) h
    simp at this

/-- asking again for a name whose slot is already determined gives the same slot, in every
later table -/
theorem named_stable {t t' : Tab} {s : List Char} {c : Nat}
    (h : named t s = (.ok c, t)) (he : Ext t t') : named t' s = (.ok c, t') := by
  unfold named at h ⊢
  cases hc : classify s with
  | num x => simp only [hc] at h ⊢; simp at h ⊢; exact h
  | fr y =>
    simp only [hc] at h ⊢
    have h1 := (Prod.mk.inj h).1
    have h2 := (Prod.mk.inj h).2
    have hnot : ¬ t.freshIdx ≤ y * 4 + 1 := by
      intro hle; rw [if_pos hle] at h2
      have := congrArg Tab.freshIdx h2; simp at this; omega
    have hnot' : ¬ t'.freshIdx ≤ y * 4 + 1 := by have := he.1; omega
    rw [if_neg hnot', h1]
  | name => simp only [hc] at h ⊢; exact internName_stable h he

theorem internName_idem (t : Tab) (s : List Char) :
    internName (internName t s).2 s = internName t s := by
  unfold internName
  by_cases hm : s ∈ t.names
  · simp [hm]
  · simp only [hm, if_false]
    have : s ∈ t.names ++ [s] := by simp
    simp only [this, if_true]
    rw [idxOf_append_self hm]

theorem named_idem (t : Tab) (s : List Char) : named (named t s).2 s = named t s := by
  unfold named
  cases hc : classify s with
  | num x => rfl
  | fr y => simp only; split <;> simp <;> omega
  | name => simp only; exact internName_idem t s

theorem idxOf_inj {l : List (List Char)} {a b : List Char} (ha : a ∈ l) (hb : b ∈ l)
    (h : l.idxOf a = l.idxOf b) : a = b := by
  induction l with
  | nil => simp at ha
  | cons x t ih =>
    simp only [idxOf_cons_eq] at h
    by_cases h1 : x = a <;> by_cases h2 : x = b
    · rw [← h1, ← h2]
    · rw [if_pos h1, if_neg h2] at h; omega
    · rw [if_neg h1, if_pos h2] at h; omega
    · rw [if_neg h1, if_neg h2] at h
      have ha' : a ∈ t := by simp at ha; rcases ha with ha | ha; exact absurd ha.symm h1; exact ha
      have hb' : b ∈ t := by simp at hb; rcases hb with hb | hb; exact absurd hb.symm h2; exact hb
      exact ih ha' hb' (by omega)

theorem named_fst_ok (t : Tab) (s : List Char) : ∃ c, (named t s).1 = Res.ok c := by
  unfold named
  cases classify s with
  | num x => exact ⟨_, rfl⟩
  | fr x => exact ⟨_, rfl⟩
  | name => simp only; unfold internName; split <;> exact ⟨_, rfl⟩

theorem idxOf_getElem_nodup {l : List (List Char)} (h : l.Nodup) (i : Nat) (hi : i < l.length) :
    l.idxOf l[i] = i := by
  induction l generalizing i with
  | nil => simp at hi
  | cons a t ih =>
    rw [List.nodup_cons] at h
    cases i with
    | zero => simp [idxOf_cons_eq]
    | succ j =>
      simp only [List.getElem_cons_succ, idxOf_cons_eq]
      have hj : j < t.length := by simpa using hi
      have hne : ¬ a = t[j] := by intro he; apply h.1; rw [he]; exact List.getElem_mem hj
      rw [if_neg hne, ih h.2 j hj]

/-- classification of a `named` call that does not change the table -/
theorem named_cases {t : Tab} {s : List Char} {c : Nat} (h : named t s = (.ok c, t)) :
    (∃ x, x < numBound ∧ s = showNat x ∧ c = x * 4) ∨
    (∃ x, x < freshBound ∧ s = 'f' :: showNat x ∧ c = x * 4 + 1) ∨
    (s ∈ t.names ∧ c = 4 * t.names.idxOf s + 2) := by
  unfold named at h
  cases hc : classify s with
  | num x =>
    simp only [hc] at h
    obtain ⟨h1, h2⟩ := classify_num hc
    left; refine ⟨x, h1, h2, ?_⟩
    have := (Prod.mk.inj h).1; simp at this; omega
  | fr y =>
    simp only [hc] at h
    obtain ⟨h1, h2⟩ := classify_fr hc
    right; left; refine ⟨y, h1, h2, ?_⟩
    have := (Prod.mk.inj h).1; simp at this; omega
  | name =>
    simp only [hc] at h
    right; right
    unfold internName at h
    by_cases hm : s ∈ t.names
    · simp only [hm, if_true] at h
      refine ⟨hm, ?_⟩
      have := (Prod.mk.inj h).1; simp at this; omega
    · simp only [hm, if_false] at h
      have := congrArg (fun p => p.2.names.length) h
      simp at this

/-- **distinct names, distinct slots** (at a fixed table) -/
theorem named_inj {t : Tab} {s₁ s₂ : List Char} {c : Nat}
    (h1 : named t s₁ = (.ok c, t)) (h2 : named t s₂ = (.ok c, t)) : s₁ = s₂ := by
  rcases named_cases h1 with ⟨x, _, hs, hc⟩ | ⟨x, _, hs, hc⟩ | ⟨hm, hc⟩ <;>
  rcases named_cases h2 with ⟨y, _, hs', hc'⟩ | ⟨y, _, hs', hc'⟩ | ⟨hm', hc'⟩
  · have : x = y := by omega
    rw [hs, hs', this]
  · omega
  · omega
  · omega
  · have : x = y := by omega
    rw [hs, hs', this]
  · omega
  · omega
  · omega
  · exact idxOf_inj hm hm' (by omega)

end SV.Slot
