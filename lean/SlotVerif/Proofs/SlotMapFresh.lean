import SlotVerif.Proofs.SlotMap
/-! `compose_fresh` and `bijection_from_fresh_to`: refinement to the reference finite map (C19). -/
namespace SV.SlotMap

/-- the fold step of `compose_fresh` -/
def cfStep (o : SlotMap) (acc : SlotMap × Nat) (p : Nat × Nat) : SlotMap × Nat :=
  match get o p.2 with
  | some z => (insert acc.1 p.1 z, acc.2)
  | none => (insert acc.1 p.1 acc.2, acc.2 + 4)

theorem composeFresh_eq (m o : SlotMap) (f : Nat) : composeFresh m o f = m.foldl (cfStep o) ([], f) := rfl

/-- invariant of the fold over a key-sorted prefix `done` of the map -/
structure CFInv (o : SlotMap) (f : Nat) (done : List (Nat × Nat)) (acc : SlotMap × Nat) : Prop where
  wf : WF acc.1
  ge : f ≤ acc.2
  /-- keys: exactly those processed -/
  keys : ∀ k, (get acc.1 k).isSome ↔ k ∈ done.map (·.1)
  /-- a key whose value is in the domain of `o` is composed -/
  hit : ∀ p ∈ done, ∀ z, get o p.2 = some z → get acc.1 p.1 = some z
  /-- a key whose value is not in the domain of `o` gets a fresh slot: at or above the counter it started from, below
  the final counter, of the counter's residue, and different keys get different fresh slots -/
  miss : ∀ p ∈ done, get o p.2 = none → ∃ c, get acc.1 p.1 = some c ∧ f ≤ c ∧ c < acc.2 ∧ c % 4 = f % 4
  inj : ∀ p ∈ done, ∀ q ∈ done, get o p.2 = none → get o q.2 = none → get acc.1 p.1 = get acc.1 q.1 → p.1 = q.1
  mod : acc.2 % 4 = f % 4

theorem cf_foldl (o : SlotMap) (f : Nat) : ∀ (rest done : List (Nat × Nat)) (acc : SlotMap × Nat),
    ((done ++ rest).map (·.1)).Nodup → CFInv o f done acc → CFInv o f (done ++ rest) (rest.foldl (cfStep o) acc) := by
  intro rest
  induction rest with
  | nil => intro done acc _ h; simpa using h
  | cons p t ih =>
    intro done acc hnd h
    rw [List.foldl_cons]
    have hnd' : (((done ++ [p]) ++ t).map (·.1)).Nodup := by simpa using hnd
    have := ih (done ++ [p]) (cfStep o acc p) hnd' ?_
    · simpa using this
    · -- one step
      have hpnew : p.1 ∉ done.map (·.1) := by
        have : ((done.map (·.1)) ++ (p.1 :: t.map (·.1))).Nodup := by simpa using hnd
        rw [List.nodup_append] at this
        intro hm
        exact this.2.2 _ hm _ (by simp) rfl
      have hother : ∀ q ∈ done, q.1 ≠ p.1 := fun q hq he => hpnew (he ▸ List.mem_map.mpr ⟨q, hq, rfl⟩)
      unfold cfStep
      cases hg : get o p.2 with
      | some z =>
        simp only
        refine ⟨wf_insert h.wf _ _, h.ge, ?_, ?_, ?_, ?_, h.mod⟩
        · intro k
          rw [get_insert h.wf]
          by_cases hk : k = p.1
          · simp [hk]
          · simp [hk, h.keys k]
        · intro q hq z' hz'
          rw [get_insert h.wf]
          rcases List.mem_append.mp hq with hq | hq
          · simp [hother q hq, h.hit q hq z' hz']
          · simp at hq; subst hq; rw [hg] at hz'; simp at hz'; simp [hz']
        · intro q hq hm
          rcases List.mem_append.mp hq with hq | hq
          · obtain ⟨c, hc⟩ := h.miss q hq hm
            exact ⟨c, by rw [get_insert h.wf]; simp [hother q hq, hc.1], hc.2⟩
          · simp at hq; subst hq; rw [hg] at hm; simp at hm
        · intro q1 hq1 q2 hq2 hm1 hm2 he
          have h1 : q1 ∈ done := by
            rcases List.mem_append.mp hq1 with h' | h'; exact h'; simp at h'; subst h'; rw [hg] at hm1; simp at hm1
          have h2 : q2 ∈ done := by
            rcases List.mem_append.mp hq2 with h' | h'; exact h'; simp at h'; subst h'; rw [hg] at hm2; simp at hm2
          rw [get_insert h.wf, get_insert h.wf] at he
          simp only [hother q1 h1, hother q2 h2, if_false] at he
          exact h.inj q1 h1 q2 h2 hm1 hm2 he
      | none =>
        simp only
        refine ⟨wf_insert h.wf _ _, by have := h.ge; omega, ?_, ?_, ?_, ?_, by have := h.mod; omega⟩
        · intro k
          rw [get_insert h.wf]
          by_cases hk : k = p.1
          · simp [hk]
          · simp [hk, h.keys k]
        · intro q hq z' hz'
          rw [get_insert h.wf]
          rcases List.mem_append.mp hq with hq | hq
          · simp [hother q hq, h.hit q hq z' hz']
          · simp at hq; subst hq; rw [hg] at hz'; simp at hz'
        · intro q hq hm
          rcases List.mem_append.mp hq with hq | hq
          · obtain ⟨c, hc1, hc2, hc3, hc4⟩ := h.miss q hq hm
            exact ⟨c, by rw [get_insert h.wf]; simp [hother q hq, hc1], hc2, by omega, hc4⟩
          · simp at hq; subst hq
            exact ⟨acc.2, by rw [get_insert h.wf]; simp, h.ge, by omega, h.mod⟩
        · intro q1 hq1 q2 hq2 hm1 hm2 he
          rw [get_insert h.wf, get_insert h.wf] at he
          rcases List.mem_append.mp hq1 with h1 | h1 <;> rcases List.mem_append.mp hq2 with h2 | h2
          · simp only [hother q1 h1, hother q2 h2, if_false] at he
            exact h.inj q1 h1 q2 h2 hm1 hm2 he
          · simp at h2; subst h2
            simp only [hother q1 h1, if_false, if_true] at he
            obtain ⟨c, hc1, _, hc3, _⟩ := h.miss q1 h1 hm1
            rw [hc1] at he
            have : c = acc.2 := by simpa using he
            omega
          · simp at h1; subst h1
            simp only [hother q2 h2, if_false, if_true] at he
            obtain ⟨c, hc1, _, hc3, _⟩ := h.miss q2 h2 hm2
            rw [hc1] at he
            have : acc.2 = c := by simpa using he
            omega
          · simp at h1 h2; rw [h1, h2]


/-! ### `bijection_from_fresh_to` -/

def bfStep (acc : SlotMap × Nat) (x : Nat) : SlotMap × Nat := (insert acc.1 acc.2 x, acc.2 + 4)

theorem bijectionFromFreshTo_eq (s : List Nat) (f : Nat) : bijectionFromFreshTo s f = s.foldl bfStep ([], f) := rfl

structure BFInv (f : Nat) (done : List Nat) (acc : SlotMap × Nat) : Prop where
  wf : WF acc.1
  cnt : acc.2 = f + 4 * done.length
  get : ∀ i, SlotMap.get acc.1 (f + 4 * i) = done[i]?
  keys : ∀ k v, SlotMap.get acc.1 k = some v → ∃ i, i < done.length ∧ k = f + 4 * i

theorem bf_foldl (f : Nat) : ∀ (rest done : List Nat) (acc : SlotMap × Nat),
    BFInv f done acc → BFInv f (done ++ rest) (rest.foldl bfStep acc) := by
  intro rest
  induction rest with
  | nil => intro done acc h; simpa using h
  | cons x t ih =>
    intro done acc h
    rw [List.foldl_cons]
    have := ih (done ++ [x]) (bfStep acc x) ?_
    · simpa using this
    · unfold bfStep
      refine ⟨wf_insert h.wf _ _, by simp [h.cnt]; omega, ?_, ?_⟩
      · intro i
        simp only
        rw [get_insert h.wf, h.cnt]
        by_cases hi : i = done.length
        · subst hi; simp
        · have hne : f + 4 * i ≠ f + 4 * done.length := by omega
          simp only [hne, if_false]
          rw [h.get i]
          rcases Nat.lt_or_ge i done.length with hlt | hge
          · rw [List.getElem?_append_left hlt]
          · have hgt : done.length < i := by omega
            rw [List.getElem?_eq_none (by omega), List.getElem?_eq_none (by simp; omega)]
      · intro k v hk
        simp only at hk
        rw [get_insert h.wf, h.cnt] at hk
        by_cases hkk : k = f + 4 * done.length
        · exact ⟨done.length, by simp, hkk⟩
        · simp only [hkk, if_false] at hk
          obtain ⟨i, hi, hki⟩ := h.keys k v hk
          exact ⟨i, by simp; omega, hki⟩

end SV.SlotMap
