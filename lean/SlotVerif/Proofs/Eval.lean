import SlotVerif.Model.Eval
import SlotVerif.Model.Spec
import SlotVerif.Proofs.Term
/-! The model algebra respects the specification: renaming, opening of binders and congruence
(`cong_eval`, used by C03 and C01). -/
namespace SV.Eval
open SV SV.Term

def upd (env : Nat → F) (a : Nat) (v : F) : Nat → F := fun x => if x = a then v else env x

/-! ### the node operator depends on the children only through the calls it makes -/

theorem evalNode_congr (n n' : Node) (hv : n'.v = n.v) (hl : nodeLit n' = nodeLit n) (vals vals' : List F)
    (hvals : vals' = vals) (kid kid' : Nat → List F → F)
    (hk : ∀ i bs, (expDepths n.v)[i]? = some bs.length → kid' i bs = kid i bs) :
    evalNode n' vals' kid' = evalNode n vals kid := by
  unfold evalNode
  rw [hv, hl, hvals]
  split
  · rfl
  · rw [hk 0 [] (by simp [expDepths, *]), hk 1 [] (by simp [expDepths, *])]
  · rw [hk 0 [] (by simp [expDepths, *]), hk 1 [] (by simp [expDepths, *])]
  · congr 1; funext v; exact hk 0 [v] (by simp [expDepths, *])
  · rw [hk 1 [] (by simp [expDepths, *]), hk 0 [kid 1 []] (by simp [expDepths, *])]
  · rfl
  · rfl
  · rfl
  · rfl
  · rfl
  · rfl
  · rfl
  · rfl
  · rw [hk 0 [] (by simp [expDepths, *])]
  · rw [hk 0 [] (by simp [expDepths, *]), hk 1 [] (by simp [expDepths, *])]
  · rfl

theorem childDepths_mapNodeSlots (g : Nat → Nat → Nat) (n : Node) : childDepths (mapNodeSlots g n) = childDepths n := by
  unfold childDepths mapNodeSlots
  simp only
  have hf : ∀ (f : Field) (d : Nat), fieldAppDepths (mapFieldSlots g f d) d = fieldAppDepths f d := by
    intro f
    induction f with
    | slot s => intro d; rfl
    | app a => intro d; rfl
    | lit v => intro d; rfl
    | bind s f ih => intro d; simp [mapFieldSlots, fieldAppDepths, ih]
  induction n.fields with
  | nil => rfl
  | cons f t ih => simp only [List.map_cons, List.flatMap_cons, hf f 0, ih]

theorem nodeLit_mapNodeSlots (g : Nat → Nat → Nat) (n : Node) : nodeLit (mapNodeSlots g n) = nodeLit n := by
  unfold nodeLit mapNodeSlots
  simp only
  match h : n.fields with
  | [] => simp
  | [.lit v] => simp [mapFieldSlots]
  | [.slot s] => simp [mapFieldSlots]
  | [.app a] => simp [mapFieldSlots]
  | [.bind s f] => simp [mapFieldSlots]
  | a :: b :: t => simp

theorem nodeVals_map (g : Nat → Nat → Nat) (n : Node) (benv benv' : List F) (env env' : Nat → F)
    (h : ∀ p ∈ nodeSlots n, slotVal p.1 benv' env' (g p.1 p.2) = slotVal p.1 benv env p.2) :
    nodeVals benv' env' (mapNodeSlots g n) = nodeVals benv env n := by
  unfold nodeVals
  rw [nodeSlots_map, List.map_map]
  apply List.map_congr_left
  intro p hp
  exact h p hp

/-! ### renaming -/

mutual
theorem evalT_mapFree (σ : Nat → Nat) (hσ : NameMap σ) : ∀ (t : Term) (benv : List F) (env : Nat → F),
    evalT (mapFree σ t) benv env = evalT t benv (fun x => env (σ x))
  | .mk n cs, benv, env => by
    simp only [mapFree, evalT]
    rw [childDepths_mapNodeSlots]
    have hv : (mapNodeSlots (fun _ c => if isBvar c then c else σ c) n).v = n.v := rfl
    rw [hv]
    split
    · apply evalNode_congr _ _ hv (nodeLit_mapNodeSlots _ n)
      · apply nodeVals_map
        intro p _
        unfold slotVal
        by_cases hb : isBvar p.2 = true
        · simp [hb]
        · have hb' : isBvar p.2 = false := by simpa using hb
          simp [hb', hσ p.2 hb']
      · intro i bs _
        exact evalTL_mapFree σ hσ cs i (bs ++ benv) env
    · rfl
theorem evalTL_mapFree (σ : Nat → Nat) (hσ : NameMap σ) : ∀ (ts : List Term) (i : Nat) (benv : List F) (env : Nat → F),
    ((evalTL (mapFreeL σ ts)).getD i (fun _ _ => 0)) benv env = ((evalTL ts).getD i (fun _ _ => 0)) benv (fun x => env (σ x))
  | [], i, benv, env => by simp [mapFreeL, evalTL]
  | t :: ts, 0, benv, env => by simp [mapFreeL, evalTL, evalT_mapFree σ hσ t benv env]
  | t :: ts, i + 1, benv, env => by
    simp only [mapFreeL, evalTL, List.getD_cons_succ]
    exact evalTL_mapFree σ hσ ts i benv env
end


/-! ### opening a binder with a fresh name = pushing its value -/

theorem bvar_div (j : Nat) : bvar j / 4 = j := by unfold bvar; omega
theorem isBvar_bvar (j : Nat) : isBvar (bvar j) = true := by unfold isBvar bvar; simp

theorem eq_bvar_of_isBvar {c : Nat} (h : isBvar c = true) : c = bvar (c / 4) := by
  unfold isBvar at h; unfold bvar
  have : c % 4 = 3 := by simpa using h
  omega

mutual
theorem evalT_openAt (a : Nat) (ha : isBvar a = false) : ∀ (t : Term) (k : Nat) (benv : List F) (env : Nat → F),
    a ∉ freeOcc t → evalT (openAt k a t) benv (upd env a (benv.getD k 0)) = evalT t benv env
  | .mk n cs, k, benv, env, hfr => by
    simp only [openAt, evalT]
    rw [childDepths_mapNodeSlots]
    have hv : (mapNodeSlots (fun d c => if c == bvar (k + d) then a else c) n).v = n.v := rfl
    rw [hv]
    split
    · rename_i hd
      apply evalNode_congr _ _ hv (nodeLit_mapNodeSlots _ n)
      · apply nodeVals_map
        intro p hp
        unfold slotVal
        by_cases hc : p.2 = bvar (k + p.1)
        · simp only [hc, beq_self_eq_true, if_true, ha, Bool.false_eq_true, if_false, isBvar_bvar, bvar_div]
          have : ¬ (k + p.1 < p.1) := by omega
          simp only [this, if_false, upd, if_true]
          congr 1; omega
        · have hc' : (p.2 == bvar (k + p.1)) = false := by simpa using hc
          simp only [hc', Bool.false_eq_true, if_false]
          by_cases hb : isBvar p.2 = true
          · simp [hb]
          · have hb' : isBvar p.2 = false := by simpa using hb
            simp only [hb', Bool.false_eq_true, if_false, upd]
            have hne : p.2 ≠ a := by
              intro he
              apply hfr
              simp only [freeOcc, List.mem_append, List.mem_filter, List.mem_map]
              left
              exact ⟨⟨p, hp, he⟩, by simp [← he, hb']⟩
            simp [hne]
      · intro i bs hi
        exact evalTL_openAt a ha cs (childDepths n) k i bs benv env
          (fun x hx hxa => hfr (by subst hxa; simp only [freeOcc, List.mem_append]; exact Or.inr hx))
          (by rw [hd]; exact hi)
    · rfl
theorem evalTL_openAt (a : Nat) (ha : isBvar a = false) : ∀ (ts : List Term) (ds : List Nat) (k i : Nat) (bs benv : List F)
    (env : Nat → F), (∀ x ∈ freeOccL ts, x ≠ a) → ds[i]? = some bs.length →
    ((evalTL (openAtL k a ds ts)).getD i (fun _ _ => 0)) (bs ++ benv) (upd env a (benv.getD k 0)) =
      ((evalTL ts).getD i (fun _ _ => 0)) (bs ++ benv) env
  | [], ds, k, i, bs, benv, env, _, _ => by
    cases ds <;> simp [openAtL, evalTL]
  | t :: ts, [], k, i, bs, benv, env, _, hi => by simp at hi
  | t :: ts, d :: ds, k, 0, bs, benv, env, hfr, hi => by
    simp only [openAtL, evalTL, List.getD_cons_zero]
    have hd : d = bs.length := by simpa using hi
    have hget : (bs ++ benv).getD (k + d) 0 = benv.getD k 0 := by
      rw [hd, List.getD_eq_getElem?_getD, List.getD_eq_getElem?_getD, List.getElem?_append_right (by omega)]
      congr 2; omega
    have := evalT_openAt a ha t (k + d) (bs ++ benv) env
      (fun h => hfr a (by simp only [freeOccL, List.mem_append]; exact Or.inl h) rfl)
    rw [hget] at this
    exact this
  | t :: ts, d :: ds, k, i + 1, bs, benv, env, hfr, hi => by
    simp only [openAtL, evalTL, List.getD_cons_succ]
    exact evalTL_openAt a ha ts ds k i bs benv env
      (fun x hx => hfr x (by simp only [freeOccL, List.mem_append]; exact Or.inr hx)) (by simpa using hi)
end


mutual
theorem freeOcc_openAt (a : Nat) : ∀ (t : Term) (k : Nat) (x : Nat), x ∈ freeOcc (openAt k a t) → x = a ∨ x ∈ freeOcc t
  | .mk n cs, k, x, h => by
    simp only [openAt, freeOcc, List.mem_append] at h ⊢
    rcases h with h | h
    · rw [nodeSlots_map] at h
      simp only [List.map_map, List.mem_filter, List.mem_map, Function.comp] at h
      obtain ⟨⟨p, hp, rfl⟩, hb⟩ := h
      by_cases hc : (p.2 == bvar (k + p.1)) = true
      · left; simp [hc]
      · right; left
        have hc' : (p.2 == bvar (k + p.1)) = false := by simpa using hc
        simp only [hc', Bool.false_eq_true, if_false] at hb ⊢
        simp only [List.mem_filter, List.mem_map]
        exact ⟨⟨p, hp, rfl⟩, hb⟩
    · rcases freeOccL_openAtL a cs (childDepths n) k x h with h1 | h1
      · exact Or.inl h1
      · exact Or.inr (Or.inr h1)
theorem freeOccL_openAtL (a : Nat) : ∀ (ts : List Term) (ds : List Nat) (k : Nat) (x : Nat),
    x ∈ freeOccL (openAtL k a ds ts) → x = a ∨ x ∈ freeOccL ts
  | [], ds, k, x, h => by cases ds <;> simp [openAtL, freeOccL] at h
  | t :: ts, [], k, x, h => by
    simp only [openAtL, freeOccL, List.mem_append] at h ⊢
    rcases h with h | h
    · rcases freeOcc_openAt a t k x h with h1 | h1
      · exact Or.inl h1
      · exact Or.inr (Or.inl h1)
    · rcases freeOccL_openAtL a ts [] k x h with h1 | h1
      · exact Or.inl h1
      · exact Or.inr (Or.inr h1)
  | t :: ts, d :: ds, k, x, h => by
    simp only [openAtL, freeOccL, List.mem_append] at h ⊢
    rcases h with h | h
    · rcases freeOcc_openAt a t (k + d) x h with h1 | h1
      · exact Or.inl h1
      · exact Or.inr (Or.inl h1)
    · rcases freeOccL_openAtL a ts ds k x h with h1 | h1
      · exact Or.inl h1
      · exact Or.inr (Or.inr h1)
end

/-- opening several binders: a list of (index, fresh name) pairs -/
theorem evalT_openPairs : ∀ (ps : List (Nat × Nat)) (t : Term) (benv : List F) (env : Nat → F),
    (ps.map (·.2)).Nodup → (∀ p ∈ ps, isBvar p.2 = false ∧ p.2 ∉ freeOcc t) →
    evalT (ps.foldl (fun t p => openAt p.1 p.2 t) t) benv
      (ps.foldl (fun env p => upd env p.2 (benv.getD p.1 0)) env) = evalT t benv env
  | [], t, benv, env, _, _ => rfl
  | p :: rest, t, benv, env, hnd, hfr => by
    simp only [List.foldl_cons]
    simp only [List.map_cons, List.nodup_cons] at hnd
    have hp := hfr p (by simp)
    rw [evalT_openPairs rest (openAt p.1 p.2 t) benv (upd env p.2 (benv.getD p.1 0)) hnd.2]
    · exact evalT_openAt p.2 hp.1 t p.1 benv env hp.2
    · intro q hq
      have hq' := hfr q (by simp [hq])
      refine ⟨hq'.1, ?_⟩
      intro hmem
      rcases freeOcc_openAt p.2 t p.1 q.2 hmem with h1 | h1
      · apply hnd.1; rw [← h1]; exact List.mem_map.mpr ⟨q, hq, rfl⟩
      · exact hq'.2 h1

theorem openMany_eq_pairs (names : List Nat) (t : Term) :
    openMany names t = ((List.range names.length).map fun i => (i, names.getD i 0)).foldl (fun t p => openAt p.1 p.2 t) t := by
  unfold openMany
  rw [List.foldl_map]

theorem range_map_getD (names : List Nat) : (List.range names.length).map (fun i => names.getD i 0) = names := by
  apply List.ext_getElem
  · simp
  · intro i h1 h2
    simp [List.getD_eq_getElem?_getD, List.getElem?_eq_getElem h2]

/-- the environment that `openMany names` corresponds to -/
def envMany (names : List Nat) (benv : List F) (env : Nat → F) : Nat → F :=
  ((List.range names.length).map fun i => (i, names.getD i 0)).foldl (fun env p => upd env p.2 (benv.getD p.1 0)) env

theorem evalT_openMany (names : List Nat) (t : Term) (benv : List F) (env : Nat → F) (hnd : names.Nodup)
    (hfr : ∀ a ∈ names, isBvar a = false ∧ a ∉ freeOcc t) :
    evalT (openMany names t) benv (envMany names benv env) = evalT t benv env := by
  rw [openMany_eq_pairs]
  apply evalT_openPairs
  · rw [List.map_map]
    have : ((fun (p : Nat × Nat) => p.2) ∘ fun i => (i, names.getD i 0)) = fun i => names.getD i 0 := rfl
    rw [this, range_map_getD]; exact hnd
  · intro p hp
    obtain ⟨i, hi, rfl⟩ := List.mem_map.mp hp
    apply hfr
    simp only
    have hi' : i < names.length := by simpa using hi
    rw [List.getD_eq_getElem?_getD, List.getElem?_eq_getElem hi']
    exact List.getElem_mem hi'

/-! ### the model respects the specification -/

/-- every asserted equation holds in the model, under every binder stack and environment -/
def Holds (E : List (Term × Term)) : Prop := ∀ e ∈ E, ∀ benv env, evalT e.1 benv env = evalT e.2 benv env

mutual
theorem cong_evalT {E : List (Term × Term)} (hE : Holds E) : ∀ {t u : Term}, Cong E t u →
    ∀ benv env, evalT t benv env = evalT u benv env
  | _, _, .ax hm => hE _ hm
  | _, _, .refl _ => fun _ _ => rfl
  | _, _, .symm c => fun benv env => (cong_evalT hE c benv env).symm
  | _, _, .trans c d => fun benv env => (cong_evalT hE c benv env).trans (cong_evalT hE d benv env)
  | _, _, .ren σ hn _ c => fun benv env => by
    rw [evalT_mapFree σ hn, evalT_mapFree σ hn]; exact cong_evalT hE c benv _
  | _, _, .congr n cs cs' names hf cl => fun benv env => by
    simp only [evalT]
    split
    · apply evalNode_congr n n rfl rfl _ _ rfl
      intro i bs _
      refine congL_evalT hE cl hf.1 ?_ i (bs ++ benv) env
      intro a ha
      obtain ⟨h1, h2, h3⟩ := hf.2 a ha
      exact ⟨h1, fun h => h2 (by simp only [freeOcc, List.mem_append]; exact Or.inr h),
        fun h => h3 (by simp only [freeOcc, List.mem_append]; exact Or.inr h)⟩
    · rfl
theorem congL_evalT {E : List (Term × Term)} (hE : Holds E) : ∀ {names ds : List Nat} {ts us : List Term},
    CongL E names ds ts us → names.Nodup →
    (∀ a ∈ names, isBvar a = false ∧ a ∉ freeOccL ts ∧ a ∉ freeOccL us) →
    ∀ (i : Nat) (benv : List F) (env : Nat → F),
      ((evalTL ts).getD i (fun _ _ => 0)) benv env = ((evalTL us).getD i (fun _ _ => 0)) benv env
  | _, _, _, _, .nil _, _, _, i, benv, env => by simp [evalTL]
  | names, _, _, _, .cons (t := t) (u := u) (d := d) hd c cl, hnd, hfr, 0, benv, env => by
    simp only [evalTL, List.getD_cons_zero]
    have hnd' : (names.take d).Nodup := hnd.sublist (List.take_sublist d names)
    have hmem : ∀ a ∈ names.take d, a ∈ names := fun a ha => List.mem_of_mem_take ha
    have h1 := evalT_openMany (names.take d) t benv env hnd'
      (fun a ha => ⟨(hfr a (hmem a ha)).1, fun h => (hfr a (hmem a ha)).2.1 (by simp only [freeOccL, List.mem_append]; exact Or.inl h)⟩)
    have h2 := evalT_openMany (names.take d) u benv env hnd'
      (fun a ha => ⟨(hfr a (hmem a ha)).1, fun h => (hfr a (hmem a ha)).2.2 (by simp only [freeOccL, List.mem_append]; exact Or.inl h)⟩)
    rw [← h1, ← h2]
    exact cong_evalT hE c benv _
  | names, _, _, _, .cons hd c cl, hnd, hfr, i + 1, benv, env => by
    simp only [evalTL, List.getD_cons_succ]
    exact congL_evalT hE cl hnd
      (fun a ha => ⟨(hfr a ha).1, fun h => (hfr a ha).2.1 (by simp only [freeOccL, List.mem_append]; exact Or.inr h),
        fun h => (hfr a ha).2.2 (by simp only [freeOccL, List.mem_append]; exact Or.inr h)⟩) i benv env
end


/-! ### the value depends only on the free names -/

mutual
theorem evalT_ext : ∀ (t : Term) (benv : List F) (env env' : Nat → F), (∀ x ∈ freeOcc t, env x = env' x) →
    evalT t benv env = evalT t benv env'
  | .mk n cs, benv, env, env', h => by
    simp only [evalT]
    split
    · apply evalNode_congr n n rfl rfl
      · unfold nodeVals
        apply List.map_congr_left
        intro p hp
        unfold slotVal
        by_cases hb : isBvar p.2 = true
        · simp [hb]
        · have hb' : isBvar p.2 = false := by simpa using hb
          simp only [hb', Bool.false_eq_true, if_false]
          apply h
          simp only [freeOcc, List.mem_append, List.mem_filter, List.mem_map]
          left
          exact ⟨⟨p, hp, rfl⟩, by simp [hb']⟩
      · intro i bs _
        exact evalTL_ext cs i (bs ++ benv) env env'
          (fun x hx => h x (by simp only [freeOcc, List.mem_append]; exact Or.inr hx))
    · rfl
theorem evalTL_ext : ∀ (ts : List Term) (i : Nat) (benv : List F) (env env' : Nat → F),
    (∀ x ∈ freeOccL ts, env x = env' x) →
    ((evalTL ts).getD i (fun _ _ => 0)) benv env = ((evalTL ts).getD i (fun _ _ => 0)) benv env'
  | [], i, benv, env, env', _ => by simp [evalTL]
  | t :: ts, 0, benv, env, env', h => by
    simp only [evalTL, List.getD_cons_zero]
    exact evalT_ext t benv env env' (fun x hx => h x (by simp only [freeOccL, List.mem_append]; exact Or.inl hx))
  | t :: ts, i + 1, benv, env, env', h => by
    simp only [evalTL, List.getD_cons_succ]
    exact evalTL_ext ts i benv env env' (fun x hx => h x (by simp only [freeOccL, List.mem_append]; exact Or.inr hx))
end

end SV.Eval
