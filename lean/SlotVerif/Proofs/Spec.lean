import SlotVerif.Model.Spec
/-! Algebraic facts about `Cong`: monotone in the equations, independent of their order and
orientation. -/
namespace SV
open Term

mutual
/-- if every asserted equation of `E` is derivable from `E'`, so is everything `E` derives -/
theorem cong_lift {E E' : List (Term × Term)} (h : ∀ l r, (l, r) ∈ E → Cong E' l r) :
    ∀ {t u : Term}, Cong E t u → Cong E' t u
  | _, _, .ax hm => h _ _ hm
  | _, _, .refl t => .refl t
  | _, _, .symm c => .symm (cong_lift h c)
  | _, _, .trans c d => .trans (cong_lift h c) (cong_lift h d)
  | _, _, .ren σ hn hi c => .ren σ hn hi (cong_lift h c)
  | _, _, .congr n cs cs' names hf cl => .congr n cs cs' names hf (congL_lift h cl)
theorem congL_lift {E E' : List (Term × Term)} (h : ∀ l r, (l, r) ∈ E → Cong E' l r) :
    ∀ {names ds : List Nat} {ts us : List Term}, CongL E names ds ts us → CongL E' names ds ts us
  | _, _, _, _, .nil names => .nil names
  | _, _, _, _, .cons hd c cl => .cons hd (cong_lift h c) (congL_lift h cl)
end

/-- more equations, more equalities (never fewer) -/
theorem cong_mono {E E' : List (Term × Term)} (h : ∀ e ∈ E, e ∈ E') {t u : Term}
    (c : Cong E t u) : Cong E' t u :=
  cong_lift (fun l r hm => Cong.ax (h (l, r) hm)) c

/-- the derivable equalities depend only on the *set* of equations … -/
theorem cong_set_eq {E E' : List (Term × Term)} (h : ∀ e, e ∈ E ↔ e ∈ E') (t u : Term) :
    Cong E t u ↔ Cong E' t u :=
  ⟨cong_mono (fun e he => (h e).mp he), cong_mono (fun e he => (h e).mpr he)⟩

/-- … in particular not on their order … -/
theorem cong_perm_eqs {E E' : List (Term × Term)} (h : E.Perm E') (t u : Term) :
    Cong E t u ↔ Cong E' t u :=
  cong_set_eq (fun _ => h.mem_iff) t u

/-- … nor on the orientation of any of them -/
theorem cong_flip (E : List (Term × Term)) (l r t u : Term) :
    Cong ((l, r) :: E) t u ↔ Cong ((r, l) :: E) t u := by
  constructor
  · apply cong_lift
    intro a b hm
    simp at hm
    rcases hm with ⟨h1, h2⟩ | hm
    · subst h1; subst h2; exact Cong.symm (Cong.ax (by simp))
    · exact Cong.ax (by simp [hm])
  · apply cong_lift
    intro a b hm
    simp at hm
    rcases hm with ⟨h1, h2⟩ | hm
    · subst h1; subst h2; exact Cong.symm (Cong.ax (by simp))
    · exact Cong.ax (by simp [hm])

/-- asserting an equation twice adds nothing -/
theorem cong_dup (E : List (Term × Term)) (e : Term × Term) (t u : Term) :
    Cong (e :: e :: E) t u ↔ Cong (e :: E) t u :=
  cong_set_eq (fun x => by simp) t u

/-- a redundant slot stays redundant when equations are added -/
theorem redundant_mono {E E' : List (Term × Term)} (h : ∀ e ∈ E, e ∈ E') {t : Term} {s : Nat}
    (hr : Redundant E t s) : Redundant E' t s :=
  ⟨hr.1, fun s' h1 h2 => cong_mono h (hr.2 s' h1 h2)⟩

/-- a symmetry stays a symmetry when equations are added -/
theorem isSym_mono {E E' : List (Term × Term)} (h : ∀ e ∈ E, e ∈ E') {t : Term} {π : Nat → Nat}
    (hs : IsSym E t π) : IsSym E' t π :=
  ⟨hs.1, hs.2.1, hs.2.2.1, cong_mono h hs.2.2.2⟩

end SV
