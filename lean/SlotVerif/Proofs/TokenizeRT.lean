import SlotVerif.Model.Parse
import SlotVerif.Proofs.ParseRT
/-!
The character level of the round trip (C18): the text `Display` prints for a pattern tokenizes to
the token sequence `RT.toksOf` that `parse_printed_tokens` parses back.  `Toks` is a fuel-free
relational description of the tokenizer; `tokenize_of_toks` shows the tokenizer computes it with the
fuel `Pattern::parse` gives it, `toks_print` derives it for printed patterns.
-/
namespace SV.Parse.RT
open SV SV.Parse

/-- one-character tokens -/
def punct : Char → Option Tok
  | '(' => some .lparen
  | ')' => some .rparen
  | '[' => some .lbracket
  | ']' => some .rbracket
  | _ => none

/-- the first character of an identifier token: not one the tokenizer dispatches on earlier -/
def identStart (c : Char) (r : List Char) : Prop :=
  punct c = none ∧ c ≠ '?' ∧ c ≠ '$' ∧ ¬ (c = ':' ∧ ∃ r', r = '=' :: r')

/-- fuel-free description of `tokenize` -/
inductive Toks : List Char → Slot.Tab → List Tok → Slot.Tab → Prop
  | done {s t} : s.dropWhile isWs = [] → Toks s t [] t
  | punct {s t c r tok l t'} : s.dropWhile isWs = c :: r → punct c = some tok → Toks r t l t' → Toks s t (tok :: l) t'
  | colonEq {s t r l t'} : s.dropWhile isWs = ':' :: '=' :: r → Toks r t l t' → Toks s t (.colonEq :: l) t'
  | pvar {s t r a r' l t'} : s.dropWhile isWs = '?' :: r → cropIdent r = some (a, r') → Toks r' t l t' →
      Toks s t (.pvar (String.ofList a) :: l) t'
  | slot {s t r a r' c t1 l t'} : s.dropWhile isWs = '$' :: r → cropIdent r = some (a, r') →
      Slot.named t a = (.ok c, t1) → Toks r' t1 l t' → Toks s t (.slot c :: l) t'
  | ident {s t c r a r' l t'} : s.dropWhile isWs = c :: r → identStart c r → cropIdent (c :: r) = some (a, r') →
      Toks r' t l t' → Toks s t (.ident (String.ofList a) :: l) t'

theorem length_dropWhile_le {α} (p : α → Bool) : ∀ (l : List α), (l.dropWhile p).length ≤ l.length
  | [] => by simp
  | a :: t => by
    simp only [List.dropWhile_cons]
    split
    · have := length_dropWhile_le p t; simp only [List.length_cons]; omega
    · exact Nat.le_refl _

theorem cropIdent_length {s a r : List Char} (h : cropIdent s = some (a, r)) : r.length ≤ s.length := by
  unfold cropIdent at h
  simp only at h
  split at h
  · simp at h
  · simp only [Option.some.injEq, Prod.mk.injEq] at h
    rw [← h.2]; exact length_dropWhile_le _ _

theorem cropIdent_lt {s a r : List Char} (h : cropIdent s = some (a, r)) : r.length < s.length := by
  unfold cropIdent at h
  simp only at h
  split at h
  · simp at h
  · rename_i hne
    simp only [Option.some.injEq, Prod.mk.injEq] at h
    have hsum : (s.takeWhile identChar).length + (s.dropWhile identChar).length = s.length := by
      rw [← List.length_append, List.takeWhile_append_dropWhile]
    have hpos : 0 < (s.takeWhile identChar).length := by
      cases hh : s.takeWhile identChar with
      | nil => rw [hh] at hne; simp at hne
      | cons _ _ => simp
    rw [← h.2]; omega

theorem cont_ok {fuel : Nat} {r : List Char} {t t' : Slot.Tab} {l : List Tok} (tok : Tok)
    (h : tokenize fuel r t = .ok (l, t')) : tokenize.cont fuel r t tok = .ok (tok :: l, t') := by
  unfold tokenize.cont; rw [h]

/-- **the tokenizer computes `Toks`** with any fuel above the length of the text -/
theorem tokenize_of_toks {s : List Char} {t : Slot.Tab} {l : List Tok} {t' : Slot.Tab} (h : Toks s t l t') :
    ∀ fuel, s.length + 1 ≤ fuel → tokenize fuel s t = .ok (l, t') := by
  induction h with
  | done h0 =>
    intro fuel hf
    cases fuel with
    | zero => omega
    | succ f => simp only [tokenize, h0]
  | @punct s t c r tok l t' h0 hp _ ih =>
    intro fuel hf
    cases fuel with
    | zero => omega
    | succ f =>
      have hlen : r.length + 1 ≤ f := by
        have := length_dropWhile_le isWs s; rw [h0] at this; simp only [List.length_cons] at this; omega
      have := cont_ok tok (ih f hlen)
      unfold punct at hp
      split at hp <;> simp only [Option.some.injEq, reduceCtorEq] at hp <;> subst hp <;> simp only [tokenize, h0] <;> exact this
  | @colonEq s t r l t' h0 _ ih =>
    intro fuel hf
    cases fuel with
    | zero => omega
    | succ f =>
      have hlen : r.length + 1 ≤ f := by
        have := length_dropWhile_le isWs s; rw [h0] at this; simp only [List.length_cons] at this; omega
      simp only [tokenize, h0]
      exact cont_ok _ (ih f hlen)
  | @pvar s t r a r' l t' h0 hc _ ih =>
    intro fuel hf
    cases fuel with
    | zero => omega
    | succ f =>
      have hlen : r'.length + 1 ≤ f := by
        have := length_dropWhile_le isWs s; rw [h0] at this; simp only [List.length_cons] at this
        have := cropIdent_length hc; omega
      simp only [tokenize, h0, hc]
      exact cont_ok _ (ih f hlen)
  | @slot s t r a r' c t1 l t' h0 hc hn _ ih =>
    intro fuel hf
    cases fuel with
    | zero => omega
    | succ f =>
      have hlen : r'.length + 1 ≤ f := by
        have := length_dropWhile_le isWs s; rw [h0] at this; simp only [List.length_cons] at this
        have := cropIdent_length hc; omega
      simp only [tokenize, h0, hc, hn]
      exact cont_ok _ (ih f hlen)
  | @ident s t c r a r' l t' h0 hs hc _ ih =>
    intro fuel hf
    cases fuel with
    | zero => omega
    | succ f =>
      have hlen : r'.length + 1 ≤ f := by
        have := length_dropWhile_le isWs s; rw [h0] at this; simp only [List.length_cons] at this
        have := cropIdent_lt hc; simp only [List.length_cons] at this; omega
      obtain ⟨h1, h2, h3, h4⟩ := hs
      have := cont_ok (.ident (String.ofList a)) (ih f hlen)
      simp only [tokenize, h0]
      split
      · rename_i heq; simp at heq
      · rename_i heq; simp only [List.cons.injEq] at heq; rw [heq.1] at h1; simp [punct] at h1
      · rename_i heq; simp only [List.cons.injEq] at heq; rw [heq.1] at h1; simp [punct] at h1
      · rename_i heq; simp only [List.cons.injEq] at heq; rw [heq.1] at h1; simp [punct] at h1
      · rename_i heq; simp only [List.cons.injEq] at heq; rw [heq.1] at h1; simp [punct] at h1
      · rename_i heq; simp only [List.cons.injEq] at heq; exact absurd ⟨heq.1, _, heq.2⟩ h4
      · rename_i heq; simp only [List.cons.injEq] at heq; exact absurd heq.1 h2
      · rename_i heq; simp only [List.cons.injEq] at heq; exact absurd heq.1 h3
      · rename_i c' r'' _ _ _ _ _ _ _ heq
        simp only [List.cons.injEq] at heq
        obtain ⟨e1, e2⟩ := heq
        subst e1 e2
        simp only [hc]
        exact this

/-! ### the printed text, as characters -/

def slotC (t : Slot.Tab) (c : Nat) : List Char :=
  match Slot.display t c with
  | some txt => '$' :: txt
  | none => "$<panic>".toList

def fillC (t : Slot.Tab) : List SynElem → List (List Char) → List (List Char)
  | [], _ => []
  | .app _ :: rest, c :: cs => c :: fillC t rest cs
  | .app _ :: rest, [] => "<panic>".toList :: fillC t rest []
  | .slot c :: rest, cs => slotC t c :: fillC t rest cs
  | .str s :: rest, cs => s.toList :: fillC t rest cs

/-- `" ".intercalate` on character lists -/
def joinSp : List (List Char) → List Char
  | [] => []
  | [a] => a
  | a :: b :: t => a ++ ' ' :: joinSp (b :: t)

mutual
def printC (sig : Sig) (t : Slot.Tab) : Pat → List Char
  | .pvar v => '?' :: v.toList
  | .subst b x y => printC sig t b ++ '[' :: (printC sig t x ++ (' ' :: ':' :: '=' :: ' ' :: (printC sig t y ++ [']'])))
  | .enode n cs =>
    if (Node.toSyntax sig n).length ≠ 1 then '(' :: (joinSp (fillC t (Node.toSyntax sig n) (printCs sig t cs)) ++ [')'])
    else joinSp (fillC t (Node.toSyntax sig n) (printCs sig t cs))
def printCs (sig : Sig) (t : Slot.Tab) : List Pat → List (List Char)
  | [] => []
  | p :: ps => printC sig t p :: printCs sig t ps
end

theorem intercalate_eq_joinSp : ∀ (l : List (List Char)), [' '].intercalate l = joinSp l
  | [] => rfl
  | [a] => by simp [List.intercalate, joinSp]
  | a :: b :: t => by
    have ih := intercalate_eq_joinSp (b :: t)
    simp only [List.intercalate, List.intersperse_cons_cons, List.flatten_cons, joinSp] at ih ⊢
    rw [ih]; simp

theorem fillElems_toList (t : Slot.Tab) : ∀ (l : List SynElem) (cs : List String),
    (fillElems t l cs).map String.toList = fillC t l (cs.map String.toList)
  | [], _ => rfl
  | .app _ :: rest, c :: cs => by simp [fillElems, fillC, fillElems_toList t rest cs]
  | .app _ :: rest, [] => by
    have := fillElems_toList t rest []
    simp only [List.map_nil] at this
    simp [fillElems, fillC, this]
  | .slot c :: rest, cs => by
    simp only [fillElems, fillC, List.map_cons, fillElems_toList t rest cs]
    congr 1
    unfold showSlotTxt slotC
    cases Slot.display t c with
    | none => rfl
    | some txt => simp [String.toList_append]
  | .str s :: rest, cs => by simp [fillElems, fillC, fillElems_toList t rest cs]

mutual
theorem printPat_toList (sig : Sig) (t : Slot.Tab) : ∀ (p : Pat), (printPat sig t p).toList = printC sig t p
  | .pvar v => by simp [printPat, printC, String.toList_append]
  | .subst b x y => by
    simp only [printPat, printC, String.toList_append, printPat_toList sig t b, printPat_toList sig t x,
      printPat_toList sig t y]
    simp
  | .enode n cs => by
    simp only [printPat, printC]
    have hb : (" ".intercalate (fillElems t (Node.toSyntax sig n) (printPats sig t cs))).toList =
        joinSp (fillC t (Node.toSyntax sig n) (printCs sig t cs)) := by
      rw [String.toList_intercalate, fillElems_toList, printPats_toList sig t cs]
      exact intercalate_eq_joinSp _
    split
    · simp only [String.toList_append, hb]; simp
    · exact hb
theorem printPats_toList (sig : Sig) (t : Slot.Tab) : ∀ (ps : List Pat),
    (printPats sig t ps).map String.toList = printCs sig t ps
  | [] => rfl
  | p :: ps => by simp [printPats, printCs, printPat_toList sig t p, printPats_toList sig t ps]
end

/-! ### printed patterns tokenize to `toksOf` -/

/-- what may follow an identifier-like token: the end, or a character that ends the identifier -/
def Delim (r : List Char) : Prop := ∀ c r', r = c :: r' → identChar c = false

/-- a text that prints as one identifier token -/
structure IdentOK (s : String) : Prop where
  ne : s.toList ≠ []
  all : ∀ c ∈ s.toList, identChar c = true
  q : ∀ r, s.toList ≠ '?' :: r
  d : ∀ r, s.toList ≠ '$' :: r
  ce : ∀ r, s.toList ≠ ':' :: '=' :: r

/-- a pattern-variable name -/
structure PvarOK (v : String) : Prop where
  ne : v.toList ≠ []
  all : ∀ c ∈ v.toList, identChar c = true

/-- a slot the table can print, whose printed name reads back as the same slot without changing the table
(C17 `display_named` for every slot issued so far) and consists of identifier characters -/
structure SlotOK (t : Slot.Tab) (c : Nat) : Prop where
  ex : ∃ txt, Slot.display t c = some txt ∧ Slot.named t txt = (.ok c, t) ∧ txt ≠ [] ∧ ∀ x ∈ txt, identChar x = true

theorem isWs_of_not_ident_false {c : Char} (h : identChar c = true) : isWs c = false := by
  unfold identChar at h
  cases hw : isWs c with
  | false => rfl
  | true => rw [hw] at h; simp at h

theorem takeWhile_ident (a r : List Char) (ha : ∀ c ∈ a, identChar c = true) (hr : Delim r) :
    (a ++ r).takeWhile identChar = a ∧ (a ++ r).dropWhile identChar = r := by
  induction a with
  | nil =>
    cases r with
    | nil => simp
    | cons c r' => have := hr c r' rfl; simp [this]
  | cons x t ih =>
    have hx := ha x (by simp)
    have := ih (fun c hc => ha c (by simp [hc]))
    simp [List.takeWhile_cons, List.dropWhile_cons, hx, this]

theorem cropIdent_append (a r : List Char) (hne : a ≠ []) (ha : ∀ c ∈ a, identChar c = true) (hr : Delim r) :
    cropIdent (a ++ r) = some (a, r) := by
  unfold cropIdent
  obtain ⟨h1, h2⟩ := takeWhile_ident a r ha hr
  simp only [h1, h2]
  cases a with
  | nil => exact absurd rfl hne
  | cons _ _ => simp

/-- leading white space is invisible to the tokenizer -/
theorem toks_ws {s : List Char} {t : Slot.Tab} {l : List Tok} {t' : Slot.Tab} :
    Toks (' ' :: s) t l t' ↔ Toks s t l t' := by
  have hd : (' ' :: s).dropWhile isWs = s.dropWhile isWs := by
    rw [List.dropWhile_cons]; simp [isWs]
  constructor
  · intro h
    cases h with
    | done h0 => exact .done (hd ▸ h0)
    | punct h0 hp hr => exact .punct (hd ▸ h0) hp hr
    | colonEq h0 hr => exact .colonEq (hd ▸ h0) hr
    | pvar h0 hc hr => exact .pvar (hd ▸ h0) hc hr
    | slot h0 hc hn hr => exact .slot (hd ▸ h0) hc hn hr
    | ident h0 hs hc hr => exact .ident (hd ▸ h0) hs hc hr
  · intro h
    cases h with
    | done h0 => exact .done (hd.symm ▸ h0)
    | punct h0 hp hr => exact .punct (hd.symm ▸ h0) hp hr
    | colonEq h0 hr => exact .colonEq (hd.symm ▸ h0) hr
    | pvar h0 hc hr => exact .pvar (hd.symm ▸ h0) hc hr
    | slot h0 hc hn hr => exact .slot (hd.symm ▸ h0) hc hn hr
    | ident h0 hs hc hr => exact .ident (hd.symm ▸ h0) hs hc hr

theorem dropWhile_ws_cons {c : Char} (r : List Char) (h : isWs c = false) : (c :: r).dropWhile isWs = c :: r := by
  rw [List.dropWhile_cons]; simp [h]

/-- an identifier text followed by a delimiter is one `ident` token -/
theorem toks_ident {s : String} (hs : IdentOK s) {R : List Char} {t : Slot.Tab} {L : List Tok} (hR : Delim R)
    (h : Toks R t L t) : Toks (s.toList ++ R) t (.ident s :: L) t := by
  cases hl : s.toList with
  | nil => exact absurd hl hs.ne
  | cons c r0 =>
    have hc : identChar c = true := hs.all c (by rw [hl]; simp)
    have hcrop := cropIdent_append s.toList R hs.ne hs.all hR
    rw [hl] at hcrop
    have hstart : identStart c (r0 ++ R) := by
      refine ⟨?_, ?_, ?_, ?_⟩
      · unfold identChar at hc
        unfold punct
        split <;> simp_all
      · intro he; exact hs.q r0 (by rw [hl, he])
      · intro he; exact hs.d r0 (by rw [hl, he])
      · rintro ⟨he, r', hr'⟩
        cases r0 with
        | nil =>
          simp only [List.nil_append] at hr'
          have := hR '=' r' hr'
          simp [identChar, isWs] at this
        | cons y r1 =>
          simp only [List.cons_append, List.cons.injEq] at hr'
          exact hs.ce r1 (by rw [hl, he, hr'.1])
    have := Toks.ident (s := c :: r0 ++ R) (dropWhile_ws_cons _ (isWs_of_not_ident_false hc)) hstart hcrop h
    rw [← hl, String.ofList_toList] at this
    simpa [hl] using this

theorem toks_pvar {v : String} (hv : PvarOK v) {R : List Char} {t : Slot.Tab} {L : List Tok} (hR : Delim R)
    (h : Toks R t L t) : Toks ('?' :: v.toList ++ R) t (.pvar v :: L) t := by
  have hcrop := cropIdent_append v.toList R hv.ne hv.all hR
  have := Toks.pvar (s := '?' :: v.toList ++ R) (dropWhile_ws_cons _ (by decide)) hcrop h
  rwa [String.ofList_toList] at this

theorem toks_slot {t : Slot.Tab} {c : Nat} (hc : SlotOK t c) {R : List Char} {L : List Tok} (hR : Delim R)
    (h : Toks R t L t) : Toks (slotC t c ++ R) t (.slot c :: L) t := by
  obtain ⟨txt, hd, hn, hne, hall⟩ := hc.ex
  unfold slotC
  rw [hd]
  have hcrop := cropIdent_append txt R hne hall hR
  exact Toks.slot (s := '$' :: txt ++ R) (dropWhile_ws_cons _ (by decide)) hcrop hn h

theorem toks_punct {c : Char} {tok : Tok} (hp : punct c = some tok) {R : List Char} {t : Slot.Tab} {L : List Tok}
    (h : Toks R t L t) : Toks (c :: R) t (tok :: L) t := by
  have hw : isWs c = false := by
    unfold punct at hp
    split at hp <;> first | decide | simp at hp
  exact Toks.punct (dropWhile_ws_cons _ hw) hp h

theorem delim_cons {c : Char} (h : identChar c = false) (r : List Char) : Delim (c :: r) := by
  intro c' r' he
  simp only [List.cons.injEq] at he
  rw [← he.1]; exact h

theorem delim_nil : Delim [] := by intro c r' h; simp at h

def appCount : List SynElem → Nat
  | [] => 0
  | .app _ :: r => appCount r + 1
  | _ :: r => appCount r

mutual
/-- everything the pattern prints is tokenizable as intended: operator names and payloads are identifier texts,
pattern variables too, slots are known to the table, a node that prints without parentheses is a bare payload /
operator, and every `AppliedId` position has its child -/
def CharOK (sig : Sig) (t : Slot.Tab) : Pat → Prop
  | .pvar v => PvarOK v
  | .subst b x y => CharOK sig t b ∧ CharOK sig t x ∧ CharOK sig t y
  | .enode n cs =>
    (∀ s, SynElem.str s ∈ Node.toSyntax sig n → IdentOK s) ∧
    (∀ c, SynElem.slot c ∈ Node.toSyntax sig n → SlotOK t c) ∧
    ((Node.toSyntax sig n).length = 1 → ∃ s, Node.toSyntax sig n = [.str s]) ∧
    appCount (Node.toSyntax sig n) = cs.length ∧ CharOKL sig t cs
def CharOKL (sig : Sig) (t : Slot.Tab) : List Pat → Prop
  | [] => True
  | p :: ps => CharOK sig t p ∧ CharOKL sig t ps
end

/-- the rest of a space-separated list, with its leading separator -/
def tailC : List (List Char) → List Char
  | [] => []
  | a :: t => ' ' :: (a ++ tailC t)

theorem joinSp_cons (a : List Char) (t : List (List Char)) : joinSp (a :: t) = a ++ tailC t := by
  induction t generalizing a with
  | nil => simp [joinSp, tailC]
  | cons b t ih => simp only [joinSp, tailC, ih b]

theorem delim_tailC (ys : List (List Char)) (R : List Char) : Delim (tailC ys ++ ')' :: R) := by
  cases ys with
  | nil => exact delim_cons (by decide) _
  | cons a t => exact delim_cons (by decide) _

/-- the tokens of the elements of a node, given the induction hypothesis for its children -/
theorem toks_elems (sig : Sig) (t : Slot.Tab) : ∀ (l : List SynElem) (cs : List Pat),
    (∀ s, SynElem.str s ∈ l → IdentOK s) → (∀ c, SynElem.slot c ∈ l → SlotOK t c) → appCount l ≤ cs.length →
    (∀ p ∈ cs, ∀ (R : List Char) (L : List Tok), Delim R → Toks R t L t → Toks (printC sig t p ++ R) t (toksOf sig p ++ L) t) →
    ∀ (R : List Char) (L : List Tok), Toks R t L t →
      Toks (tailC (fillC t l (printCs sig t cs)) ++ ')' :: R) t (fillToks l (toksOfL sig cs) ++ .rparen :: L) t
  | [], cs, _, _, _, _, R, L, h => by
    simp only [fillC, tailC, fillToks, List.nil_append]
    exact toks_punct (by rfl) h
  | .str s :: rest, cs, hs, hc, ha, ih, R, L, h => by
    simp only [fillC, tailC, fillToks, List.cons_append, List.append_assoc]
    rw [toks_ws]
    have hrec := toks_elems sig t rest cs (fun s' hm => hs s' (by simp [hm])) (fun c hm => hc c (by simp [hm]))
      (by simpa [appCount] using ha) ih R L h
    exact toks_ident (hs s (by simp)) (delim_tailC _ R) hrec
  | .slot c :: rest, cs, hs, hc, ha, ih, R, L, h => by
    simp only [fillC, tailC, fillToks, List.cons_append, List.append_assoc]
    rw [toks_ws]
    have hrec := toks_elems sig t rest cs (fun s' hm => hs s' (by simp [hm])) (fun c' hm => hc c' (by simp [hm]))
      (by simpa [appCount] using ha) ih R L h
    exact toks_slot (hc c (by simp)) (delim_tailC _ R) hrec
  | .app a :: rest, [], _, _, ha, _, _, _, _ => by simp [appCount] at ha
  | .app a :: rest, p :: ps, hs, hc, ha, ih, R, L, h => by
    simp only [printCs, toksOfL, fillC, tailC, fillToks, List.cons_append, List.append_assoc]
    rw [toks_ws]
    have hrec := toks_elems sig t rest ps (fun s' hm => hs s' (by simp [hm])) (fun c' hm => hc c' (by simp [hm]))
      (by simp only [appCount, List.length_cons] at ha; omega) (fun q hq => ih q (by simp [hq])) R L h
    exact ih p (by simp) _ _ (delim_tailC _ R) hrec

theorem toksOf_enode (sig : Sig) (n : Node) (cs : List Pat) (h : ∀ s, Node.toSyntax sig n ≠ [.str s]) :
    toksOf sig (.enode n cs) = .lparen :: (fillToks (Node.toSyntax sig n) (toksOfL sig cs) ++ [.rparen]) := by
  rw [toksOf]
  split
  · rename_i s hs; exact absurd hs (h s)
  · rfl

mutual
/-- **the printed text of a pattern tokenizes to its token sequence** (followed by whatever the rest tokenizes to) -/
theorem toks_print (sig : Sig) (t : Slot.Tab) : ∀ (p : Pat), CharOK sig t p → ∀ (R : List Char) (L : List Tok), Delim R →
    Toks R t L t → Toks (printC sig t p ++ R) t (toksOf sig p ++ L) t
  | .pvar v, hp, R, L, hR, h => by
    simp only [printC, toksOf, List.cons_append, List.nil_append]
    exact toks_pvar hp hR h
  | .subst b x y, hp, R, L, hR, h => by
    obtain ⟨hb, hx, hy⟩ := hp
    simp only [printC, toksOf, List.append_assoc, List.cons_append, List.nil_append]
    apply toks_print sig t b hb _ _ (delim_cons (by decide) _)
    apply toks_punct (by rfl)
    apply toks_print sig t x hx _ _ (delim_cons (by decide) _)
    rw [toks_ws]
    refine Toks.colonEq (r := ' ' :: (printC sig t y ++ ']' :: R)) (dropWhile_ws_cons _ (by decide)) ?_
    rw [toks_ws]
    apply toks_print sig t y hy _ _ (delim_cons (by decide) _)
    exact toks_punct (by rfl) h
  | .enode n cs, hp, R, L, hR, h => by
    obtain ⟨hs, hc, hone, hcount, hkids⟩ := hp
    have ih : ∀ p ∈ cs, ∀ (R : List Char) (L : List Tok), Delim R → Toks R t L t →
        Toks (printC sig t p ++ R) t (toksOf sig p ++ L) t := toks_printL sig t cs hkids
    by_cases hlen : (Node.toSyntax sig n).length = 1
    · obtain ⟨s, hsyn⟩ := hone hlen
      have hpc : printC sig t (.enode n cs) = s.toList := by
        rw [printC]; simp [hsyn, fillC, joinSp]
      have htk : toksOf sig (.enode n cs) = [.ident s] := by
        rw [toksOf]; simp [hsyn]
      rw [hpc, htk]
      exact toks_ident (hs s (by rw [hsyn]; simp)) hR h
    · have hne : ∀ s, Node.toSyntax sig n ≠ [.str s] := fun s he => hlen (by rw [he]; rfl)
      rw [toksOf_enode sig n cs hne]
      have hpc : printC sig t (.enode n cs) =
          '(' :: (joinSp (fillC t (Node.toSyntax sig n) (printCs sig t cs)) ++ [')']) := by
        rw [printC]; simp [hlen]
      rw [hpc]
      simp only [List.cons_append, List.append_assoc, List.nil_append]
      apply toks_punct (by rfl)
      have hall := toks_elems sig t (Node.toSyntax sig n) cs hs hc (by omega) ih R L h
      -- drop the leading separator of `tailC`
      cases hf : fillC t (Node.toSyntax sig n) (printCs sig t cs) with
      | nil =>
        rw [hf] at hall
        simpa [joinSp, tailC] using hall
      | cons a rest =>
        rw [hf] at hall
        rw [joinSp_cons]
        simp only [tailC, List.cons_append, List.append_assoc] at hall ⊢
        exact toks_ws.mp hall
theorem toks_printL (sig : Sig) (t : Slot.Tab) : ∀ (cs : List Pat), CharOKL sig t cs → ∀ p ∈ cs,
    ∀ (R : List Char) (L : List Tok), Delim R → Toks R t L t → Toks (printC sig t p ++ R) t (toksOf sig p ++ L) t
  | [], _, p, hp => by simp at hp
  | q :: qs, hk, p, hp => by
    obtain ⟨h1, h2⟩ := hk
    simp only [List.mem_cons] at hp
    by_cases he : p = q
    · subst he; exact toks_print sig t p h1
    · exact toks_printL sig t qs h2 p (by rcases hp with h | h; exact absurd h he; exact h)
end

/-- **`tokenize(print p) = toksOf p`**, with the fuel `Pattern::parse` uses and the slot table unchanged -/
theorem tokenize_print (sig : Sig) (t : Slot.Tab) (p : Pat) (h : CharOK sig t p) :
    tokenize ((printPat sig t p).toList.length + 1) (printPat sig t p).toList t = .ok (toksOf sig p, t) := by
  rw [printPat_toList]
  have := toks_print sig t p h [] [] delim_nil (.done rfl)
  simp only [List.append_nil] at this
  exact tokenize_of_toks this _ (Nat.le_refl _)

end SV.Parse.RT
