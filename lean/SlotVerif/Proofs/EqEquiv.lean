import SlotVerif.Proofs.ClassEq
/-!
# `EGraph::eq` is an equivalence relation on every consistent class

The snapshot model of `eq` (`Snap.eq`: same leader, same set of argument names, `A ∘ B⁻¹` in the class group) is
reflexive, symmetric and transitive on invocations whose canonical form embeds the class slots injectively — for every
state, every class whose generators are permutations of its slots, every number of slots.  From the stabilizer-chain
theorem `contains_new` (membership = generated subgroup) and the algebra of embeddings below.
-/
namespace SV.Snap
open SV SV.SlotMap SV.Grp

/-- `m` is defined exactly on `Ω` and injective (the canonical form of a well-formed invocation of a class with slots `Ω`) -/
structure IsEmb (Ω : List Nat) (m : SlotMap) : Prop where
  wf : WF m
  tot : ∀ x ∈ Ω, ∃ y, get m x = some y
  dom : ∀ x y, get m x = some y → x ∈ Ω
  inj : ∀ x x' y, get m x = some y → get m x' = some y → x = x'

theorem IsEmb.Inj {Ω : List Nat} {m : SlotMap} (h : IsEmb Ω m) : SlotMap.Inj m := by
  unfold SlotMap.Inj valuesVec
  apply nodup_map_on
  · intro a ha b hb he
    have h1 := (get_eq_some_iff h.wf a.1 a.2).mpr ha
    have h2 := (get_eq_some_iff h.wf b.1 b.2).mpr hb
    rw [he] at h1
    have := h.inj _ _ _ h1 h2
    exact Prod.ext this he
  · exact nodup_of_map (fun (q : Nat × Nat) => q.1) (wf_nodup h.wf)

theorem mem_values_iff_get {m : SlotMap} (hw : WF m) (v : Nat) : v ∈ valuesVec m ↔ ∃ k, get m k = some v := by
  constructor
  · intro hv; obtain ⟨p, hp, rfl⟩ := List.mem_map.mp hv
    exact ⟨p.1, (get_eq_some_iff hw _ _).mpr hp⟩
  · rintro ⟨k, hk⟩
    exact List.mem_map.mpr ⟨(k, v), (get_eq_some_iff hw _ _).mp hk, rfl⟩

/-- the value of `A ∘ B⁻¹` at a point -/
theorem get_comp_inv {Ω : List Nat} {A B : SlotMap} (hA : IsEmb Ω A) (hB : IsEmb Ω B) (x y : Nat) :
    get (composePartial A (inverse B)) x = some y ↔ ∃ v, get A x = some v ∧ get B y = some v := by
  rw [get_composePartial hA.wf]
  constructor
  · intro h
    cases hg : get A x with
    | none => rw [hg] at h; simp at h
    | some v =>
      rw [hg] at h
      simp only [Option.bind_some] at h
      exact ⟨v, rfl, (get_inverse hB.wf hB.Inj y v).mp h⟩
  · rintro ⟨v, hv, hy⟩
    rw [hv]
    simp only [Option.bind_some]
    exact (get_inverse hB.wf hB.Inj y v).mpr hy

/-- two embeddings of `Ω` with the same set of values differ by a permutation of `Ω` -/
theorem isPerm_comp_inv {Ω : List Nat} {A B : SlotMap} (hA : IsEmb Ω A) (hB : IsEmb Ω B)
    (hv : ∀ v, v ∈ valuesVec A ↔ v ∈ valuesVec B) : IsPerm Ω (composePartial A (inverse B)) where
  wf := wf_composePartial _ _
  tot := by
    intro x hx
    obtain ⟨v, hv1⟩ := hA.tot x hx
    have : v ∈ valuesVec B := (hv v).mp ((mem_values_iff_get hA.wf v).mpr ⟨x, hv1⟩)
    obtain ⟨y, hy⟩ := (mem_values_iff_get hB.wf v).mp this
    exact ⟨y, hB.dom _ _ hy, (get_comp_inv hA hB x y).mpr ⟨v, hv1, hy⟩⟩
  dom := by
    intro x y h
    obtain ⟨v, hv1, _⟩ := (get_comp_inv hA hB x y).mp h
    exact hA.dom _ _ hv1
  inj := by
    intro x x' y h h'
    obtain ⟨v, hv1, hv2⟩ := (get_comp_inv hA hB x y).mp h
    obtain ⟨v', hv1', hv2'⟩ := (get_comp_inv hA hB x' y).mp h'
    rw [hv2] at hv2'
    have : v = v' := Option.some.inj hv2'
    subst this
    exact hA.inj _ _ _ hv1 hv1'
  surj := by
    intro y hy
    obtain ⟨v, hv1⟩ := hB.tot y hy
    have : v ∈ valuesVec A := (hv v).mpr ((mem_values_iff_get hB.wf v).mpr ⟨y, hv1⟩)
    obtain ⟨x, hx⟩ := (mem_values_iff_get hA.wf v).mp this
    exact ⟨x, (get_comp_inv hA hB x y).mpr ⟨v, hx, hv1⟩⟩

theorem comp_inv_self_emb {Ω : List Nat} {A : SlotMap} (hA : IsEmb Ω A) :
    composePartial A (inverse A) = identity Ω := by
  apply IsPerm.ext (isPerm_comp_inv hA hA (fun _ => Iff.rfl)) (isPerm_identity Ω)
  intro x hx
  rw [get_identity_of_mem hx]
  obtain ⟨v, hv⟩ := hA.tot x hx
  exact (get_comp_inv hA hA x x).mpr ⟨v, hv, hv⟩

theorem inverse_comp_inv {Ω : List Nat} {A B : SlotMap} (hA : IsEmb Ω A) (hB : IsEmb Ω B)
    (hv : ∀ v, v ∈ valuesVec A ↔ v ∈ valuesVec B) :
    inverse (composePartial A (inverse B)) = composePartial B (inverse A) := by
  have hp := isPerm_comp_inv hA hB hv
  have hq := isPerm_comp_inv hB hA (fun v => (hv v).symm)
  apply IsPerm.ext (isPerm_inverse hp) hq
  intro x hx
  obtain ⟨y, _, hy⟩ := hq.tot x hx
  rw [hy]
  obtain ⟨v, h1, h2⟩ := (get_comp_inv hB hA x y).mp hy
  exact (get_inv hp y x).mpr ((get_comp_inv hA hB y x).mpr ⟨v, h2, h1⟩)

theorem comp_comp_inv {Ω : List Nat} {A B C : SlotMap} (hA : IsEmb Ω A) (hB : IsEmb Ω B) (hC : IsEmb Ω C)
    (hab : ∀ v, v ∈ valuesVec A ↔ v ∈ valuesVec B) (hbc : ∀ v, v ∈ valuesVec B ↔ v ∈ valuesVec C) :
    comp (composePartial A (inverse B)) (composePartial B (inverse C)) = composePartial A (inverse C) := by
  have hp := isPerm_comp_inv hA hB hab
  have hq := isPerm_comp_inv hB hC hbc
  have hr := isPerm_comp_inv hA hC (fun v => (hab v).trans (hbc v))
  apply IsPerm.ext (isPerm_comp hp hq) hr
  intro x hx
  obtain ⟨z, _, hz⟩ := hr.tot x hx
  rw [hz, get_comp hp.wf]
  obtain ⟨v, h1, h2⟩ := (get_comp_inv hA hC x z).mp hz
  have : v ∈ valuesVec B := (hab v).mp ((mem_values_iff_get hA.wf v).mpr ⟨x, h1⟩)
  obtain ⟨y, hy⟩ := (mem_values_iff_get hB.wf v).mp this
  rw [(get_comp_inv hA hB x y).mpr ⟨v, h1, hy⟩]
  simp only [Option.bind_some]
  exact (get_comp_inv hB hC y z).mpr ⟨v, hy, h2⟩

/-! ### `eq` in terms of the canonical forms -/

/-- what `eq` computes once both sides are canonicalised -/
theorem eq_of_find {s : Snap} {a b a' b' : AppId} (ha : find s a = some a') (hb : find s b = some b') :
    eq s a b = if a'.id ≠ b'.id then some false
      else if Node.dedupSorted (valuesVec a'.m) ≠ Node.dedupSorted (valuesVec b'.m) then some false
      else match cls s a'.id with
        | none => none
        | some c => Grp.contains (group c) (composePartial a'.m (inverse b'.m)) := by
  unfold eq; rw [ha, hb]; rfl

/-- on a class with valid generators, `eq` of two embedded invocations with one leader is: same names, and `A ∘ B⁻¹`
in the generated subgroup -/
theorem eq_true_iff {s : Snap} {c : SClass} {a b : AppId} {A B : SlotMap} (hcls : cls s c.id = some c)
    (hv : Valid c.slots c.gens) (ha : find s a = some ⟨c.id, A⟩) (hb : find s b = some ⟨c.id, B⟩)
    (hA : IsEmb c.slots A) (hB : IsEmb c.slots B) :
    eq s a b = some true ↔ (∀ v, v ∈ valuesVec A ↔ v ∈ valuesVec B) ∧ Gen c.slots c.gens (composePartial A (inverse B)) := by
  rw [eq_of_find ha hb]
  simp only [ne_eq, not_true_eq_false, if_false]
  by_cases hset : Node.dedupSorted (valuesVec A) = Node.dedupSorted (valuesVec B)
  · have hvals := (Dedup.dedup_eq_iff _ _).mp hset
    simp only [hset, not_true_eq_false, if_false, hcls]
    have hperm := isPerm_comp_inv hA hB hvals
    have hfuel : (moved c.slots c.gens).length < (identity c.slots).length + 1 := by
      have h1 : (moved c.slots c.gens).length ≤ (keys (identity c.slots)).length := List.length_filter_le _ _
      have h2 : (keys (identity c.slots)).length = (identity c.slots).length := by simp [keys]
      omega
    have := (contains_new ((identity c.slots).length + 1) c.gens hv hfuel _ hperm).1
    unfold group Grp.mk
    rw [this]
    exact ⟨fun h => ⟨hvals, h⟩, fun h => h.2⟩
  · simp only [hset, not_false_eq_true, if_true]
    constructor
    · intro h; cases h
    · intro h; exact absurd ((Dedup.dedup_eq_iff _ _).mpr h.1) hset

/-- **reflexive** -/
theorem eq_refl {s : Snap} {c : SClass} {a : AppId} {A : SlotMap} (hcls : cls s c.id = some c)
    (hv : Valid c.slots c.gens) (ha : find s a = some ⟨c.id, A⟩) (hA : IsEmb c.slots A) : eq s a a = some true := by
  rw [eq_true_iff hcls hv ha ha hA hA]
  refine ⟨fun _ => Iff.rfl, ?_⟩
  rw [comp_inv_self_emb hA]; exact Gen.one

/-- **symmetric** -/
theorem eq_symm {s : Snap} {c : SClass} {a b : AppId} {A B : SlotMap} (hcls : cls s c.id = some c)
    (hv : Valid c.slots c.gens) (ha : find s a = some ⟨c.id, A⟩) (hb : find s b = some ⟨c.id, B⟩)
    (hA : IsEmb c.slots A) (hB : IsEmb c.slots B) (h : eq s a b = some true) : eq s b a = some true := by
  rw [eq_true_iff hcls hv ha hb hA hB] at h
  rw [eq_true_iff hcls hv hb ha hB hA]
  refine ⟨fun v => (h.1 v).symm, ?_⟩
  rw [← inverse_comp_inv hA hB h.1]; exact Gen.inv h.2

/-- **transitive** -/
theorem eq_trans {s : Snap} {c : SClass} {a b d : AppId} {A B D : SlotMap} (hcls : cls s c.id = some c)
    (hv : Valid c.slots c.gens) (ha : find s a = some ⟨c.id, A⟩) (hb : find s b = some ⟨c.id, B⟩)
    (hd : find s d = some ⟨c.id, D⟩) (hA : IsEmb c.slots A) (hB : IsEmb c.slots B) (hD : IsEmb c.slots D)
    (h1 : eq s a b = some true) (h2 : eq s b d = some true) : eq s a d = some true := by
  rw [eq_true_iff hcls hv ha hb hA hB] at h1
  rw [eq_true_iff hcls hv hb hd hB hD] at h2
  rw [eq_true_iff hcls hv ha hd hA hD]
  refine ⟨fun v => (h1.1 v).trans (h2.1 v), ?_⟩
  rw [← comp_comp_inv hA hB hD h1.1 h2.1]; exact Gen.mul h1.2 h2.2

/-- invocations with different leaders are never equal -/
theorem eq_false_of_leader_ne {s : Snap} {a b a' b' : AppId} (ha : find s a = some a') (hb : find s b = some b')
    (hne : a'.id ≠ b'.id) : eq s a b = some false := by
  rw [eq_of_find ha hb]; simp [hne]

end SV.Snap
