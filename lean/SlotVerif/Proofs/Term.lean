import SlotVerif.Proofs.Spec
/-! Renaming lemmas for locally nameless terms, and equivariance of `Cong`. -/
namespace SV
open Term

namespace Term

theorem mapFieldSlots_ext (g g' : Nat → Nat → Nat) : ∀ (f : Field) (d : Nat),
    (∀ p ∈ fieldSlots f d, g p.1 p.2 = g' p.1 p.2) → mapFieldSlots g f d = mapFieldSlots g' f d
  | .slot s, d, h => by simp [mapFieldSlots]; exact h (d, s) (by simp [fieldSlots])
  | .app a, _, _ => rfl
  | .lit v, _, _ => rfl
  | .bind s f, d, h => by
    simp only [mapFieldSlots]
    rw [mapFieldSlots_ext g g' f (d + 1) (fun p hp => h p (by simpa [fieldSlots] using hp))]

theorem mapNodeSlots_ext (g g' : Nat → Nat → Nat) (n : Node)
    (h : ∀ p ∈ nodeSlots n, g p.1 p.2 = g' p.1 p.2) : mapNodeSlots g n = mapNodeSlots g' n := by
  unfold mapNodeSlots
  congr 1
  apply List.map_congr_left
  intro f hf
  apply mapFieldSlots_ext
  intro p hp
  exact h p (by simp only [nodeSlots, List.mem_flatMap]; exact ⟨f, hf, hp⟩)

mutual
theorem mapFree_ext (f g : Nat → Nat) : ∀ (t : Term), (∀ x ∈ freeOcc t, f x = g x) → mapFree f t = mapFree g t
  | .mk n cs, h => by
    simp only [mapFree]
    have h1 : mapNodeSlots (fun _ c => if isBvar c then c else f c) n =
        mapNodeSlots (fun _ c => if isBvar c then c else g c) n := by
      apply mapNodeSlots_ext
      intro p hp
      by_cases hb : isBvar p.2 = true
      · simp [hb]
      · simp only [hb]
        apply h
        simp only [freeOcc, List.mem_append, List.mem_filter, List.mem_map]
        left
        exact ⟨⟨p, hp, rfl⟩, by simpa using hb⟩
    rw [h1, mapFreeL_ext f g cs (fun x hx => h x (by simp [freeOcc, hx]))]
theorem mapFreeL_ext (f g : Nat → Nat) : ∀ (ts : List Term), (∀ x ∈ freeOccL ts, f x = g x) → mapFreeL f ts = mapFreeL g ts
  | [], _ => rfl
  | t :: ts, h => by
    simp only [mapFreeL]
    rw [mapFree_ext f g t (fun x hx => h x (by simp [freeOccL, hx])),
      mapFreeL_ext f g ts (fun x hx => h x (by simp [freeOccL, hx]))]
end

theorem mapFieldSlots_id : ∀ (f : Field) (d : Nat), mapFieldSlots (fun _ c => c) f d = f
  | .slot _, _ => rfl
  | .app _, _ => rfl
  | .lit _, _ => rfl
  | .bind s f, d => by simp [mapFieldSlots, mapFieldSlots_id f (d + 1)]

theorem mapNodeSlots_id (n : Node) : mapNodeSlots (fun _ c => c) n = n := by
  unfold mapNodeSlots
  have : n.fields.map (fun f => mapFieldSlots (fun _ c => c) f 0) = n.fields := by
    rw [List.map_congr_left (g := id) (fun f _ => mapFieldSlots_id f 0)]; simp
  rw [this]

mutual
theorem mapFree_id : ∀ (t : Term), mapFree (fun x => x) t = t
  | .mk n cs => by
    simp only [mapFree]
    have : mapNodeSlots (fun _ c => if isBvar c then c else c) n = n := by
      have : (fun (_ : Nat) (c : Nat) => if isBvar c = true then c else c) = fun _ c => c := by
        funext _ c; split <;> rfl
      rw [this]; exact mapNodeSlots_id n
    rw [this, mapFreeL_id cs]
theorem mapFreeL_id : ∀ (ts : List Term), mapFreeL (fun x => x) ts = ts
  | [] => rfl
  | t :: ts => by simp only [mapFreeL]; rw [mapFree_id t, mapFreeL_id ts]
end

theorem mapFieldSlots_comp (g h : Nat → Nat → Nat) : ∀ (f : Field) (d : Nat),
    mapFieldSlots g (mapFieldSlots h f d) d = mapFieldSlots (fun d c => g d (h d c)) f d
  | .slot _, _ => rfl
  | .app _, _ => rfl
  | .lit _, _ => rfl
  | .bind s f, d => by simp [mapFieldSlots, mapFieldSlots_comp g h f (d + 1)]

theorem mapNodeSlots_comp (g h : Nat → Nat → Nat) (n : Node) :
    mapNodeSlots g (mapNodeSlots h n) = mapNodeSlots (fun d c => g d (h d c)) n := by
  unfold mapNodeSlots
  simp only [List.map_map]
  congr 1
  apply List.map_congr_left
  intro f _
  exact mapFieldSlots_comp g h f 0

mutual
theorem mapFree_comp (f g : Nat → Nat) (hg : NameMap g) : ∀ (t : Term),
    mapFree f (mapFree g t) = mapFree (fun x => f (g x)) t
  | .mk n cs => by
    simp only [mapFree]
    rw [mapNodeSlots_comp, mapFreeL_comp f g hg cs]
    congr 1
    apply mapNodeSlots_ext
    intro p _
    by_cases hb : isBvar p.2 = true
    · simp [hb]
    · have hb' : isBvar p.2 = false := by simpa using hb
      simp [hb', hg p.2 hb']
theorem mapFreeL_comp (f g : Nat → Nat) (hg : NameMap g) : ∀ (ts : List Term),
    mapFreeL f (mapFreeL g ts) = mapFreeL (fun x => f (g x)) ts
  | [] => rfl
  | t :: ts => by simp only [mapFreeL]; rw [mapFree_comp f g hg t, mapFreeL_comp f g hg ts]
end

/-- renaming with a left inverse can be undone -/
theorem mapFree_cancel (σ σ' : Nat → Nat) (hσ : NameMap σ) (h : ∀ x, σ' (σ x) = x) (t : Term) :
    mapFree σ' (mapFree σ t) = t := by
  rw [mapFree_comp σ' σ hσ t]
  have : (fun x => σ' (σ x)) = fun x => x := by funext x; exact h x
  rw [this, mapFree_id]

end Term

/-- **Equivariance of the specification**: renaming every name in the equations and in both
terms by an invertible map of names preserves derivability.  (So every observable *defined on
the spec* — equality, redundancy, symmetry count, number of classes — is invariant.) -/
theorem cong_equivariant {E : List (Term × Term)} (σ σ' : Nat → Nat) (hσ : NameMap σ) (hσ' : NameMap σ')
    (hinv : ∀ x, σ' (σ x) = x) (hinv2 : ∀ x, σ (σ' x) = x) {t u : Term} (c : Cong E t u) :
    Cong (E.map fun e => (mapFree σ e.1, mapFree σ e.2)) (mapFree σ t) (mapFree σ u) := by
  have hinj : ∀ l : List Nat, InjOn σ l := by
    intro l x _ y _ he
    have := congrArg σ' he
    rwa [hinv, hinv] at this
  have step1 : Cong E (mapFree σ t) (mapFree σ u) := Cong.ren σ hσ (hinj _) c
  apply cong_lift _ step1
  intro l r hm
  -- (σ l, σ r) is an axiom of the renamed system; rename back with σ'
  have hax : Cong (E.map fun e => (mapFree σ e.1, mapFree σ e.2)) (mapFree σ l) (mapFree σ r) :=
    Cong.ax (List.mem_map.mpr ⟨(l, r), hm, rfl⟩)
  have hinj' : InjOn σ' (freeOcc (mapFree σ l) ++ freeOcc (mapFree σ r)) := by
    intro x _ y _ he
    have := congrArg σ he
    rwa [hinv2, hinv2] at this
  have := Cong.ren σ' hσ' hinj' hax
  rwa [mapFree_cancel σ σ' hσ hinv, mapFree_cancel σ σ' hσ hinv] at this

end SV

namespace SV
open Term

namespace Term

theorem fieldSlots_map (g : Nat → Nat → Nat) : ∀ (f : Field) (d : Nat),
    fieldSlots (mapFieldSlots g f d) d = (fieldSlots f d).map fun p => (p.1, g p.1 p.2)
  | .slot _, _ => rfl
  | .app _, _ => rfl
  | .lit _, _ => rfl
  | .bind s f, d => by simp [fieldSlots, mapFieldSlots, fieldSlots_map g f (d + 1)]

theorem nodeSlots_map (g : Nat → Nat → Nat) (n : Node) :
    nodeSlots (mapNodeSlots g n) = (nodeSlots n).map fun p => (p.1, g p.1 p.2) := by
  unfold nodeSlots mapNodeSlots
  simp only
  induction n.fields with
  | nil => rfl
  | cons f t ih =>
    simp only [List.map_cons, List.flatMap_cons, List.map_append]
    rw [fieldSlots_map g f 0, ih]

mutual
theorem freeOcc_mapFree (f : Nat → Nat) (hf : NameMap f) : ∀ (t : Term),
    freeOcc (mapFree f t) = (freeOcc t).map f
  | .mk n cs => by
    simp only [mapFree, freeOcc, List.map_append]
    rw [freeOccL_mapFree f hf cs, nodeSlots_map]
    congr 1
    simp only [List.map_map]
    induction (nodeSlots n) with
    | nil => rfl
    | cons p t ih =>
      simp only [List.map_cons, List.filter_cons, Function.comp]
      by_cases hb : isBvar p.2 = true
      · simp [hb, ih]
      · have hb' : isBvar p.2 = false := by simpa using hb
        simp [hb', hf p.2 hb', ih]
theorem freeOccL_mapFree (f : Nat → Nat) (hf : NameMap f) : ∀ (ts : List Term),
    freeOccL (mapFreeL f ts) = (freeOccL ts).map f
  | [] => rfl
  | t :: ts => by
    simp only [mapFreeL, freeOccL, List.map_append]
    rw [freeOcc_mapFree f hf t, freeOccL_mapFree f hf ts]
end

end Term

/-- **reading of the redundancy observable**: if replacing `s` by *one* fresh name gives an equal
term, then `s` is redundant in the sense of the spec (every fresh name works). -/
theorem redundant_of_one_fresh {E : List (Term × Term)} {t : Term} {s c : Nat}
    (hs : s ∈ freeOcc t) (hc : isBvar c = false) (hct : c ∉ freeOcc t)
    (h : Cong E t (mapFree (fun x => if x = s then c else x) t)) : Redundant E t s := by
  refine ⟨hs, ?_⟩
  intro s' hs' hs't
  by_cases hcs : s' = c
  · subst hcs; exact h
  · let ρ : Nat → Nat := fun x => if x = c then s' else x
    have hρ : NameMap ρ := by
      intro x hx; simp only [ρ]; split
      · exact hs'
      · exact hx
    have hsub : NameMap (fun x => if x = s then c else x) := by
      intro x hx; simp only; split
      · exact hc
      · exact hx
    have hinj : InjOn ρ (freeOcc t ++ freeOcc (mapFree (fun x => if x = s then c else x) t)) := by
      have hnot : ∀ x ∈ freeOcc t ++ freeOcc (mapFree (fun x => if x = s then c else x) t), x ≠ s' := by
        intro x hx he; subst he
        rw [List.mem_append, freeOcc_mapFree _ hsub] at hx
        rcases hx with hx | hx
        · exact hs't hx
        · obtain ⟨y, hy, hyx⟩ := List.mem_map.mp hx
          by_cases hys : y = s
          · simp [hys] at hyx; exact hcs hyx.symm
          · simp [hys] at hyx; subst hyx; exact hs't hy
      intro x hx y hy he
      have hx' := hnot x hx
      have hy' := hnot y hy
      simp only [ρ] at he
      by_cases h1 : x = c <;> by_cases h2 : y = c
      · rw [h1, h2]
      · simp [h1, h2] at he; exact absurd he.symm hy'
      · simp [h1, h2] at he; exact absurd he hx'
      · simpa [h1, h2] using he
    have := Cong.ren ρ hρ hinj h
    have e1 : mapFree ρ t = t := by
      rw [mapFree_ext ρ (fun x => x) t (fun x hx => by
        simp only [ρ]; split
        · rename_i h1; subst h1; exact absurd hx hct
        · rfl), mapFree_id]
    have e2 : mapFree ρ (mapFree (fun x => if x = s then c else x) t) =
        mapFree (fun x => if x = s then s' else x) t := by
      rw [mapFree_comp ρ _ hsub t]
      apply mapFree_ext
      intro x hx
      simp only [ρ]
      by_cases hxs : x = s
      · simp [hxs]
      · simp only [hxs, if_false]
        split
        · rename_i h1; subst h1; exact absurd hx hct
        · rfl
    rwa [e1, e2] at this

end SV
