import SlotVerif.Model.Parse
import SlotVerif.Proofs.Syntax
/-! The pattern parser inverts the printer at the token level (C18). -/
namespace SV.Parse.RT
open SV SV.Parse

/-- the placeholder `AppliedId` of pattern nodes (`AppliedId::null()`) -/
def nullApp : AppId := { id := 0, m := [] }

/-- tokens of a node's syntax elements, with the children's token lists spliced in at the placeholders -/
def fillToks : List SynElem → List (List Tok) → List Tok
  | [], _ => []
  | .app _ :: rest, c :: cs => c ++ fillToks rest cs
  | .app _ :: rest, [] => fillToks rest []
  | .slot c :: rest, cs => .slot c :: fillToks rest cs
  | .str s :: rest, cs => .ident s :: fillToks rest cs

mutual
/-- the token sequence of the printed form of a pattern -/
def toksOf (sig : Sig) : Pat → List Tok
  | .pvar v => [.pvar v]
  | .subst b x y => toksOf sig b ++ (.lbracket :: toksOf sig x) ++ (.colonEq :: toksOf sig y) ++ [.rbracket]
  | .enode n cs =>
    match Node.toSyntax sig n with
    | [.str s] => [.ident s]
    | l => .lparen :: (fillToks l (toksOfL sig cs) ++ [.rparen])
def toksOfL (sig : Sig) : List Pat → List (List Tok)
  | [] => []
  | p :: ps => toksOf sig p :: toksOfL sig ps
end

mutual
def psize : Pat → Nat
  | .pvar _ => 1
  | .subst b x y => 1 + psize b + psize x + psize y
  | .enode _ cs => 1 + psizeL cs
def psizeL : List Pat → Nat
  | [] => 0
  | p :: ps => psize p + psizeL ps
end

/-- the next token does not continue a substitution bracket -/
def NoLB : List Tok → Prop
  | .lbracket :: _ => False
  | _ => True

/-- field kinds that a named variant may have in a pattern that prints and parses back: no payloads (finding F10) -/
def noLit : Kind → Bool
  | .lit _ => false
  | .bind k => noLit k
  | _ => true

mutual
/-- well-formed patterns: what `Display` output can be read back -/
inductive WFP (sig : Sig) : Pat → Prop
  | pvar (v : String) : WFP sig (.pvar v)
  | subst {b x y : Pat} : WFP sig b → WFP sig x → WFP sig y → WFP sig (.subst b x y)
  /-- operator with arguments -/
  | named {n : Node} {cs : List Pat} {vr : Variant} {name : String} :
      sig[n.v]? = some vr → vr.name = some name → Syntax.HasKinds n.fields vr.kinds →
      (∀ j, j < n.v → (sig[j]?.bind (·.name)) ≠ some name) →
      (∀ k ∈ vr.kinds, noLit k = true) → (∀ a ∈ Node.appOcc n, a = nullApp) →
      cs.length = (Node.appOcc n).length → WFPL sig cs → WFP sig (.enode n cs)
  /-- payload leaf (number, symbol): prints as the bare payload -/
  | payload {n : Node} {vr : Variant} {ty v : String} {ks : List Kind} :
      sig[n.v]? = some vr → vr.name = none → vr.kinds = .lit ty :: ks → n.fields = [.lit v] →
      parseLit ty v = some v → (∀ j, j < sig.length → (sig[j]?.bind (·.name)) ≠ some v) →
      (∀ j, j < n.v → ∀ vr', sig[j]? = some vr' → vr'.name = none →
        ∀ k ks', vr'.kinds = k :: ks' → Kind.fromSyntax k [.str v] = none) →
      WFP sig (.enode n [])
inductive WFPL (sig : Sig) : List Pat → Prop
  | nil : WFPL sig []
  | cons {p : Pat} {ps : List Pat} : WFP sig p → WFPL sig ps → WFPL sig (p :: ps)
end


/-! ### the argument list of a node -/

/-- syntax elements that can follow the operator of a pattern node: slots and placeholders -/
inductive ArgsOK : List SynElem → List Pat → Prop
  | nil : ArgsOK [] []
  | slot (c : Nat) {E : List SynElem} {cs : List Pat} : ArgsOK E cs → ArgsOK (.slot c :: E) cs
  | app {E : List SynElem} {p : Pat} {cs : List Pat} : ArgsOK E cs → ArgsOK (.app nullApp :: E) (p :: cs)

/-- what `parse_nested_syntax_elem` returns for them -/
def argElems : List SynElem → List Pat → List NElem
  | [], _ => []
  | .app _ :: rest, c :: cs => .pat c :: argElems rest cs
  | .app _ :: rest, [] => argElems rest []
  | .slot c :: rest, cs => .slot c :: argElems rest cs
  | .str s :: rest, cs => .str s :: argElems rest cs

theorem mock_argElems {E : List SynElem} {cs : List Pat} (h : ArgsOK E cs) : mockElems (argElems E cs) = E := by
  induction h with
  | nil => rfl
  | slot c _ ih => simp only [argElems, mockElems, List.map_cons] at ih ⊢; rw [ih]
  | app _ ih => simp only [argElems, mockElems, List.map_cons, nullApp] at ih ⊢; rw [ih]

theorem patsOf_argElems {E : List SynElem} {cs : List Pat} (h : ArgsOK E cs) : patsOf (argElems E cs) = cs := by
  induction h with
  | nil => rfl
  | slot c _ ih => simp only [argElems, patsOf]; exact ih
  | app _ ih => simp only [argElems, patsOf]; rw [ih]

/-- the first token of a well-formed pattern is never a slot, a bracket or a closing parenthesis -/
def GoodHead : List Tok → Prop
  | .lparen :: _ => True
  | .ident _ :: _ => True
  | .pvar _ :: _ => True
  | _ => False

theorem goodHead_append {a : List Tok} (h : GoodHead a) (b : List Tok) : GoodHead (a ++ b) := by
  cases a with
  | nil => simp [GoodHead] at h
  | cons t ts => cases t <;> simp_all [GoodHead]

theorem goodHead_toksOf {sig : Sig} : ∀ {p : Pat}, WFP sig p → GoodHead (toksOf sig p)
  | _, .pvar v => by simp [toksOf, GoodHead]
  | _, .subst hb _ _ => by
    simp only [toksOf, List.append_assoc]
    exact goodHead_append (goodHead_toksOf hb) _
  | _, .named _ _ _ _ _ _ _ _ => by
    simp only [toksOf]
    split <;> simp [GoodHead]
  | _, .payload _ _ _ _ _ _ _ => by
    simp only [toksOf]
    split <;> simp [GoodHead]

theorem noLB_of_goodHead {l : List Tok} (h : GoodHead l) : NoLB l := by
  cases l with
  | nil => simp [NoLB]
  | cons t ts => cases t <;> simp_all [GoodHead, NoLB]

theorem noLB_fill_rparen {E : List SynElem} {cs : List Pat} {sig : Sig} (h : ArgsOK E cs)
    (hcs : ∀ c ∈ cs, WFP sig c) (rest : List Tok) : NoLB (fillToks E (toksOfL sig cs) ++ .rparen :: rest) := by
  induction h with
  | nil => simp [fillToks, NoLB]
  | slot c _ _ => simp [fillToks, NoLB]
  | @app E p cs' _ _ =>
    simp only [fillToks, toksOfL, List.append_assoc]
    exact noLB_of_goodHead (goodHead_append (goodHead_toksOf (hcs p (by simp))) _)


/-- the parser reads the printed tokens of `p` back, whatever follows (as long as it is not another bracket) -/
def ParsesBack (sig : Sig) (p : Pat) : Prop :=
  ∀ (rest : List Tok) (fuel : Nat), NoLB rest → 2 * (toksOf sig p).length + 1 ≤ fuel →
    parsePattern sig fuel (toksOf sig p ++ rest) = .ok (p, rest)

theorem parseArgs_pattern_branch (sig : Sig) (f : Nat) (T : List Tok) (hg : GoodHead T) :
    parseArgs sig (f + 1) T =
      match parsePattern sig f T with
      | .error e => .error e
      | .ok (p, rest) =>
        match parseArgs sig f rest with
        | .error e => .error e
        | .ok (l, rest) => .ok (.pat p :: l, rest) := by
  cases T with
  | nil => simp [GoodHead] at hg
  | cons t ts =>
    cases t <;> simp_all [GoodHead, parseArgs] <;> rfl

theorem parseArgs_spec {sig : Sig} {E : List SynElem} {cs : List Pat} (h : ArgsOK E cs)
    (hwf : ∀ c ∈ cs, WFP sig c) (hpb : ∀ c ∈ cs, ParsesBack sig c) :
    ∀ (rest : List Tok) (fuel : Nat), 2 * (fillToks E (toksOfL sig cs)).length + 2 ≤ fuel →
      parseArgs sig fuel (fillToks E (toksOfL sig cs) ++ .rparen :: rest) = .ok (argElems E cs, rest) := by
  induction h with
  | nil =>
    intro rest fuel hf
    cases fuel with
    | zero => simp [fillToks] at hf
    | succ f => simp [fillToks, parseArgs, argElems]
  | slot c _ ih =>
    intro rest fuel hf
    cases fuel with
    | zero => omega
    | succ f =>
      simp only [fillToks, List.cons_append, parseArgs, argElems]
      rw [ih hwf hpb rest f (by simp only [fillToks, List.length_cons] at hf; omega)]
  | @app E p cs' _ ih =>
    intro rest fuel hf
    cases fuel with
    | zero => omega
    | succ f =>
      simp only [fillToks, toksOfL, List.append_assoc, argElems]
      have hlen : (fillToks (.app nullApp :: E) (toksOfL sig (p :: cs'))).length =
          (toksOf sig p).length + (fillToks E (toksOfL sig cs')).length := by
        simp [fillToks, toksOfL]
      rw [hlen] at hf
      have hgh := goodHead_toksOf (hwf p (by simp))
      have hpos : 1 ≤ (toksOf sig p).length := by
        cases htp : toksOf sig p with
        | nil => rw [htp] at hgh; simp [GoodHead] at hgh
        | cons _ _ => simp
      rw [parseArgs_pattern_branch sig f _ (goodHead_append hgh _)]
      rw [hpb p (by simp) _ f (noLB_fill_rparen ‹ArgsOK E cs'› (fun c hc => hwf c (by simp [hc])) rest) (by omega)]
      simp only
      rw [ih (fun c hc => hwf c (by simp [hc])) (fun c hc => hpb c (by simp [hc])) rest f (by omega)]


/-! ### substitution brackets -/

def brToks (sig : Sig) : List (Pat × Pat) → List Tok
  | [] => []
  | (x, y) :: t => .lbracket :: (toksOf sig x ++ (.colonEq :: (toksOf sig y ++ (.rbracket :: brToks sig t))))

def rebuild (acc : Pat) (l : List (Pat × Pat)) : Pat := l.foldl (fun a xy => .subst a xy.1 xy.2) acc

theorem substLoop_spec (sig : Sig) : ∀ (l : List (Pat × Pat)) (acc : Pat) (rest : List Tok) (g : Nat),
    NoLB rest → (∀ xy ∈ l, ParsesBack sig xy.1 ∧ ParsesBack sig xy.2) → 2 * (brToks sig l).length + 1 ≤ g →
    substLoop sig g acc (brToks sig l ++ rest) = .ok (rebuild acc l, rest)
  | [], acc, rest, g, hn, _, hg => by
    cases g with
    | zero => omega
    | succ g' =>
      simp only [brToks, List.nil_append, rebuild, List.foldl_nil]
      cases rest with
      | nil => simp [substLoop]
      | cons t ts => cases t <;> simp_all [substLoop, NoLB]
  | (x, y) :: t, acc, rest, g, hn, hpb, hg => by
    cases g with
    | zero => omega
    | succ g' =>
      obtain ⟨hx, hy⟩ := hpb (x, y) (by simp)
      simp only at hx hy
      simp only [brToks, List.cons_append, List.append_assoc, List.length_cons, List.length_append] at hg ⊢
      simp only [substLoop]
      rw [hx _ g' (by simp [NoLB]) (by omega)]
      simp only
      rw [hy _ g' (by simp [NoLB]) (by omega)]
      simp only
      rw [substLoop_spec sig t (.subst acc x y) rest g' hn (fun xy h => hpb xy (by simp [h])) (by omega)]
      simp [rebuild]


/-! ### nodes -/

theorem argsOK_field {f : Field} {k : Kind} (h : Syntax.HasKind f k) : noLit k = true →
    (∀ a ∈ Field.appOcc f, a = nullApp) → ∀ (E' : List SynElem) (cs' : List Pat), ArgsOK E' cs' →
    ∀ cs0 : List Pat, cs0.length = (Field.appOcc f).length → ArgsOK (Field.toSyntax f ++ E') (cs0 ++ cs') := by
  induction h with
  | slot s =>
    intro _ _ E' cs' h' cs0 hl
    have : cs0 = [] := List.eq_nil_of_length_eq_zero (by simpa [Field.appOcc] using hl)
    subst this
    exact .slot s h'
  | app a =>
    intro _ ha E' cs' h' cs0 hl
    have hnull : a = nullApp := ha a (by simp [Field.appOcc])
    subst hnull
    match cs0, hl with
    | [p], _ => exact .app h'
  | bind s _ ih =>
    intro hn ha E' cs' h' cs0 hl
    simp only [Field.toSyntax, List.cons_append]
    exact .slot s (ih (by simpa [noLit] using hn) (by simpa [Field.appOcc] using ha) E' cs' h' cs0 (by simpa [Field.appOcc] using hl))
  | lit _ => intro hn; simp [noLit] at hn

theorem argsOK_fields {fs : List Field} {ks : List Kind} (h : Syntax.HasKinds fs ks) :
    (∀ k ∈ ks, noLit k = true) → (∀ a ∈ fs.flatMap Field.appOcc, a = nullApp) →
    ∀ cs : List Pat, cs.length = (fs.flatMap Field.appOcc).length → ArgsOK (fs.flatMap Field.toSyntax) cs := by
  induction h with
  | nil =>
    intro _ _ cs hl
    have : cs = [] := List.eq_nil_of_length_eq_zero (by simpa using hl)
    subst this; exact .nil
  | @cons f k fs ks hf _ ih =>
    intro hn ha cs hl
    simp only [List.flatMap_cons, List.length_append] at hl ⊢
    have hsplit : cs = cs.take (Field.appOcc f).length ++ cs.drop (Field.appOcc f).length := (List.take_append_drop _ _).symm
    rw [hsplit]
    apply argsOK_field hf (hn k (by simp)) (fun a h' => ha a (by simp [h']))
    · exact ih (fun k' hk' => hn k' (by simp [hk'])) (fun a h' => ha a (by simp [h'])) _ (by rw [List.length_drop]; omega)
    · rw [List.length_take]; omega

theorem toSyntax_nonempty (f : Field) : Field.toSyntax f ≠ [] := by
  cases f <;> simp [Field.toSyntax]

theorem fields_nil_of_syntax_nil {fs : List Field} (h : fs.flatMap Field.toSyntax = []) : fs = [] := by
  cases fs with
  | nil => rfl
  | cons f t =>
    simp only [List.flatMap_cons, List.append_eq_nil_iff] at h
    exact absurd h.1 (toSyntax_nonempty f)

theorem nosubst_named {sig : Sig} {n : Node} {cs : List Pat} {vr : Variant} {name : String}
    (hv : sig[n.v]? = some vr) (hn : vr.name = some name) (hk : Syntax.HasKinds n.fields vr.kinds)
    (hfirst : ∀ j, j < n.v → (sig[j]?.bind (·.name)) ≠ some name)
    (hnl : ∀ k ∈ vr.kinds, noLit k = true) (hnull : ∀ a ∈ Node.appOcc n, a = nullApp)
    (hlen : cs.length = (Node.appOcc n).length) (hwf : ∀ c ∈ cs, WFP sig c) (hpb : ∀ c ∈ cs, ParsesBack sig c)
    (X : List Tok) (f : Nat) (hf : 2 * (toksOf sig (.enode n cs)).length ≤ f + 1) :
    parsePatternNosubst sig (f + 1) (toksOf sig (.enode n cs) ++ X) = .ok (.enode n cs, X) := by
  have htos : Node.toSyntax sig n = .str name :: n.fields.flatMap Field.toSyntax := by
    simp [Node.toSyntax, hv, hn]
  have hrt := Syntax.fromSyntax_toSyntax_named sig n vr name hv hn hk hfirst
  have hargs : ArgsOK (n.fields.flatMap Field.toSyntax) cs := argsOK_fields hk hnl hnull cs hlen
  cases hE : n.fields.flatMap Field.toSyntax with
  | nil =>
    have hfields := fields_nil_of_syntax_nil hE
    have happ : Node.appOcc n = [] := by simp [Node.appOcc, hfields]
    have hcs : cs = [] := List.eq_nil_of_length_eq_zero (by rw [hlen, happ]; rfl)
    subst hcs
    rw [hE] at htos
    simp only [toksOf, htos]
    simp only [List.cons_append, List.nil_append, parsePatternNosubst]
    rw [← htos, hrt]
    simp [happ]
  | cons e E' =>
    rw [hE] at htos hargs
    have htoks : toksOf sig (.enode n cs) = .lparen :: .ident name :: (fillToks (e :: E') (toksOfL sig cs) ++ [.rparen]) := by
      simp only [toksOf, htos, fillToks, List.cons_append]
    rw [htoks] at hf ⊢
    simp only [List.length_cons, List.length_append, List.length_nil] at hf
    cases f with
    | zero => omega
    | succ f' =>
      simp only [List.cons_append, List.append_assoc, List.singleton_append, List.nil_append, parsePatternNosubst]
      rw [parseArgs_spec hargs hwf hpb X (f' + 1) (by omega)]
      simp only
      have hmock : mockElems (NElem.str name :: argElems (e :: E') cs) = Node.toSyntax sig n := by
        rw [htos]
        simp only [mockElems, List.map_cons]
        have := mock_argElems hargs
        simp only [mockElems] at this
        rw [this]
      rw [hmock, hrt]
      simp only [patsOf, patsOf_argElems hargs, hlen]
      simp

theorem nosubst_payload {sig : Sig} {n : Node} {vr : Variant} {ty v : String} {ks : List Kind}
    (hv : sig[n.v]? = some vr) (hn : vr.name = none) (hkinds : vr.kinds = .lit ty :: ks) (hf : n.fields = [.lit v])
    (hparse : parseLit ty v = some v) (hnoop : ∀ j, j < sig.length → (sig[j]?.bind (·.name)) ≠ some v)
    (hearlier : ∀ j, j < n.v → ∀ vr', sig[j]? = some vr' → vr'.name = none →
      ∀ k ks', vr'.kinds = k :: ks' → Kind.fromSyntax k [.str v] = none)
    (X : List Tok) (f : Nat) :
    parsePatternNosubst sig (f + 1) (toksOf sig (.enode n []) ++ X) = .ok (.enode n [], X) := by
  have htos : Node.toSyntax sig n = [.str v] := by
    simp [Node.toSyntax, hv, hn, hf, Field.toSyntax]
  have hrt := Syntax.fromSyntax_toSyntax_payload sig n vr ty v ks hv hn hkinds hf hparse hnoop hearlier
  have happ : Node.appOcc n = [] := by simp [Node.appOcc, hf, Field.appOcc]
  simp only [toksOf, htos, List.cons_append, List.nil_append, parsePatternNosubst]
  rw [← htos, hrt]
  simp [happ]


theorem wfpl_mem {sig : Sig} : ∀ {cs : List Pat}, WFPL sig cs → ∀ c ∈ cs, WFP sig c
  | _, .nil, c, hc => by simp at hc
  | _, .cons hp hps, c, hc => by
    rcases List.mem_cons.mp hc with rfl | h
    · exact hp
    · exact wfpl_mem hps c h

/-! ### the main theorem -/

theorem parsePattern_core {sig : Sig} {c : Pat} (hpos : 1 ≤ (toksOf sig c).length)
    (hN : ∀ (X : List Tok) (f : Nat), 2 * (toksOf sig c).length ≤ f + 1 →
      parsePatternNosubst sig (f + 1) (toksOf sig c ++ X) = .ok (c, X))
    (l : List (Pat × Pat)) (rest : List Tok) (fuel : Nat) (hn : NoLB rest)
    (hpb : ∀ xy ∈ l, ParsesBack sig xy.1 ∧ ParsesBack sig xy.2)
    (hf : 2 * ((toksOf sig c).length + (brToks sig l).length) + 1 ≤ fuel) :
    parsePattern sig fuel (toksOf sig c ++ (brToks sig l ++ rest)) = .ok (rebuild c l, rest) := by
  cases fuel with
  | zero => omega
  | succ f =>
    cases f with
    | zero => omega
    | succ f' =>
      simp only [parsePattern]
      rw [hN _ f' (by omega)]
      simp only
      exact substLoop_spec sig l c rest (f' + 1) hn hpb (by omega)

mutual
theorem parsesBack_gen {sig : Sig} {p : Pat} (h : WFP sig p) : ∀ (l : List (Pat × Pat)) (rest : List Tok) (fuel : Nat),
    NoLB rest → (∀ xy ∈ l, ParsesBack sig xy.1 ∧ ParsesBack sig xy.2) →
    2 * ((toksOf sig p).length + (brToks sig l).length) + 1 ≤ fuel →
    parsePattern sig fuel (toksOf sig p ++ (brToks sig l ++ rest)) = .ok (rebuild p l, rest) :=
  match p, h with
  | _, .pvar v => fun l rest fuel hn hpb hf => by
    apply parsePattern_core (by simp [toksOf]) _ l rest fuel hn hpb hf
    intro X f _
    simp [toksOf, parsePatternNosubst]
  | _, .subst (b := b) (x := x) (y := y) hb hx hy => fun l rest fuel hn hpb hf => by
    have hxb : ParsesBack sig x := fun rest' fuel' hn' hf' => by
      have := parsesBack_gen hx [] rest' fuel' hn' (by simp) (by simpa [brToks] using hf')
      simpa [brToks, rebuild] using this
    have hyb : ParsesBack sig y := fun rest' fuel' hn' hf' => by
      have := parsesBack_gen hy [] rest' fuel' hn' (by simp) (by simpa [brToks] using hf')
      simpa [brToks, rebuild] using this
    have := parsesBack_gen hb ((x, y) :: l) rest fuel hn
      (by intro xy hxy; rcases List.mem_cons.mp hxy with rfl | h; exact ⟨hxb, hyb⟩; exact hpb xy h)
      (by simp only [toksOf, brToks, List.length_append, List.length_cons, List.length_nil] at hf ⊢; omega)
    simp only [toksOf, brToks, rebuild, List.foldl_cons, List.append_assoc, List.cons_append, List.nil_append] at this ⊢
    exact this
  | _, .named (n := n) (cs := cs) hv hnm hk hfirst hnl hnull hlen hcs => fun l rest fuel hn hpb hf => by
    have hwf : ∀ c ∈ cs, WFP sig c := wfpl_mem hcs
    have hcpb : ∀ c ∈ cs, ParsesBack sig c := parsesBackL hcs
    have hgh := goodHead_toksOf (WFP.named hv hnm hk hfirst hnl hnull hlen hcs)
    have hpos : 1 ≤ (toksOf sig (.enode n cs)).length := by
      cases htp : toksOf sig (.enode n cs) with
      | nil => rw [htp] at hgh; simp [GoodHead] at hgh
      | cons _ _ => simp
    exact parsePattern_core hpos (fun X f hf' => nosubst_named hv hnm hk hfirst hnl hnull hlen hwf hcpb X f hf')
      l rest fuel hn hpb hf
  | _, .payload (n := n) hv hnm hkinds hfl hparse hnoop hearlier => fun l rest fuel hn hpb hf => by
    have hgh := goodHead_toksOf (WFP.payload hv hnm hkinds hfl hparse hnoop hearlier)
    have hpos : 1 ≤ (toksOf sig (.enode n [])).length := by
      cases htp : toksOf sig (.enode n []) with
      | nil => rw [htp] at hgh; simp [GoodHead] at hgh
      | cons _ _ => simp
    exact parsePattern_core hpos (fun X f _ => nosubst_payload hv hnm hkinds hfl hparse hnoop hearlier X f)
      l rest fuel hn hpb hf
termination_by structural h
theorem parsesBackL {sig : Sig} {cs : List Pat} (h : WFPL sig cs) : ∀ c ∈ cs, ParsesBack sig c :=
  match cs, h with
  | _, .nil => fun c hc => by simp at hc
  | _, .cons (p := p) (ps := ps) hp hps => fun c hc =>
    have hpb : ParsesBack sig p := fun rest fuel hn hf => by
      have := parsesBack_gen hp [] rest fuel hn (by simp) (by simpa [brToks] using hf)
      simpa [brToks, rebuild] using this
    have hrest := parsesBackL hps
    Or.elim (List.mem_cons.mp hc) (fun e => e ▸ hpb) (fun h' => hrest c h')
termination_by structural h
end

end SV.Parse.RT
