import SlotVerif.Proofs.Snapshot
import SlotVerif.Proofs.Dedup
/-!
The read-only queries of the snapshot model are equivariant under renaming of the *arguments* of
invocations: `find` commutes with an arbitrary renaming, `eq` is invariant under a renaming that is
injective on the arguments involved (C11 at the level of the modelled functions).
-/
namespace SV.Snap
open SV SV.SlotMap

/-- rename the values of a slot map -/
def mapVals (ρ : Nat → Nat) (m : SlotMap) : SlotMap := m.map fun p => (p.1, ρ p.2)

/-- rename the arguments of an invocation -/
def renApp (ρ : Nat → Nat) (a : AppId) : AppId := { a with m := mapVals ρ a.m }

theorem wf_mapVals (ρ : Nat → Nat) {m : SlotMap} (h : WF m) : WF (mapVals ρ m) := by
  unfold WF mapVals at *
  rw [List.pairwise_map]
  exact h

theorem get_mapVals (ρ : Nat → Nat) : ∀ (m : SlotMap) (k : Nat), get (mapVals ρ m) k = (get m k).map ρ
  | [], k => rfl
  | (a, b) :: t, k => by
    simp only [mapVals, List.map_cons, SlotMap.get]
    by_cases h : k = a
    · simp [h]
    · simp only [h, if_false]; exact get_mapVals ρ t k

theorem valuesVec_mapVals (ρ : Nat → Nat) (m : SlotMap) : valuesVec (mapVals ρ m) = (valuesVec m).map ρ := by
  simp [valuesVec, mapVals, List.map_map, Function.comp_def]

theorem compose_mapVals (ρ : Nat → Nat) {l : SlotMap} (hl : WF l) (m : SlotMap) :
    composePartial l (mapVals ρ m) = mapVals ρ (composePartial l m) := by
  apply ext (wf_composePartial _ _) (wf_mapVals ρ (wf_composePartial _ _))
  intro k
  rw [get_composePartial hl, get_mapVals, get_composePartial hl]
  cases get l k with
  | none => rfl
  | some y => simp [get_mapVals]

/-- **`find` commutes with renaming the arguments** -/
theorem find_renApp {s : Snap} (hw : UfWF s) (ρ : Nat → Nat) (a : AppId) :
    find s (renApp ρ a) = (find s a).map (renApp ρ) := by
  unfold find
  simp only [renApp]
  cases hr : ufGet s (s.uf.length + 1) a.id with
  | none => rfl
  | some l =>
    simp only [Option.map_some]
    obtain ⟨e, he1, _, he3⟩ := ufGet_form hw _ _ l hr
    have hwl : WF l.m := by
      have hwe : WF e.m := hw e (List.mem_of_getElem? he1)
      rcases he3 with h | ⟨X, _, h⟩
      · rw [h]; exact hwe
      · rw [h]; exact wf_composePartial _ _
    rw [compose_mapVals ρ hwl]
    rfl

theorem values_compose_subset {l : SlotMap} (hl : WF l) (m : SlotMap) (hm : WF m) :
    ∀ y ∈ valuesVec (composePartial l m), y ∈ valuesVec m := by
  intro y hy
  obtain ⟨p, hp, rfl⟩ := List.mem_map.mp hy
  have hg := (get_eq_some_iff (wf_composePartial l m) p.1 p.2).mpr hp
  rw [get_composePartial hl] at hg
  cases hk : get l p.1 with
  | none => rw [hk] at hg; simp at hg
  | some z =>
    rw [hk] at hg
    simp only [Option.bind_some] at hg
    exact List.mem_map.mpr ⟨(z, p.2), (get_eq_some_iff hm _ _).mp hg, rfl⟩

theorem inj_mapVals {ρ : Nat → Nat} {m : SlotMap} (hi : Inj m)
    (hρ : ∀ x ∈ valuesVec m, ∀ y ∈ valuesVec m, ρ x = ρ y → x = y) : Inj (mapVals ρ m) := by
  unfold Inj
  rw [valuesVec_mapVals]
  exact nodup_map_on hρ hi

/-- the relative argument map of two invocations does not see an injective renaming of both -/
theorem compose_inverse_mapVals {ρ : Nat → Nat} {A B : SlotMap} (hA : WF A) (hB : WF B) (hiB : Inj B)
    (hρ : ∀ x ∈ valuesVec A ++ valuesVec B, ∀ y ∈ valuesVec A ++ valuesVec B, ρ x = ρ y → x = y) :
    composePartial (mapVals ρ A) (inverse (mapVals ρ B)) = composePartial A (inverse B) := by
  have hB' := wf_mapVals ρ hB
  have hiB' : Inj (mapVals ρ B) := inj_mapVals hiB
    (fun x hx y hy => hρ x (List.mem_append_right _ hx) y (List.mem_append_right _ hy))
  apply ext (wf_composePartial _ _) (wf_composePartial _ _)
  intro k
  rw [get_composePartial (wf_mapVals ρ hA), get_composePartial hA, get_mapVals]
  cases hk : get A k with
  | none => rfl
  | some y =>
    simp only [Option.map_some, Option.bind_some]
    have hy : y ∈ valuesVec A := List.mem_map.mpr ⟨(k, y), (get_eq_some_iff hA _ _).mp hk, rfl⟩
    -- both sides are determined by the same equivalence
    cases h1 : get (inverse (mapVals ρ B)) (ρ y) with
    | some x =>
      have := (get_inverse hB' hiB' x (ρ y)).mp h1
      rw [get_mapVals] at this
      cases hbx : get B x with
      | none => rw [hbx] at this; simp at this
      | some z =>
        rw [hbx] at this
        have hz : z ∈ valuesVec B := List.mem_map.mpr ⟨(x, z), (get_eq_some_iff hB _ _).mp hbx, rfl⟩
        have hzy : z = y := hρ z (List.mem_append_right _ hz) y (List.mem_append_left _ hy) (by simpa using this)
        rw [hzy] at hbx
        exact ((get_inverse hB hiB x y).mpr hbx).symm
    | none =>
      cases h2 : get (inverse B) y with
      | none => rfl
      | some x =>
        have hbx := (get_inverse hB hiB x y).mp h2
        have : get (mapVals ρ B) x = some (ρ y) := by rw [get_mapVals, hbx]; rfl
        have := (get_inverse hB' hiB' x (ρ y)).mpr this
        rw [h1] at this; simp at this

theorem dedup_map_eq_iff {ρ : Nat → Nat} (l l' : List Nat)
    (hρ : ∀ x ∈ l ++ l', ∀ y ∈ l ++ l', ρ x = ρ y → x = y) :
    Node.dedupSorted (l.map ρ) = Node.dedupSorted (l'.map ρ) ↔ Node.dedupSorted l = Node.dedupSorted l' := by
  rw [Dedup.dedup_eq_iff, Dedup.dedup_eq_iff]
  constructor
  · intro h x
    constructor
    · intro hx
      obtain ⟨y, hy, he⟩ := List.mem_map.mp ((h (ρ x)).mp (List.mem_map.mpr ⟨x, hx, rfl⟩))
      rw [← hρ y (List.mem_append_right _ hy) x (List.mem_append_left _ hx) he]; exact hy
    · intro hx
      obtain ⟨y, hy, he⟩ := List.mem_map.mp ((h (ρ x)).mpr (List.mem_map.mpr ⟨x, hx, rfl⟩))
      rw [← hρ y (List.mem_append_left _ hy) x (List.mem_append_right _ hx) he]; exact hy
  · intro h x
    simp only [List.mem_map]
    constructor
    · rintro ⟨y, hy, rfl⟩; exact ⟨y, (h y).mp hy, rfl⟩
    · rintro ⟨y, hy, rfl⟩; exact ⟨y, (h y).mpr hy, rfl⟩

/-- **equality queries do not depend on the names of the arguments**: renaming the arguments of both invocations with a
map that is injective on them leaves the answer of `eq` unchanged -/
theorem eq_renApp {s : Snap} (hok : ufOK s = true) {ρ : Nat → Nat} {a b a' b' : AppId}
    (ha : find s a = some a') (hb : find s b = some b') (hiB : Inj b'.m)
    (hρ : ∀ x ∈ valuesVec a'.m ++ valuesVec b'.m, ∀ y ∈ valuesVec a'.m ++ valuesVec b'.m, ρ x = ρ y → x = y) :
    eq s (renApp ρ a) (renApp ρ b) = eq s a b := by
  obtain ⟨hw, _⟩ := ufOK_sound hok
  have wfFound : ∀ {c c' : AppId}, find s c = some c' → WF c'.m := by
    intro c c' hc
    unfold find at hc
    cases hr : ufGet s (s.uf.length + 1) c.id with
    | none => rw [hr] at hc; simp at hc
    | some l =>
      rw [hr] at hc
      simp only [Option.map_some, Option.some.injEq] at hc
      rw [← hc]; exact wf_composePartial _ _
  have hwa := wfFound ha
  have hwb := wfFound hb
  unfold eq
  rw [find_renApp hw, find_renApp hw, ha, hb]
  simp only [Option.map_some, renApp]
  by_cases hid : a'.id = b'.id
  · simp only [hid, ne_eq, not_true_eq_false, if_false]
    rw [valuesVec_mapVals, valuesVec_mapVals]
    have hd := dedup_map_eq_iff (ρ := ρ) (valuesVec a'.m) (valuesVec b'.m) hρ
    by_cases hv : Node.dedupSorted (valuesVec a'.m) = Node.dedupSorted (valuesVec b'.m)
    · have hv' := hd.mpr hv
      simp only [hv, hv', not_true_eq_false, if_false]
      rw [compose_inverse_mapVals hwa hwb hiB hρ]
    · have hv' : ¬ Node.dedupSorted ((valuesVec a'.m).map ρ) = Node.dedupSorted ((valuesVec b'.m).map ρ) :=
        fun h => hv (hd.mp h)
      simp [hv, hv']
  · simp [hid]

end SV.Snap
