import SlotVerif.Proofs.ShapeApply
/-
Which names the renaming of a `weak_shape` run is defined on: after a field is processed, on the names it was defined on before and on
the public (free) occurrences of that field — so at the end (start: empty renaming) exactly on the free slots of the node, i.e. the image
of the returned bijection is the free-slot set of the node.
-/
namespace SV.ShapeImage
open SV SV.SlotMap SV.Field SV.ShapeDecode SV.ShapeIdem SV.ShapeApply

/-- `st'` is defined on what `st` is defined on and on `P` -/
def Dom (st st' : WS) (P : List Nat) : Prop :=
  ∀ t, (SlotMap.get st'.1 t).isSome = true ↔ ((SlotMap.get st.1 t).isSome = true ∨ t ∈ P)

theorem dom_onSeeSlot {st : WS} (h : WF st.1) (s : Nat) : Dom st (onSeeSlot s st).2 [s] := by
  intro t
  unfold onSeeSlot
  cases hg : SlotMap.get st.1 s with
  | some s2 =>
    simp only [List.mem_singleton]
    constructor
    · exact Or.inl
    · rintro (h1 | h1)
      · exact h1
      · rw [h1, hg]; rfl
  | none =>
    simp only [addSlot, List.mem_singleton]
    rw [get_insert h]
    by_cases hts : t = s
    · simp [hts]
    · simp [hts]

theorem dom_wsValues : ∀ (l : List (Nat × Nat)) {st : WS}, WF st.1 → Dom st (wsValues l st).2 (SlotMap.valuesVec l)
  | [], st, _ => by intro t; simp [wsValues, SlotMap.valuesVec]
  | (k, x) :: r, st, h => by
    intro t
    simp only [wsValues]
    have h1 := frame_onSeeSlot h x
    rw [dom_wsValues r h1.wf t, dom_onSeeSlot h x t]
    simp only [SlotMap.valuesVec, List.map_cons, List.mem_cons, List.not_mem_nil, or_false]
    constructor
    · rintro ((h2 | h2) | h2)
      · exact Or.inl h2
      · exact Or.inr (Or.inl h2)
      · exact Or.inr (Or.inr h2)
    · rintro (h2 | h2 | h2)
      · exact Or.inl (Or.inl h2)
      · exact Or.inl (Or.inr h2)
      · exact Or.inr h2

theorem dom_weakShape : ∀ (f : Field) {st : WS} {names : List Nat}, ShapeDecode.Inv st names →
    Dom st (Field.weakShape f st).2 (Field.publicOcc f)
  | .slot s, st, names, h => by
    simp only [Field.weakShape, Field.publicOcc]
    exact dom_onSeeSlot h.wf s
  | .app a, st, names, h => by
    simp only [Field.weakShape, Field.publicOcc]
    exact dom_wsValues a.m h.wf
  | .lit _, st, names, h => by
    intro t; simp [Field.weakShape, Field.publicOcc]
  | .bind s f, st, names, h => by
    intro t
    obtain ⟨i1, _, _⟩ := inv_addSlot h s
    obtain ⟨i2, _, _, _⟩ := inv_weakShape f i1
    have ih := dom_weakShape f i1 t
    have h1 : (SlotMap.get (addSlot s st).2.1 t).isSome = true ↔ ((SlotMap.get st.1 t).isSome = true ∨ t = s) := by
      simp only [addSlot]
      rw [get_insert h.wf]
      by_cases hts : t = s <;> simp [hts]
    simp only [Field.weakShape, Field.publicOcc, List.mem_filter]
    cases hsh : SlotMap.get st.1 s with
    | some old =>
      simp only
      rw [get_insert i2.wf]
      by_cases hts : t = s
      · subst hts; simp [hsh]
      · simp only [hts, if_false]
        rw [ih, h1]
        simp [hts]
    | none =>
      simp only
      rw [get_remove i2.wf]
      by_cases hts : t = s
      · subst hts; simp [hsh]
      · simp only [hts, if_false]
        rw [ih, h1]
        simp [hts]

theorem dom_fields : ∀ (fs : List Field) {st : WS} {names : List Nat}, ShapeDecode.Inv st names →
    Dom st (Node.weakShapeFields fs st).2 (fs.flatMap Field.publicOcc)
  | [], st, names, _ => by intro t; simp [Node.weakShapeFields]
  | f :: r, st, names, h => by
    intro t
    simp only [Node.weakShapeFields]
    obtain ⟨i1, _, _, _⟩ := inv_weakShape f h
    rw [dom_fields r i1 t, dom_weakShape f h t]
    simp only [List.flatMap_cons, List.mem_append]
    constructor
    · rintro ((h2 | h2) | h2)
      · exact Or.inl h2
      · exact Or.inr (Or.inl h2)
      · exact Or.inr (Or.inr h2)
    · rintro (h2 | h2 | h2)
      · exact Or.inl (Or.inl h2)
      · exact Or.inl (Or.inr h2)
      · exact Or.inr h2

/-- **the image of the bijection `weak_shape` returns is the set of public occurrences of the node** -/
theorem image_public (n : Node) (x : Nat) : x ∈ SlotMap.valuesVec (Node.weakShape n).2 ↔ x ∈ Node.publicOcc n := by
  have hinv := final_inv n
  have hi := inj_of_inv hinv
  have hw : WF (Node.weakShape n).2 := wf_inverse _
  have hd := dom_fields n.fields inv_init x
  simp only [SlotMap.get, Option.isSome_none, Bool.false_eq_true, false_or] at hd
  unfold Node.publicOcc
  rw [← hd]
  constructor
  · intro hx
    obtain ⟨p, hp, rfl⟩ := List.mem_map.mp hx
    have hg := (get_eq_some_iff hw p.1 p.2).mpr hp
    have hg' : SlotMap.get (Node.weakShapeFields n.fields ([], 0)).2.1 p.2 = some p.1 :=
      (get_inverse hinv.wf hi _ _).mp hg
    rw [hg']; rfl
  · intro hx
    cases hg : SlotMap.get (Node.weakShapeFields n.fields ([], 0)).2.1 x with
    | none => rw [hg] at hx; cases hx
    | some y =>
      have hg' : SlotMap.get (Node.weakShape n).2 y = some x := (get_inverse hinv.wf hi _ _).mpr hg
      have := (get_eq_some_iff hw y x).mp hg'
      exact List.mem_map.mpr ⟨_, this, rfl⟩

end SV.ShapeImage
