import SlotVerif.Proofs.TokenizeRT
/-!
Round trip of `MultiPattern` (C18): `Display` prints the equations `?v == (op ?c1 .. ?ck)` joined by
`", "`; `MultiPattern::parse` splits the text at commas, trims, splits each piece at `==` and hands
both halves to `Pattern::parse`.  The splitting is at the *character* level, so the printed pieces
must not contain a comma or two consecutive `=` (an operator spelled `==` would not survive — the
hypothesis `sepFree` says exactly that).
-/
namespace SV.Parse.RT
open SV SV.Parse

/-- no comma and no two consecutive `=` -/
def sepFree : List Char → Bool
  | [] => true
  | [c] => c != ','
  | c :: d :: r => c != ',' && !(c == '=' && d == '=') && sepFree (d :: r)

theorem sepFree_tail {c : Char} {r : List Char} (h : sepFree (c :: r) = true) : sepFree r = true := by
  cases r with
  | nil => rfl
  | cons d r => simp only [sepFree, Bool.and_eq_true] at h; exact h.2

theorem sepFree_head {c : Char} {r : List Char} (h : sepFree (c :: r) = true) : c ≠ ',' := by
  cases r with
  | nil => simpa [sepFree] using h
  | cons d r => simp only [sepFree, Bool.and_eq_true] at h; simpa using h.1.1

/-! ### `split(",")` -/

/-- no comma -/
def commaFree (l : List Char) : Prop := ∀ c ∈ l, c ≠ ','

theorem commaFree_of_sepFree : ∀ {l : List Char}, sepFree l = true → commaFree l
  | [], _ => by intro c hc; simp at hc
  | c :: r, h => by
    intro x hx
    simp only [List.mem_cons] at hx
    rcases hx with rfl | hx
    · exact sepFree_head h
    · exact commaFree_of_sepFree (sepFree_tail h) x hx

theorem commaFree_append {a b : List Char} (ha : commaFree a) (hb : commaFree b) : commaFree (a ++ b) := by
  intro c hc
  simp only [List.mem_append] at hc
  rcases hc with h | h
  · exact ha c h
  · exact hb c h

theorem commaFree_cons {c : Char} {a : List Char} (hc : c ≠ ',') (ha : commaFree a) : commaFree (c :: a) := by
  intro x hx
  simp only [List.mem_cons] at hx
  rcases hx with rfl | hx
  · exact hc
  · exact ha x hx

theorem splitCommaGo_free : ∀ (a cur : List Char), commaFree a → splitCommaGo a cur = [cur.reverse ++ a]
  | [], cur, _ => by simp [splitCommaGo]
  | c :: r, cur, h => by
    have hc := h c (by simp)
    simp only [splitCommaGo, if_neg hc]
    rw [splitCommaGo_free r (c :: cur) (fun x hx => h x (by simp; right; exact hx))]
    simp

theorem splitCommaGo_sep : ∀ (a cur rest : List Char), commaFree a →
    splitCommaGo (a ++ ',' :: rest) cur = (cur.reverse ++ a) :: splitCommaGo rest []
  | [], cur, rest, _ => by simp [splitCommaGo]
  | c :: r, cur, rest, h => by
    have hc := h c (by simp)
    simp only [List.cons_append, splitCommaGo, if_neg hc]
    rw [splitCommaGo_sep r (c :: cur) rest (fun x hx => h x (by simp; right; exact hx))]
    simp

/-- `", ".intercalate` on character lists -/
def joinCS : List (List Char) → List Char
  | [] => []
  | [a] => a
  | a :: b :: t => a ++ ',' :: ' ' :: joinCS (b :: t)

theorem splitComma_joinCS : ∀ (e : List Char) (es : List (List Char)), (∀ x ∈ e :: es, commaFree x) →
    splitComma (joinCS (e :: es)) = e :: es.map (' ' :: ·)
  | e, [], h => by
    simp only [joinCS, splitComma]
    rw [splitCommaGo_free e [] (h e (by simp))]; simp
  | e, b :: t, h => by
    have ih := splitComma_joinCS b t (fun x hx => h x (by simp at hx ⊢; right; exact hx))
    simp only [joinCS, splitComma] at ih ⊢
    rw [splitCommaGo_sep e [] _ (h e (by simp))]
    simp only [List.reverse_nil, List.nil_append, List.map_cons, List.cons.injEq, true_and]
    have hb : commaFree b := h b (by simp)
    have hb' : commaFree (' ' :: b) := commaFree_cons (by decide) hb
    cases t with
    | nil =>
      simp only [joinCS, List.map_nil]
      rw [splitCommaGo_free _ [] hb']; simp
    | cons c t =>
      simp only [joinCS, List.map_cons] at ih ⊢
      have e1 : ' ' :: (b ++ ',' :: ' ' :: joinCS (c :: t)) = (' ' :: b) ++ ',' :: (' ' :: joinCS (c :: t)) := by simp
      rw [e1, splitCommaGo_sep _ [] _ hb']
      rw [splitCommaGo_sep b [] _ hb] at ih
      simp only [List.reverse_nil, List.nil_append, List.cons.injEq, true_and] at ih ⊢
      exact ih

/-! ### `trim` -/

/-- starts and ends with a character that is not white space -/
def Tight (e : List Char) : Prop :=
  (∃ c r, e = c :: r ∧ isWs c = false) ∧ (∃ l r, e.reverse = l :: r ∧ isWs l = false)

theorem trimWs_tight {e : List Char} (h : Tight e) : trimWs e = e := by
  obtain ⟨⟨c, r, he, hc⟩, ⟨l, r', hr, hl⟩⟩ := h
  unfold trimWs
  have h1 : e.dropWhile isWs = e := by rw [he, List.dropWhile_cons, hc]; simp
  rw [h1, hr, List.dropWhile_cons, hl]
  simp only [Bool.false_eq_true, ↓reduceIte]
  rw [← hr, List.reverse_reverse]

theorem trimWs_blank_tight {e : List Char} (h : Tight e) : trimWs (' ' :: e) = e := by
  have : trimWs (' ' :: e) = trimWs e := by
    unfold trimWs
    rw [List.dropWhile_cons]
    simp [isWs]
  rw [this, trimWs_tight h]

theorem tight_ne {e : List Char} (h : Tight e) : (!e.isEmpty) = true := by
  obtain ⟨⟨c, r, he, _⟩, _⟩ := h
  rw [he]; rfl

theorem pieces_joinCS (es : List (List Char)) (hs : ∀ x ∈ es, commaFree x) (ht : ∀ x ∈ es, Tight x) :
    ((splitComma (joinCS es)).map trimWs).filter (fun x => !x.isEmpty) = es := by
  cases es with
  | nil => simp [joinCS, splitComma, splitCommaGo, trimWs]
  | cons e es =>
    rw [splitComma_joinCS e es hs]
    simp only [List.map_cons, List.map_map]
    rw [trimWs_tight (ht e (by simp))]
    rw [List.filter_cons, tight_ne (ht e (by simp))]
    simp only [↓reduceIte, List.cons.injEq, true_and]
    have hrest : ∀ (l : List (List Char)), (∀ x ∈ l, Tight x) →
        (l.map (trimWs ∘ (' ' :: ·))).filter (fun x => !x.isEmpty) = l := by
      intro l
      induction l with
      | nil => intro _; rfl
      | cons a l ih =>
        intro hl
        simp only [List.map_cons, Function.comp]
        rw [trimWs_blank_tight (hl a (by simp)), List.filter_cons, tight_ne (hl a (by simp))]
        simp only [↓reduceIte, List.cons.injEq, true_and]
        exact ih (fun x hx => hl x (by simp; right; exact hx))
    exact hrest es (fun x hx => ht x (by simp; right; exact hx))

/-! ### `split("==")` -/

theorem splitEqEqGo_free : ∀ (a cur : List Char), sepFree a = true → splitEqEqGo a cur = [cur.reverse ++ a]
  | [], cur, _ => by simp [splitEqEqGo]
  | [c], cur, _ => by simp [splitEqEqGo]
  | c :: d :: r, cur, h => by
    have ht := sepFree_tail h
    simp only [sepFree, Bool.and_eq_true, Bool.not_eq_true', Bool.and_eq_false_imp, beq_iff_eq] at h
    have hne : ¬ (c = '=' ∧ d = '=') := by
      intro ⟨h1, h2⟩
      have := h.1.2 h1
      simp [h2] at this
    simp only [splitEqEqGo, if_neg hne]
    rw [splitEqEqGo_free (d :: r) (c :: cur) ht]
    simp

/-- the first `==` of `a ++ " ==" ++ b` is the printed one when `a` has none and we put a blank before it -/
theorem splitEqEqGo_sep : ∀ (a cur rest : List Char), sepFree a = true →
    splitEqEqGo (a ++ ' ' :: '=' :: '=' :: rest) cur = (cur.reverse ++ a ++ [' ']) :: splitEqEqGo rest []
  | [], cur, rest, _ => by
    simp only [List.nil_append, splitEqEqGo]
    rw [if_neg (by decide)]
    simp
  | [c], cur, rest, _ => by
    simp only [List.cons_append, List.nil_append, splitEqEqGo]
    rw [if_neg (by intro ⟨_, h⟩; exact absurd h (by decide)), if_neg (by decide)]
    simp
  | c :: d :: r, cur, rest, h => by
    have ht := sepFree_tail h
    simp only [sepFree, Bool.and_eq_true, Bool.not_eq_true', Bool.and_eq_false_imp, beq_iff_eq] at h
    have hne : ¬ (c = '=' ∧ d = '=') := by
      intro ⟨h1, h2⟩
      have := h.1.2 h1
      simp [h2] at this
    simp only [List.cons_append, splitEqEqGo, if_neg hne]
    have := splitEqEqGo_sep (d :: r) (c :: cur) rest ht
    simp only [List.cons_append] at this
    rw [this]
    simp

theorem sepFree_blank {b : List Char} (h : sepFree b = true) : sepFree (' ' :: b) = true := by
  cases b with
  | nil => rfl
  | cons c r => simp only [sepFree, Bool.and_eq_true]; exact ⟨⟨by decide, by simp⟩, h⟩

/-- the two halves of a printed equation -/
theorem splitEqEq_eq (a b : List Char) (ha : sepFree a = true) (hb : sepFree b = true) :
    splitEqEq (a ++ ' ' :: '=' :: '=' :: ' ' :: b) = [a ++ [' '], ' ' :: b] := by
  unfold splitEqEq
  rw [splitEqEqGo_sep a [] _ ha, splitEqEqGo_free _ [] (sepFree_blank hb)]
  simp

/-! ### the printed text of a multi-pattern, as characters -/

def eqC (sig : Sig) (t : Slot.Tab) (e : MEq) : List Char :=
  ('?' :: e.1.toList) ++ ' ' :: '=' :: '=' :: ' ' :: printC sig t (.enode e.2.1 (e.2.2.map .pvar))

theorem printMEq_toList (sig : Sig) (t : Slot.Tab) (e : MEq) : (printMEq sig t e).toList = eqC sig t e := by
  unfold printMEq eqC
  simp only [String.toList_append, printPat_toList]
  have h1 : "?".toList = ['?'] := rfl
  have h2 : " == ".toList = [' ', '=', '=', ' '] := rfl
  rw [h1, h2]; simp

theorem intercalate_eq_joinCS : ∀ (l : List (List Char)), [',', ' '].intercalate l = joinCS l
  | [] => rfl
  | [a] => by simp [List.intercalate, joinCS]
  | a :: b :: t => by
    have ih := intercalate_eq_joinCS (b :: t)
    simp only [List.intercalate, List.intersperse_cons_cons, List.flatten_cons, joinCS] at ih ⊢
    rw [ih]; simp

theorem printMulti_toList (sig : Sig) (t : Slot.Tab) (mp : List MEq) :
    (printMulti sig t mp).toList = joinCS (mp.map (eqC sig t)) := by
  unfold printMulti
  have h : ", ".toList = [',', ' '] := rfl
  rw [String.toList_intercalate, h, List.map_map, intercalate_eq_joinCS]
  congr 1
  apply List.map_congr_left
  intro e _
  exact printMEq_toList sig t e

/-- the last character of a printed node is `)` or the end of an identifier -/
theorem printC_enode_last (sig : Sig) (t : Slot.Tab) (n : Node) (cs : List Pat) (h : CharOK sig t (.enode n cs)) :
    ∃ l r, (printC sig t (.enode n cs)).reverse = l :: r ∧ isWs l = false := by
  obtain ⟨hstr, _, hone, _, _⟩ := h
  simp only [printC]
  split
  · exact ⟨')', (joinSp (fillC t (Node.toSyntax sig n) (printCs sig t cs))).reverse ++ ['('], by simp, by decide⟩
  · rename_i hl
    have hl' : (Node.toSyntax sig n).length = 1 := by simpa using hl
    obtain ⟨s, hs⟩ := hone hl'
    have hid := hstr s (by rw [hs]; simp)
    rw [hs]
    simp only [fillC, joinSp]
    cases hr : s.toList.reverse with
    | nil => exact absurd (by simpa using hr) hid.ne
    | cons l r =>
      refine ⟨l, r, rfl, isWs_of_not_ident_false (hid.all l ?_)⟩
      have : l ∈ s.toList.reverse := by rw [hr]; simp
      simpa using this

theorem allPvars_map : ∀ (vs : List String), allPvars (vs.map .pvar) = some vs
  | [] => rfl
  | v :: vs => by simp [allPvars, allPvars_map vs]

end SV.Parse.RT
