/-! Small list lemmas missing from core Lean (kept here so proofs need no Mathlib). -/
namespace SV

theorem nodup_of_map {α β} (f : α → β) {l : List α} (h : (l.map f).Nodup) : l.Nodup := by
  rw [List.nodup_iff_pairwise_ne] at *
  rw [List.pairwise_map] at h
  exact h.imp (fun hab he => hab (by rw [he]))

theorem nodup_map_on {α β} {f : α → β} {l : List α}
    (hinj : ∀ x ∈ l, ∀ y ∈ l, f x = f y → x = y) (h : l.Nodup) : (l.map f).Nodup := by
  induction l with
  | nil => simp
  | cons a t ih =>
    rw [List.nodup_cons] at h
    simp only [List.map_cons, List.nodup_cons]
    refine ⟨?_, ih (fun x hx y hy => hinj x (by simp [hx]) y (by simp [hy])) h.2⟩
    intro hm
    obtain ⟨p, hp, he⟩ := List.mem_map.mp hm
    have := hinj p (by simp [hp]) a (by simp) he
    subst this; exact h.1 hp

theorem inj_on_of_nodup_map {α β} {f : α → β} {l : List α} (h : (l.map f).Nodup)
    {x y : α} (hx : x ∈ l) (hy : y ∈ l) (he : f x = f y) : x = y := by
  induction l with
  | nil => simp at hx
  | cons a t ih =>
    simp only [List.map_cons, List.nodup_cons] at h
    simp at hx hy
    rcases hx with hx | hx <;> rcases hy with hy | hy
    · rw [hx, hy]
    · subst hx; exfalso; apply h.1; exact List.mem_map.mpr ⟨y, hy, he.symm⟩
    · subst hy; exfalso; apply h.1; exact List.mem_map.mpr ⟨x, hx, he⟩
    · exact ih h.2 hx hy

end SV
