import SlotVerif.Proofs.EvalNamed
import SlotVerif.Model.Rules
import Std.Data.String.ToNat
/-!
The instantiation lemma: the pattern semantics `Rules.evalP` (pattern variables as functions of the
environment) is the term semantics of the instances.  Hence every instance of a valid
rule is an equation that *holds* in the model algebra (`instance_holds`), which
is what `cong_eval` needs of the asserted equations.
-/
namespace SV.Rules
open SV SV.Term SV.Eval

/-- the named environment as an environment over slot codes (`dec` decodes pattern slot names) -/
def lift (dec : Nat → Option String) (base : Nat → F) (envS : Env) : Nat → F :=
  fun c => match dec c with
    | some x => envS x
    | none => base c

/-- a pattern variable bound to the named term `σ a` denotes its value -/
def ρOf (dec : Nat → Option String) (base : Nat → F) (σ : String → Term) : String → Env → F :=
  fun a envS => evalN (σ a) (lift dec base envS)

structure Coding (code : String → Nat) (dec : Nat → Option String) : Prop where
  cd : ∀ x, dec (code x) = some x
  dc : ∀ c y, dec c = some y → code y = c
  nb : ∀ x, isBvar (code x) = false

theorem envWith_nil (vals : List F) (env : Nat → F) : envWith [] vals env = env := by
  funext x; simp [envWith]

theorem envWith_one {code : String → Nat} {dec : Nat → Option String} (hc : Coding code dec) (base : Nat → F)
    (envS : Env) (x : String) (v : F) :
    envWith [code x] [v] (lift dec base envS) = lift dec base (envS.set x v) := by
  funext c
  unfold envWith lift Env.set
  simp only [List.idxOf?_cons, List.idxOf?_nil, Option.map_none]
  by_cases h : code x = c
  · subst h; simp [hc.cd]
  · have h' : (code x == c) = false := by simpa using h
    simp only [h', Bool.false_eq_true, if_false]
    cases hd : dec c with
    | none => rfl
    | some y =>
      have : y ≠ x := fun e => h (e ▸ hc.dc c y hd)
      simp [this]

theorem litVal_num (n : Nat) : litVal (toString n) = Fin.ofNat 7 n := by
  unfold litVal
  have : (toString n).toNat? = some n := Nat.toNat?_repr n
  rw [this]

mutual
/-- the named evaluator reads the environment only at the slots that occur -/
theorem evalN_ext : ∀ (t : Term) (env env' : Nat → F), (∀ x ∈ occN t, env x = env' x) → evalN t env = evalN t env'
  | .mk n cs, env, env', h => by
    simp only [evalN]
    split
    · apply evalNode_congr _ _ rfl rfl
      · unfold nodeValsN
        apply List.map_congr_left
        intro p hp
        have := h p.2 (by simp only [occN, List.mem_append, List.mem_map]; exact Or.inl ⟨p, hp, rfl⟩)
        rw [this]
      · intro i bs _
        apply evalNL_ext cs i
        intro x hx
        unfold envWith
        cases ((binderNames n).getD i []).idxOf? x with
        | some k => rfl
        | none => exact h x (by simp only [occN, List.mem_append]; exact Or.inr hx)
    · rfl
theorem evalNL_ext : ∀ (ts : List Term) (i : Nat) (env env' : Nat → F), (∀ x ∈ occNL ts, env x = env' x) →
    ((evalNL ts).getD i (fun _ => 0)) env = ((evalNL ts).getD i (fun _ => 0)) env'
  | [], i, env, env', _ => by simp [evalNL]
  | t :: ts, 0, env, env', h => by
    simp only [evalNL, List.getD_cons_zero]
    exact evalN_ext t env env' (fun x hx => h x (by simp only [occNL, List.mem_append]; exact Or.inl hx))
  | t :: ts, i + 1, env, env', h => by
    simp only [evalNL, List.getD_cons_succ]
    exact evalNL_ext ts i env env' (fun x hx => h x (by simp only [occNL, List.mem_append]; exact Or.inr hx))
end

theorem isVarNode_spec {n : Node} {c : Nat} (h : isVarNode n c = true) : n.v = 2 ∧ n.fields = [.slot c] := by
  unfold isVarNode at h
  split at h
  next s hv hf =>
    have hc : s = c := by simpa using h
    exact ⟨hv, by rw [hf, hc]⟩
  next => simp at h

theorem mem_getD_flatten (l : List (List Nat)) (i : Nat) : ∀ y ∈ l.getD i [], y ∈ l.flatten := by
  intro y hy
  rw [List.getD_eq_getElem?_getD] at hy
  cases h : l[i]? with
  | none => rw [h] at hy; simp at hy
  | some names =>
    rw [h] at hy
    exact List.mem_flatten.mpr ⟨names, List.mem_of_getElem? h, hy⟩

mutual
/-- **the naive substitution is the semantic one when it is hygienic** -/
theorem evalN_subst (c : Nat) (e : Term) : ∀ (t : Term) (env : Nat → F), substOK c (occN e) t = true →
    evalN (substN c e t) env = evalN t (upd env c (evalN e env))
  | .mk n cs, env, hok => by
    by_cases hv : isVarNode n c = true
    · obtain ⟨h1, h2⟩ := isVarNode_spec hv
      simp only [substN, hv, if_true]
      obtain ⟨v, fields⟩ := n
      simp only at h1 h2; subst h1 h2
      cases cs <;>
        simp [evalN, childDepths, fieldAppDepths, expDepths, evalNode, nodeValsN, fieldSlotsN, upd]
    · have hv' : isVarNode n c = false := by simpa using hv
      simp only [substOK, hv', Bool.false_or, Bool.and_eq_true, List.all_eq_true] at hok
      obtain ⟨⟨hs, hb⟩, hkids⟩ := hok
      simp only [substN, hv', Bool.false_eq_true, if_false, evalN]
      split
      · apply evalNode_congr _ _ rfl rfl
        · unfold nodeValsN
          apply List.map_congr_left
          intro p hp
          have : p.2 ≠ c := by simpa using hs p hp
          simp [upd, this]
        · intro i bs _
          have hnames : ∀ y ∈ (binderNames n).getD i [], y ≠ c ∧ y ∉ occN e := by
            intro y hy
            have := hb y (mem_getD_flatten _ i y hy)
            simpa using this
          rw [evalNL_subst c e cs i _ hkids]
          have he : evalN e (envWith ((binderNames n).getD i []) bs env) = evalN e env := by
            apply evalN_ext
            intro x hx
            unfold envWith
            have : x ∉ (binderNames n).getD i [] := fun hm => (hnames x hm).2 hx
            have : ((binderNames n).getD i []).idxOf? x = none := by simpa using this
            rw [this]
          rw [he]
          have henv : upd (envWith ((binderNames n).getD i []) bs env) c (evalN e env) =
              envWith ((binderNames n).getD i []) bs (upd env c (evalN e env)) := by
            funext x
            unfold upd envWith
            by_cases hxc : x = c
            · subst hxc
              have : x ∉ (binderNames n).getD i [] := fun hm => (hnames x hm).1 rfl
              have : ((binderNames n).getD i []).idxOf? x = none := by simpa using this
              simp only [if_true]; rw [this]
            · simp [hxc]
          rw [henv]
      · rfl
theorem evalNL_subst (c : Nat) (e : Term) : ∀ (ts : List Term) (i : Nat) (env : Nat → F), substOKL c (occN e) ts = true →
    ((evalNL (substNL c e ts)).getD i (fun _ => 0)) env = ((evalNL ts).getD i (fun _ => 0)) (upd env c (evalN e env))
  | [], i, env, _ => by simp [substNL, evalNL]
  | t :: ts, 0, env, h => by
    simp only [substOKL, Bool.and_eq_true] at h
    simp only [substNL, evalNL, List.getD_cons_zero]
    exact evalN_subst c e t env h.1
  | t :: ts, i + 1, env, h => by
    simp only [substOKL, Bool.and_eq_true] at h
    simp only [substNL, evalNL, List.getD_cons_succ]
    exact evalNL_subst c e ts i env h.2
end

mutual
theorem occN_subst (c : Nat) (e : Term) : ∀ (t : Term), ∀ x ∈ occN (substN c e t), x ∈ occN t ∨ x ∈ occN e
  | .mk n cs, x, hx => by
    simp only [substN] at hx
    split at hx
    · exact Or.inr hx
    · simp only [occN, List.mem_append] at hx ⊢
      rcases hx with hx | hx
      · exact Or.inl (Or.inl hx)
      · rcases occNL_subst c e cs x hx with h | h
        · exact Or.inl (Or.inr h)
        · exact Or.inr h
theorem occNL_subst (c : Nat) (e : Term) : ∀ (ts : List Term), ∀ x ∈ occNL (substNL c e ts), x ∈ occNL ts ∨ x ∈ occN e
  | [], x, hx => by simp [substNL, occNL] at hx
  | t :: ts, x, hx => by
    simp only [substNL, occNL, List.mem_append] at hx ⊢
    rcases hx with hx | hx
    · rcases occN_subst c e t x hx with h | h
      · exact Or.inl (Or.inl h)
      · exact Or.inr h
    · rcases occNL_subst c e ts x hx with h | h
      · exact Or.inl (Or.inr h)
      · exact Or.inr h
end

theorem lift_set {code : String → Nat} {dec : Nat → Option String} (hc : Coding code dec) (base : Nat → F)
    (envS : Env) (x : String) (v : F) :
    upd (lift dec base envS) (code x) v = lift dec base (envS.set x v) := by
  funext c
  unfold upd lift Env.set
  by_cases h : c = code x
  · subst h; simp [hc.cd]
  · simp only [h, if_false]
    cases hd : dec c with
    | none => rfl
    | some y =>
      have : y ≠ x := fun e => h (e ▸ (hc.dc c y hd).symm)
      simp [this]

/-- **instantiation lemma**: the value of an instance is the value of the pattern -/
theorem evalN_inst {code : String → Nat} {dec : Nat → Option String} (hc : Coding code dec) (base : Nat → F)
    (σ : String → Term) : ∀ (p : P) (t : Term), instN code σ p = some t → ∀ (envS : Env),
      evalN t (lift dec base envS) = evalP (ρOf dec base σ) p envS
  | .pv a, t, h, envS => by
    simp only [instN, Option.some.injEq] at h; subst h; rfl
  | .var x, t, h, envS => by
    simp only [instN, Option.some.injEq] at h; subst h
    simp [evalN, evalP, childDepths, fieldAppDepths, expDepths, evalNode, nodeValsN, fieldSlotsN, lift, hc.cd]
  | .num n, t, h, envS => by
    simp only [instN, Option.some.injEq] at h; subst h
    have := litVal_num n
    simp only [toString] at this
    simp [evalN, evalP, childDepths, fieldAppDepths, expDepths, evalNode, nodeLit, this]
  | .add a b, t, h, envS => by
    simp only [instN] at h
    cases ha : instN code σ a with
    | none => rw [ha] at h; simp at h
    | some ta =>
      cases hb : instN code σ b with
      | none => rw [ha, hb] at h; simp at h
      | some tb =>
        rw [ha, hb] at h; simp only [Option.some.injEq] at h; subst h
        have iha := evalN_inst hc base σ a ta ha envS
        have ihb := evalN_inst hc base σ b tb hb envS
        simp [evalN, evalNL, evalP, childDepths, fieldAppDepths, expDepths, evalNode, binderNames, fieldBinders,
          envWith_nil, iha, ihb]
  | .mul a b, t, h, envS => by
    simp only [instN] at h
    cases ha : instN code σ a with
    | none => rw [ha] at h; simp at h
    | some ta =>
      cases hb : instN code σ b with
      | none => rw [ha, hb] at h; simp at h
      | some tb =>
        rw [ha, hb] at h; simp only [Option.some.injEq] at h; subst h
        have iha := evalN_inst hc base σ a ta ha envS
        have ihb := evalN_inst hc base σ b tb hb envS
        simp [evalN, evalNL, evalP, childDepths, fieldAppDepths, expDepths, evalNode, binderNames, fieldBinders,
          envWith_nil, iha, ihb]
  | .k a b, t, h, envS => by
    simp only [instN] at h
    cases ha : instN code σ a with
    | none => rw [ha] at h; simp at h
    | some ta =>
      cases hb : instN code σ b with
      | none => rw [ha, hb] at h; simp at h
      | some tb =>
        rw [ha, hb] at h; simp only [Option.some.injEq] at h; subst h
        have iha := evalN_inst hc base σ a ta ha envS
        have ihb := evalN_inst hc base σ b tb hb envS
        simp [evalN, evalNL, evalP, childDepths, fieldAppDepths, expDepths, evalNode, binderNames, fieldBinders,
          envWith_nil, iha, ihb]
  | .h a, t, h, envS => by
    simp only [instN] at h
    cases ha : instN code σ a with
    | none => rw [ha] at h; simp at h
    | some ta =>
      rw [ha] at h; simp only [Option.some.injEq] at h; subst h
      have iha := evalN_inst hc base σ a ta ha envS
      simp [evalN, evalNL, evalP, childDepths, fieldAppDepths, expDepths, evalNode, binderNames, fieldBinders,
        envWith_nil, iha]
  | .sum x b, t, h, envS => by
    simp only [instN] at h
    cases hb : instN code σ b with
    | none => rw [hb] at h; simp at h
    | some tb =>
      rw [hb] at h; simp only [Option.some.injEq] at h; subst h
      have ihb := fun v => evalN_inst hc base σ b tb hb (envS.set x v)
      simp [evalN, evalNL, evalP, childDepths, fieldAppDepths, expDepths, evalNode, binderNames, fieldBinders,
        envWith_one hc, ihb]
  | .let_ x b e, t, h, envS => by
    simp only [instN] at h
    cases hb : instN code σ b with
    | none => rw [hb] at h; simp at h
    | some tb =>
      cases he : instN code σ e with
      | none => rw [hb, he] at h; simp at h
      | some te =>
        rw [hb, he] at h; simp only [Option.some.injEq] at h; subst h
        have ihb := fun v => evalN_inst hc base σ b tb hb (envS.set x v)
        have ihe := evalN_inst hc base σ e te he envS
        simp [evalN, evalNL, evalP, childDepths, fieldAppDepths, expDepths, evalNode, binderNames, fieldBinders,
          envWith_one hc, envWith_nil, ihb, ihe]
  | .subst b x e, t, h, envS => by
    simp only [instN] at h
    cases hb : instN code σ b with
    | none => rw [hb] at h; simp at h
    | some tb =>
      cases he : instN code σ e with
      | none => rw [hb, he] at h; simp at h
      | some te =>
        rw [hb, he] at h
        simp only at h
        split at h
        · rename_i hok
          simp only [Option.some.injEq] at h; subst h
          have ihe := evalN_inst hc base σ e te he envS
          rw [evalN_subst _ _ _ _ hok, ihe, lift_set hc]
          simp only [evalP]
          exact evalN_inst hc base σ b tb hb _
        · simp at h

/-- the syntactic side condition implies the semantic one -/
theorem freeIn_of_not_occ {code : String → Nat} {dec : Nat → Option String} (hc : Coding code dec) (base : Nat → F)
    (σ : String → Term) (x a : String) (h : code x ∉ occN (σ a)) : FreeIn (ρOf dec base σ) x a := by
  intro env v
  unfold ρOf
  apply evalN_ext
  intro c hcm
  unfold lift Env.set
  cases hd : dec c with
  | none => rfl
  | some y =>
    have : y ≠ x := fun e => h (by rw [← e, hc.dc c y hd]; exact hcm)
    simp [this]

/-- the slots of an instance: pattern slots and the slots of the substituted terms -/
theorem occN_inst {code : String → Nat} (σ : String → Term) (Q : Nat → Prop) (hcode : ∀ x, Q (code x))
    (hσ : ∀ a, ∀ x ∈ occN (σ a), Q x) : ∀ (p : P) (t : Term), instN code σ p = some t → ∀ x ∈ occN t, Q x
  | .pv a, t, h => by simp only [instN, Option.some.injEq] at h; subst h; exact hσ a
  | .var y, t, h => by
    simp only [instN, Option.some.injEq] at h; subst h
    intro x hx; simp [occN, occNL, fieldSlotsN] at hx; subst hx; exact hcode y
  | .num n, t, h => by
    simp only [instN, Option.some.injEq] at h; subst h
    intro x hx; simp [occN, occNL, fieldSlotsN] at hx
  | .add a b, t, h => by
    simp only [instN] at h
    cases ha : instN code σ a with
    | none => rw [ha] at h; simp at h
    | some ta =>
      cases hb : instN code σ b with
      | none => rw [ha, hb] at h; simp at h
      | some tb =>
        rw [ha, hb] at h; simp only [Option.some.injEq] at h; subst h
        intro x hx
        simp [occN, occNL, fieldSlotsN] at hx
        rcases hx with hx | hx
        · exact occN_inst σ Q hcode hσ a ta ha x hx
        · exact occN_inst σ Q hcode hσ b tb hb x hx
  | .mul a b, t, h => by
    simp only [instN] at h
    cases ha : instN code σ a with
    | none => rw [ha] at h; simp at h
    | some ta =>
      cases hb : instN code σ b with
      | none => rw [ha, hb] at h; simp at h
      | some tb =>
        rw [ha, hb] at h; simp only [Option.some.injEq] at h; subst h
        intro x hx
        simp [occN, occNL, fieldSlotsN] at hx
        rcases hx with hx | hx
        · exact occN_inst σ Q hcode hσ a ta ha x hx
        · exact occN_inst σ Q hcode hσ b tb hb x hx
  | .k a b, t, h => by
    simp only [instN] at h
    cases ha : instN code σ a with
    | none => rw [ha] at h; simp at h
    | some ta =>
      cases hb : instN code σ b with
      | none => rw [ha, hb] at h; simp at h
      | some tb =>
        rw [ha, hb] at h; simp only [Option.some.injEq] at h; subst h
        intro x hx
        simp [occN, occNL, fieldSlotsN] at hx
        rcases hx with hx | hx
        · exact occN_inst σ Q hcode hσ a ta ha x hx
        · exact occN_inst σ Q hcode hσ b tb hb x hx
  | .h a, t, h => by
    simp only [instN] at h
    cases ha : instN code σ a with
    | none => rw [ha] at h; simp at h
    | some ta =>
      rw [ha] at h; simp only [Option.some.injEq] at h; subst h
      intro x hx
      simp [occN, occNL, fieldSlotsN] at hx
      exact occN_inst σ Q hcode hσ a ta ha x hx
  | .sum y b, t, h => by
    simp only [instN] at h
    cases hb : instN code σ b with
    | none => rw [hb] at h; simp at h
    | some tb =>
      rw [hb] at h; simp only [Option.some.injEq] at h; subst h
      intro x hx
      simp [occN, occNL, fieldSlotsN] at hx
      exact occN_inst σ Q hcode hσ b tb hb x hx
  | .let_ y b e, t, h => by
    simp only [instN] at h
    cases hb : instN code σ b with
    | none => rw [hb] at h; simp at h
    | some tb =>
      cases he : instN code σ e with
      | none => rw [hb, he] at h; simp at h
      | some te =>
        rw [hb, he] at h; simp only [Option.some.injEq] at h; subst h
        intro x hx
        simp [occN, occNL, fieldSlotsN] at hx
        rcases hx with hx | hx
        · exact occN_inst σ Q hcode hσ b tb hb x hx
        · exact occN_inst σ Q hcode hσ e te he x hx
  | .subst b y e, t, h => by
    simp only [instN] at h
    cases hb : instN code σ b with
    | none => rw [hb] at h; simp at h
    | some tb =>
      cases he : instN code σ e with
      | none => rw [hb, he] at h; simp at h
      | some te =>
        rw [hb, he] at h
        simp only at h
        split at h
        · simp only [Option.some.injEq] at h; subst h
          intro x hx
          rcases occN_subst _ _ _ x hx with hx | hx
          · exact occN_inst σ Q hcode hσ b tb hb x hx
          · exact occN_inst σ Q hcode hσ e te he x hx
        · simp at h

/-- **every instance of a valid rule holds in the model algebra**, as an equation between locally nameless terms,
under every binder stack and environment — provided the slots the side conditions mention do not occur in the
terms bound to the respective pattern variables -/
theorem instance_holds {code : String → Nat} {dec : Nat → Option String} (hc : Coding code dec) (r : Rule) (hv : r.Valid)
    (σ : String → Term) (hσ : ∀ a, ∀ x ∈ occN (σ a), isBvar x = false)
    (hcond : ∀ c ∈ r.conds ++ r.implicit, code c.1 ∉ occN (σ c.2))
    {l rt : Term} (hl : instN code σ r.lhs = some l) (hr : instN code σ r.rhs = some rt) :
    Holds [(Term.close l, Term.close rt)] := by
  intro e he benv env
  simp only [List.mem_singleton] at he
  subst he
  simp only
  have hokl := occN_inst σ (fun x => isBvar x = false) hc.nb hσ r.lhs l hl
  have hokr := occN_inst σ (fun x => isBvar x = false) hc.nb hσ r.rhs rt hr
  have el := eval_close l hokl benv env
  have er := eval_close rt hokr benv env
  unfold eval at el er
  rw [el, er]
  -- the environment as a named one
  let envS : Env := fun x => env (code x)
  have hlift : lift dec env envS = env := by
    funext c
    unfold lift
    cases hd : dec c with
    | none => rfl
    | some y => simp only [envS]; rw [hc.dc c y hd]
  have h1 := evalN_inst hc env σ r.lhs l hl envS
  have h2 := evalN_inst hc env σ r.rhs rt hr envS
  rw [hlift] at h1 h2
  rw [h1, h2]
  exact hv (ρOf dec env σ) (fun c hcm => freeIn_of_not_occ hc env σ c.1 c.2 (hcond c hcm)) envS

end SV.Rules
